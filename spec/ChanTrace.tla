----------------------------- MODULE ChanTrace -----------------------------
(* Validation of stress runs of the real override channel.  Each run has one *)
(* event queue per goroutine: a writer logs the value after WriteLast has    *)
(* returned, the receiver logs every value Receive returned and, once the    *)
(* writers are done, drains the channel.  No clock orders events of          *)
(* different goroutines: TLC looks for an interleaving of the queues that is *)
(* a behaviour of the channel's contract (WriteLast = atomically replace the *)
(* buffered value, Receive = take it) and that ends with the receiver        *)
(* holding the value written last.  A run for which no interleaving exists   *)
(* is rejected.                                                              *)
EXTENDS Integers, Sequences, Json, TLC

TraceLog == ndJsonDeserialize("trace.ndjson")     \* lines [t: run, src: "w1"|"w2"|"r", v: value]
NRuns == IF Len(TraceLog) = 0 THEN 0 ELSE TraceLog[Len(TraceLog)].t
Srcs == {"w1", "w2", "r"}
\* (a constant: TLC evaluates it once)
Queues == [t \in 1..NRuns |-> [s \in Srcs |-> SelectSeq(TraceLog, LAMBDA e : e.t = t /\ e.src = s)]]
Queue(t, s) == Queues[t][s]

VARIABLES run, pos, buf, lastW, lastR
tvars == <<run, pos, buf, lastW, lastR>>
Start == [s \in Srcs |-> 1]
TInit == run = 1 /\ pos = Start /\ buf = <<>> /\ lastW = 0 /\ lastR = 0

Done(t) == \A s \in Srcs : pos[s] > Len(Queue(t, s))
ConsumeW(s) == /\ pos[s] <= Len(Queue(run, s))
               /\ buf' = <<Queue(run, s)[pos[s]].v>> /\ lastW' = Queue(run, s)[pos[s]].v
               /\ pos' = [pos EXCEPT ![s] = @ + 1] /\ UNCHANGED <<run, lastR>>
ConsumeR == /\ pos["r"] <= Len(Queue(run, "r"))
            /\ buf = <<Queue(run, "r")[pos["r"]].v>>
            /\ buf' = <<>> /\ lastR' = Queue(run, "r")[pos["r"]].v
            /\ pos' = [pos EXCEPT !["r"] = @ + 1] /\ UNCHANGED <<run, lastW>>
\* a run is accepted when every queue is consumed, the channel is empty and the receiver holds the latest value
NextRun == /\ run <= NRuns /\ Done(run) /\ buf = <<>> /\ lastR = lastW
           /\ run' = run + 1 /\ pos' = Start /\ buf' = <<>> /\ lastW' = 0 /\ lastR' = 0
TNext == run <= NRuns /\ (ConsumeW("w1") \/ ConsumeW("w2") \/ ConsumeR \/ NextRun)
TraceSpec == TInit /\ [][TNext]_tvars

HighWater == IF run > TLCGet(1) THEN TLCSet(1, run) ELSE TRUE
ASSUME TLCSet(1, 0)
TraceAccepted == IF TLCGet(1) = NRuns + 1 THEN TRUE ELSE Print(<<"REJECTED", TLCGet(1), NRuns>>, FALSE)
=============================================================================
