------------------------------ MODULE Sessions ------------------------------
(***************************************************************************)
(* Session lifetime on the leader of one shard (server/session_manager.go, *)
(* server/session.go) on top of the replicated state machine OxiaDb.       *)
(*                                                                         *)
(* Written in the shape of the implementation:                             *)
(*  - a session is a record "__oxia/session/<id>" in the DB (id = offset   *)
(*    of the entry that registers it) PLUS a timer owned by the session    *)
(*    manager of the current leader (sm); only the record is replicated;   *)
(*  - KeepAlive re-arms the timer; time is an abstract tick counter; a     *)
(*    timer fires at the first tick at or after its deadline;              *)
(*  - a new leader (LeaderChange) is a node that holds the whole log but   *)
(*    whose DB may lag it by the last `lag` entries (it acknowledged them  *)
(*    as a follower and was never told a commit offset covering them).     *)
(*    BecomeLeader replays that tail into the DB (applyAllEntriesIntoDB)   *)
(*    and THEN re-arms every session it finds in the DB with a full        *)
(*    timeout (sessionManager.Initialize); the order is explicit here      *)
(*    (constant InitFirst = the other order, refuted by TLC);              *)
(*  - Fill(m): a client populates the shard with m plain records "a-NNN"   *)
(*    (25 per request) so that later range deletes cover more keys than    *)
(*    the threshold at which db.go:applyDeleteRange switches from          *)
(*    individual deletes to one range tombstone (DeleteRangeThreshold =    *)
(*    100), with session-owned keys before ("a") and after ("a/b", "b")    *)
(*    the block;                                                           *)
(*  - a put under a session may use every other feature of a put: with     *)
(*    sequence-key deltas the record is stored under a GENERATED key       *)
(*    (OxiaDb!SeqNewKey: request key + "-<number>" per delta); the request *)
(*    key is only the prefix and may itself hold a record, plain or        *)
(*    ephemeral.  Ownership, the shadow key and the index entries belong   *)
(*    to the generated key (EffKey), and that is the record the end of     *)
(*    the session removes; the record under the prefix is not touched      *)
(*    (OwnerFollowsWriter, OthersUntouched, CloseExact);                   *)
(*  - cleanup (expiry or CloseSession) is TWO steps, as in session.delete: *)
(*    the session's shadow keys are listed (ListBlock), then a second      *)
(*    write deletes the listed records, the session record and the shadow  *)
(*    keys; other clients' requests are applied in between.               *)
(*                                                                         *)
(* Every operator Do<Call>(sys, args) is total and returns the next system *)
(* state together with the outcome; SessionsMC (bounded client, exports)   *)
(* and SessTrace (validation of recorded real executions) share them.      *)
(*                                                                         *)
(* sys = [st   : OxiaDb state,                                             *)
(*        n    : next offset,                                              *)
(*        now  : tick clock,                                               *)
(*        sm   : armed sessions of the current leader, id -> [dl]          *)
(*        pend : cleanups between listing and delete write,                *)
(*               id -> [kind : "expire" | "close", keys : listed keys]     *)
(*        tmo  : timeout in ticks stored in the session record, id -> t    *)
(*        beat : history: tick of creation / last heartbeat that counted / *)
(*               last leader change, id -> tick  (only used by Lifetime)   *)
(*        back : the last (at most MaxLag) entries of the log, oldest      *)
(*               first: [st : DB state BEFORE the entry, req, off, ts] -   *)
(*               what a node whose DB lags its log has not applied yet]    *)
(***************************************************************************)
EXTENDS OxiaDb

CONSTANTS SkipEmptyKey,  \* TRUE: cleanup skips a listed record whose key is empty (session.go before the fix)
          InitFirst,     \* TRUE: a new leader initialises its session manager BEFORE it has replayed the tail of
                         \*       its log into its DB (mutant; the code does it after: applyAllEntriesIntoDB)
          MaxLag         \* by how many entries the DB of a newly elected node may lag its log

Ts(i) == 1000 + 10 * i

EmptyFn == [x \in {} |-> 0]
FnDrop(f, D) == [x \in DOMAIN f \ D |-> f[x]] @@ EmptyFn

NoReq == [puts |-> <<>>, dels |-> <<>>, rngs |-> <<>>]
NoRes == [puts |-> <<>>, dels |-> <<>>, rngs |-> <<>>]

Sys0 == [st |-> InitState, n |-> 0, now |-> 0, sm |-> EmptyFn, pend |-> EmptyFn, tmo |-> EmptyFn, beat |-> EmptyFn,
         back |-> <<>>]

SessPut(id) == [key |-> SessKey(id), val |-> -1, exp |-> NoExp, sess |-> NoSess, cid |-> "", pkey |-> FALSE,
                deltas |-> <<>>, idx |-> <<>>]

\* the write path of the leader: next offset, timestamp of the entry; the entry is appended to the log
\* (of which the last MaxLag entries are kept, each with the DB state it was applied to)
Push(b, x) == LET q == b \o <<x>> IN IF Len(q) > MaxLag THEN SubSeq(q, Len(q) - MaxLag + 1, Len(q)) ELSE q
WriteAt(sys, req) ==
    LET ap == Apply(sys.st, req, sys.n, Ts(sys.n))
    IN [sys |-> [sys EXCEPT !.st = ap.s, !.n = @ + 1,
                            !.back = Push(@, [st |-> sys.st, req |-> req, off |-> sys.n, ts |-> Ts(sys.n)])],
        off |-> sys.n, ts |-> Ts(sys.n), req |-> req, res |-> ap.res, nf |-> NfSeq(ap.nf)]
NoWrite(sys) == [sys |-> sys, off |-> -1, ts |-> 0, req |-> NoReq, res |-> NoRes, nf |-> <<>>]

-----------------------------------------------------------------------------
(* session.delete, first step: ListBlock over [sessionKey + "/", sessionKey + "//") and   *)
(* url.PathUnescape of what follows the prefix: the keys in shadow-key order              *)
CleanLo(s) == SessKey(s) \o <<SLASH>>
CleanHi(s) == SessKey(s) \o <<SLASH, SLASH>>
ListedShadows(st, s) == {x \in st.shadow : InRange(ShadowKey(x[1], x[2]), CleanLo(s), CleanHi(s))}
Listed(st, s) ==
    LET L  == ListedShadows(st, s)
        ks == SortKeys({ShadowKey(x[1], x[2]) : x \in L})
    IN [i \in 1..Len(ks) |-> (CHOOSE x \in L : ShadowKey(x[1], x[2]) = ks[i])[2]]

(* session.delete, second step: unconditional deletes of the listed keys, of the session  *)
(* record, and a range delete over the shadow keys                                        *)
CleanupReq(s, keys) ==
    LET ks == IF SkipEmptyKey THEN SelectSeq(keys, LAMBDA k : k # <<>>) ELSE keys
    IN [puts |-> <<>>,
        dels |-> [i \in 1..Len(ks) |-> [key |-> ks[i], exp |-> NoExp]] \o <<[key |-> SessKey(s), exp |-> NoExp]>>,
        rngs |-> <<[s |-> CleanLo(s), e |-> CleanHi(s)]>>]

-----------------------------------------------------------------------------
(* The calls.  Each returns [sys, out] @@ write fields.                     *)

Armed(sys, s)    == s \in DOMAIN sys.sm /\ s \notin DOMAIN sys.pend
Expiring(sys, s) == s \in DOMAIN sys.sm /\ s \in DOMAIN sys.pend

\* sessionManager.CreateSession(timeout): the id is the offset of the registering entry
DoCreate(sys, to) ==
    LET id == sys.n
        w  == WriteAt(sys, [NoReq EXCEPT !.puts = <<SessPut(id)>>])
    IN [w EXCEPT !.sys = [w.sys EXCEPT !.sm = (id :> [dl |-> sys.now + to]) @@ @,
                                       !.tmo = (id :> to) @@ @,
                                       !.beat = (id :> sys.now) @@ @]] @@ [out |-> "OK", s |-> id]

\* sessionManager.KeepAlive: re-arms the timer; for a session that is expiring (its heartbeat channel is
\* already closed, it is still in the manager's map) the call succeeds and changes nothing
DoKeepAlive(sys, s) ==
    IF Armed(sys, s)
    THEN NoWrite([sys EXCEPT !.sm = (s :> [dl |-> sys.now + sys.tmo[s]]) @@ @, !.beat = (s :> sys.now) @@ @]) @@ [out |-> "OK", s |-> s]
    ELSE IF Expiring(sys, s) THEN NoWrite(sys) @@ [out |-> "OK", s |-> s]
    ELSE NoWrite(sys) @@ [out |-> "SESSION_NOT_FOUND", s |-> s]

\* one tick of the clock: the timers that are due fire; each expiring session closes its heartbeat channel
\* and lists its shadow keys
Due(sys, t) == {s \in DOMAIN sys.sm \ DOMAIN sys.pend : sys.sm[s].dl <= t}
DoTick(sys) ==
    LET t == sys.now + 1
        due == Due(sys, t)
    IN NoWrite([sys EXCEPT !.now = t,
                           !.pend = [s \in due |-> [kind |-> "expire", keys |-> Listed(sys.st, s)]] @@ @])
       @@ [out |-> "OK", s |-> -1]

\* sessionManager.CloseSession up to the listing: the session leaves the manager's map, its timer stops
DoCloseBegin(sys, s) ==
    IF Armed(sys, s)
    THEN NoWrite([sys EXCEPT !.sm = FnDrop(@, {s}),
                             !.pend = (s :> [kind |-> "close", keys |-> Listed(sys.st, s)]) @@ @]) @@ [out |-> "LISTED", s |-> s]
    ELSE NoWrite(sys) @@ [out |-> "SESSION_NOT_FOUND", s |-> s]
CloseBeginEnabled(sys, s) == ~Expiring(sys, s)     \* CloseSession of an expiring session waits for the expiry

\* the delete write of a pending cleanup
DoCleanup(sys, s) ==
    LET w == WriteAt(sys, CleanupReq(s, sys.pend[s].keys))
    IN [w EXCEPT !.sys = [w.sys EXCEPT !.pend = FnDrop(@, {s}), !.sm = FnDrop(@, {s})]] @@ [out |-> "OK", s |-> s]

\* a request of some client
DoWrite(sys, req) == WriteAt(sys, req) @@ [out |-> "OK", s |-> -1]

\* a client populates the shard: m plain records "a-001" .. "a-m", 25 per request (ceil(m / 25) offsets).
\* They sort after "a" and before every key with a slash and before "b".
FillKey(i) == <<97, DASH, 48 + (i \div 100), 48 + ((i \div 10) % 10), 48 + (i % 10)>>
FillPut(i) == [key |-> FillKey(i), val |-> i, exp |-> NoExp, sess |-> NoSess, cid |-> "", pkey |-> FALSE,
               deltas |-> <<>>, idx |-> <<>>]
RECURSIVE FillFrom(_, _, _)
FillFrom(sys, lo, m) ==
    IF lo > m THEN sys
    ELSE LET hi == IF lo + 24 < m THEN lo + 24 ELSE m
             w  == WriteAt(sys, [NoReq EXCEPT !.puts = [i \in 1..(hi - lo + 1) |-> FillPut(lo + i - 1)]])
         IN IF w.sys = w.sys THEN FillFrom(w.sys, hi + 1, m) ELSE sys
DoFill(sys, m) == NoWrite(FillFrom(sys, 1, m)) @@ [out |-> "OK", s |-> -1]

(* A new leader.  The elected node holds the whole log (it acknowledged every entry the old leader      *)
(* acknowledged to a client) but its DB is at offset n-1-lag: the old leader went away before it could  *)
(* announce a commit offset covering the last `lag` entries.  lag = 0: the controller is closed and     *)
(* re-created on the same log and DB.  leader_controller.go:BecomeLeader in the order of the code:      *)
(*   1. NewSessionManager                    - no session is armed                                      *)
(*   2. applyAllEntriesIntoDB                - the entries past the DB's commit offset are applied      *)
(*   3. sessionManager.Initialize            - every session record found in the DB is armed with a     *)
(*                                             full timeout from now                                    *)
(* InitFirst swaps 2 and 3.  That the replayed DB equals the old leader's is not assumed: the next      *)
(* state takes the replayed DB and SurviveLeaderChange demands that it is the same.                     *)
LagOK(sys, lag)  == lag >= 0 /\ lag <= Len(sys.back)
DbAt(sys, lag)   == IF lag = 0 THEN sys.st ELSE sys.back[Len(sys.back) - lag + 1].st
TailOf(sys, lag) == SubSeq(sys.back, Len(sys.back) - lag + 1, Len(sys.back))
RECURSIVE ReplayTail(_, _, _)
ReplayTail(db, es, i) == IF i > Len(es) THEN db
                         ELSE LET nx == Apply(db, es[i].req, es[i].off, es[i].ts).s
                              IN IF nx = nx THEN ReplayTail(nx, es, i + 1) ELSE db
SessionsIn(sys, db) == {s \in DOMAIN sys.tmo : SessKey(s) \in DOMAIN db.kv}
LiveSessions(sys)   == SessionsIn(sys, sys.st)
DoLeaderChange(sys, lag) ==
    LET db0  == DbAt(sys, lag)                          \* the DB of the elected node
        db1  == ReplayTail(db0, TailOf(sys, lag), 1)    \* ... after applyAllEntriesIntoDB
        live == SessionsIn(sys, IF InitFirst THEN db0 ELSE db1)
    IN NoWrite([sys EXCEPT !.st = db1,
                           !.sm = [s \in live |-> [dl |-> sys.now + sys.tmo[s]]] @@ EmptyFn,
                           !.beat = [s \in live |-> sys.now] @@ @]) @@ [out |-> "OK", s |-> -1]
LeaderChangeEnabled(sys) == DOMAIN sys.pend = {}

-----------------------------------------------------------------------------
(* Known finding sessCleanupRace: between the listing and the delete write of a cleanup of  *)
(* session s another request (a) puts a listed key under another owner (the unconditional   *)
(* delete then removes a record the session no longer owns) or (b) puts a key that was not  *)
(* listed under session s (the record keeps its session id, loses its shadow key and        *)
(* outlives the session).                                                                   *)
(* A put with sequence-key deltas writes the record under a GENERATED key (request key + "-<number>"...),  *)
(* which is not the key of the request: it is in pattern (b) whenever it names the session under cleanup    *)
(* (the generated record cannot have been listed - unless it replaces a listed one, which is harmless and    *)
(* attributed all the same), and it can only be in pattern (a) when a listed key continues its prefix.       *)
InSeq(q, x) == \E j \in 1..Len(q) : q[j] = x
Race(sys, req) ==
    \E s \in DOMAIN sys.pend : \E i \in 1..Len(req.puts) :
        LET p == req.puts[i] IN
        IF p.deltas # <<>>
        THEN \/ p.sess = s
             \/ \E j \in 1..Len(sys.pend[s].keys) : HasPrefix(sys.pend[s].keys[j], p.key \o <<DASH>>)
        ELSE \/ (InSeq(sys.pend[s].keys, p.key) /\ p.sess # s)
             \/ (~InSeq(sys.pend[s].keys, p.key) /\ p.sess = s)

-----------------------------------------------------------------------------
(* Observation                                                             *)
RECURSIVE SortInts(_)
SortInts(S) == IF S = {} THEN <<>> ELSE LET m == CHOOSE x \in S : \A y \in S : x <= y IN <<m>> \o SortInts(S \ {m})

\* the observation of OxiaDb!Observe, with the records sorted by a merge sort: OxiaDb!SortKeys takes the minimum
\* n times (n^3 key comparisons), which is what a populated shard (100 records) cannot afford per step.
\* (SessionsMC!ObsSame: FastObserve = Observe, checked in every state of the sess-steps* graphs and sess-thorough-c.)
RECURSIVE SetToSeq(_)
SetToSeq(S) == IF S = {} THEN <<>> ELSE LET x == CHOOSE y \in S : TRUE IN <<x>> \o SetToSeq(S \ {x})
RECURSIVE MergeFrom(_, _, _, _)
MergeFrom(a, i, b, j) ==
    IF i > Len(a) THEN SubSeq(b, j, Len(b))
    ELSE IF j > Len(b) THEN SubSeq(a, i, Len(a))
    ELSE IF KeyLe(a[i], b[j]) THEN <<a[i]>> \o MergeFrom(a, i + 1, b, j) ELSE <<b[j]>> \o MergeFrom(a, i, b, j + 1)
RECURSIVE MSort(_)
MSort(q) == IF Len(q) <= 1 THEN q
            ELSE LET h == Len(q) \div 2
                     l == MSort(SubSeq(q, 1, h))
                     r == MSort(SubSeq(q, h + 1, Len(q)))
                 IN IF l = l /\ r = r THEN MergeFrom(l, 1, r, 1) ELSE q
FastSortKeys(S) == MSort(SetToSeq(S))
FastObserve(st) == LET ks == FastSortKeys(DOMAIN st.kv)
                   IN [recs |-> [i \in 1..Len(ks) |-> RecOf(st.kv, ks[i])], idx |-> IdxKeys(st),
                       shadow |-> ShadowKeys(st), lv |-> st.lastVer]

ArmedSeq(sys) == LET ids == SortInts({s \in DOMAIN sys.sm : s \notin DOMAIN sys.pend})
                 IN [i \in 1..Len(ids) |-> [s |-> ids[i], dl |-> sys.sm[ids[i]].dl]]
PendSeq(sys)  == LET ids == SortInts(DOMAIN sys.pend)
                 IN [i \in 1..Len(ids) |-> [s |-> ids[i], kind |-> sys.pend[ids[i]].kind, keys |-> sys.pend[ids[i]].keys]]
SessObserve(sys) == FastObserve(sys.st) @@ [now |-> sys.now, armed |-> ArmedSeq(sys), pend |-> PendSeq(sys)]

-----------------------------------------------------------------------------
(* The property (C14), as predicates of one step  sys --a--> sys2  where a carries the name  *)
(* of the call (a.a), the session (a.s), the request and its results (a.req, a.res).         *)

Owned(st, s) == {k \in DOMAIN st.kv : st.kv[k].sess = s}

\* when a session ends, exactly the records it owns at that moment disappear, together with the session
\* record and its shadow keys; nothing else changes
CloseExact(sys, a, sys2) ==
    a.a = "Cleanup" =>
        LET s == a.s
            own == Owned(sys.st, s)
            gone == own \cup {SessKey(s)}
        IN /\ DOMAIN sys2.st.kv = DOMAIN sys.st.kv \ gone
           /\ \A k \in DOMAIN sys2.st.kv : sys2.st.kv[k] = sys.st.kv[k]
           /\ sys2.st.shadow = {x \in sys.st.shadow : x[1] # s}
           /\ sys2.st.idx = sys.st.idx \ UNION {IdxOf(k, sys.st.kv[k]) : k \in own}
           /\ sys2.st.lastVer = sys.st.lastVer

(* The key of the record a put writes.  It is the key of the request - except for a put with sequence-key  *)
(* deltas, whose record gets a key generated by the state machine (db.go:applyPut, generateUniqueKeyFrom-    *)
(* Sequences): the request key is only the PREFIX of the sequence, and the response carries the real key.    *)
(* Everything the property says about "the record written under a session" - who owns it, which shadow key   *)
(* stands for it, what the end of the session removes - is about THAT key; the record that may be stored     *)
(* under the prefix itself is another record.                                                                *)
IsSeq(p)      == p.deltas # <<>>
EffKey(p, r)  == IF IsSeq(p) THEN r.key ELSE p.key
PutOk(a, i)   == a.res.puts[i].st = "OK"
WrittenKeys(a) == {EffKey(a.req.puts[i], a.res.puts[i]) : i \in {j \in 1..Len(a.req.puts) : PutOk(a, j)}}

\* ownership follows the last writer: after a request the owner of a record it wrote (and did not delete
\* again) is the session named by the last successful put of that record, and exactly that session's shadow
\* key stands for it
OwnerFollowsWriter(sys, a, sys2) ==
    a.a = "Write" =>
        \A i \in 1..Len(a.req.puts) :
            LET p == a.req.puts[i]
                k == EffKey(p, a.res.puts[i])
                last == ~\E j \in (i + 1)..Len(a.req.puts) : PutOk(a, j) /\ EffKey(a.req.puts[j], a.res.puts[j]) = k
            IN (PutOk(a, i) /\ last /\ k \in DOMAIN sys2.st.kv) =>
                  /\ sys2.st.kv[k].sess = p.sess
                  /\ {x \in sys2.st.shadow : x[2] = k} = (IF p.sess = NoSess THEN {} ELSE {<<p.sess, k>>})

\* a put with sequence-key deltas never writes the record of its prefix: the generated key continues the
\* request key with "-<number>" parts, one per delta
SeqKeyGenerated(sys, a, sys2) ==
    a.a = "Write" =>
        \A i \in 1..Len(a.req.puts) :
            (IsSeq(a.req.puts[i]) /\ PutOk(a, i)) =>
                LET k == a.res.puts[i].key IN
                /\ HasPrefix(k, a.req.puts[i].key \o <<DASH>>)
                /\ Len(SplitDash(SubSeq(k, Len(a.req.puts[i].key) + 2, Len(k)))) = Len(a.req.puts[i].deltas)

\* writes naming a dead session are rejected - whatever else the put asks for (a version condition, a
\* generated key, index entries) - and only those: a put without version condition that names a live session
\* is accepted.  (A put that fails for another reason first reports that reason.)
DeadRejected(sys, a, sys2) ==
    a.a = "Write" =>
        /\ \A i \in 1..Len(a.req.puts) :
              LET p == a.req.puts[i] IN
              p.sess # NoSess =>
                 IF SessKey(p.sess) \in DOMAIN sys.st.kv
                 THEN (p.exp = NoExp /\ ~IsSeq(p)) => PutOk(a, i)
                 ELSE /\ ~PutOk(a, i)
                      /\ (p.exp = NoExp /\ ~IsSeq(p)) => a.res.puts[i].st = "SESSION_DOES_NOT_EXIST"
        /\ ((\A i \in 1..Len(a.req.puts) : ~PutOk(a, i)) /\ a.req.dels = <<>> /\ a.req.rngs = <<>>)
              => sys2.st = sys.st

\* a record written under a session exists until it is overwritten, deleted, or the session ends.
\* (A request touches the records its successful puts WRITE - for a sequence put that is the generated key,
\* not the prefix - and the keys its deletes and range deletes name.)
Touches(a, k) == \/ \E i \in 1..Len(a.req.puts) : IF IsSeq(a.req.puts[i]) THEN PutOk(a, i) /\ a.res.puts[i].key = k
                                                    ELSE a.req.puts[i].key = k
                 \/ \E i \in 1..Len(a.req.dels) : a.req.dels[i].key = k
                 \/ \E i \in 1..Len(a.req.rngs) : InRange(k, a.req.rngs[i].s, a.req.rngs[i].e)
EphemeralStable(sys, a, sys2) ==
    \A k \in DOMAIN sys.st.kv :
        LET e == sys.st.kv[k] IN
        (e.sess # NoSess /\ ~(k \in DOMAIN sys2.st.kv /\ sys2.st.kv[k] = e)) =>
            \/ (a.a = "Write" /\ Touches(a, k))
            \/ (a.a = "Cleanup" /\ a.s = e.sess)

\* ... and only they do: a client request changes no record, no ownership (shadow key) and no index entry of
\* a key it does not touch - in particular a sequence put leaves the record stored under its prefix, and
\* whoever owns it, alone
OthersUntouched(sys, a, sys2) ==
    a.a = "Write" =>
        /\ \A k \in (DOMAIN sys.st.kv \cup DOMAIN sys2.st.kv) :
              (~Internal(k) /\ ~Touches(a, k)) => (k \in DOMAIN sys.st.kv /\ k \in DOMAIN sys2.st.kv /\ sys2.st.kv[k] = sys.st.kv[k])
        /\ \A x \in (sys.st.shadow \cup sys2.st.shadow) : ~Touches(a, x[2]) => (x \in sys.st.shadow /\ x \in sys2.st.shadow)
        /\ \A x \in (sys.st.idx \cup sys2.st.idx) : ~Touches(a, x.p) => (x \in sys.st.idx /\ x \in sys2.st.idx)

\* sessions time out only after a full timeout without heartbeats on the current leader - and then they do
Lifetime(sys, a, sys2) ==
    /\ a.a = "Tick" =>
          /\ \A s \in DOMAIN sys2.pend \ DOMAIN sys.pend : sys2.now - sys.beat[s] >= sys.tmo[s]
          /\ \A s \in DOMAIN sys2.sm \ DOMAIN sys2.pend : sys2.now - sys2.beat[s] < sys2.tmo[s]
    /\ a.a # "Tick" => DOMAIN sys2.pend \ DOMAIN sys.pend \subseteq (IF a.a = "CloseBegin" THEN {a.s} ELSE {})

\* sessions and their records survive a leader change - whatever part of the log the new leader still had
\* to apply: its DB ends up equal to the old leader's, every live session is armed again (and only those)
SurviveLeaderChange(sys, a, sys2) ==
    a.a = "LeaderChange" => /\ sys2.st = sys.st
                            /\ {s \in DOMAIN sys2.sm : s \notin DOMAIN sys2.pend} = LiveSessions(sys)
                            /\ \A s \in LiveSessions(sys) : sys2.sm[s].dl = sys2.now + sys.tmo[s]

\* calls that do not write leave the DB alone
ReadOnlyCalls(sys, a, sys2) == a.a \in {"KeepAlive", "Tick", "CloseBegin", "LeaderChange"} => sys2.st = sys.st /\ sys2.n = sys.n

StepProps(sys, a, sys2) ==
    /\ CloseExact(sys, a, sys2) /\ OwnerFollowsWriter(sys, a, sys2) /\ DeadRejected(sys, a, sys2)
    /\ SeqKeyGenerated(sys, a, sys2) /\ OthersUntouched(sys, a, sys2)
    /\ EphemeralStable(sys, a, sys2) /\ Lifetime(sys, a, sys2) /\ SurviveLeaderChange(sys, a, sys2)
    /\ ReadOnlyCalls(sys, a, sys2)

\* state part: shadow keys mirror ownership; an armed or expiring session has its record; an owned record's
\* session exists (no orphan ephemeral records)
StateProps(sys) ==
    /\ ShadowMirror(sys.st) /\ IndexMirror(sys.st) /\ VersionsSane(sys.st)
    /\ \A s \in DOMAIN sys.sm : SessKey(s) \in DOMAIN sys.st.kv
    /\ \A k \in DOMAIN sys.st.kv : sys.st.kv[k].sess # NoSess => SessKey(sys.st.kv[k].sess) \in DOMAIN sys.st.kv
=============================================================================
