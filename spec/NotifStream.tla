----------------------------- MODULE NotifStream -----------------------------
(***************************************************************************)
(* The notification stream of one shard: committed batches stored in the   *)
(* DB under "__oxia/notifications/<offset>", the time-based trimmer, and a *)
(* subscriber that connects, disconnects and reconnects with the last      *)
(* offset it saw, to the same or a restarted leader.                       *)
(* In the shape of the implementation:                                     *)
(*  - leader_controller.go:GetNotifications: without a start offset the    *)
(*    leader first sends an empty batch carrying its commit offset and     *)
(*    continues after it; with StartOffsetExclusive = k it continues after *)
(*    k.  A dispatcher loop calls ReadNextNotifications(cursor + 1), which *)
(*    waits until that offset is committed and then returns EVERY stored   *)
(*    batch with an offset >= cursor + 1 (a scan of the notification keys, *)
(*    so trimmed offsets are skipped silently); the batches are sent one   *)
(*    by one and the cursor follows the offsets sent.                      *)
(*  - notifications_trimmer.go:trimNotifications: nothing if the first     *)
(*    stored batch is younger than the retention time, otherwise a binary  *)
(*    search for the last expired batch and one range delete.              *)
(*  - leader_controller.go:BecomeLeader on a node whose DB is behind its    *)
(*    log (any follower: it learns the commit offset only with the next    *)
(*    append; a node restarted before its DB caught up): the quorum        *)
(*    tracker is created with the DB's commit offset, then                 *)
(*    applyAllEntriesIntoDB applies the log tail to the DB; every applied  *)
(*    entry stores its batch in the same atomic write, exactly as when it  *)
(*    is applied by a leader that commits it (DoElect).                    *)
(* The content of a batch is OxiaDb.tla's business (Apply(...).nf); here a  *)
(* batch is its offset and its timestamp.                                  *)
(*                                                                         *)
(* ns = [n     : number of committed offsets (0 .. n-1),                   *)
(*       ts    : timestamp of every committed offset,                      *)
(*       kept  : offsets whose batch is stored,                            *)
(*       tc    : commit offset the leader's quorum tracker reports (the    *)
(*               offset of the empty first batch); n - 1, except after an  *)
(*               election that replayed entries and until the next commit, *)
(*       now   : clock,                                                    *)
(*       open  : a stream is open,                                         *)
(*       cur   : cursor of the dispatcher (offset sent last / start),      *)
(*       buf   : batches read and not yet sent,                            *)
(*       seen  : last offset the subscriber saw (NoSeen before any),       *)
(*       got   : history - offsets of the data batches delivered,          *)
(*       pos   : history - where the subscription started (exclusive),     *)
(*       lostok: history - offsets trimmed while expired]                  *)
(***************************************************************************)
EXTENDS Integers, Sequences, FiniteSets, TLC

CONSTANTS Retention,      \* retention time in clock units
          MinusOneIsNone, \* see ResumeArg
          ReplayNotifies  \* FALSE: the replay of the log tail at an election stores no batches (mutant)

NoSeen == -2
NoStart == -2

NS0 == [n |-> 0, ts |-> <<>>, kept |-> {}, tc |-> -1, now |-> 0, open |-> FALSE, cur |-> -1, buf |-> <<>>,
        seen |-> NoSeen, got |-> <<>>, pos |-> NoStart, lostok |-> {}]

RECURSIVE SortAsc(_)
SortAsc(S) == IF S = {} THEN <<>> ELSE LET m == CHOOSE x \in S : \A y \in S : x <= y IN <<m>> \o SortAsc(S \ {m})

\* ReadNextNotifications(cursor + 1) as soon as that offset is committed: a scan from its key
Pump(s) == IF s.open /\ s.buf = <<>> /\ s.cur + 1 <= s.n - 1
           THEN [s EXCEPT !.buf = SortAsc({o \in s.kept : o >= s.cur + 1})]
           ELSE s

\* a write request is committed: its batch is stored in the same atomic batch, timestamp of the entry
DoCommit(s) == Pump([s EXCEPT !.n = @ + 1, !.ts = Append(@, s.now), !.kept = @ \cup {s.n}, !.tc = s.n])

DoClock(s) == [s EXCEPT !.now = @ + 1]

(* trimNotifications at the instant s.now *)
Expired(s, o) == s.ts[o + 1] <= s.now - Retention          \* ~cutoffTime.Before(ts)
RECURSIVE BinSearch(_, _, _)
BinSearch(s, lo, hi) ==
    IF lo >= hi THEN lo
    ELSE LET med == (lo + hi + 1) \div 2                    \* the ceiling
         IN IF Expired(s, med) THEN BinSearch(s, med, hi) ELSE BinSearch(s, lo, med - 1)
MinOf(S) == CHOOSE x \in S : \A y \in S : x <= y
MaxOf(S) == CHOOSE x \in S : \A y \in S : x >= y
TrimTarget(s) ==                                            \* offsets removed by one trimming round
    IF s.kept = {} THEN {}
    ELSE LET first == MinOf(s.kept)  last == MaxOf(s.kept) IN
         IF ~Expired(s, first) THEN {}
         ELSE LET t == BinSearch(s, first, last) IN {o \in s.kept : o >= first /\ o <= t}
DoTrim(s) == LET T == TrimTarget(s) IN
             [s EXCEPT !.kept = @ \ T, !.lostok = @ \cup {o \in T : Expired(s, o)}]

(* GetNotifications.  start = NoStart: no start offset given.  Returns the state and the      *)
(* offset of the empty first batch (NoStart if none is sent).                                 *)
DoSubscribe(s, start) ==
    LET c == IF start = NoStart THEN s.tc ELSE start
        t == [s EXCEPT !.open = TRUE, !.cur = c, !.buf = <<>>,
                       !.seen = IF start = NoStart \/ s.seen = NoSeen THEN c ELSE @,
                       !.pos = IF s.pos = NoStart THEN c ELSE @]
    IN [s |-> Pump(t), dummy |-> IF start = NoStart THEN c ELSE NoStart]

\* the dispatcher sends the next batch it has read; the subscriber records its offset
CanSend(s) == s.open /\ s.buf # <<>>
DoSend(s) == LET o == s.buf[1] IN
             Pump([s EXCEPT !.buf = Tail(@), !.cur = o, !.seen = o, !.got = Append(@, o)])

\* the stream ends (subscriber side or leader side); what was read and not sent is dropped
DoDisconnect(s) == [s EXCEPT !.open = FALSE, !.buf = <<>>]

(* Leader change.  The elected node holds the whole log (n entries) and its DB has applied all but the  *)
(* last `lag` of them (0 <= lag <= n).  BecomeLeader creates the quorum tracker with the DB's commit     *)
(* offset and then applies the log tail to the DB: each replayed entry stores its batch (key = offset,  *)
(* timestamp of the entry).  An open stream ends.  Replicas apply the same entries with the same         *)
(* timestamps and trim with the same retention: for the offsets the elected node had applied before,    *)
(* its stored batches are those of the previous leader.  lag = 0 is a restart of the leader.            *)
ReplayTail(s, lag) == (s.n - lag)..(s.n - 1)
DoElect(s, lag) == [DoDisconnect(s) EXCEPT !.kept = (@ \ ReplayTail(s, lag)) \cup (IF ReplayNotifies THEN ReplayTail(s, lag) ELSE {}),
                                           !.tc = s.n - 1 - lag]
\* the leader controller is closed and re-created on its own log and DB (level with each other): nothing to replay
DoRestart(s) == [DoDisconnect(s) EXCEPT !.tc = s.n - 1]

\* what a subscriber passes when it connects again: the last offset it saw (the offset of the empty first
\* batch, or the offset it started from, if no data batch has arrived yet).
\* MinusOneIsNone: the subscriber cannot express "after -1" and sends no offset instead
\* (oxia/notifications.go: lastOffsetReceived >= 0)
ResumeArg(s) == IF MinusOneIsNone /\ s.seen = -1 THEN NoStart ELSE s.seen

-----------------------------------------------------------------------------
(* C17, stream part *)

\* strictly increasing offsets: ordered, no duplicates - also across reconnects
Ordered(s) == \A i \in 1..(Len(s.got) - 1) : s.got[i] < s.got[i + 1]
\* only committed offsets, only after the position the subscription started from
Committed(s) == \A i \in 1..Len(s.got) : s.got[i] <= s.n - 1 /\ s.got[i] > s.pos
\* no loss within retention: an offset between the start position and the last offset seen that was not
\* delivered had been trimmed, and it was expired when it was trimmed
NoLoss(s) == \A o \in 0..(s.n - 1) :
                (s.pos # NoStart /\ o > s.pos /\ s.seen # NoSeen /\ o <= s.seen /\ ~\E i \in 1..Len(s.got) : s.got[i] = o)
                    => o \in s.lostok
\* the trimmer only removes expired batches, and what is stored is a suffix of what was committed
TrimSafe(s) == /\ \A o \in 0..(s.n - 1) : o \notin s.kept => o \in s.lostok
               /\ \A o \in s.kept : \A p \in 0..(s.n - 1) : p > o => p \in s.kept
\* a trimming round removes exactly the expired batches (timestamps do not decrease with the offset)
TrimExact(s, s2) == s2.kept = {o \in s.kept : ~Expired(s, o)}

StreamProps(s) == Ordered(s) /\ Committed(s) /\ NoLoss(s) /\ TrimSafe(s)
=============================================================================
