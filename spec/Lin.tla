-------------------------------- MODULE Lin --------------------------------
(***************************************************************************)
(* Linearizability of client histories of one shard (property C02).        *)
(*                                                                         *)
(* Abstract object: the set of records present (writes are puts of         *)
(* distinct keys; nothing is deleted in the recorded workloads).  A        *)
(* history is a sequence of invocation / response events; the trace        *)
(* specification LinTrace searches for linearization points:               *)
(*   - a write takes effect once, at some point after its invocation, and  *)
(*     before its response if it gets one; a write whose outcome stays     *)
(*     unknown to the client takes effect once or never;                   *)
(*   - a read returns exactly the state at its linearization point between *)
(*     invocation and response;                                            *)
(*   - a read served by a deposed leader (flagged `stale` by the recorder: *)
(*     a higher term was already installed when it was invoked) may return *)
(*     any older committed state, i.e. any state the object has been in.   *)
(* Data that was read and later disappears (rolled back) has no            *)
(* linearization: the search fails.                                        *)
(***************************************************************************)
EXTENDS Integers, Sequences, FiniteSets

VARIABLES present,   \* set of write ids whose effect is in the state
          past,      \* set of all states the object has been in
          pend,      \* invoked operations without linearization point yet: op id -> [kind, w]
          done       \* linearized, response not yet seen: op id -> result (a set of write ids; {} for writes)

lvars == <<present, past, pend, done>>

LInit == present = {} /\ past = {{}} /\ pend = [o \in {} |-> 0] /\ done = [o \in {} |-> 0]

Drop(f, k) == [x \in DOMAIN f \ {k} |-> f[x]]
Put(f, k, v) == [x \in DOMAIN f \cup {k} |-> IF x = k THEN v ELSE f[x]]

InvWrite(op, w) == /\ op \notin DOMAIN pend /\ pend' = Put(pend, op, [kind |-> "w", w |-> w]) /\ UNCHANGED <<present, past, done>>
InvRead(op)     == /\ op \notin DOMAIN pend /\ pend' = Put(pend, op, [kind |-> "r", w |-> -1]) /\ UNCHANGED <<present, past, done>>

\* silent: operation op takes effect now
Linearize(op) ==
    /\ op \in DOMAIN pend
    /\ IF pend[op].kind = "w"
       THEN /\ present' = present \cup {pend[op].w}
            /\ past' = past \cup {present \cup {pend[op].w}}
            /\ done' = Put(done, op, {})
       ELSE /\ done' = Put(done, op, present)
            /\ UNCHANGED <<present, past>>
    /\ pend' = Drop(pend, op)

\* response of a write (ok) / of a read with result res
RetWrite(op) == /\ op \in DOMAIN done /\ done' = Drop(done, op) /\ UNCHANGED <<present, past, pend>>
RetRead(op, res, stale) ==
    /\ \/ op \in DOMAIN done /\ done[op] = res /\ done' = Drop(done, op) /\ pend' = pend
       \/ stale /\ op \in DOMAIN pend /\ res \in past /\ pend' = Drop(pend, op) /\ done' = done
    /\ UNCHANGED <<present, past>>
=============================================================================
