----------------------------- MODULE SessionsMC -----------------------------
(* Closed system around Sessions: a bounded set of clients that create sessions, send heartbeats, *)
(* close sessions, let the clock tick, change the leader and write / delete / range-delete the   *)
(* same few keys - in every interleaving, including between the two steps of a cleanup.  A       *)
(* leader change elects a node whose DB lags the log by 0..MaxLag entries; with Fills # {} the    *)
(* shard may first be populated with m plain records so that the range deletes of the alphabet    *)
(* cover m, m+1 or m+2 keys - around the threshold (100) where the code changes its strategy -   *)
(* with session-owned keys in front of and behind the block.                                      *)
(* With Feats # {} the puts of the clients combine session ownership with sequence-key deltas      *)
(* (generated key; the request key is only the prefix), index entries and version conditions.      *)
(*  - exhaustively (VIEW hides the history): the C14 properties in every state / on every step;  *)
(*  - as generator of behaviours replayed on a real RF=1 leader controller: `hist` records every *)
(*    call with the outcome and the observable state the specification demands after it.         *)
EXTENDS Sessions, Json

CONSTANTS MaxN,       \* offsets (writes incl. session creation and cleanup writes) per behaviour
          MaxTick,    \* clock ticks per behaviour
          MaxSess,    \* sessions created per behaviour
          MaxHb,      \* KeepAlive calls per behaviour
          MaxLc,      \* leader changes per behaviour
          KeySet,     \* "ab" | "abe" (with the empty key) | "abs" (with a key that needs escaping)
          Fills,      \* sizes m offered to Fill(m) as the first call of a behaviour ({}: never populated)
          Feats,      \* put features the clients combine with session ownership, subset of {"seq", "idx", "cond"}:
                      \*   "seq"  sequence-key deltas: the record is stored under a generated key "<key>-<n>", the
                      \*          request key is only the prefix (and may itself hold a record - plain or ephemeral)
                      \*   "idx"  a secondary-index entry (removed with the record when its session ends)
                      \*   "cond" expected version: "must not exist" (-1) and the current version of the record
          Timeouts,   \* session timeouts in ticks
          Guarded,    \* TRUE: properties are claimed outside the known finding only (kf = {})
          RunDepth,   \* "runs" export: length of the simulated behaviours
          AvoidRace,  \* TRUE: clients do not write in the known-finding pattern (long behaviours stay judged)
          Export      \* "none" | "steps" | "lagsteps" | "fillsteps" | "featsteps" | "runs"

VARIABLES sys, nhb, nlc, kf, base, hist
mvars == <<sys, nhb, nlc, kf, base, hist>>
\* (the kept tail of the log is only read by a leader change: once none is left it is not part of the state)
View  == <<[sys EXCEPT !.back = IF nlc < MaxLc THEN @ ELSE <<>>], nhb, nlc, kf, base>>

Ka  == <<97>>
Kb  == <<98>>
Kab == <<97, 47, 98>>    \* "a/b": escaped in the shadow key
Kz  == <<122>>
Keys == CASE KeySet = "ab" -> {Ka, Kb} [] KeySet = "abe" -> {Ka, Kb, <<>>} [] KeySet = "abs" -> {Ka, Kb, Kab}
          [] KeySet = "a" -> {Ka} [] KeySet = "ae" -> {Ka, <<>>}

PutOf(k, v, se) == [key |-> k, val |-> v, exp |-> NoExp, sess |-> se, cid |-> "", pkey |-> FALSE, deltas |-> <<>>, idx |-> <<>>]

\* sessions a client may name: every session ever created (live or dead)
SessIds == DOMAIN sys.tmo
\* range deletes: everything; on a populated shard also the block of filler records alone ["a-", "a.") and
\* the block with what follows it ["a-", "z") (the same number of keys, but the client keys at other ranks)
Ranges == {[s |-> <<>>, e |-> Kz]}
          \cup (IF base > 0 THEN {[s |-> <<97, DASH>>, e |-> <<97, 46>>], [s |-> <<97, DASH>>, e |-> Kz]} ELSE {})
\* puts that combine session ownership with the other features of a put.  A sequence put is offered with and
\* without a session (a generated record nobody owns must survive every session); index entries and version
\* conditions only under a session.
Ix == <<[n |-> <<105>>, k |-> <<117>>]>>       \* index "i", secondary key "u"
CurVer(k) == IF Has(sys.st.kv, k) THEN {sys.st.kv[k].ver} ELSE {}
FeatPuts(k, v, se) ==
    (IF "seq" \in Feats THEN {[PutOf(k, v, se) EXCEPT !.pkey = TRUE, !.deltas = <<1>>]} ELSE {})
    \cup (IF "idx" \in Feats /\ se # NoSess THEN {[PutOf(k, v, se) EXCEPT !.idx = Ix]} ELSE {})
    \cup (IF "seq" \in Feats /\ "idx" \in Feats /\ se # NoSess
          THEN {[PutOf(k, v, se) EXCEPT !.pkey = TRUE, !.deltas = <<1>>, !.idx = Ix]} ELSE {})
    \cup (IF "cond" \in Feats /\ se # NoSess THEN {[PutOf(k, v, se) EXCEPT !.exp = x] : x \in {-1} \cup CurVer(k)} ELSE {})
HasFeat(req) == \E i \in 1..Len(req.puts) : req.puts[i].deltas # <<>> \/ req.puts[i].idx # <<>> \/ req.puts[i].exp # NoExp
ClientReqs ==
    {[NoReq EXCEPT !.puts = <<PutOf(k, 10 * (sys.n + 1), se)>>] : k \in Keys, se \in {NoSess} \cup SessIds}
    \cup {[NoReq EXCEPT !.puts = <<p>>] : p \in UNION {FeatPuts(k, 10 * (sys.n + 1), se) : k \in Keys, se \in {NoSess} \cup SessIds}}
    \cup {[NoReq EXCEPT !.dels = <<[key |-> k, exp |-> NoExp]>>] : k \in Keys}
    \cup {[NoReq EXCEPT !.rngs = <<r>>] : r \in Ranges}

\* one recorded step: the call, the demanded outcome and the demanded observable state after it
\* (arg: the timeout of Create, the lag of LeaderChange, the size of Fill)
Rec(r, name, arg) ==
    [a |-> name, s |-> r.s, to |-> IF name = "Create" THEN arg ELSE 0, lag |-> IF name = "LeaderChange" THEN arg ELSE 0,
     fill |-> IF name = "Fill" THEN arg ELSE 0, out |-> r.out, off |-> r.off, ts |-> r.ts, req |-> r.req, err |-> "",
     kf |-> kf' # {}, res |-> r.res, nf |-> r.nf, gets |-> <<>>, lists |-> <<>>] @@ SessObserve(r.sys)
\* (without export only the last call is kept, in the form the step properties read)
Brief(r, name) == [a |-> name, s |-> r.s, req |-> r.req, res |-> r.res]

Step(r, name, to) == /\ sys' = r.sys
                     /\ hist' = IF Export = "none" THEN <<Brief(r, name)>> ELSE Append(hist, Rec(r, name, to))

MInit == sys = Sys0 /\ nhb = 0 /\ nlc = 0 /\ kf = {} /\ base = 0 /\ hist = <<>>

\* MaxN counts the offsets after the population
CanWrite == sys.n < base + MaxN

Fill     == \E m \in Fills : sys = Sys0 /\ nlc = 0 /\ UNCHANGED <<nhb, nlc, kf>>
                              /\ LET r == DoFill(sys, m) IN base' = r.sys.n /\ Step(r, "Fill", m)

Create   == \E to \in Timeouts : CanWrite /\ Cardinality(DOMAIN sys.tmo) < MaxSess
                                 /\ UNCHANGED <<nhb, nlc, kf, base>> /\ Step(DoCreate(sys, to), "Create", to)
KeepAlive == \E s \in SessIds : nhb < MaxHb /\ nhb' = nhb + 1 /\ UNCHANGED <<nlc, kf, base>>
                                /\ Step(DoKeepAlive(sys, s), "KeepAlive", 0)
Tick     == sys.now < MaxTick /\ UNCHANGED <<nhb, nlc, kf, base>> /\ Step(DoTick(sys), "Tick", 0)
\* (closing a session the manager does not know shares the budget of the heartbeats)
CloseBegin == \E s \in SessIds : CloseBeginEnabled(sys, s) /\ UNCHANGED <<nlc, kf, base>>
                                 /\ (IF Armed(sys, s) THEN nhb' = nhb ELSE (nhb < MaxHb /\ nhb' = nhb + 1))
                                 /\ Step(DoCloseBegin(sys, s), "CloseBegin", 0)
Cleanup  == \E s \in DOMAIN sys.pend : CanWrite /\ UNCHANGED <<nhb, nlc, kf, base>> /\ Step(DoCleanup(sys, s), "Cleanup", 0)
Write    == \E req \in ClientReqs : CanWrite /\ UNCHANGED <<nhb, nlc, base>> /\ (AvoidRace => ~Race(sys, req))
                                    /\ kf' = (IF Race(sys, req) THEN kf \cup {"sessCleanupRace"} ELSE kf)
                                    /\ Step(DoWrite(sys, req), "Write", 0)
\* the elected node's DB lags the log by 0 .. MaxLag entries (never across the population of the shard)
LeaderChange == \E lag \in 0..MaxLag :
                   /\ LeaderChangeEnabled(sys) /\ nlc < MaxLc /\ LagOK(sys, lag) /\ lag <= sys.n - base
                   /\ nlc' = nlc + 1 /\ UNCHANGED <<nhb, kf, base>>
                   /\ Step(DoLeaderChange(sys, lag), "LeaderChange", lag)

MNext == Fill \/ Create \/ KeepAlive \/ Tick \/ CloseBegin \/ Cleanup \/ Write \/ LeaderChange

MSpec == MInit /\ [][MNext]_mvars

\* ---------------------------------------------------------------- properties
Cur == hist'[Len(hist')]
Claimed == Guarded => kf' = {}

Inv == (Guarded => kf = {}) => StateProps(sys)
\* the merge-sorted observation is the observation of OxiaDb (checked where the states are small)
ObsSame == base = 0 => FastObserve(sys.st) = Observe(sys.st)
Steps == [][ Claimed => StepProps(sys, Cur, sys') ]_mvars

\* the bound on offsets must not hide a pending cleanup: used by the "runs" export only
Quiet == DOMAIN sys.pend = {}

\* "steps": one behaviour per transition; "lagsteps": only those in which a node with a lagging DB was elected;
\* "fillsteps": only those on a populated shard; "featsteps": only those with a put that combines features
ExportSteps == (\/ Export = "steps"
                \/ (Export = "lagsteps" /\ \E i \in 1..Len(hist') : hist'[i].lag > 0)
                \/ (Export = "fillsteps" /\ base' > 0)
                \/ (Export = "featsteps" /\ \E i \in 1..Len(hist') : hist'[i].a = "Write" /\ HasFeat(hist'[i].req)))
               => PrintT(<<"STEP", ToJson(hist')>>)
ExportRuns  == (Export = "runs" /\ TLCGet("level") >= RunDepth) => PrintT(<<"RUN", ToJson(hist)>>)
=============================================================================
