----------------------------- MODULE SessionsMC -----------------------------
(* Closed system around Sessions: a bounded set of clients that create sessions, send heartbeats, *)
(* close sessions, let the clock tick, change the leader and write / delete / range-delete the   *)
(* same few keys - in every interleaving, including between the two steps of a cleanup.          *)
(*  - exhaustively (VIEW hides the history): the C14 properties in every state / on every step;  *)
(*  - as generator of behaviours replayed on a real RF=1 leader controller: `hist` records every *)
(*    call with the outcome and the observable state the specification demands after it.         *)
EXTENDS Sessions, Json

CONSTANTS MaxN,       \* offsets (writes incl. session creation and cleanup writes) per behaviour
          MaxTick,    \* clock ticks per behaviour
          MaxSess,    \* sessions created per behaviour
          MaxHb,      \* KeepAlive calls per behaviour
          MaxLc,      \* leader changes per behaviour
          KeySet,     \* "ab" | "abe" (with the empty key) | "abs" (with a key that needs escaping)
          Timeouts,   \* session timeouts in ticks
          Guarded,    \* TRUE: properties are claimed outside the known finding only (kf = {})
          RunDepth,   \* "runs" export: length of the simulated behaviours
          AvoidRace,  \* TRUE: clients do not write in the known-finding pattern (long behaviours stay judged)
          Export      \* "none" | "steps" | "runs"

VARIABLES sys, nhb, nlc, kf, hist
mvars == <<sys, nhb, nlc, kf, hist>>
View  == <<sys, nhb, nlc, kf>>

Ka  == <<97>>
Kb  == <<98>>
Kab == <<97, 47, 98>>    \* "a/b": escaped in the shadow key
Kz  == <<122>>
Keys == CASE KeySet = "ab" -> {Ka, Kb} [] KeySet = "abe" -> {Ka, Kb, <<>>} [] KeySet = "abs" -> {Ka, Kb, Kab}
          [] KeySet = "a" -> {Ka} [] KeySet = "ae" -> {Ka, <<>>}

PutOf(k, v, se) == [key |-> k, val |-> v, exp |-> NoExp, sess |-> se, cid |-> "", pkey |-> FALSE, deltas |-> <<>>, idx |-> <<>>]

\* sessions a client may name: every session ever created (live or dead)
SessIds == DOMAIN sys.tmo
ClientReqs ==
    {[NoReq EXCEPT !.puts = <<PutOf(k, 10 * (sys.n + 1), se)>>] : k \in Keys, se \in {NoSess} \cup SessIds}
    \cup {[NoReq EXCEPT !.dels = <<[key |-> k, exp |-> NoExp]>>] : k \in Keys}
    \cup {[NoReq EXCEPT !.rngs = <<[s |-> <<>>, e |-> Kz]>>]}

\* one recorded step: the call, the demanded outcome and the demanded observable state after it
Rec(r, name, to) ==
    [a |-> name, s |-> r.s, to |-> to, out |-> r.out, off |-> r.off, ts |-> r.ts, req |-> r.req, err |-> "",
     kf |-> kf' # {}, res |-> r.res, nf |-> r.nf, gets |-> <<>>, lists |-> <<>>] @@ SessObserve(r.sys)
\* (without export only the last call is kept, in the form the step properties read)
Brief(r, name) == [a |-> name, s |-> r.s, req |-> r.req, res |-> r.res]

Step(r, name, to) == /\ sys' = r.sys
                     /\ hist' = IF Export = "none" THEN <<Brief(r, name)>> ELSE Append(hist, Rec(r, name, to))

MInit == sys = Sys0 /\ nhb = 0 /\ nlc = 0 /\ kf = {} /\ hist = <<>>

CanWrite == sys.n < MaxN

Create   == \E to \in Timeouts : CanWrite /\ Cardinality(DOMAIN sys.tmo) < MaxSess
                                 /\ UNCHANGED <<nhb, nlc, kf>> /\ Step(DoCreate(sys, to), "Create", to)
KeepAlive == \E s \in SessIds : nhb < MaxHb /\ nhb' = nhb + 1 /\ UNCHANGED <<nlc, kf>>
                                /\ Step(DoKeepAlive(sys, s), "KeepAlive", 0)
Tick     == sys.now < MaxTick /\ UNCHANGED <<nhb, nlc, kf>> /\ Step(DoTick(sys), "Tick", 0)
\* (closing a session the manager does not know shares the budget of the heartbeats)
CloseBegin == \E s \in SessIds : CloseBeginEnabled(sys, s) /\ UNCHANGED <<nlc, kf>>
                                 /\ (IF Armed(sys, s) THEN nhb' = nhb ELSE (nhb < MaxHb /\ nhb' = nhb + 1))
                                 /\ Step(DoCloseBegin(sys, s), "CloseBegin", 0)
Cleanup  == \E s \in DOMAIN sys.pend : CanWrite /\ UNCHANGED <<nhb, nlc, kf>> /\ Step(DoCleanup(sys, s), "Cleanup", 0)
Write    == \E req \in ClientReqs : CanWrite /\ UNCHANGED <<nhb, nlc>> /\ (AvoidRace => ~Race(sys, req))
                                    /\ kf' = (IF Race(sys, req) THEN kf \cup {"sessCleanupRace"} ELSE kf)
                                    /\ Step(DoWrite(sys, req), "Write", 0)
LeaderChange == LeaderChangeEnabled(sys) /\ nlc < MaxLc /\ nlc' = nlc + 1 /\ UNCHANGED <<nhb, kf>>
                /\ Step(DoLeaderChange(sys), "LeaderChange", 0)

MNext == Create \/ KeepAlive \/ Tick \/ CloseBegin \/ Cleanup \/ Write \/ LeaderChange

MSpec == MInit /\ [][MNext]_mvars

\* ---------------------------------------------------------------- properties
Cur == hist'[Len(hist')]
Claimed == Guarded => kf' = {}

Inv == (Guarded => kf = {}) => StateProps(sys)
Steps == [][ Claimed => StepProps(sys, Cur, sys') ]_mvars

\* the bound on offsets must not hide a pending cleanup: used by the "runs" export only
Quiet == DOMAIN sys.pend = {}

ExportSteps == (Export = "steps") => PrintT(<<"STEP", ToJson(hist')>>)
ExportRuns  == (Export = "runs" /\ TLCGet("level") >= RunDepth) => PrintT(<<"RUN", ToJson(hist)>>)
=============================================================================
