------------------------------- MODULE Wal -------------------------------
(***************************************************************************)
(* Sequential model of the segmented write-ahead log (server/wal).         *)
(*                                                                         *)
(* The model is shaped like the implementation: physical segments (needed  *)
(* to say what a trim removes from disk and what a reopen finds), a        *)
(* logical first offset, the appended and the synced offset.  Every public *)
(* call is a *total* action with an outcome (`res`), so that a rejected    *)
(* call is part of a behaviour and a removed guard is visible on replay.   *)
(*                                                                         *)
(* Sizes are bytes: an entry of payload size sz occupies Header + sz bytes *)
(* of a segment of SegSize bytes (readwrite_segment.go: HasSpace).         *)
(***************************************************************************)
EXTENDS Integers, Sequences, FiniteSets

CONSTANTS SegSize,    \* bytes per segment
          Header,     \* bytes of record header (codec v2: 12)
          Retention   \* trim retention, in clock units

VARIABLES ents,      \* physically stored entries; ents[i] has offset segs[1] + i - 1
          segs,      \* strictly increasing sequence of segment base offsets; last = writable segment
          first,     \* FirstOffset(); -1 when empty
          lastApp,   \* last appended offset; -1 when empty
          lastSync,  \* LastOffset(): last synced offset
          clock,     \* abstract time (entry timestamps are taken from it)
          res,       \* outcome of the last call ("ok" or an error class)
          ret        \* offset returned by the last call (TruncateLog), else -2

wvars == <<ents, segs, first, lastApp, lastSync, clock, res, ret>>

Last(s) == s[Len(s)]
Max(S) == CHOOSE x \in S : \A y \in S : y <= x
Min2(a, b) == IF a < b THEN a ELSE b

PBase == segs[1]                               \* offset of ents[1]
EntryAt(o) == ents[o - PBase + 1]
Stored == {PBase + i - 1 : i \in 1..Len(ents)}  \* offsets physically present
RecSize(e) == Header + e.size

RECURSIVE SumSizes(_, _)
SumSizes(s, from) == IF from > Len(s) THEN 0 ELSE RecSize(s[from]) + SumSizes(s, from + 1)
\* bytes used in the writable segment
UsedInCur == SumSizes(ents, Last(segs) - PBase + 1)

\* what a reader can see: offsets first..lastSync
Visible == IF first = -1 \/ lastSync < first THEN <<>>
           ELSE [i \in 1..(lastSync - first + 1) |-> EntryAt(first + i - 1)]

WInit == /\ ents = <<>> /\ segs = <<0>> /\ first = -1 /\ lastApp = -1 /\ lastSync = -1
         /\ clock = 0 /\ res = "init" /\ ret = -2

Cleared == /\ ents' = <<>> /\ segs' = <<0>> /\ first' = -1 /\ lastApp' = -1 /\ lastSync' = -1

(***************************************************************************)
(* AppendAsync(entry) -- wal_impl.go:appendAsync0                          *)
(***************************************************************************)
AppendOutcome(o, sz) ==
    IF o < 0 THEN "err_negative"
    ELSE IF lastApp # -1 /\ o # lastApp + 1 THEN "err_invalid_next_offset"
    ELSE IF Header + sz > SegSize THEN "err_too_large"
    ELSE "ok"

WAppend(o, sz, term, id) ==
    LET oc == AppendOutcome(o, sz) IN
    /\ res' = oc /\ ret' = -2
    /\ UNCHANGED <<lastSync, clock>>
    /\ IF oc = "ok"
       THEN LET fresh == lastApp = -1
                e     == [term |-> term, ts |-> clock, size |-> sz, id |-> id]
                segs1 == IF fresh THEN <<o>> ELSE segs
                roll  == ~fresh /\ UsedInCur + Header + sz > SegSize
            IN /\ segs' = IF roll THEN Append(segs1, o) ELSE segs1
               /\ ents' = Append(ents, e)
               /\ lastApp' = o
               /\ first' = IF first = -1 THEN o ELSE first
       ELSE UNCHANGED <<ents, segs, first, lastApp>>

(***************************************************************************)
(* Sync                                                                    *)
(***************************************************************************)
WSync == /\ lastSync' = lastApp /\ res' = "ok" /\ ret' = -2
         /\ UNCHANGED <<ents, segs, first, lastApp, clock>>

(***************************************************************************)
(* TruncateLog(o): keep entries <= o.  Outcome = returned offset or error. *)
(***************************************************************************)
WTruncate(o) ==
    /\ UNCHANGED clock
    /\ IF o = -1 THEN Cleared /\ res' = "ok" /\ ret' = -1
       ELSE IF lastApp = -1 THEN res' = "ok" /\ ret' = -1 /\ UNCHANGED <<ents, segs, first, lastApp, lastSync>>
       ELSE IF o > lastApp THEN res' = "err_out_of_bounds" /\ ret' = -1 /\ UNCHANGED <<ents, segs, first, lastApp, lastSync>>
       ELSE IF o < first THEN Cleared /\ res' = "ok" /\ ret' = -1
       ELSE /\ segs' = SelectSeq(segs, LAMBDA b : b <= o)
            /\ ents' = SubSeq(ents, 1, o - PBase + 1)
            /\ lastApp' = o /\ lastSync' = o /\ res' = "ok" /\ ret' = o
            /\ UNCHANGED first

WClear == Cleared /\ res' = "ok" /\ ret' = -2 /\ UNCHANGED clock

(***************************************************************************)
(* Trimmer round (trimmer.go:doTrim) with the given commit offset.         *)
(***************************************************************************)
Expired(o) == EntryAt(o).ts <= clock - Retention
Floor(S, x) == IF \E b \in S : b <= x THEN Max({b \in S : b <= x}) ELSE -1

WTrim(commit) ==
    /\ res' = "ok" /\ ret' = -2 /\ UNCHANGED <<lastApp, lastSync, clock>>
    /\ IF lastSync = -1 \/ first = -1 \/ lastSync < first \/ ~Expired(first)
       THEN UNCHANGED <<ents, segs, first>>
       ELSE LET hi == Max({o \in first..lastSync : Expired(o)})
                t  == Min2(hi, commit)
            IN IF t <= first THEN UNCHANGED <<ents, segs, first>>
               ELSE LET ro   == {segs[i] : i \in 1..(Len(segs) - 1)}
                        keep == IF Floor(ro, t) # -1 THEN Floor(ro, t) ELSE t
                        cut  == Floor(ro, keep - 1)
                        segs2 == IF cut = -1 THEN segs ELSE SelectSeq(segs, LAMBDA b : b > cut)
                    IN /\ segs' = segs2
                       /\ ents' = SubSeq(ents, segs2[1] - PBase + 1, Len(ents))
                       /\ first' = t

(***************************************************************************)
(* Close + reopen (wal_impl.go:recoverWal); a clean close loses nothing.   *)
(***************************************************************************)
WReopen ==
    /\ res' = "ok" /\ ret' = -2 /\ UNCHANGED <<ents, segs, lastApp, clock>>
    /\ lastSync' = lastApp
    /\ first' = IF lastApp = -1 THEN -1 ELSE segs[1]

WTick(n) == clock' = clock + n /\ res' = "ok" /\ ret' = -2 /\ UNCHANGED <<ents, segs, first, lastApp, lastSync>>

(***************************************************************************)
(* Properties of the model itself                                          *)
(***************************************************************************)
Shape ==
    /\ Len(segs) >= 1
    /\ \A i \in 1..(Len(segs) - 1) : segs[i] < segs[i + 1]
    /\ lastSync <= lastApp
    /\ (lastApp = -1) = (ents = <<>>)
    /\ (lastApp = -1) => first = -1
    /\ lastApp # -1 => /\ PBase + Len(ents) - 1 = lastApp      \* contiguous
                       /\ PBase <= first /\ first <= lastApp
                       /\ Last(segs) <= lastApp
\* every segment holds at most SegSize bytes
SegFits == \A i \in 1..Len(segs) :
              LET lo == segs[i]
                  hi == IF i < Len(segs) THEN segs[i + 1] - 1 ELSE lastApp
              IN SumSizes(SubSeq(ents, lo - PBase + 1, hi - PBase + 1), 1) <= SegSize
=============================================================================
