----------------------------- MODULE SessTrace -----------------------------
(* Trace validation for Sessions: is every recorded execution of a real RF=1 leader controller  *)
(* (CreateSession / KeepAlive / CloseSession / WriteBlock / election of a node whose DB lags    *)
(* its log / population of the shard around the range-delete threshold, session timers on the   *)
(* harness's tick clock, cleanups parked between listing and delete write) a behaviour of       *)
(* Sessions.tla - and does every state / step of it satisfy the C14 properties?                 *)
(* One line of trace.ndjson per call, in call order.  The call and its arguments are bound from *)
(* the line; the outcome, the per-operation results, the notification batch, the full ordered   *)
(* content, the raw shadow keys, the version counter, the clock, the armed timers with their    *)
(* deadlines and the parked cleanups with the keys they listed must equal what the              *)
(* specification says.  Many traces are concatenated; a "Reset" line starts the next one.       *)
EXTENDS Sessions, Json

CONSTANTS Scope,     \* aspects of the DB judged: subset of {"res", "recs", "lv", "idx", "shadow", "nf"}
          Guarded    \* TRUE: a trace that enters the known-finding pattern (Sessions!Race) is not judged
                     \*       from there to its end; FALSE: it is followed and judged like any other

TraceLog == ndJsonDeserialize("trace.ndjson")

VARIABLES sys, l, kf
tvars == <<sys, l, kf>>

TInit == sys = Sys0 /\ l = 1 /\ kf = FALSE

ObsOK(s, e) == LET o == SessObserve(s) IN
    /\ "recs" \in Scope => o.recs = e.recs
    /\ "idx" \in Scope => o.idx = e.idx
    /\ "shadow" \in Scope => o.shadow = e.shadow
    /\ "lv" \in Scope => o.lv = e.lv
    /\ o.now = e.now /\ o.armed = e.armed /\ o.pend = e.pend

\* r: what the specification computes for the call of line e
Match(r, e, withRes) ==
    /\ r.out = e.out /\ e.err = ""
    /\ r.off = e.off
    /\ (withRes /\ "res" \in Scope) => r.res = e.res
    /\ (r.off >= 0 /\ "nf" \in Scope) => r.nf = e.nf
    /\ ObsOK(r.sys, e)
    /\ sys' = r.sys

Known(e) == Guarded /\ e.a = "Write" /\ Race(sys, e.req)

TNext ==
    /\ l <= Len(TraceLog)
    /\ l' = l + 1
    /\ LET e == TraceLog[l] IN
       \/ e.a = "Reset" /\ sys' = Sys0 /\ kf' = FALSE
       \/ /\ ~kf /\ kf' = FALSE
          /\ \/ e.a = "Create" /\ LET r == DoCreate(sys, e.to) IN r.s = e.s /\ Match(r, e, TRUE)
             \/ e.a = "KeepAlive" /\ Match(DoKeepAlive(sys, e.s), e, FALSE)
             \/ e.a = "Tick" /\ Match(DoTick(sys), e, FALSE)
             \/ e.a = "CloseBegin" /\ CloseBeginEnabled(sys, e.s) /\ Match(DoCloseBegin(sys, e.s), e, FALSE)
             \/ e.a = "Cleanup" /\ e.s \in DOMAIN sys.pend /\ Match(DoCleanup(sys, e.s), e, FALSE)
             \/ e.a = "Write" /\ ~Known(e) /\ Match(DoWrite(sys, e.req), e, TRUE)
             \/ e.a = "LeaderChange" /\ LeaderChangeEnabled(sys) /\ LagOK(sys, e.lag)
                                      /\ Match(DoLeaderChange(sys, e.lag), e, FALSE)
             \/ e.a = "Fill" /\ Match(DoFill(sys, e.fill), e, FALSE)
       \* known finding sessCleanupRace (design/C14.md): not judged up to the next Reset
       \/ ~kf /\ Known(e) /\ sys' = sys /\ kf' = TRUE
       \/ kf /\ e.a # "Reset" /\ sys' = sys /\ kf' = kf

TraceSpec == TInit /\ [][TNext]_tvars

TraceInv == kf \/ StateProps(sys)
\* the step properties, for the call of the line just consumed
TraceSteps == [][ (l' = l + 1 /\ l <= Len(TraceLog) /\ TraceLog[l].a # "Reset" /\ ~kf /\ ~kf')
                      => StepProps(sys, TraceLog[l], sys') ]_tvars

HighWater == IF l > TLCGet(1) THEN TLCSet(1, l) ELSE TRUE
ASSUME TLCSet(1, 0)
TraceAccepted ==
    IF TLCGet(1) = Len(TraceLog) + 1 THEN TRUE
    ELSE Print(<<"REJECTED", TLCGet(1), Len(TraceLog)>>, FALSE)
=============================================================================
