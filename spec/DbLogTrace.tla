----------------------------- MODULE DbLogTrace -----------------------------
(* Trace validation for the route "applied live on a leader under concurrent  *)
(* writers and racing acknowledgements" (C06): the recording is the leader's   *)
(* own log - one "Entry" line per logged request, in offset order, with the    *)
(* offset, the (order-preserving, renumbered) timestamp of the entry and the   *)
(* notification batch the leader serves for that offset -                      *)
(* followed by a "State" line: what the leader exposes after it answered every *)
(* request (all records read back through List / RangeScan / Get, raw index    *)
(* and shadow keys, the persisted version counter).  TLC folds OxiaDb!Apply    *)
(* over the entries; the exposed state must be the result.  A rejected "State" *)
(* line means the leader's database is not what its log says.                  *)
EXTENDS OxiaDb, Json

TraceLog == ndJsonDeserialize("trace.ndjson")

VARIABLES st, l
tvars == <<st, l>>

RECURSIVE QSort(_)
QSort(S) == IF S = {} THEN <<>>
            ELSE LET p == CHOOSE x \in S : TRUE
                     L == {y \in S : KeyLt(y, p)}
                     G == (S \ L) \ {p}
                 IN QSort(L) \o <<p>> \o QSort(G)
FastRecs(s) == LET ks == QSort(DOMAIN s.kv) IN [i \in 1..Len(ks) |-> RecOf(s.kv, ks[i])]

TInit == st = InitState /\ l = 1

TNext ==
    /\ l <= Len(TraceLog)
    /\ l' = l + 1
    /\ LET e == TraceLog[l] IN
       \/ e.a = "Reset" /\ st' = InitState
       \/ /\ e.a = "Entry" /\ e.err = "" /\ WellFormed(e.req) /\ ~SeqStateError(st, e.req)
          /\ LET ap == Apply(st, e.req, e.off, e.ts) IN
             /\ NfSeq(ap.nf) = e.nf          \* the notification batch the leader serves for this offset
             /\ st' = ap.s
       \/ /\ e.a = "State" /\ e.err = ""
          /\ FastRecs(st) = e.recs
          /\ QSort({IdxKey(x.n, x.k, x.p) : x \in st.idx}) = e.idx
          /\ QSort({ShadowKey(x[1], x[2]) : x \in st.shadow}) = e.shadow
          /\ st.lastVer = e.lv
          /\ st' = st

TraceSpec == TInit /\ [][TNext]_tvars

TraceInv == IndexMirror(st) /\ ShadowMirror(st) /\ VersionsSane(st)

HighWater == IF l > TLCGet(1) THEN TLCSet(1, l) ELSE TRUE
ASSUME TLCSet(1, 0)
TraceAccepted ==
    IF TLCGet(1) = Len(TraceLog) + 1 THEN TRUE
    ELSE Print(<<"REJECTED", TLCGet(1), Len(TraceLog)>>, FALSE)
=============================================================================
