----------------------------- MODULE SeqWaiters -----------------------------
(* server/kv/db_sequences_wait_tracker.go + db.go:GetSequenceUpdates: the     *)
(* subscribers of sequence updates of one shard (C16, last sentence: "a       *)
(* sequence-update subscriber always eventually observes the latest generated *)
(* key").                                                                     *)
(*   Subscribe(p)  AddSequenceWaiter: a new waiter (handle) is registered in  *)
(*                 the tracker's map of prefix p under a tracker id; it is     *)
(*                 handed the current last key of the prefix at once           *)
(*   Put(p)        a sequence put on prefix p generates the next key;          *)
(*                 SequenceUpdated writes it into the channel of every waiter  *)
(*                 registered for p (latest-value channel: it replaces an      *)
(*                 unread older key, see OverrideChannel.tla)                  *)
(*   Close(w)      the waiter unregisters its tracker id and closes its channel*)
(*   Drain         every waiter's channel is read without blocking (this is    *)
(*                 how the harness observes; obs = what each handle returned:  *)
(*                 a key, 0 = nothing to read, -1 = channel closed)            *)
(* The tracker is modelled in the shape of the code - a map id -> waiter per   *)
(* prefix, Close deletes by id - so that the way ids are chosen matters:       *)
(* IdFromMapSize = TRUE is the mutant "id := len(map) + 1".                    *)
(* Keys of a prefix are named by their number (the n-th key generated); their  *)
(* numeric suffixes are uint64 values kept as 20-digit decimal strings (sfx,    *)
(* arithmetic of OxiaDb.tla), because GetSequenceUpdates finds "the current     *)
(* last key" by a reverse scan over a RANGE of suffixes: the scan has to cover  *)
(* every suffix a sequence can reach, 0 .. 2^64-1 (InitRead).  A sequence is    *)
(* moved anywhere in that range by its deltas: in the bounded model the first   *)
(* put of a prefix in BigPrefixes has the delta 2^63-1 (so its second key       *)
(* crosses 2^63), every other put the delta 1; traces carry arbitrary deltas.   *)
(* ScanBelowMaxInt64 = TRUE is the mutant "the scan stops below                 *)
(* prefix-%020d(math.MaxInt64)".                                                *)
EXTENDS Integers, Sequences, FiniteSets, TLC, Json

CONSTANTS Prefixes, IdFromMapSize, MaxWaiters, MaxPuts, MaxSteps, Export,
          BigPrefixes,         \* prefixes whose first delta is 2^63-1
          ScanBelowMaxInt64    \* mutant of the initial read

Db == INSTANCE OxiaDb          \* decimal uint64 arithmetic: Sum21 / Exceeds64 / AddU64 / PadLeft20 / BytesCmp

VARIABLES latest,   \* prefix -> number of the last generated key (0 = none)
          sfx,      \* prefix -> the suffixes generated so far (20-digit strings), sfx[p][n] = suffix of key n
          wp,       \* handle -> prefix                (handles are 1..Len(wp))
          tid,      \* handle -> tracker id
          open,     \* handle -> not closed
          buf,      \* handle -> channel content, <<>> or <<k>>
          seen,     \* handle -> last key the subscriber read (0 = none)
          reg,      \* prefix -> [tracker id -> handle]
          idGen,    \* the tracker's id counter
          hist      \* recorded steps (for replay on the real code)
vars == <<latest, sfx, wp, tid, open, buf, seen, reg, idGen, hist>>
View == <<latest, wp, tid, open, buf, seen, reg, idGen, Len(hist)>>

Handles == 1..Len(wp)
Registered(w) == \E i \in DOMAIN reg[wp[w]] : reg[wp[w]][i] = w
EmptyMap == [i \in {} |-> 0]

One20   == Db!PadLeft20(<<49>>)
MaxI64  == Db!PadLeft20(<<57,50,50,51,51,55,50,48,51,54,56,53,52,55,55,53,56,48,55>>)    \* 2^63-1
DeltaOf(p) == IF latest[p] = 0 /\ p \in BigPrefixes THEN MaxI64 ELSE One20
CurSfx(p)  == IF latest[p] = 0 THEN Db!Zero20 ELSE sfx[p][latest[p]]
(* db.go:GetSequenceUpdates - the number of the highest existing key of the prefix whose suffix lies in the   *)
(* scanned range (0 = there is none).  Suffixes grow, so with the whole uint64 range scanned this is latest[p]. *)
InScan(x)   == IF ScanBelowMaxInt64 THEN Db!BytesCmp(x, MaxI64) < 0 ELSE Db!BytesCmp(x, Db!MaxU64) <= 0
InitRead(p) == LET S == {n \in 1..latest[p] : InScan(sfx[p][n])} IN IF S = {} THEN 0 ELSE CHOOSE n \in S : \A m \in S : m <= n

Init == /\ latest = [p \in Prefixes |-> 0] /\ sfx = [p \in Prefixes |-> <<>>] /\ wp = <<>> /\ tid = <<>> /\ open = <<>> /\ buf = <<>> /\ seen = <<>>
        /\ reg = [p \in Prefixes |-> EmptyMap] /\ idGen = 0 /\ hist = <<>>

Rec(r) == hist' = Append(hist, r)

Subscribe(p) ==
    LET id == IF IdFromMapSize THEN Cardinality(DOMAIN reg[p]) + 1 ELSE idGen + 1
        w  == Len(wp) + 1
    IN /\ Len(wp) < MaxWaiters
       /\ idGen' = idGen + 1
       /\ reg' = [reg EXCEPT ![p] = (id :> w) @@ @]          \* im[id] = sw
       /\ wp' = Append(wp, p) /\ tid' = Append(tid, id) /\ open' = Append(open, TRUE)
       /\ buf' = Append(buf, IF InitRead(p) > 0 THEN <<InitRead(p)>> ELSE <<>>)
       /\ seen' = Append(seen, 0)
       /\ UNCHANGED <<latest, sfx>>
       /\ Rec([a |-> "Sub", p |-> p, w |-> w, k |-> 0, obs |-> <<>>, d |-> <<>>, sfx |-> <<>>])

\* a sequence put with the delta d (a 20-digit string, > 0) whose exact result is a uint64 (beyond: OxiaDb!SeqOverflow)
PutD(p, d) ==
    /\ latest[p] < MaxPuts
    /\ d # Db!Zero20 /\ ~Db!Exceeds64(Db!Sum21(CurSfx(p), d))
    /\ latest' = [latest EXCEPT ![p] = @ + 1]
    /\ sfx' = [sfx EXCEPT ![p] = Append(@, Db!AddU64(CurSfx(p), d))]
    /\ buf' = [w \in Handles |-> IF wp[w] = p /\ Registered(w) THEN <<latest[p] + 1>> ELSE buf[w]]
    /\ UNCHANGED <<wp, tid, open, seen, reg, idGen>>
    /\ Rec([a |-> "Put", p |-> p, w |-> 0, k |-> latest[p] + 1, obs |-> <<>>, d |-> d, sfx |-> Db!AddU64(CurSfx(p), d)])
Put(p) == PutD(p, DeltaOf(p))

Close(w) ==
    /\ w \in Handles /\ open[w]
    /\ open' = [open EXCEPT ![w] = FALSE]
    /\ reg' = [reg EXCEPT ![wp[w]] = [i \in DOMAIN @ \ {tid[w]} |-> @[i]] @@ EmptyMap]   \* delete(im, id)
    /\ UNCHANGED <<latest, sfx, wp, tid, buf, seen, idGen>>
    /\ Rec([a |-> "Close", p |-> wp[w], w |-> w, k |-> 0, obs |-> <<>>, d |-> <<>>, sfx |-> <<>>])

ObsOf(w) == IF buf[w] # <<>> THEN buf[w][1] ELSE IF open[w] THEN 0 ELSE -1
Drain ==
    /\ buf' = [w \in Handles |-> <<>>]
    /\ seen' = [w \in Handles |-> IF buf[w] # <<>> /\ open[w] THEN buf[w][1] ELSE seen[w]]
    /\ UNCHANGED <<latest, sfx, wp, tid, open, reg, idGen>>
    /\ Rec([a |-> "Drain", p |-> "", w |-> 0, k |-> 0, obs |-> [w \in Handles |-> ObsOf(w)], d |-> <<>>, sfx |-> <<>>])

Next == /\ Len(hist) < MaxSteps
        /\ \/ \E p \in Prefixes : Subscribe(p) \/ Put(p)
           \/ \E w \in Handles : Close(w)
           \/ (Handles # {} /\ Drain)
Spec == Init /\ [][Next]_vars

-----------------------------------------------------------------------------
\* every live subscriber is registered (so that it will be told about the next key)
LiveRegistered == \A w \in Handles : open[w] => Registered(w)
\* a live subscriber has read the latest key of its prefix, or that key is waiting in its channel:
\* at quiescence (channels drained) every live subscriber has observed the latest generated key
LatestKept == \A w \in Handles : open[w] =>
                 IF buf[w] # <<>> THEN buf[w][1] = latest[wp[w]] ELSE seen[w] = latest[wp[w]]
\* a closed subscriber is never written to again
ClosedSilent == [][\A w \in Handles : ~open[w] => (buf'[w] = buf[w] \/ buf'[w] = <<>>)]_vars
\* closing one subscriber does not touch any other
CloseIndependent == [][ (Len(hist') > Len(hist) /\ hist'[Len(hist')].a = "Close") =>
                          \A w \in Handles : w # hist'[Len(hist')].w =>
                              (open'[w] = open[w] /\ buf'[w] = buf[w] /\ (Registered(w) => Registered(w)')) ]_vars

ExportSteps == (Export = "steps") => PrintT(<<"STEP", ToJson(hist')>>)
ExportRuns  == (Export = "runs" /\ Len(hist) = MaxSteps) => PrintT(<<"RUN", ToJson(hist)>>)
=============================================================================
