----------------------------- MODULE SeqWaiters -----------------------------
(* server/kv/db_sequences_wait_tracker.go + db.go:GetSequenceUpdates: the     *)
(* subscribers of sequence updates of one shard (C16, last sentence: "a       *)
(* sequence-update subscriber always eventually observes the latest generated *)
(* key").                                                                     *)
(*   Subscribe(p)  AddSequenceWaiter: a new waiter (handle) is registered in  *)
(*                 the tracker's map of prefix p under a tracker id; it is     *)
(*                 handed the current last key of the prefix at once           *)
(*   Put(p)        a sequence put on prefix p generates the next key;          *)
(*                 SequenceUpdated writes it into the channel of every waiter  *)
(*                 registered for p (latest-value channel: it replaces an      *)
(*                 unread older key, see OverrideChannel.tla)                  *)
(*   Close(w)      the waiter unregisters its tracker id and closes its channel*)
(*   Drain         every waiter's channel is read without blocking (this is    *)
(*                 how the harness observes; obs = what each handle returned:  *)
(*                 a key, 0 = nothing to read, -1 = channel closed)            *)
(* The tracker is modelled in the shape of the code - a map id -> waiter per   *)
(* prefix, Close deletes by id - so that the way ids are chosen matters:       *)
(* IdFromMapSize = TRUE is the mutant "id := len(map) + 1".                    *)
(* Keys of a prefix are abstracted to their number (the n-th key generated).   *)
EXTENDS Integers, Sequences, FiniteSets, TLC, Json

CONSTANTS Prefixes, IdFromMapSize, MaxWaiters, MaxPuts, MaxSteps, Export

VARIABLES latest,   \* prefix -> number of the last generated key (0 = none)
          wp,       \* handle -> prefix                (handles are 1..Len(wp))
          tid,      \* handle -> tracker id
          open,     \* handle -> not closed
          buf,      \* handle -> channel content, <<>> or <<k>>
          seen,     \* handle -> last key the subscriber read (0 = none)
          reg,      \* prefix -> [tracker id -> handle]
          idGen,    \* the tracker's id counter
          hist      \* recorded steps (for replay on the real code)
vars == <<latest, wp, tid, open, buf, seen, reg, idGen, hist>>
View == <<latest, wp, tid, open, buf, seen, reg, idGen, Len(hist)>>

Handles == 1..Len(wp)
Registered(w) == \E i \in DOMAIN reg[wp[w]] : reg[wp[w]][i] = w
EmptyMap == [i \in {} |-> 0]

Init == /\ latest = [p \in Prefixes |-> 0] /\ wp = <<>> /\ tid = <<>> /\ open = <<>> /\ buf = <<>> /\ seen = <<>>
        /\ reg = [p \in Prefixes |-> EmptyMap] /\ idGen = 0 /\ hist = <<>>

Rec(r) == hist' = Append(hist, r)

Subscribe(p) ==
    LET id == IF IdFromMapSize THEN Cardinality(DOMAIN reg[p]) + 1 ELSE idGen + 1
        w  == Len(wp) + 1
    IN /\ Len(wp) < MaxWaiters
       /\ idGen' = idGen + 1
       /\ reg' = [reg EXCEPT ![p] = (id :> w) @@ @]          \* im[id] = sw
       /\ wp' = Append(wp, p) /\ tid' = Append(tid, id) /\ open' = Append(open, TRUE)
       /\ buf' = Append(buf, IF latest[p] > 0 THEN <<latest[p]>> ELSE <<>>)
       /\ seen' = Append(seen, 0)
       /\ UNCHANGED latest
       /\ Rec([a |-> "Sub", p |-> p, w |-> w, k |-> 0, obs |-> <<>>])

Put(p) ==
    /\ latest[p] < MaxPuts
    /\ latest' = [latest EXCEPT ![p] = @ + 1]
    /\ buf' = [w \in Handles |-> IF wp[w] = p /\ Registered(w) THEN <<latest[p] + 1>> ELSE buf[w]]
    /\ UNCHANGED <<wp, tid, open, seen, reg, idGen>>
    /\ Rec([a |-> "Put", p |-> p, w |-> 0, k |-> latest[p] + 1, obs |-> <<>>])

Close(w) ==
    /\ w \in Handles /\ open[w]
    /\ open' = [open EXCEPT ![w] = FALSE]
    /\ reg' = [reg EXCEPT ![wp[w]] = [i \in DOMAIN @ \ {tid[w]} |-> @[i]] @@ EmptyMap]   \* delete(im, id)
    /\ UNCHANGED <<latest, wp, tid, buf, seen, idGen>>
    /\ Rec([a |-> "Close", p |-> wp[w], w |-> w, k |-> 0, obs |-> <<>>])

ObsOf(w) == IF buf[w] # <<>> THEN buf[w][1] ELSE IF open[w] THEN 0 ELSE -1
Drain ==
    /\ buf' = [w \in Handles |-> <<>>]
    /\ seen' = [w \in Handles |-> IF buf[w] # <<>> /\ open[w] THEN buf[w][1] ELSE seen[w]]
    /\ UNCHANGED <<latest, wp, tid, open, reg, idGen>>
    /\ Rec([a |-> "Drain", p |-> "", w |-> 0, k |-> 0, obs |-> [w \in Handles |-> ObsOf(w)]])

Next == /\ Len(hist) < MaxSteps
        /\ \/ \E p \in Prefixes : Subscribe(p) \/ Put(p)
           \/ \E w \in Handles : Close(w)
           \/ (Handles # {} /\ Drain)
Spec == Init /\ [][Next]_vars

-----------------------------------------------------------------------------
\* every live subscriber is registered (so that it will be told about the next key)
LiveRegistered == \A w \in Handles : open[w] => Registered(w)
\* a live subscriber has read the latest key of its prefix, or that key is waiting in its channel:
\* at quiescence (channels drained) every live subscriber has observed the latest generated key
LatestKept == \A w \in Handles : open[w] =>
                 IF buf[w] # <<>> THEN buf[w][1] = latest[wp[w]] ELSE seen[w] = latest[wp[w]]
\* a closed subscriber is never written to again
ClosedSilent == [][\A w \in Handles : ~open[w] => (buf'[w] = buf[w] \/ buf'[w] = <<>>)]_vars
\* closing one subscriber does not touch any other
CloseIndependent == [][ (Len(hist') > Len(hist) /\ hist'[Len(hist')].a = "Close") =>
                          \A w \in Handles : w # hist'[Len(hist')].w =>
                              (open'[w] = open[w] /\ buf'[w] = buf[w] /\ (Registered(w) => Registered(w)')) ]_vars

ExportSteps == (Export = "steps") => PrintT(<<"STEP", ToJson(hist')>>)
ExportRuns  == (Export = "runs" /\ Len(hist) = MaxSteps) => PrintT(<<"RUN", ToJson(hist)>>)
=============================================================================
