---------------------------- MODULE StatusResTrace ----------------------------
(* Every durable store recorded under a real StatusResource used concurrently  *)
(* by an "election" writer and several "configuration" writers (harness/cmd/   *)
(* statuscheck) must be a step of StatusRes: the store of a Swap is explained  *)
(* only if the version the caller had loaded is still the current one, and the *)
(* durable term never decreases.  Lines: "load" (caller, ver, term), "store"   *)
(* (by: "election" | caller name, term, nmarks), "swapret" (caller, ok).       *)
EXTENDS StatusRes, Json, TLC, Sequences

TraceLog == ndJsonDeserialize("trace.ndjson")
VARIABLE l
tvars == <<ver, dterm, marks, loaded, l>>

TInit == SInit /\ l = 1
Step(e) ==
    \/ e.ev = "round" /\ ver' = 0 /\ dterm' = 0 /\ marks' = {} /\ loaded' = [c \in Callers |-> NULL]
    \* the line is written after the call returned: it may show a version that is not the current one any more
    \/ /\ e.ev = "load" /\ loaded[e.c] = NULL /\ e.ver <= ver /\ (e.ver = ver => e.term = dterm)
       /\ loaded' = [loaded EXCEPT ![e.c] = [ver |-> e.ver, term |-> e.term, marks |-> marks]]
       /\ UNCHANGED <<ver, dterm, marks>>
    \/ e.ev = "store" /\ e.by = "election" /\ ElectionStore /\ dterm' = e.term
    \/ e.ev = "store" /\ e.by # "election" /\ loaded[e.by] # NULL /\ loaded[e.by].ver = ver /\ Swap(e.by) /\ dterm' = e.term
    \/ e.ev = "swapfail" /\ loaded[e.c] # NULL /\ loaded[e.c].ver # ver /\ Swap(e.c)
TNext == l <= Len(TraceLog) /\ l' = l + 1 /\ Step(TraceLog[l])
TraceSpec == TInit /\ [][TNext]_tvars

HighWater == IF l > TLCGet(1) THEN TLCSet(1, l) ELSE TRUE
ASSUME TLCSet(1, 0)
TraceAccepted == IF TLCGet(1) = Len(TraceLog) + 1 THEN TRUE ELSE Print(<<"REJECTED", TLCGet(1), Len(TraceLog)>>, FALSE)
=============================================================================
