----------------------------- MODULE WritePipeMC -----------------------------
(* Bounded model of WritePipe: 2 streams, 2 keys, every kind of request,      *)
(* at most MaxSend requests per stream.  `hist` records, per stream, the      *)
(* requests in send order and the responses in arrival order, so that the     *)
(* pairing-by-position contract can be stated as an invariant.                *)
EXTENDS WritePipe, TLC

CONSTANTS Streams, Keys, MaxSend
VARIABLES sentLog,   \* stream -> sequence of requests sent
          respLog    \* stream -> sequence of <<request, response>> in the order the responses were produced
mvars == <<clock, kv, q, applied, sentLog, respLog>>

Exps == {NoExp, -1, 1, 2}
Reqs == [kind : {"put", "del"}, key : Keys, exp : Exps]

MInit == PInit(0) /\ sentLog = [s \in Streams |-> <<>>] /\ respLog = [s \in Streams |-> <<>>]

MSend(s, r) == /\ Len(sentLog[s]) < MaxSend /\ Send(s, r)
               /\ sentLog' = [sentLog EXCEPT ![s] = Append(@, r)] /\ UNCHANGED respLog
MApply(s) == /\ s \in DOMAIN q /\ q[s] # <<>>
             /\ respLog' = [respLog EXCEPT ![s] = Append(@, <<Head(q[s]), Resp(Head(q[s]))>>)]
             /\ Apply(s) /\ UNCHANGED sentLog
MNext == \E s \in Streams : MApply(s) \/ \E r \in Reqs : MSend(s, r)
MSpec == MInit /\ [][MNext]_mvars

\* the k-th response of a stream answers its k-th request
PairedByPosition == \A s \in Streams : \A k \in 1..Len(respLog[s]) : respLog[s][k][1] = sentLog[s][k]
\* version ids are handed out once
VersionsUnique == \A a, b \in DOMAIN kv : (a # b /\ kv[a] # 0) => kv[a] # kv[b]
VerLeClock == \A a \in DOMAIN kv : kv[a] <= clock
\* every live record carries the version id that exactly one successful put reported to its caller
LiveIsReported == \A a \in DOMAIN kv : kv[a] # 0 =>
                     Cardinality({<<s, k>> \in Streams \X (1..MaxSend) : k <= Len(respLog[s]) /\ respLog[s][k][1].key = a
                                      /\ respLog[s][k][1].kind = "put" /\ respLog[s][k][2].ver = kv[a]}) = 1
ClockMonotone == [][clock' >= clock]_mvars
=============================================================================
