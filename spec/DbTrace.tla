----------------------------- MODULE DbTrace -----------------------------
(* Trace validation: is every recorded execution of the real state machine *)
(* (a bare kv.DB driven through ProcessWrite, or an RF=1 leader controller *)
(* driven through WriteBlock / CreateSession / restart) a behaviour of     *)
(* OxiaDb?  One line of trace.ndjson per call, in call order (requests are *)
(* applied one at a time; the linearization point is the return).          *)
(* The request is bound from the line; the per-operation results, the      *)
(* notification batch, the complete ordered content read back through      *)
(* RangeScan/List/Get, the raw index and shadow keys, the persisted        *)
(* version counter and the answers to the index queries recorded after the *)
(* call must equal what Apply says.  There is no "infrastructure error"    *)
(* outcome in the specification: a line that carries one is rejected.      *)
(* Many traces are concatenated; a "Reset" line starts the next one.       *)
EXTENDS OxiaDb, Json

CONSTANT Scope    \* aspects judged: subset of {"res", "recs", "lv", "idx", "shadow", "nf", "probes"}

TraceLog == ndJsonDeserialize("trace.ndjson")

VARIABLES st, l, kf
tvars == <<st, l, kf>>

TInit == st = InitState /\ l = 1 /\ kf = FALSE

\* (the components of Observe(s), each computed only when it is judged: sorting the entry keys of a record
\* with a hundred declarations is expensive)
ObsOK(s, e) ==
    /\ "recs" \in Scope => Recs(s) = e.recs
    /\ "idx" \in Scope => IdxKeys(s) = e.idx
    /\ "shadow" \in Scope => ShadowKeys(s) = e.shadow
    /\ "lv" \in Scope => s.lastVer = e.lv
ProbesOK(s, e) == "probes" \in Scope =>
    /\ \A i \in 1..Len(e.gets) :
          LET g == e.gets[i] IN IdxGet(s, g.n, g.key, g.cmp) = [found |-> g.found, p |-> g.p, k |-> g.k]
    /\ \A i \in 1..Len(e.lists) :
          LET q == e.lists[i] IN IdxList(s, q.n, q.s, q.e) = q.ps

TNext ==
    /\ l <= Len(TraceLog)
    /\ l' = l + 1
    /\ LET e == TraceLog[l] IN
       \/ e.a = "Reset" /\ st' = InitState /\ kf' = FALSE
       \* an accepted write
       \/ /\ e.a = "Write" /\ ~kf /\ WellFormed(e.req) /\ ~SeqStateError(st, e.req)
          /\ e.err = ""
          /\ LET ap == Apply(st, e.req, e.off, e.ts) IN
             /\ "res" \in Scope => ap.res = e.res
             /\ "nf" \in Scope => NfSeq(ap.nf) = e.nf
             /\ ObsOK(ap.s, e) /\ ProbesOK(ap.s, e)
             /\ st' = ap.s
          /\ kf' = FALSE
       \* refused by the leader before logging: nothing happens
       \/ /\ e.a = "Write" /\ ~kf /\ ~WellFormed(e.req)
          /\ e.err = "REJECTED"
          /\ ObsOK(st, e) /\ ProbesOK(st, e)
          /\ st' = st /\ kf' = FALSE
       \* close + re-create (replays the log): nothing changes
       \/ /\ e.a = "Restart" /\ ~kf
          /\ e.err = ""
          /\ ObsOK(st, e) /\ ProbesOK(st, e)
          /\ st' = st /\ kf' = FALSE
       \* known finding (design/C13.md): the outcome of such a request is not judged and the
       \* rest of the trace (up to the next Reset) is skipped
       \/ /\ e.a = "Write" /\ ~kf /\ WellFormed(e.req) /\ SeqStateError(st, e.req)
          /\ st' = st /\ kf' = TRUE
       \* known finding seqOverflow (design/C16.md): a sequence put whose exact result is not a uint64.  Apply
       \* transcribes what the code does today (the sum wraps), so such a line is normally consumed by the first
       \* branch; a line that shows any other treatment of the overflow is not judged and ends the trace
       \/ /\ e.a = "Write" /\ ~kf /\ WellFormed(e.req) /\ SeqOverflow(st, e.req) /\ ~SeqStateError(st, e.req)
          /\ st' = st /\ kf' = TRUE
       \/ /\ kf /\ e.a # "Reset" /\ st' = st /\ kf' = kf

TraceSpec == TInit /\ [][TNext]_tvars

TraceInv == IndexMirror(st) /\ ShadowMirror(st) /\ VersionsSane(st)
\* for hostile request streams (C13): a record put under the internal prefix with an index or a session and
\* then removed by an internal range is not cleaned up - the mirrors are only claimed for client key spaces
TraceInvBasic == VersionsSane(st)
\* (... and for sequence-heavy streams over the whole uint64 range (C16): a sequence put never looks at the record
\* under the key it generates, so one that wraps onto a live key (finding seqOverflow) replaces that record
\* without removing its index entries)

\* high-water mark of consumed lines (diagnostics and acceptance)
HighWater == IF l > TLCGet(1) THEN TLCSet(1, l) ELSE TRUE
ASSUME TLCSet(1, 0)
TraceAccepted ==
    IF TLCGet(1) = Len(TraceLog) + 1 THEN TRUE
    ELSE Print(<<"REJECTED", TLCGet(1), Len(TraceLog)>>, FALSE)
=============================================================================
