---------------------------- MODULE WritePipeTrace ----------------------------
(* Recorded executions of pipelined write streams against a real standalone  *)
(* server (harness/cmd/pipecheck) must be behaviours of WritePipe.  The      *)
(* recorder copies onto every "send" line the response that arrived at the   *)
(* same position of that stream (`fstatus`, `fver`): a silent Apply step is  *)
(* taken only when the response WritePipe computes equals it, so the search  *)
(* is almost deterministic and a response that belongs to another request    *)
(* (or an application order that differs from the send order) leaves no      *)
(* enabled step.  "recv" lines: the k-th response of a stream cannot arrive  *)
(* before its k-th request was applied.  "get" lines (after all streams      *)
(* ended): the final store equals the model's.  "round" starts a new run.    *)
EXTENDS WritePipe, Json, TLC

TraceLog == ndJsonDeserialize("trace.ndjson")
VARIABLE l
tvars == <<clock, kv, q, applied, l>>

TInit == PInit(0) /\ l = 1

Req(e) == [kind |-> e.kind, key |-> e.key, exp |-> e.exp, fstatus |-> e.fstatus, fver |-> e.fver]

Consume ==
    /\ l <= Len(TraceLog)
    /\ l' = l + 1
    /\ LET e == TraceLog[l] IN
       \/ e.ev = "round" /\ clock' = e.base /\ kv' = [k \in {} |-> 0] /\ q' = [s \in {} |-> <<>>] /\ applied' = [s \in {} |-> 0]
       \/ e.ev = "send" /\ Send(e.s, Req(e))
       \/ e.ev = "recv" /\ AppliedOf(e.s) >= e.k /\ UNCHANGED pvars
       \/ /\ e.ev = "get" /\ \A s \in DOMAIN q : q[s] = <<>>
          /\ Ver(e.key) = e.ver
          /\ UNCHANGED pvars

Silent ==
    /\ l <= Len(TraceLog)
    /\ \E s \in DOMAIN q :
          /\ q[s] # <<>>
          /\ LET r == Head(q[s]) a == Resp(r) IN a.status = r.fstatus /\ a.ver = r.fver
          /\ Apply(s)
    /\ UNCHANGED l

TNext == Consume \/ Silent
TraceSpec == TInit /\ [][TNext]_tvars

HighWater == IF l > TLCGet(1) THEN TLCSet(1, l) ELSE TRUE
ASSUME TLCSet(1, 0)
TraceAccepted == IF TLCGet(1) = Len(TraceLog) + 1 THEN TRUE ELSE Print(<<"REJECTED", TLCGet(1), Len(TraceLog)>>, FALSE)
=============================================================================
