----------------------------- MODULE SlashOrder -----------------------------
(***************************************************************************)
(* The hierarchical ("slash") key order of Oxia and what the storage       *)
(* engine is told about it.                                                *)
(*                                                                         *)
(* Keys are sequences of byte codes (0..255).  Everything below is a       *)
(* transcription, statement by statement, of Go code:                      *)
(*   Cmp                 common/compare/compare_with_slash.go:             *)
(*                       CompareWithSlash (the loop, 1:1)                  *)
(*   AbbrevSlash         same file: AbbreviatedKeyDisableSlash             *)
(*   BytewiseSeparator / BytewiseSuccessor / BytewiseImmSucc /             *)
(*   AbbrevBytewise      pebble DefaultComparer (internal/base/comparer.go)*)
(*   IdentitySeparator / IdentitySuccessor   "return the left key"         *)
(*   EffSep / EffSucc    pebble InternalKey.Separator / .Successor: the    *)
(*                       engine only uses the comparer's answer when it is *)
(*                       not longer than, and sorts after, the left key    *)
(*                                                                         *)
(* The module has no constants and no variables: it is the vocabulary.     *)
(* SlashOrderMC enumerates keys and checks the laws; OrderedKV uses Cmp.   *)
(***************************************************************************)
EXTENDS Integers, Sequences, FiniteSets

Slash == 47
MinI(x, y) == IF x < y THEN x ELSE y

(* bytes.IndexByte(s, '/'): 0-based position of the first '/', or -1 *)
RECURSIVE IdxFrom(_, _)
IdxFrom(s, i) == IF i > Len(s) THEN -1 ELSE IF s[i] = Slash THEN i - 1 ELSE IdxFrom(s, i + 1)
IndexSlash(s) == IdxFrom(s, 1)

(* bytes.Compare *)
RECURSIVE BC(_, _, _)
BC(a, b, i) ==
    IF i > Len(a) /\ i > Len(b) THEN 0
    ELSE IF i > Len(a) THEN -1
    ELSE IF i > Len(b) THEN 1
    ELSE IF a[i] < b[i] THEN -1
    ELSE IF a[i] > b[i] THEN 1
    ELSE BC(a, b, i + 1)
BytesCompare(a, b) == BC(a, b, 1)

(* a[from:] with a 0-based `from` *)
Tail0(a, from) == SubSeq(a, from + 1, Len(a))
(* a[:to] with a 0-based exclusive `to` *)
Head0(a, to) == SubSeq(a, 1, to)

(***************************************************************************)
(* func CompareWithSlash(a, b []byte) int                                  *)
(*   for len(a) > 0 && len(b) > 0 {                                        *)
(*     idxA, idxB := IndexByte(a,'/'), IndexByte(b,'/')                    *)
(*     switch { both < 0: return bytes.Compare(a,b)                        *)
(*              idxA < 0 && idxB >= 0: return -1                           *)
(*              idxA >= 0 && idxB < 0: return +1 }                         *)
(*     spanRes := bytes.Compare(a[:idxA], b[:idxB]); if != 0 return it     *)
(*     a, b = a[idxA+1:], b[idxB+1:]                                       *)
(*   }                                                                     *)
(*   len(a) < len(b): -1 ; len(a) > len(b): +1 ; else 0                    *)
(***************************************************************************)
RECURSIVE Cmp(_, _)
Cmp(a, b) ==
    IF Len(a) > 0 /\ Len(b) > 0 THEN
        LET ia == IndexSlash(a)
            ib == IndexSlash(b)
        IN  IF ia < 0 /\ ib < 0 THEN BytesCompare(a, b)
            ELSE IF ia < 0 /\ ib >= 0 THEN -1
            ELSE IF ia >= 0 /\ ib < 0 THEN 1
            ELSE LET r == BytesCompare(Head0(a, ia), Head0(b, ib))
                 IN  IF r # 0 THEN r ELSE Cmp(Tail0(a, ia + 1), Tail0(b, ib + 1))
    ELSE IF Len(a) < Len(b) THEN -1
    ELSE IF Len(a) > Len(b) THEN 1
    ELSE 0

Lt(a, b) == Cmp(a, b) < 0
Le(a, b) == Cmp(a, b) <= 0

(***************************************************************************)
(* The order laws (property C11, first sentence).                          *)
(***************************************************************************)
CmpRange(a, b)      == Cmp(a, b) \in {-1, 0, 1}
Irreflexive(a)      == ~Lt(a, a)
EqConsistent(a, b)  == (Cmp(a, b) = 0) <=> (a = b)
Antisymmetric(a, b) == Cmp(a, b) = 0 - Cmp(b, a)
Total(a, b)         == a # b => (Lt(a, b) \/ Lt(b, a))
Transitive(a, b, c) == /\ (Lt(a, b) /\ Lt(b, c)) => Lt(a, c)
                       /\ (Le(a, b) /\ Le(b, c)) => Le(a, c)

(***************************************************************************)
(* pebble DefaultComparer (bytewise).                                      *)
(***************************************************************************)
RECURSIVE SPL(_, _, _)
SPL(a, b, i) == IF i < Len(a) /\ i < Len(b) /\ a[i + 1] = b[i + 1] THEN SPL(a, b, i + 1) ELSE i
SharedPrefixLen(a, b) == SPL(a, b, 0)

(* for ; i < len(dst); i++ { if dst[i] != 0xff { dst[i]++; return dst[:i+1] } }; return dst   (0-based i) *)
RECURSIVE IncFirstNonFF(_, _)
IncFirstNonFF(a, i) ==
    IF i >= Len(a) THEN a
    ELSE IF a[i + 1] # 255 THEN Head0(a, i) \o <<a[i + 1] + 1>>
    ELSE IncFirstNonFF(a, i + 1)

BytewiseSeparator(a, b) ==
    LET i == SharedPrefixLen(a, b)
    IN  IF i >= MinI(Len(a), Len(b)) THEN a                    \* one is a prefix of the other
        ELSE IF a[i + 1] >= b[i + 1] THEN a                    \* b is smaller than a or a is already the shortest
        ELSE IF i < Len(b) - 1 \/ a[i + 1] + 1 < b[i + 1]
             THEN Head0(a, i) \o <<a[i + 1] + 1>>              \* dst[i]++ ; dst[:i+1]
        ELSE IncFirstNonFF(a, i + 1)

BytewiseSuccessor(a) == IncFirstNonFF(a, 0)
BytewiseImmSucc(a)   == a \o <<0>>

IdentitySeparator(a, b) == a
IdentitySuccessor(a)    == a

(* AbbreviatedKey: a uint64 read big-endian from the first 8 bytes, zero padded; modelled as 8 byte codes,
   compared like the integers (BytesCompare on equal lengths). *)
AbbrevBytewise(k) == [i \in 1..8 |-> IF i <= Len(k) THEN k[i] ELSE 0]
AbbrevMax         == [i \in 1..8 |-> 255]
AbbrevSlash(k)    == IF IndexSlash(k) # -1 THEN AbbrevMax ELSE AbbrevBytewise(k)

(***************************************************************************)
(* What the engine does with the comparer's answers                        *)
(* (pebble internal/base/internal.go InternalKey.Separator / .Successor):  *)
(*   buf = sep(buf, k, other); if len(buf) <= len(k) && cmp(k, buf) < 0    *)
(*   { use buf } else { use k }                                            *)
(***************************************************************************)
Guarded(a, s) == IF Len(s) <= Len(a) /\ Lt(a, s) THEN s ELSE a

(* The engine's contract (pebble Comparer doc): for a < b the index separator x written between a block that
   ends with a and a block that starts with b satisfies a <= x < b; the successor x of the last key a of a
   table satisfies a <= x.  `s` is the comparer's raw answer. *)
SepContract(a, b, s) == Lt(a, b) => (Le(a, Guarded(a, s)) /\ Lt(Guarded(a, s), b))
SuccContract(a, s)   == Le(a, Guarded(a, s))
RawSepContract(a, b, s) == Lt(a, b) => (Le(a, s) /\ Lt(s, b))
RawSuccContract(a, s)   == Le(a, s)
(* abbreviated keys may only be used to decide an order the comparator agrees with *)
AbbrevContract(a, b, xa, xb) == /\ BytesCompare(xa, xb) < 0 => Lt(a, b)
                                /\ BytesCompare(xa, xb) > 0 => Lt(b, a)
(* ImmediateSuccessor(a) is the smallest key greater than a *)
ImmSuccGreater(a, s) == Lt(a, s)
ImmSuccTight(a, s, c) == ~(Lt(a, c) /\ Lt(c, s))
=============================================================================
