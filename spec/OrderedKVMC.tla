----------------------------- MODULE OrderedKVMC -----------------------------
(* Closed system around OrderedKV: a bounded caller over a small key set.    *)
(*  - exhaustively (VIEW hides the history): the model's own laws            *)
(*    (layout actions are no-ops on the data, constructive and checking      *)
(*    query forms agree, results are sorted and inside the bounds);          *)
(*  - as generator of behaviours replayed on the real kv.KV: `hist` is the   *)
(*    call sequence; an exported behaviour is the calls plus the complete    *)
(*    observation (every get mode on every probe key, every scan over every  *)
(*    pair of bounds) the specification demands in the state reached.        *)
EXTENDS OrderedKV, Json

CONSTANTS KeySet,    \* keys that are written
          Probes,    \* keys that are asked for (superset of KeySet)
          Bounds,    \* scan bounds (NoKey = unbounded is always added)
          DRBounds,  \* bounds offered to DeleteRange
          Vals,      \* value ids; the harness derives the byte size of a value from its id
          MaxOps,
          Export     \* "none" | "steps" (every transition) | "runs" (prefixes of simulated runs)

VARIABLES ops, hist
mvars == <<live, mem, disk, ops, hist>>
View == <<live, mem, disk>>

AllBounds == Bounds \cup {NoKey}
Rec(r) == /\ hist' = Append(hist, r) /\ ops' = ops + 1
Call(a, k, v, lo, hi) == [a |-> a, k |-> k, v |-> v, lo |-> lo, hi |-> hi]

MInit == KInit /\ ops = 0 /\ hist = <<>>
\* in "runs" mode (simulation) every fourth call is a layout call, otherwise random runs rarely flush
LayoutTurn == Export = "runs" /\ ops % 4 = 3
MNext ==
    /\ ops < MaxOps
    /\ \/ /\ ~LayoutTurn
          /\ \/ \E k \in KeySet, v \in Vals : KPut(k, v) /\ Rec(Call("Put", k, v, NoKey, NoKey))
             \/ \E k \in KeySet : KDelete(k) /\ Rec(Call("Delete", k, 0, NoKey, NoKey))
             \/ \E lo \in DRBounds, hi \in DRBounds : Lt(lo, hi) /\ KDeleteRange(lo, hi) /\ Rec(Call("DeleteRange", NoKey, 0, lo, hi))
       \/ /\ (Export # "runs" \/ LayoutTurn)
          /\ \/ KFlush /\ Rec(Call("Flush", NoKey, 0, NoKey, NoKey))
             \/ KCompact /\ Rec(Call("Compact", NoKey, 0, NoKey, NoKey))
             \/ KReopen /\ Rec(Call("Reopen", NoKey, 0, NoKey, NoKey))
MSpec == MInit /\ [][MNext]_mvars

\* the complete observation of a state
Obs == [gets  |-> {[k |-> k, m |-> m, r |-> Get(k, m)] : k \in Probes, m \in Modes},
        scans |-> {[lo |-> lo, hi |-> hi, r |-> Scan(lo, hi)] : lo \in AllBounds, hi \in AllBounds}]

\* ---- laws of the model
\* flush, compaction and reopen never change what any query returns (queries read `live` only)
LayoutTransparent ==
    [][ (Len(hist') > Len(hist) /\ hist'[Len(hist')].a \in {"Flush", "Compact", "Reopen"}) => live' = live ]_mvars
\* every stored key is found by an exact get, with the value last put
ExactGet == \A k \in KeySet : IF k \in Keys THEN Get(k, "EQ") = Found(k) ELSE Get(k, "EQ") = NotFound
\* the constructive and the checking forms of the queries agree (the checking forms judge large traces)
FormsAgree ==
    /\ \A k \in Probes, m \in Modes :
          /\ IsGet(k, m, Get(k, m))
          /\ \A x \in Keys : IsGet(k, m, Found(x)) => Found(x) = Get(k, m)
          /\ IsGet(k, m, NotFound) => Get(k, m) = NotFound
    /\ \A lo \in AllBounds, hi \in AllBounds :
          LET s == Scan(lo, hi) IN
          /\ IsScan(lo, hi, [i \in 1..Len(s) |-> s[i].k], [i \in 1..Len(s) |-> s[i].v])
          /\ IsRevList(lo, hi, RevList(lo, hi))
\* a put is visible, a delete is effective, nothing else changes
PutDeleteLocal ==
    [][ LET h == hist'[Len(hist')] IN
        Len(hist') > Len(hist) =>
          /\ h.a = "Put" => (live'[h.k] = h.v /\ \A x \in Keys \ {h.k} : x \in DOMAIN live' /\ live'[x] = live[x])
          /\ h.a = "Delete" => (h.k \notin DOMAIN live' /\ \A x \in Keys \ {h.k} : x \in DOMAIN live' /\ live'[x] = live[x])
          /\ h.a = "DeleteRange" => \A x \in Keys : IF Le(h.lo, x) /\ Lt(x, h.hi) THEN x \notin DOMAIN live'
                                                   ELSE x \in DOMAIN live' /\ live'[x] = live[x]
      ]_mvars

\* ---- export.  The observation of a state depends on `live` only, so it is printed once per distinct value
\* of `live` (in the compacted state of it, which is reachable for every `live`): <<"OBS", {live, obs}>>.
\* A transition is printed as the call path that performs it plus the `live` it must lead to; the replayer
\* executes the path on a fresh engine and then asks everything in obs[live].
LiveSet == {[k |-> k, v |-> live[k]] : k \in Keys}
ExportSteps == (Export = "steps") => PrintT(<<"STEP", ToJson([path |-> hist', live |-> LiveSet'])>>)
ExportObs   == (Export = "steps" /\ mem = {} /\ disk = Keys) => PrintT(<<"OBS", ToJson([live |-> LiveSet, obs |-> Obs])>>)
\* simulation mode: TLC evaluates a CONSTRAINT on every candidate successor, so a run is printed for each candidate
\* last call; kept are the runs that end with the last layout call (MaxOps is a multiple of 4) and, one call
\* earlier, those that end with a delete (data spread over memtable and tables)
ExportRuns  == (Export = "runs" /\ (ops = MaxOps \/ (ops = MaxOps - 1 /\ hist[Len(hist)].a = "Delete")))
                  => PrintT(<<"RUN", ToJson([path |-> hist, live |-> LiveSet, obs |-> Obs])>>)

\* ---- key sets for the configurations (a .cfg file cannot spell a sequence; it says KeySet <- Q_Keys)
\* '.'=46 '/'=47 '0'=48 '1'=49 'a'=97.  The sets are built around pairs on which TLC refutes the engine
\* contract for the bytewise separator, e.g. (".", "0") -> "/" and ("a/.", "a/0") -> "a//".
Q_Keys   == {<<46>>, <<48>>, <<97, 47, 46>>}
Q_Probes == Q_Keys \cup {<<47>>, <<48, 48>>, <<97, 47, 48>>}
Q_Bounds == {<<46>>, <<48>>, <<97, 47, 46>>, <<47>>}
T_Keys   == {<<46>>, <<48>>, <<97, 47, 46>>, <<97, 47, 48>>}
T_Probes == T_Keys \cup {<<47>>, <<48, 48>>, <<97>>, <<97, 47, 47>>}
T_Bounds == {<<46>>, <<48>>, <<97, 47, 46>>, <<47>>, <<97, 47, 48>>}
\* long keys: "settings" (flat, 8 bytes), "services/a" and "servicesx/b" (first span of 8 / 9 bytes)
K_settings  == <<115, 101, 116, 116, 105, 110, 103, 115>>
K_services  == <<115, 101, 114, 118, 105, 99, 101, 115>>
K_servicesA == K_services \o <<47, 97>>
K_servicesxB == K_services \o <<120, 47, 98>>
R_Keys   == {<<46>>, <<46, 46>>, <<47>>, <<48>>, <<49>>, <<97>>, <<46, 47>>, <<97, 47, 46>>,
             <<97, 47, 48>>, <<97, 46>>, <<97, 48>>, <<97, 47, 47>>, <<97, 47, 46, 47, 48>>, <<48, 47, 46>>,
             K_settings, K_servicesA, K_servicesxB}
R_Probes == R_Keys \cup {<<45>>, <<47, 47>>, <<97, 47>>, <<98>>, K_services, K_settings \o <<47>>}
R_Bounds == {<<46>>, <<47>>, <<48>>, <<97, 47>>, <<97, 47, 47>>, <<97, 48>>, K_services}
R_DR     == {<<48>>, <<97>>, <<97, 47, 46>>, <<97, 47, 47>>}
=============================================================================
