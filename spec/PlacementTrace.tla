--------------------------- MODULE PlacementTrace ---------------------------
(***************************************************************************)
(* Trace validation for C19.  Every line of trace.ndjson is one execution  *)
(* of the real code (harness/cmd/placement): the configuration it ran on   *)
(* and what it returned.  A line is a complete one-call trace, so no Reset *)
(* lines are needed.  TLC judges each line against Part 1 of Placement:    *)
(*   select : refused, or an ensemble with ValidEnsemble                   *)
(*   swap   : refused, or a move with ValidSwap (after = what the real     *)
(*            replaceInList produced)                                      *)
(*   round  : every proposed action, applied in emission order, is a       *)
(*            ValidSwap of the ensemble left by the previous actions       *)
(* "panic" and "hang" are neither.                                         *)
(*                                                                         *)
(* Lines whose policy has a rule naming several labels are not claimed     *)
(* (claim = FALSE): only the label-independent part is judged; whether the *)
(* outcome keeps every named label distinct is counted as an observation.  *)
(* For small configurations (conf = TRUE) the outcome is also compared     *)
(* with the outcome SET of the selector-chain model (Part 2); a difference *)
(* is reported as a note about the model, never as a violation.            *)
(* All offending lines are collected (register 2), not only the first.     *)
(***************************************************************************)
EXTENDS Placement, Json, TLC

TraceLog == ndJsonDeserialize("trace.ndjson")

VARIABLE l
tvars == <<l>>

CfgOf(e) == [lab |-> e.lab, pol |-> e.pol, rf |-> e.rf, load |-> e.load, useLoad |-> e.useLoad]
(* what is judged: the full policy for claimed lines, no anti-affinity for the others *)
Judged(e) == IF e.claim THEN CfgOf(e) ELSE [CfgOf(e) EXCEPT !.pol = <<>>]

RECURSIVE RoundOK(_, _, _, _)
RoundOK(cur, acts, i, c) ==
    IF i > Len(acts) THEN TRUE
    ELSE LET a == acts[i] IN
         /\ a.shard \in DOMAIN cur
         /\ (Distinct(cur[a.shard]) => ValidSwap(cur[a.shard], a.from, a.to, a.after, c))
         /\ RoundOK([cur EXCEPT ![a.shard] = a.after], acts, i + 1, c)

LineOKWith(e, c) ==
    CASE e.kind = "select" -> e.res = "refused" \/ (e.res = "ok" /\ ValidEnsemble(e.out, c))
      [] e.kind = "swap"   -> e.res = "refused" \/ (e.res = "ok" /\ Len(e.out) = 1
                                                    /\ ValidSwap(e.ens, e.from, e.out[1], e.after, c))
      [] e.kind = "round"  -> e.res = "ok" /\ RoundOK(e.shards, e.acts, 1, c)
      [] OTHER -> FALSE
LineOK(e) == LineOKWith(e, Judged(e))

(* model conformance (a note only) *)
SwapLoadOf(e) == [i \in 1..Len(e.lab) |-> e.load[i] + (IF i \in Range(e.ens) THEN 1 ELSE 0)]
Conforms(e) ==
    CASE e.kind = "select" ->
            IF e.res = "ok" THEN [k |-> "ok", e |-> e.out] \in SelectOutcomes(CfgOf(e))
            ELSE e.res = "refused" /\ \E o \in SelectOutcomes(CfgOf(e)) : o.k = "err"
      [] e.kind = "swap" ->
            IF e.res = "ok" THEN [k |-> "ok", to |-> e.out[1]] \in SwapOutcomes(e.ens, e.from, CfgOf(e), SwapLoadOf(e))
            ELSE e.res = "refused" /\ [k |-> "refused", to |-> 0] \in SwapOutcomes(e.ens, e.from, CfgOf(e), SwapLoadOf(e))
      [] OTHER -> TRUE

Cap == 25
Note(r, i) == TLCSet(r, IF Cardinality(TLCGet(r)) < Cap THEN TLCGet(r) \cup {i} ELSE TLCGet(r))

Judge(i) ==
    LET e == TraceLog[i] IN
    /\ IF LineOK(e) THEN TRUE ELSE Note(2, i)
    /\ IF e.conf /\ ~Conforms(e) THEN Note(3, i) ELSE TRUE
    /\ IF ~e.claim /\ LineOK(e) /\ ~LineOKWith(e, CfgOf(e)) THEN Note(4, i) ELSE TRUE

TInit == l = 1
TNext == /\ l <= Len(TraceLog)
         /\ Judge(l)
         /\ l' = l + 1
TraceSpec == TInit /\ [][TNext]_tvars

HighWater == IF l > TLCGet(1) THEN TLCSet(1, l) ELSE TRUE
ASSUME TLCSet(1, 0) /\ TLCSet(2, {}) /\ TLCSet(3, {}) /\ TLCSet(4, {})
TraceAccepted ==
    /\ PrintT(<<"NOTES", ToJson(TLCGet(3)), ToJson(TLCGet(4))>>)
    /\ IF TLCGet(1) = Len(TraceLog) + 1 /\ TLCGet(2) = {} THEN TRUE
       ELSE Print(<<"REJECTED", TLCGet(1), Len(TraceLog), ToJson(TLCGet(2))>>, FALSE)
=============================================================================
