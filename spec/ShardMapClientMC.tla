-------------------------- MODULE ShardMapClientMC --------------------------
(***************************************************************************)
(* The client's routing table under a sequence of publications for ONE     *)
(* namespace while the client stays connected: the namespace is deleted    *)
(* and re-created with another shard count (fresh ids from the generator,  *)
(* GenerateShards ranges), in particular with FEWER, wider shards than     *)
(* before, any old/new pair of counts 1..MaxCount (powers of two or not).  *)
(* The client may also miss publications (Skip).  The updates of one       *)
(* message are processed in several orders (the Go code gets them from a   *)
(* map).                                                                   *)
(*   TableIsLast : after every update the table is exactly the last        *)
(*                 publication received                                    *)
(*   RoutesLast  : every hash is routed to exactly one shard, the shard of *)
(*                 the last publication                                    *)
(* EndpointOverlap = TRUE replaces the overlap test of the update by the   *)
(* weaker "an endpoint of the new range lies inside the old one" (a design *)
(* mutant; it must be caught: 3 -> 1 shards keeps the middle shard).       *)
(***************************************************************************)
EXTENDS ShardMap, Json

CONSTANTS MaxCount,         \* shard counts 1..MaxCount  (MaxCount < B*B)
          MaxPubs,          \* publications per behaviour
          Orders,           \* subset of {"asc", "desc", "mid"}
          WithSkip,         \* the client may miss a publication
          EndpointOverlap,
          Export            \* "none" | "steps"

VARIABLES gen, last, tbl, pubs, hist
cvars == <<gen, last, tbl, pubs, hist>>
CView == <<gen, last, tbl, pubs>>

AllHashes == {<<a, b>> : a \in 0..LimbMax, b \in 0..LimbMax}
Ordered(q, o) ==
    CASE o = "asc"  -> q
      [] o = "desc" -> [i \in 1..Len(q) |-> q[Len(q) + 1 - i]]
      [] o = "mid"  -> LET k == Len(q) \div 2 IN [i \in 1..Len(q) |-> q[((i - 1 + k) % Len(q)) + 1]]
Upd(t, ups) == IF EndpointOverlap THEN ClientUpdateWith(OverlapEndpoint, t, ups) ELSE ClientUpdateWith(Overlap, t, ups)

CInit == gen = 0 /\ last = {} /\ tbl = {} /\ pubs = 0 /\ hist = <<>>

Publish(n, o) ==
    LET P == GenShards(gen, n) IN
    /\ gen' = gen + n
    /\ last' = Range(P)
    /\ tbl' = Upd(tbl, Ordered(P, o))
    /\ pubs' = pubs + 1
    /\ hist' = Append(hist, [count |-> n, order |-> o, recv |-> TRUE, table |-> {s.id : s \in tbl'}])
Skip(n) ==
    /\ WithSkip
    /\ gen' = gen + n /\ pubs' = pubs + 1
    /\ hist' = Append(hist, [count |-> n, order |-> "asc", recv |-> FALSE, table |-> {s.id : s \in tbl}])
    /\ UNCHANGED <<last, tbl>>
CNext == /\ pubs < MaxPubs
         /\ \E n \in 1..MaxCount : (\E o \in Orders : Publish(n, o)) \/ Skip(n)
CSpec == CInit /\ [][CNext]_cvars

TableLast == TableIsLast(tbl, last)
RoutesLast == last # {} => RoutesToLast(tbl, last, AllHashes)

ExportSteps == (Export = "steps") => PrintT(<<"SEQ", ToJson(hist')>>)
=============================================================================
