---------------------------- MODULE AckTrackerSim ----------------------------
(* Behaviours of AckTracker for replay on the real tracker: every step is     *)
(* logged with its arguments and the state the specification expects.         *)
EXTENDS AckTrackerMC, Json, TLC
CONSTANT Depth
VARIABLE hist
svars == <<synced, head, commit, track, att, fack, waiting, done, closed, hist>>

Exp == [head |-> head', commit |-> commit', closed |-> closed',
        waiting |-> waiting', done |-> [i \in 1..Len(done') |-> [o |-> done'[i][1], r |-> done'[i][2]]]]
Log(r) == hist' = Append(hist, [r EXCEPT !.exp = Exp])
R(a, c, o) == [a |-> a, c |-> c, o |-> o, exp |-> 0]

SInit == Init /\ hist = <<>>
SNext == /\ Len(hist) < Depth
         /\ \/ Sync /\ Log(R("Sync", "", 0))
            \/ AdvanceHead /\ Log(R("AdvanceHead", "", head + 1))
            \/ Close /\ Log(R("Close", "", 0))
            \/ \E o \in 0..MaxOff : Wait(o) /\ Log(R("Wait", "", o))
            \/ \E c \in Cursors : \E a \in -1..MaxOff : Attach(c, a) /\ Log(R("Attach", c, a))
            \/ \E c \in Cursors : \E o \in 0..MaxOff : Ack(c, o) /\ Log(R("Ack", c, o))
SSpec == SInit /\ [][SNext]_svars
Export == (Len(hist) = Depth) => PrintT(<<"RUN", ToJson(hist)>>)
=============================================================================
