---------------------------- MODULE OrderedKVTrace ----------------------------
(* Trace validation: is every recorded execution of the real kv.KV (Pebble)  *)
(* a behaviour of OrderedKV?  One line of trace.ndjson per call, in call     *)
(* order (the driver is sequential; the linearization point of a call is its *)
(* return).  Mutations and layout calls update the abstract state; for every *)
(* query the recorded answer is judged with the checking forms IsGet /       *)
(* IsScan / IsRevList against the sorted reference of the live keys.         *)
(*                                                                           *)
(* A wrong answer does not end the validation (queries do not change the     *)
(* state): the line is reported (<<"BAD", line, reason>>) and counted in TLC *)
(* register 2, and validation continues, so one run lists every wrong answer *)
(* (the first 25).  The trace is accepted iff every line was consumed and    *)
(* no line was bad.  Many traces are concatenated; "Reset" starts the next.  *)
EXTENDS OrderedKV, Json

TraceLog == ndJsonDeserialize("trace.ndjson")

VARIABLE l
tvars == <<live, mem, disk, l>>

TInit == KInit /\ l = 1

Bad(why) == /\ TLCSet(2, TLCGet(2) + 1)
            /\ (TLCGet(2) > 25 \/ PrintT(<<"BAD", l, why>>))
Judge(ok, why) == ok \/ Bad(why)

Observed(e) == [f |-> e.rf, k |-> e.rk, v |-> e.rv]
GetOK(e) ==
    /\ e.m \in Modes
    /\ e.res \in {"ok", "notfound"}
    /\ (e.res = "ok") = (e.rf = 1)
    /\ IsGet(e.k, e.m, Observed(e))

TNext ==
    /\ l <= Len(TraceLog)
    /\ l' = l + 1
    /\ LET e == TraceLog[l] IN
       \/ e.a = "Reset"       /\ live' = Empty /\ mem' = {} /\ disk' = {}
       \/ e.a = "Put"         /\ KPut(e.k, e.v)          /\ Judge(e.res = "ok" /\ e.v > 0, "engine refused a put")
       \/ e.a = "Delete"      /\ KDelete(e.k)            /\ Judge(e.res = "ok", "engine refused a delete")
       \/ e.a = "DeleteRange" /\ KDeleteRange(e.lo, e.hi) /\ Judge(e.res = "ok" /\ Lt(e.lo, e.hi), "engine refused a delete-range")
       \/ e.a = "Flush"       /\ KFlush                  /\ Judge(e.res = "ok", "flush failed")
       \/ e.a = "Compact"     /\ KCompact                /\ Judge(e.res = "ok", "compaction failed")
       \/ e.a = "Reopen"      /\ KReopen                 /\ Judge(e.res = "ok", "reopen failed")
       \/ e.a = "Get"         /\ UNCHANGED kvars /\ Judge(GetOK(e), "get")
       \/ e.a = "Scan"        /\ UNCHANGED kvars /\ Judge(e.res = "ok" /\ IsScan(e.lo, e.hi, e.keys, e.vals), "scan")
       \/ e.a = "RevList"     /\ UNCHANGED kvars
                              /\ Judge(e.res = "ok" /\ IsRevList(e.lo, e.hi, e.keys)
                                       /\ \A i \in 1..Len(e.keys) : e.vals[i] = live[e.keys[i]], "reverse list")

TraceSpec == TInit /\ [][TNext]_tvars

HighWater == IF l > TLCGet(1) THEN TLCSet(1, l) ELSE TRUE
ASSUME TLCSet(1, 0) /\ TLCSet(2, 0)
TraceAccepted ==
    IF TLCGet(1) = Len(TraceLog) + 1 /\ TLCGet(2) = 0 THEN TRUE
    ELSE Print(<<"REJECTED", TLCGet(1), Len(TraceLog), TLCGet(2)>>, FALSE)
=============================================================================
