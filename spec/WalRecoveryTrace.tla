-------------------------- MODULE WalRecoveryTrace --------------------------
(* Trace validation for C10: every line of trace.ndjson is one complete      *)
(* one-step trace  "abstract image  --real recovery-->  observed outcome"    *)
(* recorded by harness/cmd/walrecover on the real WAL.  TLC checks that the  *)
(* image is inside the crash model of WalRecovery (ImageOK) and judges the   *)
(* observed outcome with the property RecoveryOk.  Lines are independent, so *)
(* a rejected line does not stop the run: its verdict is printed and the     *)
(* next line is judged (a broken tree yields the complete list in one run).  *)
(* Verdicts: ok | kf (the exact symptom of a recorded finding, only when     *)
(* Guarded) | bad (the property is violated) | illformed (harness defect).   *)
EXTENDS WalRecovery, Json

CONSTANT Guarded

TraceLog == ndJsonDeserialize("trace.ndjson")

VARIABLES l, verdict
tvars == <<l, verdict>>

TInit == l = 1 /\ verdict = "init"

VerdictOf(e) == IF ~ImageOK(e) THEN "illformed" ELSE Judge(e, e.obs, Guarded)

\* spec -> code: images exported by TLC carry the outcome computed by Model (exp); a difference that
\* does not break the property is reported as "diff" (the model is inexact there), never as a violation
Agrees(e) == \/ e.exp.res = "na"
             \/ /\ e.exp.res = e.obs.res
                /\ e.exp.res = "ok" => /\ e.exp.ents = e.obs.ents /\ e.exp.first = e.obs.first /\ e.exp.last = e.obs.last
                                       /\ e.exp.pres = e.obs.pres
                                       /\ e.exp.pres = "ok" => e.exp.pents = e.obs.pents

TNext ==
    /\ l <= Len(TraceLog)
    /\ l' = l + 1
    /\ verdict' = VerdictOf(TraceLog[l])
    /\ (verdict' # "ok") => PrintT(<<"VERDICT", l, verdict', ToString(Kf(TraceLog[l]))>>)
    /\ (verdict' \in {"ok", "kf"} /\ ~Agrees(TraceLog[l])) => PrintT(<<"DIFF", l>>)

TraceSpec == TInit /\ [][TNext]_tvars

\* all lines were judged
HighWater == IF l > TLCGet(1) THEN TLCSet(1, l) ELSE TRUE
ASSUME TLCSet(1, 0)
TraceAccepted ==
    IF TLCGet(1) = Len(TraceLog) + 1 THEN TRUE
    ELSE Print(<<"INCOMPLETE", TLCGet(1), Len(TraceLog)>>, FALSE)
=============================================================================
