---------------------------- MODULE NotifStreamMC ----------------------------
(* Closed system around NotifStream: commits, clock, one trimming round, a subscriber that starts  *)
(* with no offset or with any offset, is disconnected at any point and resumes with the last       *)
(* offset it saw - on the same leader or on a restarted one.                                       *)
EXTENDS NotifStream, Json

CONSTANTS MaxOff,      \* committed offsets per behaviour
          MaxClock,    \* clock ticks per behaviour
          MaxRecon,    \* reconnects per behaviour (subscribes = MaxRecon + 1)
          MaxTrim,     \* trimming rounds per behaviour
          MaxRestart,  \* leader restarts + elections per behaviour
          MaxLag,      \* an elected node's DB is at most that many entries behind its log
          Export       \* "none" | "steps" | "electsteps" (only behaviours with an election) | "runs"

VARIABLES ns, nsub, ntrim, nrst, hist
mvars == <<ns, nsub, ntrim, nrst, hist>>
View  == <<ns, nsub, ntrim, nrst>>

Obs(s) == [n |-> s.n, tc |-> s.tc, kept |-> SortAsc(s.kept), open |-> s.open, cur |-> s.cur, buf |-> s.buf, seen |-> s.seen, now |-> s.now]
Rec(name, arg, dummy, s) == [a |-> name, arg |-> arg, dummy |-> dummy] @@ Obs(s)
Step(name, arg, dummy, s) ==
    /\ ns' = s
    /\ hist' = IF Export = "none" THEN <<[a |-> name, arg |-> arg]>> ELSE Append(hist, Rec(name, arg, dummy, s))

MInit == ns = NS0 /\ nsub = 0 /\ ntrim = 0 /\ nrst = 0 /\ hist = <<>>

Commit == ns.n < MaxOff /\ UNCHANGED <<nsub, ntrim, nrst>> /\ Step("Commit", ns.n, NoStart, DoCommit(ns))
Clock  == ns.now < MaxClock /\ UNCHANGED <<nsub, ntrim, nrst>> /\ Step("Clock", 0, NoStart, DoClock(ns))
Trim   == ntrim < MaxTrim /\ ntrim' = ntrim + 1 /\ UNCHANGED <<nsub, nrst>> /\ Step("Trim", 0, NoStart, DoTrim(ns))
\* the first subscription starts with no offset or with any offset from -1 to the commit offset; later ones
\* resume with the last offset seen
Subscribe ==
    /\ ~ns.open /\ nsub <= MaxRecon /\ nsub' = nsub + 1 /\ UNCHANGED <<ntrim, nrst>>
    /\ \E start \in (IF nsub = 0 THEN {NoStart} \cup (-1..(ns.n - 1)) ELSE {ResumeArg(ns)}) :
          LET r == DoSubscribe(ns, start) IN Step("Subscribe", start, r.dummy, r.s)
Send   == CanSend(ns) /\ UNCHANGED <<nsub, ntrim, nrst>> /\ Step("Send", ns.buf[1], NoStart, DoSend(ns))
Disconnect == ns.open /\ nsub <= MaxRecon /\ UNCHANGED <<nsub, ntrim, nrst>> /\ Step("Disconnect", 0, NoStart, DoDisconnect(ns))
\* the leader controller is closed and re-created on the same log and DB: an open stream ends
Restart == nrst < MaxRestart /\ nrst' = nrst + 1 /\ UNCHANGED <<nsub, ntrim>> /\ Step("Restart", 0, NoStart, DoRestart(ns))
\* another node is elected (or the leader restarts) with a DB that is `lag` entries behind its log: the tail is
\* applied - and its batches stored - by BecomeLeader
Elect == /\ nrst < MaxRestart /\ nrst' = nrst + 1 /\ UNCHANGED <<nsub, ntrim>>
         /\ \E lag \in 1..(IF ns.n < MaxLag THEN ns.n ELSE MaxLag) : Step("Elect", lag, NoStart, DoElect(ns, lag))

MNext == Commit \/ Clock \/ Trim \/ Subscribe \/ Send \/ Disconnect \/ Restart \/ Elect
MSpec == MInit /\ [][MNext]_mvars

Inv == StreamProps(ns)
InvNoLoss == NoLoss(ns)
\* with timestamps that never decrease, a trimming round removes exactly the expired batches
TrimRule == [][ (hist' # hist /\ hist'[Len(hist')].a = "Trim") => TrimExact(ns, ns') ]_mvars
\* resuming continues with the next batch: right after a (re)subscription with offset k nothing at or below k is read
ResumeRule == [][ (hist' # hist /\ hist'[Len(hist')].a = "Subscribe" /\ hist'[Len(hist')].arg # NoStart)
                     => \A i \in 1..Len(ns'.buf) : ns'.buf[i] > hist'[Len(hist')].arg ]_mvars

ExportSteps == /\ (Export = "steps") => PrintT(<<"STEP", ToJson(hist')>>)
               /\ (Export = "electsteps" /\ \E i \in 1..Len(hist') : hist'[i].a = "Elect") => PrintT(<<"STEP", ToJson(hist')>>)
ExportRuns(d) == (Export = "runs" /\ TLCGet("level") >= d) => PrintT(<<"RUN", ToJson(hist)>>)
ExportRuns20 == ExportRuns(20)
=============================================================================
