------------------------------- MODULE OxiaDb -------------------------------
(***************************************************************************)
(* The replicated state machine of one shard (server/kv/db.go:ProcessWrite *)
(* with the callback chain server/secondary_indexes.go:                    *)
(* WrapperUpdateOperationCallback) as a FUNCTION                           *)
(*                                                                         *)
(*        Apply(state, request, offset, timestamp)                         *)
(*                                                                         *)
(* written in the shape of the implementation: puts, then deletes, then    *)
(* delete-ranges, every operation reading the effects of the earlier ones  *)
(* (indexed batch), one per-operation status each, one notification batch  *)
(* per request.  The index structures the code keeps next to the records   *)
(* (secondary-index entries, session shadow keys) are separate components  *)
(* of the state maintained by the same callbacks as in the code, so that   *)
(* "the index mirrors the records" is a theorem to check, not a definition.*)
(*                                                                         *)
(* Keys are sequences of byte codes so that the hierarchical key order     *)
(* (common/compare/compare_with_slash.go) is a definition of this module   *)
(* and TLC - not the harness - decides what [start, end) contains.         *)
(*                                                                         *)
(* state  = [kv      : live records, a function key -> Entry; sessions are *)
(*                     ordinary records under "__oxia/session/<hex16>"     *)
(*                     exactly as in the code,                             *)
(*           lastVer : shard-wide version-id counter (-1 initially),       *)
(*           idx     : secondary-index entries [n, k, p],                  *)
(*           shadow  : session shadow entries <<session, key>>]            *)
(***************************************************************************)
EXTENDS Integers, Sequences, FiniteSets, TLC

SLASH == 47
DASH  == 45

NoExp == -2     \* request carries no expected version
NoSess == -1    \* request / record carries no session

-----------------------------------------------------------------------------
(* Byte strings and the hierarchical key order                             *)

RECURSIVE BytesCmpFrom(_, _, _)
BytesCmpFrom(a, b, i) ==
    IF i > Len(a) /\ i > Len(b) THEN 0
    ELSE IF i > Len(a) THEN -1
    ELSE IF i > Len(b) THEN 1
    ELSE IF a[i] < b[i] THEN -1
    ELSE IF a[i] > b[i] THEN 1
    ELSE BytesCmpFrom(a, b, i + 1)
BytesCmp(a, b) == BytesCmpFrom(a, b, 1)

RECURSIVE IndexFrom(_, _, _)
IndexFrom(s, c, i) == IF i > Len(s) THEN 0 ELSE IF s[i] = c THEN i ELSE IndexFrom(s, c, i + 1)
IndexOf(s, c) == IndexFrom(s, c, 1)

(* compare.CompareWithSlash *)
RECURSIVE KeyCmp(_, _)
KeyCmp(a, b) ==
    IF a = <<>> \/ b = <<>>
    THEN IF Len(a) < Len(b) THEN -1 ELSE IF Len(a) > Len(b) THEN 1 ELSE 0
    ELSE LET ia == IndexOf(a, SLASH)
             ib == IndexOf(b, SLASH)
         IN IF ia = 0 /\ ib = 0 THEN BytesCmp(a, b)
            ELSE IF ia = 0 THEN -1
            ELSE IF ib = 0 THEN 1
            ELSE LET c == BytesCmp(SubSeq(a, 1, ia - 1), SubSeq(b, 1, ib - 1))
                 IN IF c # 0 THEN c
                    ELSE KeyCmp(SubSeq(a, ia + 1, Len(a)), SubSeq(b, ib + 1, Len(b)))

KeyLt(a, b) == KeyCmp(a, b) < 0
KeyLe(a, b) == KeyCmp(a, b) <= 0
InRange(k, s, e) == KeyLe(s, k) /\ KeyLt(k, e)

HasPrefix(k, p) == Len(k) >= Len(p) /\ SubSeq(k, 1, Len(p)) = p

MaxKeyOf(S) == CHOOSE x \in S : \A y \in S : KeyLe(y, x)
MinKeyOf(S) == CHOOSE x \in S : \A y \in S : KeyLe(x, y)

RECURSIVE SortKeys(_)
SortKeys(S) == IF S = {} THEN <<>> ELSE LET m == MinKeyOf(S) IN <<m>> \o SortKeys(S \ {m})

-----------------------------------------------------------------------------
(* Layout of the internal keys                                             *)

OxiaPrefix  == <<95, 95, 111, 120, 105, 97, 47>>                         \* "__oxia/"
SessPrefix  == OxiaPrefix \o <<115, 101, 115, 115, 105, 111, 110, 47>>   \* "__oxia/session/"
IdxPrefix   == OxiaPrefix \o <<105, 100, 120, 47>>                       \* "__oxia/idx/"
Internal(k) == HasPrefix(k, OxiaPrefix)

HexL(d) == IF d < 10 THEN 48 + d ELSE 87 + d
HexU(d) == IF d < 10 THEN 48 + d ELSE 55 + d
\* fmt "%016x" for 0 <= s < 16^7
Hex16(s) == [i \in 1..16 |-> LET e == 16 - i IN IF e > 6 THEN 48 ELSE HexL((s \div (16^e)) % 16)]
SessKey(s) == SessPrefix \o Hex16(s)

\* url.PathEscape
NoEsc(c) == \/ (c >= 48 /\ c <= 57) \/ (c >= 65 /\ c <= 90) \/ (c >= 97 /\ c <= 122)
            \/ c \in {45, 95, 46, 126, 36, 38, 43, 58, 61, 64}
EscByte(c) == IF NoEsc(c) THEN <<c>> ELSE <<37, HexU(c \div 16), HexU(c % 16)>>
RECURSIVE EscFrom(_, _)
EscFrom(k, i) == IF i > Len(k) THEN <<>> ELSE EscByte(k[i]) \o EscFrom(k, i + 1)
Esc(k) == EscFrom(k, 1)

ShadowKey(s, k) == SessKey(s) \o <<SLASH>> \o Esc(k)
IdxKey(n, sk, pk) == IdxPrefix \o n \o <<SLASH>> \o sk \o <<1>> \o Esc(pk)
IdxBound(n, sk)   == IdxPrefix \o n \o <<SLASH>> \o sk        \* secondaryIdxRangePrefixFormat

-----------------------------------------------------------------------------
(* Sequence keys (server/kv/db_sequences.go)                               *)

\* fmt "%020d" for 0 <= n < 10^9
Pad20(n) == [i \in 1..20 |-> LET e == 20 - i IN IF e > 8 THEN 48 ELSE 48 + ((n \div (10^e)) % 10)]
MaxSeqSuffix == <<DASH, 49, 56, 52, 52, 54, 55, 52, 52, 48, 55, 51, 55, 48, 57, 53, 53, 49, 54, 49, 53>>
                                                                         \* "-18446744073709551615"
RECURSIVE SplitDash(_)
SplitDash(s) == LET i == IndexOf(s, DASH)
                IN IF i = 0 THEN <<s>> ELSE <<SubSeq(s, 1, i - 1)>> \o SplitDash(SubSeq(s, i + 1, Len(s)))

IsDigits(d) == d # <<>> /\ \A i \in 1..Len(d) : d[i] >= 48 /\ d[i] <= 57
RECURSIVE NumFrom(_, _, _)
NumFrom(d, i, acc) == IF i > Len(d) THEN acc ELSE NumFrom(d, i + 1, acc * 10 + (d[i] - 48))
ParseNum(d) == NumFrom(d, 1, 0)

(* fmt.Sscanf(part, "%020d", &uint64) as the generator uses it on the parts of an EXISTING key: it reads  *)
(* at most 20 characters, takes their leading run of digits (no sign), ignores whatever follows, fails  *)
(* when there is no leading digit ("expected integer" / unexpected EOF for an empty part) and when the   *)
(* digits exceed 2^64-1 (strconv "value out of range").  Keys written by plain puts can look like     *)
(* sequence keys ("a-12x", "a-7", 21 digits), so the numbers are kept as 20-digit strings, not as TLC    *)
(* integers.  (Leading blanks, which Sscanf skips, are outside the modelled alphabets.)                *)
RECURSIVE RunEnd(_, _)
RunEnd(w, i) == IF i > Len(w) \/ w[i] < 48 \/ w[i] > 57 THEN i - 1 ELSE RunEnd(w, i + 1)
Lead20(d) == LET w == SubSeq(d, 1, IF Len(d) < 20 THEN Len(d) ELSE 20) IN SubSeq(w, 1, RunEnd(w, 1))
PadLeft20(r) == [i \in 1..20 |-> IF i <= 20 - Len(r) THEN 48 ELSE r[i - (20 - Len(r))]]
MaxU64 == <<49, 56, 52, 52, 54, 55, 52, 52, 48, 55, 51, 55, 48, 57, 53, 53, 49, 54, 49, 53>>
ScanOk(d)  == Lead20(d) # <<>> /\ BytesCmp(PadLeft20(Lead20(d)), MaxU64) <= 0
ScanVal(d) == PadLeft20(Lead20(d))
Zero20 == [i \in 1..20 |-> 48]
\* decimal addition of two digit strings of equal length, from position i down (a carry out of the first digit is dropped)
RECURSIVE SumFrom(_, _, _, _)
SumFrom(a, b, i, c) == IF i = 0 THEN <<>>
                       ELSE LET t == (a[i] - 48) + (b[i] - 48) + c IN SumFrom(a, b, i - 1, t \div 10) \o <<48 + (t % 10)>>
Add20(a, b) == SumFrom(a, b, 20, 0)
RECURSIVE DiffFrom(_, _, _, _)
DiffFrom(a, b, i, c) == IF i = 0 THEN <<>>
                        ELSE LET t == (a[i] - 48) - (b[i] - 48) - c
                             IN DiffFrom(a, b, i - 1, IF t < 0 THEN 1 ELSE 0) \o <<48 + (IF t < 0 THEN t + 10 ELSE t)>>

(* The arithmetic of the generator is Go's uint64 addition `lastValue + delta`: suffixes and deltas range over  *)
(* 0 .. 2^64-1 (far outside TLC's 32-bit integers, hence decimal strings) and a sum above 2^64-1 WRAPS modulo  *)
(* 2^64 without an error.  Sum21 is the exact sum (21 digits), Exceeds64 says that it is not a uint64, AddU64  *)
(* is what the code computes.                                                                                *)
Two64 == <<49, 56, 52, 52, 54, 55, 52, 52, 48, 55, 51, 55, 48, 57, 53, 53, 49, 54, 49, 54>>   \* 18446744073709551616
Sum21(a, b)    == SumFrom(<<48>> \o a, <<48>> \o b, 21, 0)
Exceeds64(s21) == BytesCmp(s21, <<48>> \o MaxU64) > 0
AddU64(a, b)   == LET s == Sum21(a, b)
                  IN SubSeq(IF Exceeds64(s) THEN DiffFrom(s, <<48>> \o Two64, 21, 0) ELSE s, 2, 21)

(* The deltas of a put.  p.deltas holds them as TLC integers (0 <= d < 10^9); a delta that does not fit is given *)
(* as its decimal digits in the optional field p.bd, a sequence parallel to p.deltas whose non-empty elements    *)
(* take precedence (any uint64: 2^31, 2^63, 2^64-1 ...).  Puts without the field are puts with small deltas.    *)
BigOf(p)      == IF "bd" \in DOMAIN p THEN p.bd ELSE <<>>
Delta20(p, i) == LET b == BigOf(p) IN IF i <= Len(b) /\ b[i] # <<>> THEN PadLeft20(b[i]) ELSE Pad20(p.deltas[i])

(* findCurrentLastKeyInSequence: the numeric parts of the highest key below prefix-<max>, *)
(* provided that key starts with the prefix.  <max> is 2^64-1: suffixes are uint64, a     *)
(* sequence that has passed 2^31 or 2^63 is looked up like any other.                     *)
SeqParts(kv, prefix) ==
    LET below == {k \in DOMAIN kv : KeyLt(k, prefix \o MaxSeqSuffix)}
        last  == IF below = {} THEN <<>> ELSE MaxKeyOf(below)
        rest  == IF below # {} /\ HasPrefix(last, prefix) THEN SubSeq(last, Len(prefix) + 1, Len(last)) ELSE <<>>
    IN Tail(SplitDash(rest))

RECURSIVE SeqSuffix(_, _, _)
SeqSuffix(parts, p, i) ==
    IF i > Len(p.deltas) THEN <<>>
    ELSE <<DASH>> \o AddU64(IF i <= Len(parts) THEN ScanVal(parts[i]) ELSE Zero20, Delta20(p, i))
         \o SeqSuffix(parts, p, i + 1)

(* Optional fields of a request: PRESENCE and VALUE are separate.                                            *)
(* The wire format (proto/client.proto) gives a put four `optional` fields - expected_version_id, session_id, *)
(* client_identity, partition_key - whose presence is transmitted independently of their value: "present   *)
(* with the zero value" (partition key "", client identity "", session 0, expected version 0 / -1) and       *)
(* "absent" are different requests, and both survive the log (the entry stores the marshalled request).      *)
(* The plain fields (key, the two fields of an index declaration, the range bounds) and the repeated field  *)
(* sequence_key_delta have no presence: empty IS absent; a delta of 0 is an ordinary element.                *)
(* A put of the specification therefore carries, for every optional field, a presence flag and a value:      *)
(*   partition key     p.pkey (present)   p.pk  (value, byte codes; a put without the record field "pk" has   *)
(*                                               the value "pk" - the alphabets written before the field     *)
(*                                               existed)                                                     *)
(*   expected version  p.exp # NoExp      p.exp (any value; -1 = "must not exist")                            *)
(*   session           p.sess # NoSess    p.sess                                                              *)
(*   client identity   CidPresent(p)      p.cid (optional record field "cidp" = present although empty)       *)
(* Admission (what validateWriteRequest refuses before the request is logged) and application (db.go,        *)
(* db_sequences.go) have to treat every combination alike: whatever admission lets through, application     *)
(* must answer with per-operation statuses - on the leader and on every replay of the log.  Both are         *)
(* transcribed below in terms of PRESENCE where the code tests `== nil` and in terms of the VALUE where it   *)
(* uses a getter, so that a disagreement between the two layers on one request shape (present-but-empty      *)
(* against absent) is a difference between two definitions of this module (OxiaDbMC!AdmissionCoversApply,    *)
(* OptNeutral), and a disagreement between the code and this module shows up in the replay.                   *)
PkDefault     == <<112, 107>>                                              \* "pk"
PkPresent(p)  == p.pkey                                                    \* req.PartitionKey != nil
PkVal(p)      == IF ~p.pkey THEN <<>> ELSE IF "pk" \in DOMAIN p THEN p.pk ELSE PkDefault   \* req.GetPartitionKey()
ExpPresent(p) == p.exp # NoExp
SessPresent(p) == p.sess # NoSess
CidPresent(p) == IF "cidp" \in DOMAIN p THEN p.cidp \/ p.cid # "" ELSE p.cid # ""
\* the same put with every value the state machine does not interpret replaced by an ordinary one (the value
\* of a present partition key, the presence of an empty client identity)
NormOptPut(p) == [f \in DOMAIN p \ {"pk", "cidp"} |-> p[f]]
NormOpt(req)  == [req EXCEPT !.puts = [i \in 1..Len(req.puts) |-> NormOptPut(req.puts[i])]]

\* outcome of generateUniqueKeyFromSequences
SeqOutcome(kv, p) ==
    LET parts == SeqParts(kv, p.key) IN
    IF ~PkPresent(p) THEN "ERR_MISSING_PARTITION_KEY"     \* `req.PartitionKey == nil`: presence, not the value
    ELSE IF p.exp # NoExp THEN "UNEXPECTED_VERSION_ID"
    ELSE IF Len(parts) > Len(p.deltas) THEN "ERR_MISSING_SEQUENCE_DELTAS"
    ELSE IF Delta20(p, 1) = Zero20 THEN "ERR_SEQUENCE_DELTA_IS_ZERO"
    ELSE IF \E i \in 1..Len(parts) : ~ScanOk(parts[i]) THEN "ERR_BAD_SUFFIX"
    ELSE "OK"
SeqNewKey(kv, p) == p.key \o SeqSuffix(SeqParts(kv, p.key), p, 1)

(* What the leader refuses before it allocates an offset and logs the request              *)
(* (leader_controller.go: validateWriteRequest, called by Write/WriteBlock): sequence puts *)
(* that can never be applied - `put.PartitionKey == nil` (presence; a partition key that   *)
(* is present but empty is NOT refused) or a first delta of 0.  Nothing else is looked at: *)
(* not the key (may be empty), not the other optional fields, not deletes or ranges.       *)
(* ... and no secondary-index declaration, whatever it looks like (see "Secondary-index declarations" below) *)
DeclRefused(d)   == FALSE
PutWellFormed(p) == /\ p.deltas # <<>> => (PkPresent(p) /\ Delta20(p, 1) # Zero20)
                    /\ \A i \in 1..Len(p.idx) : ~DeclRefused(p.idx[i])
WellFormed(req)  == \A i \in 1..Len(req.puts) : PutWellFormed(req.puts[i])
\* the outcomes of the generator that depend on the content of the request alone (never on the state)
ContentErrors == {"ERR_MISSING_PARTITION_KEY", "ERR_SEQUENCE_DELTA_IS_ZERO"}

-----------------------------------------------------------------------------
(* State                                                                   *)

EmptyKv == [k \in {} |-> 0]
InitState == [kv |-> EmptyKv, lastVer |-> -1, idx |-> {}, shadow |-> {}]

\* (:> and @@ are evaluated eagerly by TLC; a chain of lazily evaluated function constructors
\* makes a request with a hundred operations overflow its stack)
KvPut(kv, k, e)  == (k :> e) @@ kv
KvDrop(kv, D)    == [x \in DOMAIN kv \ D |-> kv[x]] @@ EmptyKv
Has(kv, k)       == k \in DOMAIN kv

IdxOf(pk, e)     == {[n |-> e.idx[i].n, k |-> e.idx[i].k, p |-> pk] : i \in 1..Len(e.idx)}
ShadowOf(k, e)   == IF e.sess # NoSess THEN {<<e.sess, k>>} ELSE {}

(* Secondary-index declarations (secondary_indexes.go: writeSecondaryIndexes / deleteSecondaryIndexes).    *)
(* A put carries a SEQUENCE of declarations [n |-> index name, k |-> secondary key].  Nothing constrains  *)
(* them: the leader refuses no declaration before it logs the request (DeclRefused, part of             *)
(* PutWellFormed, is constantly FALSE) and the state machine takes both fields as arbitrary byte strings - *)
(*   the name may be empty, may contain '/' (the entry key then has more path segments than an ordinary  *)
(*   one: IdxKey is a plain concatenation, nothing is escaped but the primary key) or the separator byte, *)
(*   the secondary key may be empty or contain '/' or the separator,                                      *)
(*   the same declaration may be repeated, two declarations may denote the same entry key                 *)
(*   (<<"a", "b/c">> and <<"a/b", "c">>), and any number of them may be given.                            *)
(* Since every declaration is accepted into the log, every declaration has to be applicable: the callback *)
(* writes one entry key per declaration, in order (DeclWrites; a repeated or colliding one writes the same *)
(* key again), removes the entry keys of the record it replaces or deletes the same way, and the put gets *)
(* exactly the status - and the record exactly the content and version - it would get without any         *)
(* declaration (StripDecls; OxiaDbMC!DeclNeutral, DeclEntries).  A maintainer who wants to forbid a shape *)
(* of declaration has to refuse it before logging, i.e. in WellFormed, where it becomes a REJECTED step.   *)
DeclWrites(pk, decls) == [i \in 1..Len(decls) |-> IdxKey(decls[i].n, decls[i].k, pk)]
StripDecls(req)       == [req EXCEPT !.puts = [i \in 1..Len(req.puts) |-> [req.puts[i] EXCEPT !.idx = <<>>]]]
\* the shapes a client library would not produce (used to pick alphabets and pre-states, never by Apply)
HostileDecl(d) == d.n = <<>> \/ d.k = <<>> \/ IndexOf(d.n, SLASH) # 0 \/ IndexOf(d.k, SLASH) # 0
                  \/ IndexOf(d.n, 1) # 0 \/ IndexOf(d.k, 1) # 0
HostileDecls(decls) == \/ \E i \in 1..Len(decls) : HostileDecl(decls[i])
                       \/ \E i, j \in 1..Len(decls) : i < j /\ IdxKey(decls[i].n, decls[i].k, <<>>) = IdxKey(decls[j].n, decls[j].k, <<>>)
                       \/ Len(decls) > 4

NoVersion == [ver |-> -1, mod |-> -1, cts |-> 0, mts |-> 0, sess |-> NoSess, cid |-> ""]
PutFail(status)  == [st |-> status, key |-> <<>>] @@ NoVersion

(* checkExpectedVersionId: "ok" / "bad" *)
ExpectedOk(kv, k, exp) ==
    IF Has(kv, k) THEN exp = NoExp \/ exp = kv[k].ver
    ELSE exp = NoExp \/ exp = -1

(* Notifications: a map key -> notification, later operations on the same key replace   *)
(* earlier ones (notifications_tracker.go); internal keys never appear.                 *)
NPut(nf, k, n) == IF Internal(k) THEN nf ELSE (k :> n) @@ nf

-----------------------------------------------------------------------------
(* One put (db.go:applyPut).  acc = [s: state, out: responses so far, nf: notifications] *)
ApplyPut(acc, p, ts) ==
    LET s    == acc.s
        isSeq == p.deltas # <<>>
        so   == IF isSeq THEN SeqOutcome(s.kv, p) ELSE "OK"
        key  == IF isSeq /\ so = "OK" THEN SeqNewKey(s.kv, p) ELSE p.key
        \* the existing record is only looked up (and checked) for ordinary puts
        old  == ~isSeq /\ Has(s.kv, key)
        fail(status) == [acc EXCEPT !.out = Append(@, PutFail(status))]
    IN IF so # "OK" THEN fail(so)
       ELSE IF ~isSeq /\ ~ExpectedOk(s.kv, key, p.exp) THEN fail("UNEXPECTED_VERSION_ID")
       ELSE IF p.sess # NoSess /\ ~Has(s.kv, SessKey(p.sess)) THEN fail("SESSION_DOES_NOT_EXIST")
       ELSE
         LET ver == s.lastVer + 1
             e   == [val |-> p.val, ver |-> ver,
                     mod |-> IF old THEN s.kv[key].mod + 1 ELSE 0,
                     cts |-> IF old THEN s.kv[key].cts ELSE ts,
                     mts |-> ts, sess |-> p.sess, cid |-> p.cid, idx |-> p.idx]
             \* callbacks: session shadow first, then secondary indexes
             sh1 == IF old THEN s.shadow \ ShadowOf(key, s.kv[key]) ELSE s.shadow
             sh2 == sh1 \cup ShadowOf(key, e)
             ix1 == IF old THEN s.idx \ IdxOf(key, s.kv[key]) ELSE s.idx
             ix2 == ix1 \cup IdxOf(key, e)
             r   == [st |-> "OK", key |-> IF isSeq THEN key ELSE <<>>, ver |-> ver, mod |-> e.mod,
                     cts |-> e.cts, mts |-> e.mts, sess |-> e.sess, cid |-> e.cid]
         IN [s   |-> [kv |-> KvPut(s.kv, key, e), lastVer |-> ver, idx |-> ix2, shadow |-> sh2],
             out |-> Append(acc.out, r),
             nf  |-> NPut(acc.nf, key, [t |-> IF e.mod > 0 THEN "KEY_MODIFIED" ELSE "KEY_CREATED",
                                        ver |-> ver, end |-> <<>>])]

(* One delete (db.go:applyDelete) *)
ApplyDelete(acc, d) ==
    LET s == acc.s IN
    IF ~ExpectedOk(s.kv, d.key, d.exp) THEN [acc EXCEPT !.out = Append(@, "UNEXPECTED_VERSION_ID")]
    ELSE IF ~Has(s.kv, d.key) THEN [acc EXCEPT !.out = Append(@, "KEY_NOT_FOUND")]
    ELSE [s   |-> [s EXCEPT !.kv = KvDrop(@, {d.key}),
                            !.idx = @ \ IdxOf(d.key, s.kv[d.key]),
                            !.shadow = @ \ ShadowOf(d.key, s.kv[d.key])],
          out |-> Append(acc.out, "OK"),
          nf  |-> NPut(acc.nf, d.key, [t |-> "KEY_DELETED", ver |-> -1, end |-> <<>>])]

(* One delete-range (db.go:applyDeleteRange): exactly the keys in [start, end).  A range *)
(* given by a client never reaches into the internal key block; a range that starts      *)
(* inside it (session cleanup deletes "__oxia/session/<id>/" .. "//") is taken literally *)
(* and then also removes the shadow entries whose keys it covers.                        *)
RangeVictims(kv, s, e) == {k \in DOMAIN kv : InRange(k, s, e) /\ (Internal(k) => Internal(s))}
ApplyDeleteRange(acc, r) ==
    LET s  == acc.s
        V  == RangeVictims(s.kv, r.s, r.e)
        sv == IF Internal(r.s) THEN {x \in s.shadow : InRange(ShadowKey(x[1], x[2]), r.s, r.e)} ELSE {}
        U  == {k \in V : ~Internal(k)}     \* the callbacks only run for user records
    IN [s   |-> [s EXCEPT !.kv = KvDrop(@, V),
                          !.idx = @ \ UNION {IdxOf(k, s.kv[k]) : k \in U},
                          !.shadow = (@ \ UNION {ShadowOf(k, s.kv[k]) : k \in U}) \ sv],
        out |-> Append(acc.out, "OK"),
        nf  |-> NPut(acc.nf, r.s, [t |-> "KEY_RANGE_DELETED", ver |-> -1, end |-> r.e])]

\* (the comparison n = n forces TLC to evaluate each intermediate result before it recurses; without it
\* the lazily evaluated accumulators nest and a request of ~40 operations overflows TLC's stack)
RECURSIVE FoldPuts(_, _, _, _)
FoldPuts(acc, ps, i, ts) == IF i > Len(ps) THEN acc
                            ELSE LET nx == ApplyPut(acc, ps[i], ts) IN IF nx = nx THEN FoldPuts(nx, ps, i + 1, ts) ELSE acc
RECURSIVE FoldDels(_, _, _)
FoldDels(acc, ds, i) == IF i > Len(ds) THEN acc
                        ELSE LET nx == ApplyDelete(acc, ds[i]) IN IF nx = nx THEN FoldDels(nx, ds, i + 1) ELSE acc
RECURSIVE FoldRngs(_, _, _)
FoldRngs(acc, rs, i) == IF i > Len(rs) THEN acc
                        ELSE LET nx == ApplyDeleteRange(acc, rs[i]) IN IF nx = nx THEN FoldRngs(nx, rs, i + 1) ELSE acc

EmptyNf == [k \in {} |-> 0]

(***************************************************************************)
(* Apply: total on well-formed requests.                                   *)
(*   .s    the next state                                                  *)
(*   .res  [puts, dels, rngs] per-operation results                        *)
(*   .nf   the notification batch of this offset                           *)
(* The offset is only recorded (commit offset / notification key); no      *)
(* result depends on it.                                                   *)
(***************************************************************************)
Apply(s, req, off, ts) ==
    LET a1 == FoldPuts([s |-> s, out |-> <<>>, nf |-> EmptyNf], req.puts, 1, ts)
        a2 == FoldDels([s |-> a1.s, out |-> <<>>, nf |-> a1.nf], req.dels, 1)
        a3 == FoldRngs([s |-> a2.s, out |-> <<>>, nf |-> a2.nf], req.rngs, 1)
    IN [s |-> a3.s, res |-> [puts |-> a1.out, dels |-> a2.out, rngs |-> a3.out], nf |-> a3.nf]

(* Requests whose application needs one of the known-finding classes (an error of the *)
(* sequence-key generator that depends on the state, see design/C13.md).              *)
SeqStateError(s, req) ==
    \E i \in 1..Len(req.puts) :
        req.puts[i].deltas # <<>> /\      \* (only the generator yields these outcomes)
        LET a == FoldPuts([s |-> s, out |-> <<>>, nf |-> EmptyNf], SubSeq(req.puts, 1, i), 1, 0)
        IN a.out[i].st \in {"ERR_MISSING_SEQUENCE_DELTAS", "ERR_BAD_SUFFIX"}

(* Requests that contain a sequence put the generator fails on because of the CONTENT of the request (a     *)
(* missing partition key, a first delta of 0): they can never be applied by anybody, so admission has to keep *)
(* them out of the log - every one of them must be refused by WellFormed (OxiaDbMC!AdmissionCoversApply).      *)
ContentError(s, req) ==
    \E i \in 1..Len(req.puts) :
        req.puts[i].deltas # <<>> /\
        LET a == FoldPuts([s |-> s, out |-> <<>>, nf |-> EmptyNf], SubSeq(req.puts, 1, i), 1, 0)
        IN a.out[i].st \in ContentErrors

(* Requests with a sequence put whose EXACT result is not a uint64: some suffix of the highest existing key of  *)
(* the prefix plus its delta exceeds 2^64-1 (stated on the highest key "prefix-...", not through SeqParts).    *)
(* The code does not refuse them: the sum wraps modulo 2^64 (AddU64), so the generated key is not above the     *)
(* existing ones and can be the key of a live record; and since the look-up is strictly below                  *)
(* "prefix-18446744073709551615", keys whose first suffix is 2^64-1 are not seen by it at all (every put on    *)
(* such a prefix is in this class, the first delta being positive).  Apply transcribes what the code does;     *)
(* the laws of C16 are claimed for the requests outside this class (design/C16.md, finding seqOverflow).       *)
HighestParts(kv, prefix) ==
    LET ex == {k \in DOMAIN kv : HasPrefix(k, prefix \o <<DASH>>)}
        hk == MaxKeyOf(ex)
    IN IF ex = {} THEN <<>> ELSE Tail(SplitDash(SubSeq(hk, Len(prefix) + 1, Len(hk))))
PutOverflows(kv, p) ==
    /\ p.deltas # <<>>
    /\ LET hi == HighestParts(kv, p.key) IN
       \E i \in 1..Len(p.deltas) :
          Exceeds64(Sum21(IF i <= Len(hi) /\ ScanOk(hi[i]) THEN ScanVal(hi[i]) ELSE Zero20, Delta20(p, i)))
SeqOverflow(s, req) ==
    \E i \in 1..Len(req.puts) :
        req.puts[i].deltas # <<>> /\
        PutOverflows(FoldPuts([s |-> s, out |-> <<>>, nf |-> EmptyNf], SubSeq(req.puts, 1, i - 1), 1, 0).s.kv, req.puts[i])

-----------------------------------------------------------------------------
(* Observation: what the reads of the real DB are compared with.           *)

RecOf(kv, k) == [key |-> k, val |-> kv[k].val, ver |-> kv[k].ver, mod |-> kv[k].mod,
                 cts |-> kv[k].cts, mts |-> kv[k].mts, sess |-> kv[k].sess, cid |-> kv[k].cid]
\* full ordered scan of the records (user keys and session keys)
Recs(s) == LET ks == SortKeys(DOMAIN s.kv) IN [i \in 1..Len(ks) |-> RecOf(s.kv, ks[i])]
IdxKeys(s)    == SortKeys({IdxKey(x.n, x.k, x.p) : x \in s.idx})
ShadowKeys(s) == SortKeys({ShadowKey(x[1], x[2]) : x \in s.shadow})
NfSeq(nf) == LET ks == SortKeys(DOMAIN nf) IN [i \in 1..Len(ks) |-> [key |-> ks[i]] @@ nf[ks[i]]]

Observe(s) == [recs |-> Recs(s), idx |-> IdxKeys(s), shadow |-> ShadowKeys(s), lv |-> s.lastVer]

-----------------------------------------------------------------------------
(* Secondary-index queries (secondary_indexes.go) against a sorted reference. *)

IdxEntries(s, n) == {x \in s.idx : x.n = n}
EKey(x) == IdxKey(x.n, x.k, x.p)
\* primary keys of the entries with secondary key in [start, end), in index order
IdxList(s, n, start, end) ==
    LET E  == {x \in IdxEntries(s, n) : InRange(EKey(x), IdxBound(n, start), IdxBound(n, end))}
        ks == SortKeys({EKey(x) : x \in E})
    IN [i \in 1..Len(ks) |-> (CHOOSE x \in E : EKey(x) = ks[i]).p]

FirstOf(E) == CHOOSE x \in E : \A y \in E : KeyLe(EKey(x), EKey(y))
LastOf(E)  == CHOOSE x \in E : \A y \in E : KeyLe(EKey(y), EKey(x))
NoHit == [found |-> FALSE, p |-> <<>>, k |-> <<>>]
Hit(x) == [found |-> TRUE, p |-> x.p, k |-> x.k]
\* cmp in "EQUAL" "FLOOR" "CEILING" "LOWER" "HIGHER"; ties between entries with an equal
\* secondary key are resolved the way a forward / backward walk of the index resolves them
IdxGet(s, n, key, cmp) ==
    LET E  == IdxEntries(s, n)
        eq == {x \in E : x.k = key}
        lt == {x \in E : KeyLt(IdxBound(n, x.k), IdxBound(n, key))}
        gt == {x \in E : KeyLt(IdxBound(n, key), IdxBound(n, x.k))}
        pick(first, S) == IF S = {} THEN NoHit ELSE Hit(IF first THEN FirstOf(S) ELSE LastOf(S))
    IN CASE cmp = "EQUAL"   -> pick(TRUE, eq)
         [] cmp = "CEILING" -> pick(TRUE, eq \cup gt)
         [] cmp = "HIGHER"  -> pick(TRUE, gt)
         [] cmp = "LOWER"   -> pick(FALSE, lt)
         [] cmp = "FLOOR"   -> IF eq # {} THEN pick(TRUE, eq) ELSE pick(FALSE, lt)

-----------------------------------------------------------------------------
(* Properties of a state (checked in every reachable state of OxiaDbMC and *)
(* on every state of a validated real trace).                              *)

\* C15: the index is exactly what the live records declare
IndexMirror(s)  == s.idx = UNION {IdxOf(k, s.kv[k]) : k \in DOMAIN s.kv}
\* C14 (used by it later): shadow keys are exactly the session-owned records
ShadowMirror(s) == s.shadow = UNION {ShadowOf(k, s.kv[k]) : k \in DOMAIN s.kv}
\* C12: version ids are unique and below the counter
VersionsSane(s) == /\ \A k \in DOMAIN s.kv : s.kv[k].ver <= s.lastVer /\ s.kv[k].ver >= 0 /\ s.kv[k].mod >= 0
                   /\ \A k1, k2 \in DOMAIN s.kv : k1 # k2 => s.kv[k1].ver # s.kv[k2].ver
=============================================================================
