---------------------------- MODULE OxiaShardSim ----------------------------
(* Export of behaviours of OxiaShard for replay on the real code: a history  *)
(* variable `hist` holds one record per step with the action, its arguments  *)
(* and the projection of the state the specification demands after it.       *)
EXTENDS OxiaShardMC, Json

CONSTANTS Export, MaxDepth

VARIABLE hist
mcvars == <<vars, hist>>

----------------------------------------------------------------------------
\* projection of the (primed) state that the harness can observe on the real nodes
Vals(s) == [i \in 1..Len(s) |-> s[i].v]
PNode(n) ==
    [up |-> up'[n], ctrl |-> ctrl'[n], status |-> status'[n], term |-> term'[n],
     wal |-> SubSeq(wal'[n], phantom'[n] + 1, Len(wal'[n])),
     first |-> IF Len(wal'[n]) > phantom'[n] THEN phantom'[n] + 1 ELSE 0,
     synced |-> IF synced'[n] > phantom'[n] THEN synced'[n] ELSE 0,
     applied |-> Vals(applied'[n]),
     dbterm |-> dur'[n].term,
     head |-> IF lead'[n] # NULL THEN lead'[n].head ELSE -1,
     commit |-> IF lead'[n] # NULL THEN lead'[n].commit ELSE -1,
     busy |-> lead'[n] # NULL /\ lead'[n].busy,
     lastapp |-> IF fol'[n] # NULL THEN fol'[n].lastApp ELSE -1,
     parked |-> (lead'[n] # NULL /\ lead'[n].cbq # {}) \/ (fol'[n] # NULL /\ fol'[n].parked # {}),
     \* sync requests queued behind the round in progress (the first one started the round)
     queued |-> IF lead'[n] # NULL /\ lead'[n].cbq # {} THEN Cardinality(lead'[n].cbq) - 1
                ELSE IF fol'[n] # NULL /\ fol'[n].parked # {} THEN Cardinality(fol'[n].parked) - 1 ELSE 0,
     cursors |-> [f \in {x \in Nodes : lead'[n] # NULL /\ lead'[n].cur[x] # NULL} |-> lead'[n].cur[f].ack]]
PStreams == {[l |-> k[1], f |-> k[2],
              app |-> [i \in 1..Len(streams'[k].app) |-> [o |-> streams'[k].app[i].o, t |-> streams'[k].app[i].t, c |-> streams'[k].app[i].c]],
              ack |-> streams'[k].ack] : k \in {q \in StreamKeys : streams'[q] # NULL}}
\* the (unguarded) property invariants evaluated in the state after the step: a replayed behaviour that
\* the real nodes follow step by step up to a state where one of them is false shows the real code
\* violating that property (attributed to the known findings whose trigger is in kf)
InvNow == [AckedSurvive |-> AckedSurvive, AckedDurable |-> AckedDurable,
           AppliedIsCommitted |-> AppliedIsCommitted, StateMachineSafety |-> StateMachineSafety,
           CommittedUnique |-> CommittedUnique, AckSound |-> AckSound, HeadTruthful |-> HeadTruthful,
           FencedTerm |-> FencedTerm, OneLeaderPerTerm |-> OneLeaderPerTerm,
           NoTermAboveCoordinator |-> NoTermAboveCoordinator, DbIsLogPrefix |-> DbIsLogPrefix,
           DurableNotAheadOfLog |-> DurableNotAheadOfLog, CommitLeHead |-> CommitLeHead,
           QuiescentCommitted |-> QuiescentCommitted, LogContiguous |-> LogContiguous]
Proj == [nodes |-> [n \in Nodes |-> PNode(n)], streams |-> PStreams,
         acked |-> {[off |-> w.off, t |-> w.t] : w \in acked'}, kf |-> kf', inv |-> InvNow']

Log(r) == hist' = Append(hist, r @@ [exp |-> Proj])

MCInit == Init /\ hist = <<>>

MCNext ==
    \/ \E r \in ntq : /\ HandleNewTerm(r.n, r.t)
                      /\ Log([a |-> "NewTerm", n |-> r.n, t |-> r.t, ok |-> NewTermOutcome(r.n, r.t) = "ok",
                              head |-> IF NewTermOutcome(r.n, r.t) = "ok" THEN ReportedHead(r.n) ELSE NoHead])
    \/ \E n \in Nodes : WalSync(n) /\ Log([a |-> "Sync", n |-> n])
    \/ \E n \in Nodes : Crash(n) /\ Log([a |-> "Crash", n |-> n])
    \/ \E n \in Nodes : Restart(n) /\ Log([a |-> "Restart", n |-> n])
    \/ \E n \in Nodes, v \in Values : ClientWrite(n, v) /\ Log([a |-> "Write", n |-> n, v |-> v, off |-> lead[n].next + 1, t |-> term[n]])
    \/ \E n \in Nodes : ClientCancel(n) /\ Log([a |-> "Cancel", n |-> n, offs |-> lead[n].cbq \cup lead[n].wait])
    \/ \E l, f \in Nodes : CursorConnect(l, f) /\ Log([a |-> "Connect", l |-> l, f |-> f])
    \/ \E l, f \in Nodes : CursorSnapshot(l, f) /\ Log([a |-> "Snapshot", l |-> l, f |-> f])
    \/ \E l, f \in Nodes : DeliverAppend(l, f) /\ Log([a |-> "Append", l |-> l, f |-> f])
    \/ \E l, f \in Nodes : DeliverAck(f, l) /\ Log([a |-> "Ack", l |-> l, f |-> f])
    \/ \E l, f \in Nodes : StreamReset(l, f) /\ Log([a |-> "Reset", l |-> l, f |-> f])
    \/ CoElect /\ Log([a |-> "CoElect", t |-> meta.term + 1])
    \/ CoElected /\ Log([a |-> "CoElected", t |-> meta.term, deleted |-> meta.removed])
    \/ CoBecomeLeaderTimeout /\ Log([a |-> "BecomeLeaderTimeout", n |-> co.leader])
    \/ CoCrash /\ Log([a |-> "CoCrash"])
    \/ CoRestart /\ Log([a |-> "CoRestart"])
    \/ \E n \in Nodes, R \in SUBSET Nodes :
          /\ CoBecomeLeader(n, R)
          /\ Log([a |-> "BecomeLeader", n |-> n, t |-> meta.term, rf |-> Cardinality(meta.ens),
                  fm |-> [m \in (R \cap meta.ens) \ {n} |-> RespHead(m)], fs |-> R,
                  sent |-> BecomeLeaderOutcome(n, meta.term) = "ok" /\ ~Busy(n) /\ NoParkedSync(n)])
    \/ \E n \in Nodes : CoRetryNewTerm(n) /\ Log([a |-> "CoRetryNewTerm", n |-> n, t |-> meta.term])
    \/ \E f \in Nodes :
          /\ CoRetryAdd(f)
          /\ LET r == CHOOSE q \in ntr : q.n = f /\ q.t = meta.term
                 l == meta.leader
             IN Log([a |-> "AddFollower", l |-> l, f |-> f, t |-> meta.term, head |-> r.head,
                     sent |-> r.ok /\ up[l] /\ ctrl[l] = "leader" /\ term[l] = meta.term /\ status[l] = "LEADER" /\ ~Busy(l)
                              /\ lead[l].cur[f] = NULL])
    \/ \E x, y \in Nodes : CoSwap(x, y) /\ Log([a |-> "CoSwap", from |-> x, to |-> y, t |-> meta.term + 1])

MCSpec == MCInit /\ [][MCNext]_mcvars

\* Simulation only: the same steps with probabilistic gates on the disruptive ones (so that random
\* walks make progress between elections and faults) and an always-enabled padding step.
P(p) == RandomElement(1..100) <= p
Disruptive == \/ (CoElect /\ co.phase \in {"steady", "fencing"})
              \/ \E n \in Nodes : Crash(n)
              \/ \E l, f \in Nodes : StreamReset(l, f)
              \/ CoBecomeLeaderTimeout \/ CoCrash
              \/ \E x, y \in Nodes : CoSwap(x, y)
SimNext == \/ (MCNext /\ (Disruptive => P(12)))
           \/ (UNCHANGED vars /\ Log([a |-> "Idle"]))
SimSpec == MCInit /\ [][SimNext]_mcvars

ExportRuns == (Export = "runs" /\ Len(hist) = MaxDepth) => PrintT(<<"RUN", ToJson(hist)>>)

----------------------------------------------------------------------------
\* Script mode: follow a given action sequence (a witness schedule) through the specification to obtain
\* the expectations of the *unmutated* specification for it.  Constants are strings in this mode.
Script == ndJsonDeserialize("script.ndjson")
ArgKeys == {"n", "l", "f", "t", "v", "from", "to"}
Match(r, sc) == /\ r.a = sc.a
                /\ \A k \in (DOMAIN sc \cap DOMAIN r) \cap ArgKeys : r[k] = sc[k]
                /\ ("fs" \in DOMAIN sc /\ "fs" \in DOMAIN r) => r.fs = {sc.fs[i] : i \in 1..Len(sc.fs)}
ScriptNext == /\ Len(hist) < Len(Script)
              /\ MCNext
              /\ Match(hist'[Len(hist')], Script[Len(hist) + 1])
ScriptSpec == MCInit /\ [][ScriptNext]_mcvars
\* follow the witness schedule, then continue with a random walk from the state it reaches
WitnessSimNext == IF Len(hist) < Len(Script) THEN ScriptNext ELSE SimNext
WitnessSimSpec == MCInit /\ [][WitnessSimNext]_mcvars
ExportEvery == (Len(hist) > 0) => PrintT(<<"RUN", ToJson(hist)>>)

----------------------------------------------------------------------------
\* Targets: branch conditions of the specification whose shortest witnesses (TLC counterexamples of
\* "the target is never reached") are stored as witness schedules under /verif/replays/witness.
HLast == hist[Len(hist)]
HPrev == hist[Len(hist) - 1]
WalLen(h, n) == h.exp.nodes[n].first + Len(h.exp.nodes[n].wal)
Attached == Len(hist) >= 2 /\ HLast.a \in {"BecomeLeader", "AddFollower"} /\ HLast.sent
LeaderOf(h) == IF h.a = "BecomeLeader" THEN h.n ELSE h.l
\* a follower shorter than the leader is truncated (divergent tail of an older term)
TgtTruncShorter == Attached /\ \E f \in Nodes :
                      /\ Len(HLast.exp.nodes[f].wal) < Len(HPrev.exp.nodes[f].wal)
                      /\ Len(HPrev.exp.nodes[f].wal) < Len(HLast.exp.nodes[LeaderOf(HLast)].wal)
                      /\ Len(HLast.exp.nodes[f].wal) > 0
\* a follower longer than the leader is truncated
TgtTruncLonger == Attached /\ \E f \in Nodes :
                      /\ Len(HLast.exp.nodes[f].wal) < Len(HPrev.exp.nodes[f].wal)
                      /\ Len(HPrev.exp.nodes[f].wal) > Len(HLast.exp.nodes[LeaderOf(HLast)].wal)
\* a duplicate Append is acknowledged
TgtDupAck == Len(hist) >= 2 /\ HLast.a = "Append" /\ \E s \in HLast.exp.streams : \E p \in HPrev.exp.streams :
                      s.l = p.l /\ s.f = p.f /\ Len(s.ack) > Len(p.ack)
\* an Append of another term is refused (the stream is closed by the follower)
TgtTermReject == Len(hist) >= 2 /\ HLast.a = "Append" /\ Cardinality(HLast.exp.streams) < Cardinality(HPrev.exp.streams)
\* NewTerm answered while an appended entry is not synced yet
TgtHeadLag == "headLag" \in kf
TgtFig8 == "fig8" \in kf
TgtDupAckUnsynced == "dupAck" \in kf
\* a crash loses an unsynced tail and the node is elected again later
TgtCrashLoss == Len(hist) >= 2 /\ HLast.a = "Crash" /\ Len(wal[HLast.n]) < Len(HPrev.exp.nodes[HLast.n].wal)
\* a late NewTerm of a superseded election is refused
TgtLateNewTerm == Len(hist) >= 1 /\ HLast.a = "NewTerm" /\ ~HLast.ok
\* a third term leader serves after two elections with writes in both earlier terms
TgtThreeTerms == \E n \in Nodes : status[n] = "LEADER" /\ term[n] = 3 /\ Len(applied[n]) >= 2
                                   /\ \E i, j \in 1..Len(wal[n]) : wal[n][i].t = 1 /\ wal[n][j].t = 2
\* a write is acknowledged with RF = 3 after acks of both followers were delivered
TgtTwoFollowerAcks == \E n \in Nodes : lead[n] # NULL /\ acked # {} /\ \E o \in 1..MaxWrites : Cardinality(lead[n].acks[o]) = 2
\* a snapshot was installed and the node later became leader
TgtSnapshotLeader == \E n \in Nodes : phantom[n] > 0 /\ status[n] = "LEADER"
\* BecomeLeader timed out with cursors left behind, then the node was elected again
TgtTimeoutThenLeader == \E i \in 1..Len(hist) : hist[i].a = "BecomeLeaderTimeout" /\ status[hist[i].n] = "LEADER" /\ term[hist[i].n] > hist[i].exp.nodes[hist[i].n].term

NotTgtTruncShorter == ~TgtTruncShorter
NotTgtTruncLonger == ~TgtTruncLonger
NotTgtDupAck == ~TgtDupAck
NotTgtTermReject == ~TgtTermReject
NotTgtHeadLag == ~TgtHeadLag
NotTgtFig8 == ~TgtFig8
NotTgtDupAckUnsynced == ~TgtDupAckUnsynced
NotTgtCrashLoss == ~TgtCrashLoss
NotTgtLateNewTerm == ~TgtLateNewTerm
NotTgtThreeTerms == ~TgtThreeTerms
NotTgtTwoFollowerAcks == ~TgtTwoFollowerAcks
NotTgtSnapshotLeader == ~TgtSnapshotLeader
NotTgtTimeoutThenLeader == ~TgtTimeoutThenLeader
View == vars
JsonAlias == [h |-> ToJson(hist)]
StopAtDepth == Len(hist) <= MaxDepth
=============================================================================
