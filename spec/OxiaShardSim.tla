---------------------------- MODULE OxiaShardSim ----------------------------
(* Export of behaviours of OxiaShard for replay on the real code: a history  *)
(* variable `hist` holds one record per step with the action, its arguments  *)
(* and the projection of the state the specification demands after it.       *)
EXTENDS OxiaShardMC, Json

CONSTANTS Export, MaxDepth

VARIABLE hist
mcvars == <<vars, hist>>

----------------------------------------------------------------------------
\* projection of the (primed) state that the harness can observe on the real nodes
Vals(s) == [i \in 1..Len(s) |-> s[i].v]
PNode(n) ==
    [up |-> up'[n], ctrl |-> ctrl'[n], status |-> status'[n], term |-> term'[n],
     wal |-> SubSeq(wal'[n], phantom'[n] + 1, Len(wal'[n])),
     first |-> IF Len(wal'[n]) > phantom'[n] THEN phantom'[n] + 1 ELSE 0,
     synced |-> IF synced'[n] > phantom'[n] THEN synced'[n] ELSE 0,
     applied |-> Vals(applied'[n]),
     dbterm |-> dur'[n].term,
     head |-> IF lead'[n] # NULL THEN lead'[n].head ELSE -1,
     commit |-> IF lead'[n] # NULL THEN lead'[n].commit ELSE -1,
     busy |-> lead'[n] # NULL /\ lead'[n].busy,
     lastapp |-> IF fol'[n] # NULL THEN fol'[n].lastApp ELSE -1,
     parked |-> (lead'[n] # NULL /\ lead'[n].cbq # {}) \/ (fol'[n] # NULL /\ fol'[n].parked # {}),
     cursors |-> [f \in {x \in Nodes : lead'[n] # NULL /\ lead'[n].cur[x] # NULL} |-> lead'[n].cur[f].ack]]
PStreams == {[l |-> k[1], f |-> k[2],
              app |-> [i \in 1..Len(streams'[k].app) |-> [o |-> streams'[k].app[i].o, t |-> streams'[k].app[i].t, c |-> streams'[k].app[i].c]],
              ack |-> streams'[k].ack] : k \in {q \in StreamKeys : streams'[q] # NULL}}
Proj == [nodes |-> [n \in Nodes |-> PNode(n)], streams |-> PStreams,
         acked |-> {[off |-> w.off, t |-> w.t] : w \in acked'}, kf |-> kf']

Log(r) == hist' = Append(hist, r @@ [exp |-> Proj])

MCInit == Init /\ hist = <<>>

MCNext ==
    \/ \E r \in ntq : /\ HandleNewTerm(r.n, r.t)
                      /\ Log([a |-> "NewTerm", n |-> r.n, t |-> r.t, ok |-> NewTermOutcome(r.n, r.t) = "ok",
                              head |-> IF NewTermOutcome(r.n, r.t) = "ok" THEN ReportedHead(r.n) ELSE NoHead])
    \/ \E n \in Nodes : WalSync(n) /\ Log([a |-> "Sync", n |-> n])
    \/ \E n \in Nodes : Crash(n) /\ Log([a |-> "Crash", n |-> n])
    \/ \E n \in Nodes : Restart(n) /\ Log([a |-> "Restart", n |-> n])
    \/ \E n \in Nodes, v \in Values : ClientWrite(n, v) /\ Log([a |-> "Write", n |-> n, v |-> v, off |-> lead[n].next + 1, t |-> term[n]])
    \/ \E l, f \in Nodes : CursorConnect(l, f) /\ Log([a |-> "Connect", l |-> l, f |-> f])
    \/ \E l, f \in Nodes : CursorSnapshot(l, f) /\ Log([a |-> "Snapshot", l |-> l, f |-> f])
    \/ \E l, f \in Nodes : DeliverAppend(l, f) /\ Log([a |-> "Append", l |-> l, f |-> f])
    \/ \E l, f \in Nodes : DeliverAck(f, l) /\ Log([a |-> "Ack", l |-> l, f |-> f])
    \/ \E l, f \in Nodes : StreamReset(l, f) /\ Log([a |-> "Reset", l |-> l, f |-> f])
    \/ CoElect /\ Log([a |-> "CoElect", t |-> meta.term + 1])
    \/ CoElected /\ Log([a |-> "CoElected", t |-> meta.term, deleted |-> meta.removed])
    \/ CoBecomeLeaderTimeout /\ Log([a |-> "BecomeLeaderTimeout", n |-> co.leader])
    \/ CoCrash /\ Log([a |-> "CoCrash"])
    \/ CoRestart /\ Log([a |-> "CoRestart"])
    \/ \E n \in Nodes, R \in SUBSET Nodes :
          /\ CoBecomeLeader(n, R)
          /\ Log([a |-> "BecomeLeader", n |-> n, t |-> meta.term, rf |-> Cardinality(meta.ens),
                  fm |-> [m \in (R \cap meta.ens) \ {n} |-> RespHead(m)],
                  sent |-> BecomeLeaderOutcome(n, meta.term) = "ok" /\ ~Busy(n) /\ NoParkedSync(n)])
    \/ \E n \in Nodes : CoRetryNewTerm(n) /\ Log([a |-> "CoRetryNewTerm", n |-> n, t |-> meta.term])
    \/ \E f \in Nodes :
          /\ CoRetryAdd(f)
          /\ LET r == CHOOSE q \in ntr : q.n = f /\ q.t = meta.term
                 l == meta.leader
             IN Log([a |-> "AddFollower", l |-> l, f |-> f, t |-> meta.term, head |-> r.head,
                     sent |-> r.ok /\ up[l] /\ ctrl[l] = "leader" /\ term[l] = meta.term /\ status[l] = "LEADER" /\ ~Busy(l)
                              /\ lead[l].cur[f] = NULL])
    \/ \E x, y \in Nodes : CoSwap(x, y) /\ Log([a |-> "CoSwap", from |-> x, to |-> y, t |-> meta.term + 1])

MCSpec == MCInit /\ [][MCNext]_mcvars

\* Simulation only: the same steps with probabilistic gates on the disruptive ones (so that random
\* walks make progress between elections and faults) and an always-enabled padding step.
P(p) == RandomElement(1..100) <= p
Disruptive == \/ (CoElect /\ co.phase \in {"steady", "fencing"})
              \/ \E n \in Nodes : Crash(n)
              \/ \E l, f \in Nodes : StreamReset(l, f)
              \/ CoBecomeLeaderTimeout \/ CoCrash
              \/ \E x, y \in Nodes : CoSwap(x, y)
SimNext == \/ (MCNext /\ (Disruptive => P(12)))
           \/ (UNCHANGED vars /\ hist' = Append(hist, [a |-> "Idle"]))
SimSpec == MCInit /\ [][SimNext]_mcvars

ExportRuns == (Export = "runs" /\ Len(hist) = MaxDepth) => PrintT(<<"RUN", ToJson(hist)>>)
StopAtDepth == Len(hist) <= MaxDepth
=============================================================================
