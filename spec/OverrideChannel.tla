-------------------------- MODULE OverrideChannel --------------------------
(* common/channel/override_channel.go: a channel of capacity 1 that keeps    *)
(* only the latest value.  WriteLast never blocks: under a mutex it loops    *)
(*     select { ch <- v: return;  default: select { <-ch: ; default: } }     *)
(* i.e. "try to send; if the buffer is full drain it and retry".  Receive    *)
(* takes the buffered value.  Each select is one atomic step here.           *)
(* C16 (last sentence): a subscriber always eventually observes the latest   *)
(* generated key = once the writers stop, the last value received is the     *)
(* last value written:  <>[](lastReceived = lastWritten).                    *)
EXTENDS Integers, Sequences, FiniteSets

CONSTANTS Writers,      \* writer identities (serialized by the mutex)
          MaxWrites,    \* total number of WriteLast calls
          DropWhenFull  \* mutant: give up instead of draining when the buffer is full

VARIABLES buf,          \* the Go channel buffer (capacity 1)
          lock,         \* holder of the mutex, or "free"
          pc,           \* per writer: "idle" | "send" | "drain"
          cur,          \* per writer: value being written
          next,         \* next value to be generated (values are 1, 2, 3, ...)
          lastWritten,  \* value of the last WriteLast that took the mutex
          lastReceived, \* value returned by the last Receive (0 = none)
          received      \* history: all values received, in order
vars == <<buf, lock, pc, cur, next, lastWritten, lastReceived, received>>

Init == /\ buf = <<>> /\ lock = "free" /\ pc = [w \in Writers |-> "idle"] /\ cur = [w \in Writers |-> 0]
        /\ next = 1 /\ lastWritten = 0 /\ lastReceived = 0 /\ received = <<>>

\* WriteLast(v): o.Lock()
Begin(w) == /\ pc[w] = "idle" /\ lock = "free" /\ next <= MaxWrites
            /\ lock' = w /\ pc' = [pc EXCEPT ![w] = "send"] /\ cur' = [cur EXCEPT ![w] = next]
            /\ next' = next + 1 /\ lastWritten' = next
            /\ UNCHANGED <<buf, lastReceived, received>>
\* select { case o.ch <- value: return; default: ... }
TrySend(w) == /\ pc[w] = "send"
              /\ IF buf = <<>>
                 THEN buf' = <<cur[w]>> /\ pc' = [pc EXCEPT ![w] = "idle"] /\ lock' = "free"
                 ELSE IF DropWhenFull
                      THEN UNCHANGED buf /\ pc' = [pc EXCEPT ![w] = "idle"] /\ lock' = "free"
                      ELSE UNCHANGED <<buf, lock>> /\ pc' = [pc EXCEPT ![w] = "drain"]
              /\ UNCHANGED <<cur, next, lastWritten, lastReceived, received>>
\* select { case <-o.ch: continue; default: continue }
Drain(w) == /\ pc[w] = "drain"
            /\ buf' = <<>> /\ pc' = [pc EXCEPT ![w] = "send"]
            /\ UNCHANGED <<lock, cur, next, lastWritten, lastReceived, received>>
\* Receive: case t = <-o.ch
Receive == /\ buf # <<>>
           /\ lastReceived' = buf[1] /\ received' = Append(received, buf[1]) /\ buf' = <<>>
           /\ UNCHANGED <<lock, pc, cur, next, lastWritten>>

Next == (\E w \in Writers : Begin(w) \/ TrySend(w) \/ Drain(w)) \/ Receive
Spec == Init /\ [][Next]_vars /\ WF_vars(Receive) /\ \A w \in Writers : WF_vars(TrySend(w) \/ Drain(w))

TypeOK == Len(buf) <= 1 /\ lock \in Writers \cup {"free"}
\* the receiver never goes back in time and never sees a value twice
Monotone == \A i, j \in 1..Len(received) : i < j => received[i] < received[j]
\* when no writer is inside WriteLast, the latest value is either buffered or already received
LatestKept == (lock = "free" /\ lastWritten > 0) => (buf = <<lastWritten>> \/ lastReceived = lastWritten)
\* liveness
EventuallyLatest == <>[](lastReceived = lastWritten)
=============================================================================
