------------------------------ MODULE ShardMap ------------------------------
(***************************************************************************)
(* The shard map (C18): hash ranges, their generation, the evolution of    *)
(* the cluster status under configuration changes, the client's routing    *)
(* table.                                                                  *)
(*                                                                         *)
(* TLC integers are 32-bit signed, the hash space is 0 .. 2^32-1.  A hash  *)
(* is therefore a pair of limbs <<hi, lo>>, each in 0..LimbMax (LimbMax =  *)
(* 65535 for the real space; a small LimbMax gives a small space with the  *)
(* same arithmetic for exhaustive model checking).  Order, successor,      *)
(* addition and multiplication by a small factor are done on limbs, so     *)
(* adjacency (next.min = prev.max + 1) and the end of the space are        *)
(* decided by TLC on the real 32-bit values.                               *)
(*                                                                         *)
(* A shard is a record [id, min, max, del] (del = being deleted).          *)
(***************************************************************************)
EXTENDS Integers, Sequences, FiniteSets, TLC

CONSTANT LimbMax

B == LimbMax + 1
Zero == <<0, 0>>
Top == <<LimbMax, LimbMax>>
IsHash(h) == Len(h) = 2 /\ h[1] \in 0..LimbMax /\ h[2] \in 0..LimbMax
LE(a, b) == a[1] < b[1] \/ (a[1] = b[1] /\ a[2] <= b[2])
Succ(a) == IF a[2] = LimbMax THEN <<a[1] + 1, 0>> ELSE <<a[1], a[2] + 1>>      \* a # Top
Add(a, b) == LET s == a[2] + b[2] IN <<a[1] + b[1] + (s \div B), s % B>>
Mul(k, a) == LET p == k * a[2] IN <<k * a[1] + (p \div B), p % B>>               \* k * LimbMax < 2^31
Covers(s, h) == LE(s.min, h) /\ LE(h, s.max)
Overlap(a, b) == LE(a.min, b.max) /\ LE(b.min, a.max)          \* shard_manager.go:overlap

(***************************************************************************)
(* The property: the shards partition the hash space exactly.              *)
(***************************************************************************)
(* for a sequence sorted by min: linear, usable for thousands of shards *)
PartitionSeq(q) ==
    /\ Len(q) >= 1
    /\ \A i \in 1..Len(q) : IsHash(q[i].min) /\ IsHash(q[i].max) /\ LE(q[i].min, q[i].max)
    /\ q[1].min = Zero
    /\ q[Len(q)].max = Top
    /\ \A i \in 1..(Len(q) - 1) : q[i].max # Top /\ q[i + 1].min = Succ(q[i].max)
(* for a set: one first, one last, "next" is a bijection (ranges are non-empty, so no cycle is possible) *)
PartitionSet(S) ==
    /\ \A s \in S : IsHash(s.min) /\ IsHash(s.max) /\ LE(s.min, s.max)
    /\ Cardinality({s \in S : s.min = Zero}) = 1
    /\ Cardinality({s \in S : s.max = Top}) = 1
    /\ \A s \in S : s.max # Top => Cardinality({t \in S : t.min = Succ(s.max)}) = 1
    /\ \A t \in S : t.min # Zero => Cardinality({s \in S : s.max # Top /\ Succ(s.max) = t.min}) = 1
RouteSet(S, h) == {s \in S : Covers(s, h)}

(***************************************************************************)
(* common/sharding/shards.go:GenerateShards(base, n), n <= 32768           *)
(*   bucket = MaxUint32 / n + 1, rounded down instead when n-1 such        *)
(*   buckets would exhaust the space;  shard i = [i*bucket,                *)
(*   i*bucket+bucket-1] and the last one is extended to MaxUint32          *)
(***************************************************************************)
Pred(a) == IF a[2] = 0 THEN <<a[1] - 1, LimbMax>> ELSE <<a[1], a[2] - 1>>      \* a # Zero
BucketMinus1(n) ==         \* floor((B^2 - 1) / n) by long division on limbs
    LET qh == LimbMax \div n
        r  == LimbMax % n
    IN <<qh, (r * B + LimbMax) \div n>>
GenShards(base, n) ==
    IF n = 1 THEN <<[id |-> base, min |-> Zero, max |-> Top, del |-> FALSE]>>
    ELSE LET q0 == BucketMinus1(n)
             over == Mul(n - 1, Succ(q0))[1] > LimbMax      \* n-1 rounded-up buckets leave no room
             q == IF over THEN Pred(q0) ELSE q0             \* bucket - 1
             bucket == Succ(q)
         IN [i \in 1..n |-> LET lo == Mul(i - 1, bucket) IN
               [id |-> base + i - 1, min |-> lo, max |-> IF i = n THEN Top ELSE Add(lo, q), del |-> FALSE]]
Range(f) == {f[i] : i \in DOMAIN f}

(***************************************************************************)
(* coordinator/utils/cluster_updates.go:ApplyClusterChanges                *)
(* status = [ns |-> function name -> set of shards, gen |-> id generator]  *)
(* config = [servers |-> number of servers,                                *)
(*           ns |-> sequence of [name, count, rf]]                         *)
(* A namespace can be placed iff rf <= servers (no policies here, C19).    *)
(* AllOrNothing: a namespace whose shards cannot all be placed is not      *)
(* created (and does not consume ids); FALSE = the behaviour found in the  *)
(* code before the fix: the refused shards were silently left out.         *)
(***************************************************************************)
RECURSIVE AddNew(_, _, _, _, _, _)
AddNew(nsq, i, m, gen, servers, allOrNothing) ==
    IF i > Len(nsq) THEN [ns |-> m, gen |-> gen]
    ELSE LET c == nsq[i] IN
         IF c.name \in DOMAIN m THEN AddNew(nsq, i + 1, m, gen, servers, allOrNothing)
         ELSE IF c.rf <= servers
              THEN AddNew(nsq, i + 1, m @@ (c.name :> Range(GenShards(gen, c.count))), gen + c.count, servers, allOrNothing)
         ELSE IF allOrNothing THEN AddNew(nsq, i + 1, m, gen, servers, allOrNothing)
         ELSE AddNew(nsq, i + 1, m @@ (c.name :> {}), gen + c.count, servers, allOrNothing)

Apply(cfg, st, allOrNothing) ==
    LET names   == {cfg.ns[i].name : i \in DOMAIN cfg.ns}
        marked  == [x \in DOMAIN st.ns |-> IF x \in names THEN st.ns[x]
                                          ELSE {[s EXCEPT !.del = TRUE] : s \in st.ns[x]}]
        added   == AddNew(cfg.ns, 1, st.ns, st.gen, cfg.servers, allOrNothing)
    IN [ns |-> [x \in DOMAIN added.ns |-> IF x \in DOMAIN st.ns THEN marked[x] ELSE added.ns[x]], gen |-> added.gen]

(* status_resource.go:DeleteShardMetadata *)
DeleteShard(st, name, id) ==
    LET rest == {s \in st.ns[name] : s.id # id} IN
    IF rest = {} THEN [st EXCEPT !.ns = [x \in DOMAIN st.ns \ {name} |-> st.ns[x]]]
    ELSE [st EXCEPT !.ns[name] = rest]

Ids(st) == UNION {{s.id : s \in st.ns[x]} : x \in DOMAIN st.ns}
AllShards(st) == UNION {st.ns[x] : x \in DOMAIN st.ns}
LiveShards(S) == {s \in S : ~s.del}
(* a namespace is live unless all its (at least one) shards are being deleted *)
Deleting(S) == S # {} /\ \A s \in S : s.del
StatusPartitioned(st) == \A x \in DOMAIN st.ns : ~Deleting(st.ns[x]) => PartitionSet(LiveShards(st.ns[x]))
StatusIdsUnique(st) == \A s, t \in AllShards(st) : s.id = t.id => s = t
(* coordinator.go:computeNewAssignments: the shards that are not being deleted *)
Published(st, name) == LiveShards(st.ns[name])

(***************************************************************************)
(* oxia/internal/shard_manager.go:update -- for every update with an id    *)
(* the client does not know, drop the known shards it overlaps; then store *)
(* The overlap test is a parameter so that weaker tests can be explored as *)
(* design mutants (OverlapEndpoint: "an endpoint of the new range lies in  *)
(* the existing range" misses an old shard strictly inside a new, wider    *)
(* one -- a namespace re-created with fewer shards).                       *)
(***************************************************************************)
OverlapEndpoint(a, b) == Covers(b, a.min) \/ Covers(b, a.max)
ClientUpdate1With(Ov(_, _), tbl, u) ==
    IF \E s \in tbl : s.id = u.id THEN {s \in tbl : s.id # u.id} \cup {u}
    ELSE {s \in tbl : ~Ov(u, s)} \cup {u}
RECURSIVE ClientUpdateWith(_, _, _)
ClientUpdateWith(Ov(_, _), tbl, ups) ==    \* ups: sequence of updates
    IF ups = <<>> THEN tbl ELSE ClientUpdateWith(Ov, ClientUpdate1With(Ov, tbl, ups[1]), Tail(ups))
ClientUpdate1(tbl, u) == ClientUpdate1With(Overlap, tbl, u)
ClientUpdate(tbl, ups) == ClientUpdateWith(Overlap, tbl, ups)

(* What must hold after the client applied a publication `last` (a partition): its table is exactly that  *)
(* publication -- nothing stale survives, nothing published is missing -- hence every hash is routed to   *)
(* exactly one shard and that shard is the one the publication names (client/server agreement).           *)
Ranges(S) == {[id |-> s.id, min |-> s.min, max |-> s.max] : s \in S}
TableIsLast(tbl, last) == Ranges(tbl) = Ranges(last)
RoutesToLast(tbl, last, hashes) ==
    \A h \in hashes : /\ Cardinality(RouteSet(tbl, h)) = 1
                       /\ {s.id : s \in RouteSet(tbl, h)} = {s.id : s \in RouteSet(last, h)}
=============================================================================
