--------------------------- MODULE ClientBatchMC ---------------------------
(* Closed system around ClientBatch: a bounded application (issues calls    *)
(* from a template set), the shard servers (answer / fail batches, emit /   *)
(* end / fail streams) and the linger timers.  The client options and the   *)
(* cluster (number of shards, dead leaders) are chosen in the initial state,*)
(* so one TLC run covers every configuration of the cfg file.               *)
(*                                                                          *)
(*  Eager = FALSE: every interleaving of client goroutines, servers, timers *)
(*                 and the application (exhaustive check of the properties).*)
(*  Eager = TRUE : client goroutines run to quiescence before the           *)
(*                 environment moves again and all running linger timers    *)
(*                 expire together - exactly the behaviours a test driver   *)
(*                 that owns the servers can force on the real client; they *)
(*                 are exported (`hist`) and replayed on the real code.     *)
EXTENDS ClientBatch, TLC, Json

CONSTANTS NShardsSet, ReqLimits, ByteLimits, Lingers, DeadSets,
          Tmos,          \* {FALSE}: the request timeout never fires; {TRUE}: it can (MaxExpire times)
          Templates,     \* call templates the application chooses from
          MaxCalls, MaxFail, MaxBreak, MaxExpire, MaxStream, NKeys,
          Eager,
          Export         \* "none" | "steps" | "runs"

VARIABLES nfail, nbreak, nexp, hist,
          mustT     \* Eager only: the request timeout has just been let pass - linger timers started by the
                    \* batchers that were released meanwhile have fired too (real time is global)
mvars == <<cfg, calls, q, cur, fly, ans, agg, done, res, sent, part, late, sst, emitted, wire, chn, gcl, fin, mrg, out, nfail, nbreak, nexp, mustT, hist>>
View  == <<cfg, calls, q, cur, fly, ans, agg, done, res, sent, part, late, sst, emitted, wire, chn, gcl, fin, mrg, out, nfail, nbreak, nexp, mustT>>
cnts  == <<nfail, nbreak, nexp>>

Configs == {c \in [n : NShardsSet, maxReq : ReqLimits, maxBytes : ByteLimits, linger : Lingers, dead : DeadSets, tmo : Tmos] :
                c.dead \subseteq 1..c.n}

MInit == /\ \E c0 \in Configs : Init(c0)
         /\ nfail = 0 /\ nbreak = 0 /\ nexp = 0 /\ mustT = FALSE /\ hist = <<>>

\* a template can be issued on this cluster: its shard exists, batched calls avoid dead leaders
\* (their retries would only end with the request timeout)
Allowed(t) == /\ (~Fanout(t) => t.sh \in Shards)
              /\ (KindOf(t) # "s" => Targets(t) \cap cfg.dead = {})

\* observable state: requests the servers hold unanswered, completions, delivered items
ObsNow  == [fly |-> fly, done |-> done, res |-> res, out |-> out, sent |-> sent, late |-> late]
ObsNext == [fly |-> fly', done |-> done', res |-> res', out |-> out', sent |-> sent', late |-> late']
NoT == [op |-> "", cmp |-> "", pk |-> FALSE, sh |-> 0, size |-> 0, tbl |-> 0]
\* environment steps carry the observable state *before* the step (in Eager mode a quiescent state the
\* replayer can wait for); client-internal steps are recorded by name only
Log(a, c, s, k, t, key, how) ==
    hist' = Append(hist, [a |-> a, c |-> c, s |-> s, k |-> k, t |-> t, key |-> key, how |-> how, n |-> 0, pre |-> ObsNow])
LogN(a, s, k, n) ==
    hist' = Append(hist, [a |-> a, c |-> 0, s |-> s, k |-> k, t |-> NoT, key |-> <<>>, how |-> "", n |-> n, pre |-> ObsNow])
LogI(a, c, s, k) == hist' = Append(hist, [a |-> a, c |-> c, s |-> s, k |-> k])
CfgRec == [n |-> cfg.n, maxReq |-> cfg.maxReq, maxBytes |-> cfg.maxBytes, linger |-> cfg.linger, dead |-> cfg.dead, tmo |-> cfg.tmo]

MInternal ==
    /\ UNCHANGED cnts
    /\ \/ \E s \in Shards, k \in Kinds : Take(s, k) /\ LogI("Take", 0, s, k)
       \/ \E c \in CallIds :
            \/ \E s \in Shards : Fwd(c, s) /\ LogI("Fwd", c, s, "")
            \/ ListClose(c) /\ LogI("ListClose", c, 0, "")
            \/ MTake(c) /\ LogI("MTake", c, 0, "")
            \/ MPop(c) /\ LogI("MPop", c, 0, "")

MTimer ==
    /\ IF Eager THEN TimerAll /\ Log("Timer", 0, 0, "", NoT, <<>>, "")
                ELSE \E s \in Shards, k \in Kinds : Timer(s, k) /\ Log("Timer", 0, s, k, NoT, <<>>, "")
    /\ UNCHANGED cnts

MExpire ==
    /\ nexp < MaxExpire /\ (Eager => ~TimerAllEn)
    /\ IF Eager THEN ExpireAll /\ Log("Expire", 0, 0, "", NoT, <<>>, "")
                ELSE \E s \in Shards, k \in Kinds : Expire(s, k) /\ Log("Expire", 0, s, k, NoT, <<>>, "")
    /\ nexp' = nexp + 1 /\ UNCHANGED <<nfail, nbreak>>

MEnv ==
    \/ /\ Len(calls) < MaxCalls
       /\ \E t \in Templates : Allowed(t) /\ Issue(t) /\ Log("Issue", Len(calls) + 1, 0, "", t, <<>>, "")
       /\ UNCHANGED cnts
    \/ MTimer
    \/ \E s \in Shards, k \in Kinds :
         \/ Respond(s, k) /\ Log("Respond", 0, s, k, NoT, <<>>, "") /\ UNCHANGED cnts
         \/ nfail < MaxFail /\ Fail(s, k) /\ Log("Fail", 0, s, k, NoT, <<>>, "") /\ nfail' = nfail + 1 /\ UNCHANGED <<nbreak, nexp>>
         \* a retried request comes back after a real-time backoff: the replay generator lets that happen only
         \* while no linger timer is running (it would expire meanwhile)
         \/ /\ nbreak < MaxBreak /\ (Eager => ~TimerAllEn)
            /\ \E n \in 0..Len(fly[s][k]) : Break(s, k, n) /\ LogN("Break", s, k, n)
            /\ nbreak' = nbreak + 1 /\ UNCHANGED <<nfail, nexp>>
    \/ \E s \in Shards :
         \/ RespondLate(s) /\ Log("RespondLate", 0, s, "w", NoT, <<>>, "") /\ UNCHANGED cnts
         \/ ~Eager /\ nfail < MaxFail /\ DropLate(s) /\ Log("DropLate", 0, s, "w", NoT, <<>>, "")
            /\ nfail' = nfail + 1 /\ UNCHANGED <<nbreak, nexp>>
    \/ \E c \in CallIds, s \in Shards :
         \/ /\ Len(emitted[c][s]) < MaxStream
            /\ \E i \in 1..NKeys : SrvEmit(c, s, KeyList[i]) /\ Log("SEmit", c, s, "", NoT, KeyList[i], "")
            /\ UNCHANGED cnts
         \/ SrvEnd(c, s, "eof") /\ Log("SEnd", c, s, "", NoT, <<>>, "eof") /\ UNCHANGED cnts
         \/ nfail < MaxFail /\ SrvEnd(c, s, "err") /\ Log("SEnd", c, s, "", NoT, <<>>, "err") /\ nfail' = nfail + 1 /\ UNCHANGED <<nbreak, nexp>>

\* The request timeout is real time as well: the replay generator lets it pass only while no linger timer is
\* running; then every request in flight expires (each at its own moment, the batchers go on in between), and
\* the linger timers those batchers start fire before anything else can be done (Timer is forced next).
MNext == IF Eager /\ InternalEn THEN MInternal /\ UNCHANGED mustT
         ELSE IF Eager /\ mustT /\ TimerAllEn THEN MTimer /\ mustT' = FALSE
         ELSE \/ (MInternal \/ MEnv) /\ mustT' = FALSE
              \/ MExpire /\ mustT' = Eager

MSpec == MInit /\ [][MNext]_mvars

(* Template sets (referenced from the cfg files: Templates <- TWrite ...)  *)
T(op, cmp, pk, sh, size, tbl) == [op |-> op, cmp |-> cmp, pk |-> pk, sh |-> sh, size |-> size, tbl |-> tbl]
\* sizes: small put 10 bytes, big put 16, delete 8 (key only), delete-range 16 (two keys)
TWrite == { T("put", "EQ", FALSE, 1, 10, 0), T("put", "EQ", TRUE, 2, 10, 0), T("put", "EQ", FALSE, 1, 16, 0),
            T("del", "EQ", FALSE, 1, 8, 0), T("del", "EQ", TRUE, 2, 8, 0),
            T("delrange", "EQ", TRUE, 1, 16, 0), T("delrange", "EQ", FALSE, 0, 16, 0) }
TWriteSmall == { T("put", "EQ", FALSE, 1, 10, 0), T("put", "EQ", FALSE, 1, 16, 0), T("del", "EQ", FALSE, 1, 8, 0),
                 T("put", "EQ", TRUE, 2, 10, 0), T("delrange", "EQ", FALSE, 0, 16, 0) }
TRead  == { T("get", "EQ", FALSE, 1, 0, 0), T("get", "EQ", TRUE, 2, 0, 0), T("get", "FLOOR", TRUE, 1, 0, 0),
            T("get", "FLOOR", FALSE, 0, 0, 1), T("get", "CEILING", FALSE, 0, 0, 1),
            T("get", "LOWER", FALSE, 0, 0, 2), T("get", "HIGHER", FALSE, 0, 0, 3),
            T("get", "FLOOR", FALSE, 0, 0, 0) }
TReadSmall == { T("get", "EQ", FALSE, 1, 0, 0), T("get", "FLOOR", FALSE, 0, 0, 1), T("get", "HIGHER", FALSE, 0, 0, 2) }
\* several single-shard gets on one shard (own results all different) and one fan-out get: the batches whose
\* attempt breaks after a prefix of the responses (retry path of read_batch.go)
TRetry == { T("get", "EQ", FALSE, 1, 0, 0), T("get", "EQ", TRUE, 1, 0, 0), T("get", "CEILING", TRUE, 1, 0, 0),
            T("get", "FLOOR", FALSE, 0, 0, 1) }
TStream == { T("list", "EQ", TRUE, 1, 0, 0), T("list", "EQ", FALSE, 0, 0, 0),
             T("scan", "EQ", TRUE, 1, 0, 0), T("scan", "EQ", TRUE, 2, 0, 0), T("scan", "EQ", FALSE, 0, 0, 0) }
\* writes on one shard (results all different), a second shard and a fan-out delete-range: the requests whose
\* client-side wait times out while the write stream lives on
TExpire == { T("put", "EQ", FALSE, 1, 10, 0), T("put", "EQ", TRUE, 1, 10, 0), T("del", "EQ", FALSE, 1, 8, 0),
             T("put", "EQ", TRUE, 2, 10, 0), T("delrange", "EQ", FALSE, 0, 16, 0) }
\* the same with reads (a read is one RPC: its timeout cancels it, nothing arrives late)
TExpireRW == TExpire \cup { T("get", "EQ", FALSE, 1, 0, 0), T("get", "FLOOR", FALSE, 0, 0, 1) }
TExpireSmall == { T("put", "EQ", FALSE, 1, 10, 0), T("del", "EQ", FALSE, 1, 8, 0), T("delrange", "EQ", FALSE, 0, 16, 0) }
TMixed == { T("put", "EQ", FALSE, 1, 10, 0), T("del", "EQ", TRUE, 2, 8, 0), T("delrange", "EQ", FALSE, 0, 16, 0),
            T("get", "EQ", FALSE, 1, 0, 0), T("get", "FLOOR", FALSE, 0, 0, 1), T("get", "CEILING", FALSE, 0, 0, 2),
            T("list", "EQ", FALSE, 0, 0, 0), T("scan", "EQ", FALSE, 0, 0, 0), T("scan", "EQ", TRUE, 1, 0, 0) }

\* one behaviour per transition of the bounded graph that ends in a state where the client is quiescent
\* (the transitions in between are its inner steps)
ExportSteps == (Export = "steps" /\ ~InternalEn' /\ ~(mustT' /\ TimerAllEn')) => PrintT(<<"STEP", ToJson([cfg |-> CfgRec, steps |-> hist', post |-> ObsNext])>>)
\* a finished run: nothing enabled but (maybe) Issue, which is exhausted
RunOver == Len(calls) = MaxCalls /\ Stable
ExportRuns  == (Export = "runs" /\ RunOver) => PrintT(<<"RUN", ToJson([cfg |-> CfgRec, steps |-> hist, post |-> ObsNow])>>)
=============================================================================
