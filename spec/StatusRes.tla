------------------------------ MODULE StatusRes ------------------------------
(***************************************************************************)
(* The coordinator's status resource (coordinator/resources/              *)
(* status_resource.go): the durable cluster status with a version, used   *)
(* concurrently by the shard controllers (UpdateShardMetadata: read-      *)
(* modify-write of one shard's metadata, e.g. term + 1 before NewTerm is  *)
(* sent) and by the configuration path (LoadWithVersion ... Swap: compare-*)
(* and-set of the whole status).  Property C05: the durable term of a     *)
(* shard never decreases - a restarted coordinator never reuses a term.   *)
(* One shard is enough: `dterm` is its durable term, `marks` the set of   *)
(* configuration changes contained in the durable status.                 *)
(***************************************************************************)
EXTENDS Integers, FiniteSets

VARIABLES ver, dterm, marks,   \* durable: version, shard term, configuration marks
          loaded               \* config caller -> [ver, term, marks] it loaded and computes from (or NULL)
svars == <<ver, dterm, marks, loaded>>
CONSTANTS Callers, MaxTerm, NULL

SInit == ver = 0 /\ dterm = 0 /\ marks = {} /\ loaded = [c \in Callers |-> NULL]

\* UpdateShardMetadata under the resource lock: the shard controller stores term + 1 (its own view of the
\* term is the durable one: it is the only writer of that shard's term)
ElectionStore == /\ dterm < MaxTerm /\ dterm' = dterm + 1 /\ ver' = ver + 1 /\ UNCHANGED <<marks, loaded>>

Load(c) == /\ loaded[c] = NULL
           /\ loaded' = [loaded EXCEPT ![c] = [ver |-> ver, term |-> dterm, marks |-> marks]]
           /\ UNCHANGED <<ver, dterm, marks>>

\* Swap(newStatus, version): compare-and-set, atomic with respect to every other writer
Swap(c) == /\ loaded[c] # NULL
           /\ IF loaded[c].ver = ver
              THEN /\ dterm' = loaded[c].term /\ marks' = loaded[c].marks \cup {c} /\ ver' = ver + 1
              ELSE UNCHANGED <<ver, dterm, marks>>
           /\ loaded' = [loaded EXCEPT ![c] = NULL]

SNext == ElectionStore \/ \E c \in Callers : Load(c) \/ Swap(c)
SSpec == SInit /\ [][SNext]_svars

VerBound == ver <= MaxTerm + 3      \* state constraint of the bounded model
TermDurableMonotone == [][dterm' >= dterm]_svars
VersionMonotone == [][ver' >= ver]_svars
=============================================================================
