----------------------------- MODULE LinTraceLA -----------------------------
(***************************************************************************)
(* Linearizability (Lin.tla) of LONG concurrent client histories, recorded *)
(* on free-running real nodes (shardsim linstress).  Same object and same  *)
(* acceptance condition as LinTrace, but the search is pruned with what    *)
(* the trace already tells: every read invocation line carries the result  *)
(* its own response line will report (`fut`, copied by the recorder from   *)
(* that response; `hasret` says whether there is one).  The object only    *)
(* grows, hence:                                                           *)
(*  - a read can take effect exactly while the state equals its result:    *)
(*    `sat` records whether that was the case at some moment since its     *)
(*    invocation (no silent steps for reads);                              *)
(*  - a write takes effect at the latest at its response (then it is       *)
(*    forced), and earlier only when a pending read that still can be      *)
(*    satisfied needs it (silent step, the only nondeterminism);           *)
(*  - a write without response takes effect only when a read needs it.     *)
(* A read flagged stale (served by a deposed leader: a higher term had     *)
(* been installed before its invocation) may return any earlier state.     *)
(***************************************************************************)
EXTENDS Integers, Sequences, FiniteSets, Json, TLC

TraceLog == ndJsonDeserialize("trace.ndjson")
VARIABLES present, past, pend, l
tvars == <<present, past, pend, l>>
SetOf(s) == {s[i] : i \in 1..Len(s)}
Drop(f, k) == [x \in DOMAIN f \ {k} |-> f[x]]
Put(f, k, v) == [x \in DOMAIN f \cup {k} |-> IF x = k THEN v ELSE f[x]]
Empty == [o \in {} |-> 0]

TInit == present = {} /\ past = {{}} /\ pend = Empty /\ l = 1

\* the state becomes p: pending reads whose result it is are satisfied
Resat(pd, p) == [o \in DOMAIN pd |-> IF pd[o].kind = "r" /\ pd[o].fut = p THEN [pd[o] EXCEPT !.sat = TRUE] ELSE pd[o]]

Consume ==
    /\ l <= Len(TraceLog)
    /\ l' = l + 1
    /\ LET e == TraceLog[l] IN
       \/ e.ev = "reset" /\ present' = {} /\ past' = {{}} /\ pend' = Empty
       \/ /\ e.ev = "invw" /\ e.op \notin DOMAIN pend
          /\ pend' = Put(pend, e.op, [kind |-> "w", w |-> e.w, fut |-> {}, sat |-> FALSE])
          /\ UNCHANGED <<present, past>>
       \/ /\ e.ev = "invr" /\ e.op \notin DOMAIN pend
          /\ pend' = IF e.hasret THEN Put(pend, e.op, [kind |-> "r", w |-> -1, fut |-> SetOf(e.fut), sat |-> SetOf(e.fut) = present])
                     ELSE pend
          /\ UNCHANGED <<present, past>>
       \/ /\ e.ev = "retw" /\ e.op \in DOMAIN pend
          /\ LET w == pend[e.op].w
                 p == present \cup {w}
             IN /\ present' = p /\ past' = past \cup {p}
                /\ pend' = Resat(Drop(pend, e.op), p)
       \/ /\ e.ev = "retr" /\ e.op \in DOMAIN pend
          /\ pend[e.op].fut = SetOf(e.res)                      \* the recorder's copy is the response
          /\ pend[e.op].sat \/ (e.stale /\ SetOf(e.res) \in past)
          /\ pend' = Drop(pend, e.op)
          /\ UNCHANGED <<present, past>>

\* a pending write takes effect now because a pending read, which can still be satisfied, reports it
Silent ==
    /\ l <= Len(TraceLog)
    /\ \E op \in DOMAIN pend :
          /\ pend[op].kind = "w" /\ pend[op].w \notin present
          /\ \E r \in DOMAIN pend : /\ pend[r].kind = "r" /\ ~pend[r].sat
                                    /\ pend[op].w \in pend[r].fut /\ present \subseteq pend[r].fut
          /\ LET p == present \cup {pend[op].w} IN
             /\ present' = p /\ past' = past \cup {p}
             /\ pend' = Resat(pend, p)       \* the write stays pending until its response (if any) arrives
    /\ UNCHANGED l

TNext == Consume \/ Silent
TraceSpec == TInit /\ [][TNext]_tvars

HighWater == IF l > TLCGet(1) THEN TLCSet(1, l) ELSE TRUE
ASSUME TLCSet(1, 0)
TraceAccepted == IF TLCGet(1) = Len(TraceLog) + 1 THEN TRUE ELSE Print(<<"REJECTED", TLCGet(1), Len(TraceLog)>>, FALSE)
=============================================================================
