---------------------------- MODULE SlashOrderMC ----------------------------
(* Enumerates keys and checks the laws of SlashOrder in every state.  A      *)
(* state is a triple of keys (a, b, c); Next appends one *unit* to one of    *)
(* them, so the reachable states are exactly all triples of keys made of at  *)
(* most MaxLen (MaxLenC for c) units and at most MaxBytes bytes.  With       *)
(* MaxLenC = 0 the states are all pairs (pair laws, engine contract, export  *)
(* of the comparison table).                                                 *)
(* Two key families:                                                         *)
(*  - bytes  (Chunks = {}): a unit is one byte of Alphabet - every key up    *)
(*    to length 3-4 over '/' and its byte neighbours;                        *)
(*  - chunks (Chunks # {}): a unit is a multi-byte chunk (1, 3, 7, 8, 9      *)
(*    bytes over two letters, and "/"), so that with few keys the lengths    *)
(*    8..26 and every position of the first '/' relative to the 8- and       *)
(*    16-byte boundaries are enumerated (flat long keys against keys with a  *)
(*    long first span; the shapes a word-at-a-time comparison gets wrong).   *)
(* The comparison itself is always the byte-level transcription.             *)
EXTENDS SlashOrder, TLC, Json

CONSTANTS Alphabet,   \* byte codes; must contain 47 ('/') and its neighbours 46 ('.') and 48 ('0')
          Chunks,     \* {} or a set of byte sequences (a .cfg says Chunks <- ChunksQ)
          MaxLen, MaxLenC,   \* units per key
          MaxBytes,   \* bytes per key
          SepImpl,    \* what kv_pebble.go installs as Separator/Successor: "identity" | "bytewise"
          Export      \* "none" | "table"

VARIABLES a, b, c, na, nb, nc
vars == <<a, b, c, na, nb, nc>>


ASSUME {46, 47, 48} \subseteq Alphabet /\ Alphabet \subseteq 0..255

Units == IF Chunks = {} THEN {<<x>> : x \in Alphabet} ELSE Chunks

Init == a = <<>> /\ b = <<>> /\ c = <<>> /\ na = 0 /\ nb = 0 /\ nc = 0
Next == \E x \in Units :
          \/ na < MaxLen  /\ Len(a) + Len(x) <= MaxBytes /\ a' = a \o x /\ na' = na + 1 /\ UNCHANGED <<b, c, nb, nc>>
          \/ nb < MaxLen  /\ Len(b) + Len(x) <= MaxBytes /\ b' = b \o x /\ nb' = nb + 1 /\ UNCHANGED <<a, c, na, nc>>
          \/ nc < MaxLenC /\ Len(c) + Len(x) <= MaxBytes /\ c' = c \o x /\ nc' = nc + 1 /\ UNCHANGED <<a, b, na, nb>>
Spec == Init /\ [][Next]_vars

\* chunk sets ('a' = 97, 'b' = 98, '/' = 47); the long chunks differ from each other within their first bytes
NoChunks == {}
C3 == <<99, 97, 98>>              \* a third letter: no chunk is a concatenation of other chunks (unique chunkings)
C7 == <<97, 98, 97, 98, 97, 98, 97>>
C8 == <<98, 97, 98, 97, 98, 97, 98, 97>>
C9 == <<97, 97, 98, 98, 97, 97, 98, 98, 97>>
ChunksQ == {<<47>>, <<97>>, <<98>>, C3, C7, C8}          \* pairs + table, up to 3 units
ChunksT == {<<47>>, <<98>>, C7, C8}                      \* triples, up to 3 units
ChunksL == {<<47>>, <<97>>, C7, C8, C9}                    \* thorough pairs, up to 4 units

Sep(x, y) == IF SepImpl = "bytewise" THEN BytewiseSeparator(x, y) ELSE IdentitySeparator(x, y)
Succ(x)   == IF SepImpl = "bytewise" THEN BytewiseSuccessor(x) ELSE IdentitySuccessor(x)

\* ---- the order laws
LawRange        == CmpRange(a, b)
LawIrreflexive  == Irreflexive(a)
LawEqConsistent == EqConsistent(a, b)
LawAntisymmetric == Antisymmetric(a, b)
LawTotal        == Total(a, b)
LawTransitive   == Transitive(a, b, c)

\* ---- the engine's contract for the functions the comparer installs
EngineSeparator == SepContract(a, b, Sep(a, b))
EngineSuccessor == SuccContract(a, Succ(a))
EngineAbbrev    == AbbrevContract(a, b, AbbrevSlash(a), AbbrevSlash(b))
EngineImmSucc   == /\ ImmSuccGreater(a, BytewiseImmSucc(a))
                   /\ ImmSuccTight(a, BytewiseImmSucc(a), b)

\* ---- export: one row per pair; `bsepok = FALSE` marks the pairs on which the bytewise separator breaks
\* the engine's contract (the adversarial inputs the engine tests are built around)
Row == [a |-> a, b |-> b, cmp |-> Cmp(a, b),
        bsep |-> BytewiseSeparator(a, b), bsucc |-> BytewiseSuccessor(a),
        babbr |-> AbbrevBytewise(a), sabbr |-> AbbrevSlash(a),
        eff |-> Guarded(a, BytewiseSeparator(a, b)),
        bsepok |-> SepContract(a, b, BytewiseSeparator(a, b)),
        brawok |-> RawSepContract(a, b, BytewiseSeparator(a, b)) /\ RawSuccContract(a, BytewiseSuccessor(a))]
ExportRow == (Export = "table") => PrintT(<<"ROW", ToJson(Row)>>)
=============================================================================
