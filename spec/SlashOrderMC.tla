---------------------------- MODULE SlashOrderMC ----------------------------
(* Enumerates keys over a small alphabet and checks the laws of SlashOrder  *)
(* in every state.  A state is a triple of keys (a, b, c); Next appends one *)
(* byte to one of them, so the reachable states are exactly all triples     *)
(* with Len(a), Len(b) <= MaxLen and Len(c) <= MaxLenC.  With MaxLenC = 0   *)
(* the states are all pairs (used for the pair laws, the engine contract    *)
(* and the export of the comparison table).                                 *)
EXTENDS SlashOrder, TLC, Json

CONSTANTS Alphabet,   \* byte codes; must contain 47 ('/') and its neighbours 46 ('.') and 48 ('0')
          MaxLen, MaxLenC,
          SepImpl,    \* what kv_pebble.go installs as Separator/Successor: "identity" | "bytewise"
          Export      \* "none" | "table"

VARIABLES a, b, c
vars == <<a, b, c>>

ASSUME {46, 47, 48} \subseteq Alphabet /\ Alphabet \subseteq 0..255

Init == a = <<>> /\ b = <<>> /\ c = <<>>
Next == \E x \in Alphabet :
          \/ Len(a) < MaxLen  /\ a' = Append(a, x) /\ UNCHANGED <<b, c>>
          \/ Len(b) < MaxLen  /\ b' = Append(b, x) /\ UNCHANGED <<a, c>>
          \/ Len(c) < MaxLenC /\ c' = Append(c, x) /\ UNCHANGED <<a, b>>
Spec == Init /\ [][Next]_vars

Sep(x, y) == IF SepImpl = "bytewise" THEN BytewiseSeparator(x, y) ELSE IdentitySeparator(x, y)
Succ(x)   == IF SepImpl = "bytewise" THEN BytewiseSuccessor(x) ELSE IdentitySuccessor(x)

\* ---- the order laws
LawRange        == CmpRange(a, b)
LawIrreflexive  == Irreflexive(a)
LawEqConsistent == EqConsistent(a, b)
LawAntisymmetric == Antisymmetric(a, b)
LawTotal        == Total(a, b)
LawTransitive   == Transitive(a, b, c)

\* ---- the engine's contract for the functions the comparer installs
EngineSeparator == SepContract(a, b, Sep(a, b))
EngineSuccessor == SuccContract(a, Succ(a))
EngineAbbrev    == AbbrevContract(a, b, AbbrevSlash(a), AbbrevSlash(b))
EngineImmSucc   == /\ ImmSuccGreater(a, BytewiseImmSucc(a))
                   /\ ImmSuccTight(a, BytewiseImmSucc(a), b)

\* ---- export: one row per pair; `bsepok = FALSE` marks the pairs on which the bytewise separator breaks
\* the engine's contract (the adversarial inputs the engine tests are built around)
Row == [a |-> a, b |-> b, cmp |-> Cmp(a, b),
        bsep |-> BytewiseSeparator(a, b), bsucc |-> BytewiseSuccessor(a),
        babbr |-> AbbrevBytewise(a), sabbr |-> AbbrevSlash(a),
        eff |-> Guarded(a, BytewiseSeparator(a, b)),
        bsepok |-> SepContract(a, b, BytewiseSeparator(a, b)),
        brawok |-> RawSepContract(a, b, BytewiseSeparator(a, b)) /\ RawSuccContract(a, BytewiseSuccessor(a))]
ExportRow == (Export = "table") => PrintT(<<"ROW", ToJson(Row)>>)
=============================================================================
