------------------------------ MODULE AckTracker ------------------------------
(***************************************************************************)
(* The leader's quorum ack tracker (server/quorum_ack_tracker.go) as an    *)
(* object with its API, in the environment the leader gives it: the WAL    *)
(* makes entries durable (`synced`), the sync callbacks advance the head   *)
(* one offset at a time (AdvanceHeadOffset), writers register for the      *)
(* commit of their offset (WaitForCommitOffsetAsync), follower cursors are *)
(* attached (NewCursorAcker) and deliver acks (Ack) - in any cross-        *)
(* follower order and with duplicates - and NewTerm closes the tracker.    *)
(* A follower can acknowledge whatever is durable on the leader (the       *)
(* cursor reads the WAL up to its synced offset), hence possibly BEFORE    *)
(* the leader's own sync callback has advanced the head to that offset.    *)
(*                                                                         *)
(* Property C08: the commit offset only moves forward, never passes the    *)
(* head, and equals the highest offset whose whole prefix is stored on the *)
(* leader and acknowledged by at least RF/2 followers; waiting writers are *)
(* completed in offset order, exactly once, only when committed.           *)
(* Real numbering: offsets start at 0, -1 = none.                          *)
(***************************************************************************)
EXTENDS Integers, Sequences, FiniteSets

CONSTANTS RF,            \* replication factor
          Cursors,       \* names of the followers that may be attached
          MaxOff,        \* offsets 0..MaxOff
          Head0, Commit0,\* head and commit offset when the tracker is created (Commit0 <= Head0)
          MaxWait,       \* at most this many WaitForCommitOffsetAsync calls (bound of the model)
          KeepEarlyAcks  \* FALSE: an ack for an offset the head has not reached yet is dropped (the code as
                         \* found); TRUE: it is remembered and counted when the head gets there (repaired)

VARIABLES synced,    \* last offset durable in the leader's WAL
          head, commit,
          track,     \* offset -> set of cursors whose ack was counted (tracked offsets only)
          att,       \* attached cursors
          fack,      \* ground truth: cursor -> highest offset that follower has acknowledged (-1 none)
          waiting,   \* sequence of offsets registered and not completed
          done,      \* sequence of <<offset, "ok"|"closed">> in completion order
          closed
tvars == <<synced, head, commit, track, att, fack, waiting, done, closed>>

Required == RF \div 2
Max(S) == CHOOSE x \in S : \A y \in S : y <= x
Dom(f) == DOMAIN f
Without(f, k) == [x \in Dom(f) \ {k} |-> f[x]]
With(f, k, v) == [x \in Dom(f) \cup {k} |-> IF x = k THEN v ELSE f[x]]

Init ==
    /\ synced = Head0 /\ head = Head0 /\ commit = Commit0
    /\ track = [o \in (Commit0 + 1)..Head0 |-> {}]
    /\ att = {} /\ fack = [c \in Cursors |-> -1]
    /\ waiting = <<>> /\ done = <<>> /\ closed = FALSE

\* notifyCommitOffsetAdvanced: waiting requests are completed from the front while they are covered
RECURSIVE Notify(_, _, _)
Notify(w, d, c) == IF w # <<>> /\ Head(w) <= c THEN Notify(Tail(w), Append(d, <<Head(w), "ok">>), c) ELSE <<w, d>>

\* cursorAcker.ack for one offset; s = <<track, commit, waiting, done>>
AckOne(s, c, o) ==
    LET tr == s[1] cm == s[2] IN
    IF o \in Dom(tr)
    THEN LET set == tr[o] \cup {c} IN
         IF Cardinality(set) >= Required /\ o <= head
         THEN LET n == IF o > cm THEN Notify(s[3], s[4], o) ELSE <<s[3], s[4]>>
              IN <<Without(tr, o), IF o > cm THEN o ELSE cm, n[1], n[2]>>
         ELSE <<With(tr, o, set), cm, s[3], s[4]>>
    ELSE IF KeepEarlyAcks /\ o > head
         THEN <<With(tr, o, {c}), cm, s[3], s[4]>>          \* remembered until the head gets there
         ELSE s                                              \* already committed - or dropped

RECURSIVE AckRange(_, _, _, _)
AckRange(s, c, from, to) == IF from > to THEN s ELSE AckRange(AckOne(s, c, from), c, from + 1, to)

\* ---- environment: the leader's WAL
Sync == synced < MaxOff /\ synced' = synced + 1
        /\ UNCHANGED <<head, commit, track, att, fack, waiting, done, closed>>

\* ---- API
AdvanceHead ==
    /\ head < synced
    /\ IF closed THEN UNCHANGED <<head, commit, track, waiting, done>>
       ELSE LET o == head + 1 IN
            /\ head' = o
            /\ IF Required = 0
               THEN LET n == Notify(waiting, done, o) IN commit' = o /\ waiting' = n[1] /\ done' = n[2] /\ track' = track
               ELSE IF KeepEarlyAcks /\ o \in Dom(track)
                    THEN \* acks that arrived before the entry was tracked count now
                         IF Cardinality(track[o]) >= Required
                         THEN LET n == IF o > commit THEN Notify(waiting, done, o) ELSE <<waiting, done>>
                              IN track' = Without(track, o) /\ commit' = (IF o > commit THEN o ELSE commit)
                                 /\ waiting' = n[1] /\ done' = n[2]
                         ELSE UNCHANGED <<track, commit, waiting, done>>
                    ELSE track' = With(track, o, {}) /\ UNCHANGED <<commit, waiting, done>>
    /\ UNCHANGED <<synced, att, fack, closed>>

Wait(o) ==
    /\ o \in 0..MaxOff /\ Len(waiting) + Len(done) < MaxWait
    /\ IF closed THEN done' = Append(done, <<o, "closed">>) /\ waiting' = waiting
       ELSE IF Required = 0 \/ commit >= o THEN done' = Append(done, <<o, "ok">>) /\ waiting' = waiting
       ELSE waiting' = Append(waiting, o) /\ done' = done
    /\ UNCHANGED <<synced, head, commit, track, att, fack, closed>>

\* NewCursorAcker(a): the follower is known to hold the log up to a
Attach(c, a) ==
    /\ c \notin att /\ Cardinality(att) < RF - 1 /\ ~closed
    /\ a \in -1..head                                        \* above the head: ErrInvalidHeadOffset, nothing changes
    /\ LET s == AckRange(<<track, commit, waiting, done>>, c, commit + 1, a)
       IN track' = s[1] /\ commit' = s[2] /\ waiting' = s[3] /\ done' = s[4]
    /\ att' = att \cup {c} /\ fack' = [fack EXCEPT ![c] = IF a > @ THEN a ELSE @]
    /\ UNCHANGED <<synced, head, closed>>

\* an ack of follower c arrives: any offset it can hold (durable on the leader), duplicates included
Ack(c, o) ==
    /\ c \in att /\ o \in 0..synced /\ o <= fack[c] + 1
    /\ fack' = [fack EXCEPT ![c] = IF o > @ THEN o ELSE @]
    /\ IF closed THEN UNCHANGED <<track, commit, waiting, done>>
       ELSE LET s == AckOne(<<track, commit, waiting, done>>, c, o)
            IN track' = s[1] /\ commit' = s[2] /\ waiting' = s[3] /\ done' = s[4]
    /\ UNCHANGED <<synced, head, att, closed>>

Close ==
    /\ ~closed /\ closed' = TRUE
    /\ done' = done \o [i \in 1..Len(waiting) |-> <<waiting[i], "closed">>]
    /\ waiting' = <<>>
    /\ UNCHANGED <<synced, head, commit, track, att, fack>>

Next == Sync \/ AdvanceHead \/ Close \/ (\E o \in 0..MaxOff : Wait(o))
        \/ (\E c \in Cursors : \E a \in -1..MaxOff : Attach(c, a)) \/ (\E c \in Cursors : \E o \in 0..MaxOff : Ack(c, o))
Spec == Init /\ [][Next]_tvars

----------------------------------------------------------------------------
CommitLeHead == commit <= head
\* C08: the commit offset equals the highest offset, not above the head, whose whole prefix at least RF/2
\* followers have acknowledged (an ack of o stands for the prefix up to o)
AckedBy(o) == {c \in att : fack[c] >= o}
ExactCommit == LET ok == {o \in (Commit0 + 1)..head : Cardinality(AckedBy(o)) >= Required}
               IN IF ok = {} THEN Commit0 ELSE Max(ok)
CommitExact == ~closed => commit = IF Required = 0 THEN head ELSE ExactCommit
CommitSound == commit <= (IF Required = 0 THEN head ELSE IF ExactCommit > Commit0 THEN ExactCommit ELSE Commit0)
\* waiters: completed "ok" only when committed, each registration exactly once, in registration order per outcome
DoneOkCommitted == \A i \in 1..Len(done) : done[i][2] = "ok" => done[i][1] <= commit
WaitingAbove == \A i \in 1..Len(waiting) : closed \/ waiting[i] > commit \/ (\E j \in 1..(i - 1) : waiting[j] > commit)
CommitMonotone == [][commit' >= commit]_tvars
HeadMonotone == [][head' >= head]_tvars
=============================================================================
