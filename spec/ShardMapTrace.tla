---------------------------- MODULE ShardMapTrace ----------------------------
(***************************************************************************)
(* Trace validation for C18 (LimbMax = 65535: the real 32-bit hash space,  *)
(* carried as limb pairs).  One line of trace.ndjson per observation of    *)
(* the real code (harness/cmd/shardmap), "Reset" starts the next trace:    *)
(*   Gen         result of sharding.GenerateShards(base, count)            *)
(*   Config      cluster status after ApplyClusterChanges / at quiescence  *)
(*               of the coordinator                                        *)
(*   CoordConfig a configuration handed to the running coordinator         *)
(*   Deleted     cluster status after DeleteShardMetadata                  *)
(*   Assign      a ShardAssignments message published by the coordinator   *)
(*   ClientRecv  the client's routing table after it applied the latest    *)
(*               Assign message                                            *)
(*   Route       one key: hash (common/hash), the shard the client's shard *)
(*               manager chose, the shard a range lookup in the published  *)
(*               assignments gives                                         *)
(* Shard lists arrive sorted by min; TLC checks adjacency, coverage, id    *)
(* uniqueness / freshness and routing.  All offending lines are collected  *)
(* (register 2).  Register 3: lines whose content differs from the model   *)
(* of the implementation (GenShards, Apply, ClientUpdate) -- a note about  *)
(* the model, not a verdict.                                               *)
(***************************************************************************)
EXTENDS ShardMap, Json

TraceLog == ndJsonDeserialize("trace.ndjson")

VARIABLES l,          \* next line
          ids,        \* shard ids of the last observed status
          used,       \* every id seen in any status since Reset
          gen,        \* last observed id generator
          st,         \* last observed status as a model status (for conformance)
          assign,     \* last Assign message (sequence of [name, shards])
          pubc,       \* the assignments the client holds (sequence of shards)
          tbl,        \* the client's table (sequence of shards)
          cinit,      \* the client has received a non-empty assignment
          present,    \* namespaces of the last configuration
          removed     \* namespaces that were dropped from a configuration since Reset
tvars == <<l, ids, used, gen, st, assign, pubc, tbl, cinit, present, removed>>

Empty == [x \in {} |-> {}]
IdSet(nsq) == UNION {{nsq[i].shards[j].id : j \in DOMAIN nsq[i].shards} : i \in DOMAIN nsq}
RECURSIVE Total(_, _)
Total(nsq, i) == IF i > Len(nsq) THEN 0 ELSE Len(nsq[i].shards) + Total(nsq, i + 1)
AllDel(q) == Len(q) >= 1 /\ \A j \in DOMAIN q : q[j].del
LiveSeq(q) == SelectSeq(q, LAMBDA s : ~s.del)
ShardsOf(nsq, name) == IF \E i \in DOMAIN nsq : nsq[i].name = name
                       THEN nsq[CHOOSE i \in DOMAIN nsq : nsq[i].name = name].shards ELSE <<>>
Names(cfgq) == {cfgq[i].name : i \in DOMAIN cfgq}
AsStatus(e) == [ns |-> [x \in {e.ns[i].name : i \in DOMAIN e.ns} |-> Range(ShardsOf(e.ns, x))], gen |-> e.gen]

(* ---- verdicts: the property on what was observed ---- *)
GenOK(e) == /\ e.res = "ok" /\ Len(e.shards) = e.count /\ PartitionSeq(e.shards)
            /\ Cardinality({e.shards[j].id : j \in DOMAIN e.shards}) = e.count
StatusOK(e) ==
    LET idset == IdSet(e.ns) IN
    /\ e.res = "ok"
    /\ \A i \in DOMAIN e.ns : AllDel(e.ns[i].shards) \/ PartitionSeq(LiveSeq(e.ns[i].shards))
    /\ Cardinality(idset) = Total(e.ns, 1)                       \* unique over all namespaces
    /\ e.gen >= gen /\ \A x \in idset : x >= 0 /\ x < e.gen
    /\ \A x \in idset \ ids : x \notin used /\ x >= gen          \* never reused
AssignOK(e) ==
    /\ \A i \in DOMAIN e.ns : (Len(e.ns[i].shards) = 0 /\ e.ns[i].name \in removed) \/ PartitionSeq(e.ns[i].shards)
    /\ Cardinality(IdSet(e.ns)) = Total(e.ns, 1)
(* the publication the client holds after this update: the one just applied if it names shards, else the old one *)
Held(e) == IF e.res = "ok" /\ Len(ShardsOf(assign, e.name)) > 0 THEN ShardsOf(assign, e.name) ELSE pubc
(* ... and its table must be exactly that publication: nothing stale kept, nothing published missing *)
ClientOK(e) == Len(Held(e)) > 0 => PartitionSeq(e.shards) /\ TableIsLast(Range(e.shards), Range(Held(e)))
RouteOK(e) ==
    LET m == {s \in Range(tbl) : Covers(s, e.hash)}
        srv == {s \in Range(pubc) : Covers(s, e.hash)}
    IN /\ e.res = "ok" /\ IsHash(e.hash)
       /\ Cardinality(m) = 1 /\ Cardinality(srv) = 1
       /\ \A s \in m : s.id = e.client
       /\ \A s \in srv : s.id = e.server
       /\ e.client = e.server

(* ---- conformance with the model of the implementation (notes) ---- *)
GenConf(e) == e.count <= 4097 => e.shards = GenShards(e.base, e.count)
StatusConf(e) ==
    CASE e.a = "Config"  -> AsStatus(e) = Apply([servers |-> e.servers, ns |-> e.cfg], st, TRUE)
      [] e.a = "Deleted" -> e.name \in DOMAIN st.ns /\ AsStatus(e) = DeleteShard(st, e.name, e.id)
      [] OTHER -> TRUE
ClientConf(e) == Range(e.shards) = ClientUpdate(Range(tbl), ShardsOf(assign, e.name))

Cap == 25
Note(r, i) == TLCSet(r, IF Cardinality(TLCGet(r)) < Cap THEN TLCGet(r) \cup {i} ELSE TLCGet(r))
Check(ok, i) == IF ok THEN TRUE ELSE Note(2, i)
Conf(ok, i) == IF ok THEN TRUE ELSE Note(3, i)

TInit == /\ l = 1 /\ ids = {} /\ used = {} /\ gen = 0 /\ st = [ns |-> Empty, gen |-> 0] /\ assign = <<>>
         /\ pubc = <<>> /\ tbl = <<>> /\ cinit = FALSE /\ present = {} /\ removed = {}

TNext ==
    /\ l <= Len(TraceLog)
    /\ l' = l + 1
    /\ LET e == TraceLog[l] IN
       CASE e.a = "Reset" ->
               /\ ids' = {} /\ used' = {} /\ gen' = 0 /\ st' = [ns |-> Empty, gen |-> 0] /\ assign' = <<>>
               /\ pubc' = <<>> /\ tbl' = <<>> /\ cinit' = FALSE /\ present' = {} /\ removed' = {}
         [] e.a = "Gen" ->
               /\ Check(GenOK(e), l) /\ Conf(~e.conf \/ GenConf(e), l)
               /\ UNCHANGED <<ids, used, gen, st, assign, pubc, tbl, cinit, present, removed>>
         [] e.a = "CoordConfig" ->
               /\ present' = Names(e.cfg) /\ removed' = removed \cup (present \ Names(e.cfg))
               /\ UNCHANGED <<ids, used, gen, st, assign, pubc, tbl, cinit>>
         [] e.a \in {"Config", "Deleted"} ->
               /\ Check(StatusOK(e), l) /\ Conf(~e.conf \/ StatusConf(e), l)
               /\ ids' = IdSet(e.ns) /\ used' = used \cup IdSet(e.ns) /\ gen' = e.gen /\ st' = AsStatus(e)
               /\ IF e.a = "Config"
                  THEN present' = Names(e.cfg) /\ removed' = removed \cup (present \ Names(e.cfg))
                  ELSE UNCHANGED <<present, removed>>
               /\ UNCHANGED <<assign, pubc, tbl, cinit>>
         [] e.a = "Assign" ->
               /\ Check(AssignOK(e), l)
               /\ assign' = e.ns
               /\ UNCHANGED <<ids, used, gen, st, pubc, tbl, cinit, present, removed>>
         [] e.a = "ClientRecv" ->
               /\ Check(ClientOK(e), l) /\ Conf(~e.conf \/ e.res # "ok" \/ ClientConf(e), l)
               /\ tbl' = e.shards
               /\ pubc' = Held(e)
               /\ cinit' = (cinit \/ Len(ShardsOf(assign, e.name)) > 0)
               /\ UNCHANGED <<ids, used, gen, st, assign, present, removed>>
         [] e.a = "Route" ->
               /\ Check(RouteOK(e), l)
               /\ UNCHANGED <<ids, used, gen, st, assign, pubc, tbl, cinit, present, removed>>
         [] OTHER -> Check(FALSE, l) /\ UNCHANGED <<ids, used, gen, st, assign, pubc, tbl, cinit, present, removed>>

TraceSpec == TInit /\ [][TNext]_tvars

HighWater == IF l > TLCGet(1) THEN TLCSet(1, l) ELSE TRUE
ASSUME TLCSet(1, 0) /\ TLCSet(2, {}) /\ TLCSet(3, {})
TraceAccepted ==
    /\ PrintT(<<"NOTES", ToJson(TLCGet(3))>>)
    /\ IF TLCGet(1) = Len(TraceLog) + 1 /\ TLCGet(2) = {} THEN TRUE
       ELSE Print(<<"REJECTED", TLCGet(1), Len(TraceLog), ToJson(TLCGet(2))>>, FALSE)
=============================================================================
