----------------------------- MODULE Placement -----------------------------
(***************************************************************************)
(* Ensemble placement of the coordinator (C19).                            *)
(*                                                                         *)
(* Part 1 states WHAT is allowed: ValidEnsemble for a freshly selected     *)
(* ensemble, ValidSwap for one replica move.  A refusal is always allowed. *)
(*                                                                         *)
(* Part 2 models HOW the implementation decides, in its own shape:         *)
(*   Pick            = single.server.Select: the selector chain            *)
(*                     anti-affinity -> lowest load -> final               *)
(*   SelectOutcomes  = ensemble.Select: RF picks, each pick excluded from  *)
(*                     the candidates of the next                          *)
(*   SwapOutcomes    = balancer.swapShard: one pick with the remaining     *)
(*                     members as the selected set                         *)
(* Go map iteration order and ties in the load ranking are modelled as     *)
(* nondeterminism, so every operator returns the SET of possible outcomes. *)
(*                                                                         *)
(* A configuration c is a record                                           *)
(*   lab  : sequence over the live servers 1..n of <<v1, v2>>, the value   *)
(*          of label 1 and label 2 (0 = the server lacks the label)        *)
(*   pol  : sequence of rules [labels |-> sequence of label ids,           *)
(*                             strict |-> BOOLEAN]                         *)
(*   rf   : replication factor                                             *)
(*   load : sequence over 1..n, shards already hosted by the server        *)
(*   useLoad : FALSE = no load-ratio supplier (final selector decides)     *)
(* Server ids above n denote servers that were removed from the cluster    *)
(* configuration but still appear in ensembles ("history nodes").          *)
(***************************************************************************)
EXTENDS Integers, Sequences, FiniteSets

NumLabels == 2
Live(c) == 1..Len(c.lab)
LabOf(c, s, l) == IF s \in Live(c) THEN c.lab[s][l] ELSE 0
Range(f) == {f[i] : i \in DOMAIN f}
Distinct(e) == \A i, j \in DOMAIN e : i # j => e[i] # e[j]

(* two servers collide on label l: both carry it, with the same value *)
Conflict(c, a, b, l) == LabOf(c, a, l) # 0 /\ LabOf(c, a, l) = LabOf(c, b, l)
StrictLabels(c) == UNION {Range(c.pol[i].labels) : i \in {j \in DOMAIN c.pol : c.pol[j].strict}}
SingleLabelRules(c) == \A i \in DOMAIN c.pol : Len(c.pol[i].labels) = 1

(***************************************************************************)
(* Part 1: the property                                                    *)
(***************************************************************************)
ValidEnsemble(e, c) ==
    /\ Len(e) = c.rf
    /\ Distinct(e)
    /\ Range(e) \subseteq Live(c)
    /\ \A l \in StrictLabels(c) : \A i, j \in DOMAIN e : i # j => ~Conflict(c, e[i], e[j], l)

(* one replica move: `before` (assumed duplicate-free) becomes `after` by replacing from with to *)
ValidSwap(before, from, to, after, c) ==
    /\ from \in Range(before)
    /\ to \in Live(c)
    /\ to \notin Range(before)
    /\ Len(after) = Len(before)
    /\ Distinct(after)
    /\ Range(after) = (Range(before) \ {from}) \cup {to}
    /\ \A l \in StrictLabels(c) : \A m \in Range(after) \ {to} : ~Conflict(c, to, m, l)

(***************************************************************************)
(* Part 2: the selector chain                                              *)
(***************************************************************************)
RECURSIVE Flatten(_, _)
Flatten(pol, i) ==
    IF i > Len(pol) THEN <<>>
    ELSE [j \in 1..Len(pol[i].labels) |-> [ri |-> i, l |-> pol[i].labels[j]]] \o Flatten(pol, i + 1)

(* anti_affinity_selector.go.  G = the candidates as grouped by label on the first call (the grouping  *)
(* is cached in the context and not refreshed), sel = servers already selected.                         *)
RECURSIVE AAFold(_, _, _, _, _, _)
AAFold(pairs, i, cands, G, sel, c) ==
    IF i > Len(pairs) THEN [k |-> "done", c |-> cands]
    ELSE LET p  == pairs[i]
             S0 == {x \in G : LabOf(c, x, p.l) # 0 /\ \A s \in sel : LabOf(c, s, p.l) # LabOf(c, x, p.l)}
             S  == IF p.ri > 1 THEN S0 \cap cands ELSE S0
         IN IF S = {} THEN [k |-> "err", c |-> {}]
            ELSE AAFold(pairs, i + 1, IF p.ri = 1 THEN cands \cup S ELSE S, G, sel, c)

AntiAffinity(G, sel, c) ==
    IF Len(c.pol) = 0 THEN [k |-> "nofunc", c |-> {}]
    ELSE AAFold(Flatten(c.pol, 1), 1, {}, G, sel, c)

MinLoad(C, ld) == {x \in C : \A y \in C : ld[x] <= ld[y]}

(* One pick.  C = current candidates, ld = load per live server.  Results:                             *)
(*   [k |-> "ok", s |-> server, C |-> candidates left in the context]  |  [k |-> "err"]                *)
Pick(C, G, sel, c, ld) ==
    LET aa == AntiAffinity(G, sel, c) IN
    IF aa.k = "err" THEN {[k |-> "err", s |-> 0, C |-> {}]}
    ELSE IF aa.k = "done" /\ Cardinality(aa.c) = 1 THEN {[k |-> "ok", s |-> x, C |-> C] : x \in aa.c}
    ELSE LET C1 == IF aa.k = "done" THEN aa.c ELSE C IN
         IF C1 = {} THEN {[k |-> "err", s |-> 0, C |-> {}]}           \* no selector can decide
         ELSE {[k |-> "ok", s |-> x, C |-> C1] : x \in (IF c.useLoad THEN MinLoad(C1, ld) ELSE C1)}

(* ensemble/selector.go: RF picks; outcome [k |-> "ok", e |-> ensemble] or [k |-> "err", e |-> <<>>] *)
RECURSIVE ES(_, _, _, _, _)
ES(k, C, G, e, c) ==
    IF k = 0 THEN {[k |-> "ok", e |-> e]}
    ELSE UNION { IF r.k = "ok" THEN ES(k - 1, r.C \ {r.s}, G, Append(e, r.s), c)
                 ELSE {[k |-> "err", e |-> <<>>]}
                 : r \in Pick(C, G, Range(e), c, c.load) }
SelectOutcomes(c) == ES(c.rf, Live(c), Live(c), <<>>, c)

(* scheduler.go:swapShard for member `from` of ensemble ens (a sequence; may contain removed servers). *)
(* ld must count the shard itself.  Outcome [k |-> "ok", to |-> server] | [k |-> "refused", to |-> 0]  *)
SwapOutcomes(ens, from, c, ld) ==
    LET sel == Range(ens) \ {from}
        C   == Live(c) \ sel
    IN { IF r.k = "ok" /\ r.s # from THEN [k |-> "ok", to |-> r.s] ELSE [k |-> "refused", to |-> 0]
         : r \in Pick(C, C, sel, c, ld) }

(* shard_controller.go:replaceInList *)
ReplaceInList(list, old, new) == Append(SelectSeq(list, LAMBDA x : x # old), new)
=============================================================================
