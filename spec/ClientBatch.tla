---------------------------- MODULE ClientBatch ----------------------------
(***************************************************************************)
(* The client library between the application and the shard leaders        *)
(* (oxia/async_client_impl.go, oxia/batch/batcher.go,                      *)
(* oxia/internal/batch/{write,read}_batch.go, oxia/internal/write_stream.go*)
(* oxia/results_heap.go).                                                  *)
(*                                                                         *)
(* Shape = implementation shape:                                           *)
(*  - one batcher goroutine per (shard, kind in {"w","r"}) with its call   *)
(*    channel `q` (batcher.callC), the open batch `cur` and the batch whose *)
(*    Complete() is executing, `fly` (Complete is synchronous inside the   *)
(*    batcher loop: at most one request per batcher is in flight);         *)
(*    Take = one iteration of `case call := <-b.callC`, Timer = the linger *)
(*    timer case;                                                          *)
(*  - Respond / Fail = the server answers / fails the in-flight request;   *)
(*    the client hands response i of a type list (puts, deletes, delete    *)
(*    ranges, gets) to callback i of that list (write_batch.go:handle,     *)
(*    read_batch.go:handle), a failure to every callback of the batch;     *)
(*  - fan-out calls: the comparison get over all shards keeps a counter    *)
(*    and the best candidate (doMultiShardGet), the delete-range over all  *)
(*    shards a wait group;                                                 *)
(*  - list / range-scan: one goroutine per shard forwards the server       *)
(*    stream (`wire`) into a channel; the multi-shard range-scan is merged *)
(*    by a heap that primes one element per channel, pops the minimum in   *)
(*    the hierarchical slash order and refills from the same channel       *)
(*    (aggregateAndSortRangeScanAcrossShards).                             *)
(*                                                                         *)
(* The property (C20) is stated on `done` (how many times a call           *)
(* completed), `res` / `out` (what it completed with) against `ans` and    *)
(* `emitted` (what the servers really answered for that very call).        *)
(*                                                                         *)
(* `sent` counts how often the request of a call reached a server.         *)
(*                                                                         *)
(* Rule toggles (all FALSE = the client as it is after the repairs) are    *)
(* the mutants of DESIGN 2.1; two of them are the pre-repair behaviour.    *)
(***************************************************************************)
EXTENDS Integers, Sequences, FiniteSets

CONSTANTS MapReversed,        \* responses handed to the callbacks in reverse order
          FailSpills,         \* a failed batch also fails the next queued call
          DropOverflow,       \* the call that does not fit the byte limit is dropped
          MergeBytewise,      \* the merge heap compares keys bytewise
          DoubleErrSends,     \* pre-repair doMultiShardGet: counter = 0; counter-- after an error
          KeepPartial,        \* responses streamed by a failed read attempt stay in the container the retry fills
          ResendWrites,       \* a write whose stream broke after the request was sent is sent again
          ScanOpenErrNoClose, \* pre-repair rangeScanFromShard: no close when the stream cannot be opened
          DropAbandoned       \* the future of a timed-out write is removed from the write stream's positional queue

VARIABLES cfg,      \* [n, maxReq, maxBytes, linger, dead, tmo] - client options and cluster of this run
                    \* (tmo: the request timeout is short enough to fire while a leader is slow)
          calls,    \* issued calls (templates); the call id is the index
          q, cur, fly,       \* [shard -> [w |-> seq of ids, r |-> seq of ids]]
          ans,      \* ans[c][s]: what the server of shard s answered for call c (history)
          agg,      \* fan-out aggregation state of a batched call: [cnt, sel]
          done,     \* how many times call c completed (callback / close of its channel)
          res,      \* the result call c completed with (batched calls)
          sent,     \* sent[c][s]: how often the request of call c was handed to the server of shard s (history)
          part,     \* [shard -> [w, r]]: responses streamed by failed attempts of the in-flight request
          late,     \* [shard -> seq of batches]: write requests the leader received on the live write stream and
                    \* has not answered yet, whose client-side wait has ended (request timeout): the stream
                    \* answers in order, so the leader's queue is late[s] \o <<fly[s].w>>
          sst,      \* server side of the list / scan stream of call c on shard s
          emitted,  \* keys the server sent on that stream (history)
          wire,     \* sent by the server, not yet forwarded by the client's per-shard goroutine
          chn, gcl, \* per-shard unbuffered channel of a multi-shard scan: slot and closed flag
          fin,      \* list: per-shard goroutines that returned
          mrg,      \* merge goroutine of a multi-shard scan: [ph, i, heap]
          out       \* what was delivered on the result channel of a list / scan call

vars == <<cfg, calls, q, cur, fly, ans, agg, done, res, sent, part, late, sst, emitted, wire, chn, gcl, fin, mrg, out>>
batchVars  == <<q, cur, fly, ans, agg, res, sent, part, late>>
streamVars == <<sst, emitted, wire, chn, gcl, fin, mrg, out>>

Shards == 1..cfg.n
Kinds  == {"w", "r"}
Range(f) == {f[i] : i \in DOMAIN f}

(***************************************************************************)
(* Keys: sequences of segments ("a/b" = <<1,2>>).  The order is the one of *)
(* common/compare.CompareWithSlash: segment by segment, and a key that has *)
(* no further '/' sorts before one that has.                               *)
(***************************************************************************)
KeyList == << <<1>>, <<2>>, <<1,1>>, <<1,2>>, <<2,1>>, <<1,1,1>>,
              <<1,1,2>>, <<1,2,1>>, <<2,1,1>>, <<3>>, <<1,3>>, <<3,1>> >>
ERR == <<0>>     \* an error item (GetResult{Err}: empty key, sorts first)
EOF == <<-1>>    \* end of a server stream (only on `wire`)
KeyIdx(k) == CHOOSE i \in 1..Len(KeyList) : KeyList[i] = k
Owner(k)  == ((KeyIdx(k) - 1) % cfg.n) + 1           \* the shard a key lives on

Cmp(x, y) == IF x < y THEN -1 ELSE IF x > y THEN 1 ELSE 0
RECURSIVE SlashCmp(_, _)
SlashCmp(a, b) ==
    IF Len(a) = 1 /\ Len(b) = 1 THEN Cmp(a[1], b[1])
    ELSE IF Len(a) = 1 THEN -1
    ELSE IF Len(b) = 1 THEN 1
    ELSE IF a[1] # b[1] THEN Cmp(a[1], b[1])
    ELSE SlashCmp(Tail(a), Tail(b))
RECURSIVE LexCmp(_, _)          \* bytewise order of the concrete strings (mutant only)
LexCmp(a, b) ==
    IF a = <<>> /\ b = <<>> THEN 0
    ELSE IF a = <<>> THEN -1
    ELSE IF b = <<>> THEN 1
    ELSE IF a[1] # b[1] THEN Cmp(a[1], b[1])
    ELSE LexCmp(Tail(a), Tail(b))
HeapCmp(a, b) == IF MergeBytewise THEN LexCmp(a, b) ELSE SlashCmp(a, b)

(***************************************************************************)
(* Calls.  t = [op, cmp, pk, sh, size, tbl]                                *)
(*   op   put | del | delrange | get | list | scan                         *)
(*   cmp  EQ | FLOOR | CEILING | LOWER | HIGHER           (get only)       *)
(*   pk   a partition key is given                                         *)
(*   sh   shard the key / partition key hashes to (single-shard calls)     *)
(*   size bytes the write batch accounts for the call (write_batch.go)     *)
(*   tbl  which records the shards hold for a comparison get               *)
(***************************************************************************)
Fanout(t) == ~t.pk /\ (t.op \in {"delrange", "list", "scan"} \/ (t.op = "get" /\ t.cmp # "EQ"))
Targets(t) == IF Fanout(t) THEN Shards ELSE {t.sh}
KindOf(t) == IF t.op \in {"put", "del", "delrange"} THEN "w" ELSE IF t.op = "get" THEN "r" ELSE "s"
IsStream(t) == t.op \in {"list", "scan"}
Floorish(t) == t.cmp \in {"FLOOR", "LOWER"}

Rec(st, c, s, key) == [st |-> st, c |-> c, s |-> s, key |-> key]
NoAns    == Rec("none", 0, 0, <<>>)
ErrAns   == Rec("err", 0, 0, <<>>)
TimeoutAns == Rec("timeout", 0, 0, <<>>)   \* the client-side wait ended (context deadline exceeded)
ErrSts   == {"err", "timeout"}
NotFound == Rec("notfound", 0, 0, <<>>)
OkAns    == Rec("ok", 0, 0, <<>>)

\* What the records of a comparison get look like: table id -> shard -> key (<<>> = nothing there)
MGTable(tbl, s) ==
    LET cand == IF tbl = 1 THEN <<2, 3, 6>>          \* b | a/a | a/a/a  (slash: b < a/a < a/a/a; bytes: a/a < a/a/a < b)
                ELSE IF tbl = 2 THEN <<4, 0, 1>>     \* a/b | - | a
                ELSE IF tbl = 3 THEN <<0, 5, 10>>    \* - | b/a | c
                ELSE <<0, 0, 0>>
    IN IF cand[s] = 0 THEN <<>> ELSE KeyList[cand[s]]

DelStatus(c) == IF c % 3 = 0 THEN "ok" ELSE IF c % 3 = 1 THEN "notfound" ELSE "badversion"

\* What a correct server of shard s answers for the sub-call of call c
ServerAnswer(c, s) ==
    LET t == calls[c] IN
    CASE t.op = "put" -> Rec("ok", c, s, <<>>)
      [] t.op = "del" -> Rec(DelStatus(c), 0, 0, <<>>)
      [] t.op = "delrange" -> IF Fanout(t) THEN OkAns ELSE Rec(DelStatus(c), 0, 0, <<>>)
      [] t.op = "get" -> IF Fanout(t)
                         THEN IF MGTable(t.tbl, s) = <<>> THEN NotFound ELSE Rec("ok", c, s, MGTable(t.tbl, s))
                         ELSE Rec("ok", c, s, <<>>)
      [] OTHER -> NoAns

Init(c0) ==
    /\ cfg = c0
    /\ calls = <<>> /\ ans = <<>> /\ agg = <<>> /\ done = <<>> /\ res = <<>> /\ sent = <<>>
    /\ part = [s \in 1..c0.n |-> [w |-> <<>>, r |-> <<>>]]
    /\ late = [s \in 1..c0.n |-> <<>>]
    /\ q   = [s \in 1..c0.n |-> [w |-> <<>>, r |-> <<>>]]
    /\ cur = [s \in 1..c0.n |-> [w |-> <<>>, r |-> <<>>]]
    /\ fly = [s \in 1..c0.n |-> [w |-> <<>>, r |-> <<>>]]
    /\ sst = <<>> /\ emitted = <<>> /\ wire = <<>> /\ chn = <<>> /\ gcl = <<>> /\ fin = <<>>
    /\ mrg = <<>> /\ out = <<>>

\* a fresh client on a fresh cluster (next-state form; trace validation concatenates many runs)
Reinit(c0) ==
    /\ cfg' = c0
    /\ calls' = <<>> /\ ans' = <<>> /\ agg' = <<>> /\ done' = <<>> /\ res' = <<>> /\ sent' = <<>>
    /\ part' = [s \in 1..c0.n |-> [w |-> <<>>, r |-> <<>>]]
    /\ late' = [s \in 1..c0.n |-> <<>>]
    /\ q'   = [s \in 1..c0.n |-> [w |-> <<>>, r |-> <<>>]]
    /\ cur' = [s \in 1..c0.n |-> [w |-> <<>>, r |-> <<>>]]
    /\ fly' = [s \in 1..c0.n |-> [w |-> <<>>, r |-> <<>>]]
    /\ sst' = <<>> /\ emitted' = <<>> /\ wire' = <<>> /\ chn' = <<>> /\ gcl' = <<>> /\ fin' = <<>>
    /\ mrg' = <<>> /\ out' = <<>>

(***************************************************************************)
(* The application issues a call (Put / Delete / DeleteRange / Get / List  *)
(* / RangeScan).  Batched calls are handed to the batcher of every target  *)
(* shard; list and scan open one server stream per target shard (a dead    *)
(* leader makes ExecuteList / ExecuteRangeScan fail: an error item).       *)
(***************************************************************************)
Issue(t) ==
    LET c == Len(calls) + 1
        k == KindOf(t)
        T == Targets(t)
        openErr(s) == IsStream(t) /\ s \in T /\ s \in cfg.dead
    IN
    /\ calls' = Append(calls, t)
    /\ q' = IF k = "s" THEN q
            ELSE [s \in Shards |-> IF s \in T THEN [q[s] EXCEPT ![k] = Append(@, c)] ELSE q[s]]
    /\ ans'  = Append(ans, [s \in Shards |-> NoAns])
    /\ agg'  = Append(agg, [cnt |-> Cardinality(T), sel |-> IF t.op = "get" THEN NotFound ELSE OkAns])
    /\ done' = Append(done, 0)
    /\ res'  = Append(res, NoAns)
    /\ sent' = Append(sent, [s \in Shards |-> 0])
    /\ sst'  = Append(sst, [s \in Shards |-> IF ~IsStream(t) \/ s \notin T THEN "na"
                                             ELSE IF openErr(s) THEN "openerr" ELSE "open"])
    /\ emitted' = Append(emitted, [s \in Shards |-> <<>>])
    /\ wire' = Append(wire, [s \in Shards |-> IF openErr(s)
                                              THEN IF ScanOpenErrNoClose /\ t.op = "scan" THEN <<ERR>> ELSE <<ERR, EOF>>
                                              ELSE <<>>])
    /\ chn' = Append(chn, [s \in Shards |-> <<>>])
    /\ gcl' = Append(gcl, [s \in Shards |-> FALSE])
    /\ fin' = Append(fin, {})
    /\ mrg' = Append(mrg, [ph |-> IF t.op = "scan" /\ Fanout(t) THEN "prime" ELSE "na", i |-> 1, heap |-> {}])
    /\ out' = Append(out, <<>>)
    /\ UNCHANGED <<cfg, cur, fly, part, late>>

(***************************************************************************)
(* Batcher loop (oxia/batch/batcher.go:Run)                                *)
(***************************************************************************)
RECURSIVE Bytes(_)
Bytes(b) == IF b = <<>> THEN 0 ELSE calls[Head(b)].size + Bytes(Tail(b))
CanAdd(k, b, c) == k = "r" \/ Bytes(b) + calls[c].size <= cfg.maxBytes

\* the request built from batch b is handed to the server of shard s (once more)
Handed(s, b) == [c \in DOMAIN sent |-> IF c \in Range(b) THEN [sent[c] EXCEPT ![s] = @ + 1] ELSE sent[c]]

TakeEn(s, k) == fly[s][k] = <<>> /\ q[s][k] # <<>>
Take(s, k) ==
    /\ TakeEn(s, k)
    /\ LET c == Head(q[s][k])
           b == cur[s][k]
       IN IF b # <<>> /\ ~CanAdd(k, b, c)
          THEN \* completeBatch(): the open batch goes out; the call joins a fresh batch afterwards
               /\ fly' = [fly EXCEPT ![s][k] = b]
               /\ cur' = [cur EXCEPT ![s][k] = <<>>]
               /\ sent' = Handed(s, b)
               /\ q' = IF DropOverflow THEN [q EXCEPT ![s][k] = Tail(@)] ELSE q
          ELSE LET nb == Append(b, c) IN
               /\ q' = [q EXCEPT ![s][k] = Tail(@)]
               /\ IF Len(nb) = cfg.maxReq \/ ~cfg.linger
                  THEN fly' = [fly EXCEPT ![s][k] = nb] /\ cur' = [cur EXCEPT ![s][k] = <<>>] /\ sent' = Handed(s, nb)
                  ELSE cur' = [cur EXCEPT ![s][k] = nb] /\ UNCHANGED <<fly, sent>>
    /\ UNCHANGED <<cfg, calls, ans, agg, done, res, part, late>> /\ UNCHANGED streamVars

TimerEn(s, k) == cfg.linger /\ cur[s][k] # <<>> /\ fly[s][k] = <<>>
Timer(s, k) ==
    /\ TimerEn(s, k)
    /\ fly' = [fly EXCEPT ![s][k] = cur[s][k]]
    /\ cur' = [cur EXCEPT ![s][k] = <<>>]
    /\ sent' = Handed(s, cur[s][k])
    /\ UNCHANGED <<cfg, calls, q, ans, agg, done, res, part, late>> /\ UNCHANGED streamVars

\* all linger timers that are running expire (real time is global: used by the replay generator)
TimerAllEn == \E s \in Shards, k \in Kinds : TimerEn(s, k)
TimerAll ==
    /\ TimerAllEn
    /\ fly' = [s \in Shards |-> [k \in Kinds |-> IF TimerEn(s, k) THEN cur[s][k] ELSE fly[s][k]]]
    /\ cur' = [s \in Shards |-> [k \in Kinds |-> IF TimerEn(s, k) THEN <<>> ELSE cur[s][k]]]
    /\ sent' = [c \in DOMAIN sent |-> [s \in Shards |->
                    IF \E k \in Kinds : TimerEn(s, k) /\ c \in Range(cur[s][k]) THEN sent[c][s] + 1 ELSE sent[c][s]]]
    /\ UNCHANGED <<cfg, calls, q, ans, agg, done, res, part, late>> /\ UNCHANGED streamVars

(***************************************************************************)
(* Callbacks.  Upd(c, s, a) = effect of invoking the callback of the       *)
(* sub-call of c on shard s with answer a (a.st = "err": the batch failed).*)
(***************************************************************************)
Select(t, sel, a) ==
    IF t.op # "get" \/ a.st # "ok" THEN sel
    ELSE IF sel.st # "ok" THEN a
    ELSE IF Floorish(t) THEN (IF SlashCmp(sel.key, a.key) < 0 THEN a ELSE sel)
    ELSE (IF SlashCmp(sel.key, a.key) > 0 THEN a ELSE sel)

\* UpdOn: the same on explicit current values g = agg[c], d = done[c], r = res[c] (ExpireAll applies the
\* callbacks of one call for several shards in one step)
UpdOn(g, d, r, c, s, a) ==
    LET t == calls[c]
        first == IF d = 0 THEN a ELSE r
    IN IF ~Fanout(t)
       THEN [agg |-> g, done |-> d + 1, res |-> first]
       ELSE IF g.cnt = 0                         \* "Response already sent, nothing to do"
       THEN [agg |-> g, done |-> d, res |-> r]
       ELSE IF a.st \notin {"ok", "notfound"}    \* error (or a refusing status of a delete-range)
       THEN [agg |-> [g EXCEPT !.cnt = IF DoubleErrSends /\ t.op = "get" THEN -1 ELSE 0],
             done |-> d + 1, res |-> first]
       ELSE LET sel == Select(t, g.sel, a)
                n   == g.cnt - 1
            IN IF n = 0
               THEN [agg |-> [cnt |-> 0, sel |-> sel], done |-> d + 1, res |-> IF d = 0 THEN sel ELSE r]
               ELSE [agg |-> [cnt |-> n, sel |-> sel], done |-> d, res |-> r]
Upd(c, s, a) == UpdOn(agg[c], done[c], res[c], c, s, a)

\* Apply the callbacks of the calls in S (each call occurs at most once in a batch) with answers G
Deliver(S, s, G(_)) ==
    /\ agg'  = [c \in DOMAIN agg  |-> IF c \in S THEN Upd(c, s, G(c)).agg  ELSE agg[c]]
    /\ done' = [c \in DOMAIN done |-> IF c \in S THEN Upd(c, s, G(c)).done ELSE done[c]]
    /\ res'  = [c \in DOMAIN res  |-> IF c \in S THEN Upd(c, s, G(c)).res  ELSE res[c]]

TypeList(B, op) == SelectSeq(B, LAMBDA c : calls[c].op = op)
PosIn(l, c) == CHOOSE i \in 1..Len(l) : l[i] = c

Respond(s, k) ==
    /\ fly[s][k] # <<>>
    /\ k = "w" => late[s] = <<>>        \* the write stream is answered in order: abandoned requests first
    /\ LET B == fly[s][k]
           \* the server answers request i of each list of the wire request with response i; the
           \* client hands response j to callback j of the same list
           \* (whatever an earlier, failed attempt left in the response container comes first)
           Given(c) == LET l == TypeList(B, calls[c].op)
                           i == PosIn(l, c)
                           j == IF MapReversed THEN Len(l) + 1 - i ELSE i
                           R == (IF KeepPartial THEN part[s][k] ELSE <<>>) \o [x \in 1..Len(l) |-> ServerAnswer(l[x], s)]
                       IN R[j]
       IN /\ Deliver(Range(B), s, Given)
          /\ ans' = [c \in DOMAIN ans |-> IF c \in Range(B) THEN [ans[c] EXCEPT ![s] = ServerAnswer(c, s)] ELSE ans[c]]
    /\ fly' = [fly EXCEPT ![s][k] = <<>>]
    /\ part' = [part EXCEPT ![s][k] = <<>>]
    /\ UNCHANGED <<cfg, calls, q, cur, sent, late>> /\ UNCHANGED streamVars

\* every callback of the in-flight batch gets the error (write_batch.go / read_batch.go: Fail)
FailBatch(s, k) ==
    /\ LET B == fly[s][k]
           spill == IF FailSpills /\ q[s][k] # <<>> THEN {Head(q[s][k])} ELSE {}
           Given(c) == ErrAns
       IN /\ Deliver(Range(B) \cup spill, s, Given)
          /\ ans' = [c \in DOMAIN ans |-> IF c \in Range(B) THEN [ans[c] EXCEPT ![s] = ErrAns] ELSE ans[c]]
          /\ q' = IF spill # {} THEN [q EXCEPT ![s][k] = Tail(@)] ELSE q
    /\ fly' = [fly EXCEPT ![s][k] = <<>>]
    /\ part' = [part EXCEPT ![s][k] = <<>>]
    \* a failed write request = the write stream ended: what the leader still held unanswered is gone with it
    /\ late' = IF k = "w" THEN [late EXCEPT ![s] = <<>>] ELSE late
    /\ UNCHANGED <<cfg, calls, cur, sent>> /\ UNCHANGED streamVars

\* the attempt ends with an error the retry policy does not retry (rpc_errors.go: isRetriable)
Fail(s, k) == fly[s][k] # <<>> /\ FailBatch(s, k)

(***************************************************************************)
(* The attempt ends with a RETRIABLE error (Unavailable, not-leader, ...)  *)
(* after the server has received the request and streamed the first n      *)
(* responses (reads stream their responses in chunks; a write has a single *)
(* response, n = 0).                                                       *)
(*  - read batch: doRequestWithRetries sends the whole request again (after *)
(*    a backoff) and fills a fresh response container;                     *)
(*  - write batch: the outcome of the request is unknown (the leader may    *)
(*    have applied it), so it must not be sent a second time: the write     *)
(*    stream fails its pending requests with io.EOF, which is not retried,  *)
(*    and the calls complete with the error.                                *)
(***************************************************************************)
Break(s, k, n) ==
    /\ fly[s][k] # <<>>
    /\ n \in 0..(IF k = "r" THEN Len(fly[s][k]) ELSE 0)
    /\ IF k = "r" \/ ResendWrites
       THEN LET B == fly[s][k] IN
            /\ sent' = Handed(s, B)
            \* what the failed attempt streamed (remembered as history; only the KeepPartial client uses it)
            /\ part' = [part EXCEPT ![s][k] = @ \o [x \in 1..n |-> ServerAnswer(B[x], s)]]
            /\ late' = IF k = "w" THEN [late EXCEPT ![s] = <<>>] ELSE late
            /\ UNCHANGED <<cfg, calls, q, cur, fly, ans, agg, done, res>> /\ UNCHANGED streamVars
       ELSE FailBatch(s, k)

(***************************************************************************)
(* Request timeout (WithRequestTimeout; write_batch.go / read_batch.go:    *)
(* doRequestWithRetries runs under context.WithTimeout).  The leader is    *)
(* slow but alive:                                                         *)
(*  - Expire(s, k): the client-side wait for the in-flight request ends;   *)
(*    every callback of the batch gets the timeout error and the batcher   *)
(*    goes on with the next batch.  A read is one RPC, the timeout cancels *)
(*    it.  A write travels on the long-lived write stream, which survives: *)
(*    the leader still holds the request (`late`) and answers it later;    *)
(*  - RespondLate(s): the leader answers the oldest abandoned request.     *)
(*    write_stream.go matches responses to requests by position in         *)
(*    pendingRequests: the abandoned future must keep its place, so that   *)
(*    this response is consumed by it and nobody else (DropAbandoned = the *)
(*    future was taken out of the queue: the response goes to the request  *)
(*    now at the head, i.e. the one in flight, whose own response is then  *)
(*    left over for the request after it);                                 *)
(*  - DropLate(s): the stream ends while only abandoned requests are       *)
(*    outstanding.                                                         *)
(***************************************************************************)
ExpireEn(s, k) == cfg.tmo /\ fly[s][k] # <<>>
Expire(s, k) ==
    /\ ExpireEn(s, k)
    /\ LET B == fly[s][k]
           Given(c) == TimeoutAns
       IN /\ Deliver(Range(B), s, Given)
          /\ ans' = [c \in DOMAIN ans |-> IF c \in Range(B) THEN [ans[c] EXCEPT ![s] = TimeoutAns] ELSE ans[c]]
          /\ late' = IF k = "w" THEN [late EXCEPT ![s] = Append(@, B)] ELSE late
    /\ fly' = [fly EXCEPT ![s][k] = <<>>]
    /\ part' = [part EXCEPT ![s][k] = <<>>]
    /\ UNCHANGED <<cfg, calls, q, cur, sent>> /\ UNCHANGED streamVars

\* every request in flight expires (real time is global: used by the replay generator, which lets
\* the real request timeout pass)
ExpireAllEn == cfg.tmo /\ \E s \in Shards, k \in Kinds : fly[s][k] # <<>>
InFlightAt(c) == {s \in Shards : \E k \in Kinds : c \in Range(fly[s][k])}
RECURSIVE FoldExp(_, _, _)
FoldExp(c, st, S) ==
    IF S = {} THEN st
    ELSE LET s == CHOOSE x \in S : \A y \in S : x <= y
         IN FoldExp(c, UpdOn(st.agg, st.done, st.res, c, s, TimeoutAns), S \ {s})
ExpireAll ==
    /\ ExpireAllEn
    /\ LET F(c) == FoldExp(c, [agg |-> agg[c], done |-> done[c], res |-> res[c]], InFlightAt(c)) IN
       /\ agg'  = [c \in DOMAIN agg  |-> F(c).agg]
       /\ done' = [c \in DOMAIN done |-> F(c).done]
       /\ res'  = [c \in DOMAIN res  |-> F(c).res]
       /\ ans'  = [c \in DOMAIN ans  |-> [s \in Shards |-> IF s \in InFlightAt(c) THEN TimeoutAns ELSE ans[c][s]]]
    /\ late' = [s \in Shards |-> IF fly[s]["w"] # <<>> THEN Append(late[s], fly[s]["w"]) ELSE late[s]]
    /\ fly'  = [s \in Shards |-> [w |-> <<>>, r |-> <<>>]]
    /\ part' = [s \in Shards |-> [w |-> <<>>, r |-> <<>>]]
    /\ UNCHANGED <<cfg, calls, q, cur, sent>> /\ UNCHANGED streamVars

Garbled == Rec("garbled", 0, 0, <<>>)
RespondLate(s) ==
    /\ late[s] # <<>>
    /\ IF DropAbandoned /\ fly[s]["w"] # <<>>
       THEN \* the client's queue holds only the in-flight request: it gets the response of the abandoned one,
            \* position by position; its own response will find nobody (or the request after it)
            LET L == Head(late[s])
                B == fly[s]["w"]
                Given(c) == LET l  == TypeList(B, calls[c].op)
                                ll == TypeList(L, calls[c].op)
                                i  == PosIn(l, c)
                            IN IF i <= Len(ll) THEN ServerAnswer(ll[i], s) ELSE Garbled
            IN /\ Deliver(Range(B), s, Given)
               /\ ans' = [c \in DOMAIN ans |-> IF c \in Range(B) THEN [ans[c] EXCEPT ![s] = ServerAnswer(c, s)] ELSE ans[c]]
               /\ fly' = [fly EXCEPT ![s]["w"] = <<>>]
               /\ late' = [late EXCEPT ![s] = Append(Tail(@), B)]
       ELSE /\ late' = [late EXCEPT ![s] = Tail(@)]
            /\ UNCHANGED <<fly, ans, agg, done, res>>
    /\ UNCHANGED <<cfg, calls, q, cur, sent, part>> /\ UNCHANGED streamVars

DropLate(s) ==
    /\ late[s] # <<>> /\ fly[s]["w"] = <<>>
    /\ late' = [late EXCEPT ![s] = <<>>]
    /\ UNCHANGED <<cfg, calls, q, cur, fly, ans, agg, done, res, sent, part>> /\ UNCHANGED streamVars

(***************************************************************************)
(* List / range-scan streams                                               *)
(***************************************************************************)
LastEmitted(c, s) == IF emitted[c][s] = <<>> THEN ERR ELSE emitted[c][s][Len(emitted[c][s])]

\* a server sends the next record of its (sorted) result
SrvEmit(c, s, key) ==
    /\ sst[c][s] = "open"
    /\ Owner(key) = s
    /\ SlashCmp(LastEmitted(c, s), key) < 0
    /\ emitted' = [emitted EXCEPT ![c][s] = Append(@, key)]
    /\ wire' = [wire EXCEPT ![c][s] = Append(@, key)]
    /\ UNCHANGED <<cfg, calls, done, sst, chn, gcl, fin, mrg, out>> /\ UNCHANGED batchVars

\* a server ends its stream: how = "eof" | "err"
SrvEnd(c, s, how) ==
    /\ sst[c][s] = "open"
    /\ sst' = [sst EXCEPT ![c][s] = how]
    /\ wire' = [wire EXCEPT ![c][s] = IF how = "eof" THEN Append(@, EOF) ELSE @ \o <<ERR, EOF>>]
    /\ UNCHANGED <<cfg, calls, done, emitted, chn, gcl, fin, mrg, out>> /\ UNCHANGED batchVars

\* the per-shard goroutine (listFromShard / rangeScanFromShard) forwards one received item
MultiScan(c) == calls[c].op = "scan" /\ Fanout(calls[c])
FwdEn(c, s) ==
    /\ wire[c][s] # <<>>
    /\ MultiScan(c) => (chn[c][s] = <<>> /\ ~gcl[c][s])
Fwd(c, s) ==
    /\ FwdEn(c, s)
    /\ LET x == Head(wire[c][s]) IN
       /\ wire' = [wire EXCEPT ![c][s] = Tail(@)]
       /\ IF MultiScan(c)
          THEN /\ IF x = EOF THEN gcl' = [gcl EXCEPT ![c][s] = TRUE] /\ UNCHANGED chn
                  ELSE chn' = [chn EXCEPT ![c][s] = <<x>>] /\ UNCHANGED gcl
               /\ UNCHANGED <<out, done, fin>>
          ELSE IF calls[c].op = "scan"           \* single shard: forwards to the result channel, closes it
          THEN /\ IF x = EOF THEN done' = [done EXCEPT ![c] = @ + 1] /\ UNCHANGED out
                  ELSE out' = [out EXCEPT ![c] = Append(@, x)] /\ UNCHANGED done
               /\ UNCHANGED <<chn, gcl, fin>>
          ELSE /\ IF x = EOF THEN fin' = [fin EXCEPT ![c] = @ \cup {s}] /\ UNCHANGED out
                  ELSE out' = [out EXCEPT ![c] = Append(@, x)] /\ UNCHANGED fin
               /\ UNCHANGED <<chn, gcl, done>>
    /\ UNCHANGED <<cfg, calls, sst, emitted, mrg>> /\ UNCHANGED batchVars

\* list: the result channel is closed when every per-shard goroutine has returned
ListCloseEn(c) == calls[c].op = "list" /\ fin[c] = Targets(calls[c]) /\ done[c] = 0
ListClose(c) ==
    /\ ListCloseEn(c)
    /\ done' = [done EXCEPT ![c] = @ + 1]
    /\ UNCHANGED <<cfg, calls, sst, emitted, wire, chn, gcl, fin, mrg, out>> /\ UNCHANGED batchVars

\* merge goroutine: blocking receive from channel i (priming, or refill after a pop)
MTakeEn(c) == /\ mrg[c].ph \in {"prime", "refill"}
              /\ (chn[c][mrg[c].i] # <<>> \/ gcl[c][mrg[c].i])
MTake(c) ==
    /\ MTakeEn(c)
    /\ LET m == mrg[c]
           i == m.i
           got == chn[c][i] # <<>>
           h == IF got THEN m.heap \cup {[k |-> chn[c][i][1], s |-> i]} ELSE m.heap
       IN /\ chn' = [chn EXCEPT ![c][i] = <<>>]
          /\ mrg' = [mrg EXCEPT ![c] = IF m.ph = "prime" /\ i < cfg.n
                                       THEN [ph |-> "prime", i |-> i + 1, heap |-> h]
                                       ELSE [ph |-> "loop", i |-> i, heap |-> h]]
    /\ UNCHANGED <<cfg, calls, done, sst, emitted, wire, gcl, fin, out>> /\ UNCHANGED batchVars

MPopEn(c) == mrg[c].ph = "loop"
MPop(c) ==
    /\ MPopEn(c)
    /\ LET m == mrg[c] IN
       IF m.heap = {}
       THEN /\ done' = [done EXCEPT ![c] = @ + 1]
            /\ mrg' = [mrg EXCEPT ![c].ph = "done"]
            /\ UNCHANGED out
       ELSE LET r == CHOOSE x \in m.heap : \A y \in m.heap : HeapCmp(x.k, y.k) <= 0 IN
            /\ out' = [out EXCEPT ![c] = Append(@, r.k)]
            /\ IF r.k = ERR
               THEN /\ done' = [done EXCEPT ![c] = @ + 1]
                    /\ mrg' = [mrg EXCEPT ![c] = [ph |-> "done", i |-> m.i, heap |-> m.heap \ {r}]]
               ELSE /\ mrg' = [mrg EXCEPT ![c] = [ph |-> "refill", i |-> r.s, heap |-> m.heap \ {r}]]
                    /\ UNCHANGED done
    /\ UNCHANGED <<cfg, calls, sst, emitted, wire, chn, gcl, fin>> /\ UNCHANGED batchVars

(***************************************************************************)
(* Which steps are the client's own (goroutines that run without waiting   *)
(* for anything external)                                                  *)
(***************************************************************************)
CallIds == 1..Len(calls)
InternalEn == \/ \E s \in Shards, k \in Kinds : TakeEn(s, k)
              \/ \E c \in CallIds : \/ \E s \in Shards : FwdEn(c, s)
                                    \/ ListCloseEn(c) \/ MTakeEn(c) \/ MPopEn(c)
Internal == \/ \E s \in Shards, k \in Kinds : Take(s, k)
            \/ \E c \in CallIds : \/ \E s \in Shards : Fwd(c, s)
                                  \/ ListClose(c) \/ MTake(c) \/ MPop(c)

\* nothing is going to happen any more unless the application issues a call
Stable == /\ ~InternalEn /\ ~TimerAllEn
          /\ \A s \in Shards, k \in Kinds : fly[s][k] = <<>>
          /\ \A c \in CallIds, s \in Shards : sst[c][s] # "open"

(***************************************************************************)
(* C20                                                                     *)
(***************************************************************************)
\* every call completes at most once ...
AtMostOnce == \A c \in CallIds : done[c] <= 1
\* ... and, when nothing is pending any more, exactly once
AllComplete == Stable => \A c \in CallIds : done[c] = 1

\* a batched call completes with the result of that very call
CorrectBatched(c) ==
    LET t == calls[c]
        r == res[c]
    IN IF ~Fanout(t) THEN r # NoAns /\ r = ans[c][t.sh]
       ELSE LET A == {ans[c][s] : s \in Shards} IN
            IF \E a \in A : a.st \in ErrSts THEN r.st \in {a.st : a \in {x \in A : x.st \in ErrSts}}
            ELSE /\ NoAns \notin A
                 /\ IF t.op = "delrange" THEN r.st = "ok"
                    ELSE LET F == {a \in A : a.st = "ok"} IN
                         IF F = {} THEN r.st = "notfound"
                         ELSE /\ r \in F
                              /\ \A a \in F : IF Floorish(t) THEN SlashCmp(a.key, r.key) <= 0
                                              ELSE SlashCmp(a.key, r.key) >= 0
OwnResult == \A c \in CallIds : (~IsStream(calls[c]) /\ done[c] >= 1) => CorrectBatched(c)

\* seen from the servers: the request of a write is handed to a server at most once (a write whose
\* outcome is unknown is never silently repeated); reads may be repeated
WriteSentOnce == \A c \in CallIds : KindOf(calls[c]) = "w" => \A s \in Shards : sent[c][s] <= 1

\* list / scan: the delivered items
OutKeys(c)  == {out[c][i] : i \in {j \in 1..Len(out[c]) : out[c][j] # ERR}}
NumErr(c)   == Cardinality({i \in 1..Len(out[c]) : out[c][i] = ERR})
AllEmitted(c) == UNION {Range(emitted[c][s]) : s \in Shards}
FailedShards(c) == {s \in Shards : sst[c][s] \in {"err", "openerr"}}

\* range-scan results are in global key order (strictly: no duplicates), an error item is the last one
ScanOrdered == \A c \in CallIds : calls[c].op = "scan" =>
                   \A i \in 1..(Len(out[c]) - 1) :
                       /\ out[c][i] # ERR
                       /\ out[c][i + 1] # ERR => SlashCmp(out[c][i], out[c][i + 1]) < 0
\* nothing is invented or duplicated
StreamSound == \A c \in CallIds : IsStream(calls[c]) =>
                   /\ OutKeys(c) \subseteq AllEmitted(c)
                   /\ \A i, j \in 1..Len(out[c]) : (i < j /\ out[c][i] = out[c][j]) => out[c][i] = ERR
                   /\ NumErr(c) <= Cardinality(FailedShards(c))
\* a completed list / scan is the union of the per-shard results, or reports the error of a shard
StreamComplete == \A c \in CallIds : (IsStream(calls[c]) /\ done[c] >= 1) =>
                   IF calls[c].op = "list"
                   THEN /\ OutKeys(c) = AllEmitted(c)
                        /\ NumErr(c) = Cardinality(FailedShards(c))
                        /\ \A s \in Targets(calls[c]) : sst[c][s] # "open"
                   ELSE \/ NumErr(c) = 1
                        \/ /\ NumErr(c) = 0
                           /\ \A s \in Targets(calls[c]) : sst[c][s] = "eof"
                           /\ OutKeys(c) = AllEmitted(c)
\* nothing is delivered on a closed channel (would be a panic)
ClosedIsFinal == [][\A c \in CallIds : done[c] >= 1 => (out'[c] = out[c] /\ res'[c] = res[c])]_vars

\* whoever waited for an abandoned write request has been told (timeout); nothing is abandoned without a timeout
LateDone == DropAbandoned \/
            \A s \in Shards : /\ late[s] # <<>> => cfg.tmo
                              /\ \A i \in 1..Len(late[s]) : \A c \in Range(late[s][i]) : done[c] >= 1

TypeOK == /\ \A s \in Shards, k \in Kinds : Len(cur[s][k]) < cfg.maxReq \/ cur[s][k] = <<>>
          /\ \A s \in Shards, k \in Kinds : cur[s][k] # <<>> => fly[s][k] = <<>>
          /\ LateDone
=============================================================================
