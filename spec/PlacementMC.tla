---------------------------- MODULE PlacementMC ----------------------------
(***************************************************************************)
(* Exhaustive exploration of Placement over bounded configurations.        *)
(*                                                                         *)
(* The state graph BUILDS configurations step by step (so that TLC's       *)
(* workers share the enumeration): add servers (label tuples in canonical  *)
(* non-decreasing order: the model is symmetric under server permutation), *)
(* choose the namespace policy, choose the operation.  Then                *)
(*   select / swap : the invariant demands that EVERY possible outcome of  *)
(*                   the selector chain is a refusal or valid;             *)
(*   round         : one rebalancing round is a sequence of swapShard      *)
(*                   steps (removed nodes first, then one loaded node);    *)
(*                   every proposed move, applied in emission order with   *)
(*                   replaceInList, must be a ValidSwap.                   *)
(* Every completed configuration can be exported as JSON ("CFG" lines) and *)
(* is then executed on the real code by harness/cmd/placement.             *)
(***************************************************************************)
EXTENDS Placement, TLC, Json

CONSTANTS MaxN,        \* live servers
          MaxVal,      \* values per label (plus 0 = label missing)
          MaxRF,
          MaxRules,
          Multi,       \* also rules naming two labels (explored, not claimed)
          Removed,     \* how many removed ("history") servers may appear in existing ensembles
          MaxShards,   \* existing shards in a round
          Ops,         \* subset of {"select", "swap", "round"}
          StaleView,   \* TRUE: within a round swapShard sees the ensembles as they were at its start
          Export,      \* "none" | "cfg"
          SampleMod,   \* export 1 configuration out of SampleMod (1 = all) ...
          SampleRes    \* ... namely those whose checksum is SampleRes modulo SampleMod

VARIABLES stage, srv, pol, op, cur, view, todo, phase, viol
mvars == <<stage, srv, pol, op, cur, view, todo, phase, viol>>

Code(t) == t[1] * (MaxVal + 1) + t[2]
Tuples == {<<a, b>> : a \in 0..MaxVal, b \in 0..MaxVal}
Cnt(l, v) == Cardinality({i \in DOMAIN srv : srv[i][l] = v})
(* values of a label are interchangeable: canonical = value 1 is the most frequent one, ... *)
ValueCanon == \A l \in 1..NumLabels : \A v \in 1..(MaxVal - 1) : Cnt(l, v) >= Cnt(l, v + 1)

(* Policies.  Label ids are interchangeable (the set of label tuples is closed under exchanging the two  *)
(* labels), so rules naming one label start with label 1.  S = strict, R = relaxed.                      *)
R1(l, b) == [labels |-> <<l>>, strict |-> b]
R2(b) == [labels |-> <<1, 2>>, strict |-> b]
Policies ==
    {<<>>}
    \cup (IF MaxRules >= 1 THEN {<<R1(1, TRUE)>>, <<R1(1, FALSE)>>} ELSE {})
    \cup (IF MaxRules >= 2 THEN {<<R1(1, a), R1(2, b)>> : a \in BOOLEAN, b \in BOOLEAN}
                                \cup {<<R1(1, TRUE), R1(1, FALSE)>>} ELSE {})
    \cup (IF Multi /\ MaxRules >= 1 THEN {<<R2(TRUE)>>} ELSE {})
    \cup (IF Multi /\ MaxRules >= 2 THEN {<<R1(1, TRUE), R2(TRUE)>>, <<R2(TRUE), R1(2, TRUE)>>} ELSE {})
PolLabels(p) == UNION {Range(p[i].labels) : i \in DOMAIN p}
(* a label that no rule names is never looked at: keep it absent *)
Relevant(p) == \A l \in (1..NumLabels) \ PolLabels(p) : \A i \in DOMAIN srv : srv[i][l] = 0

n == Len(srv)
LoadFams == { [i \in 1..n |-> 0], [i \in 1..n |-> i % 3], [i \in 1..n |-> (n - i) % 3],
              [i \in 1..n |-> IF i = 1 THEN 2 ELSE 0] }

Min(S) == CHOOSE x \in S : \A y \in S : x <= y
RECURSIVE SortedSeq(_)
SortedSeq(S) == IF S = {} THEN <<>> ELSE LET m == Min(S) IN <<m>> \o SortedSeq(S \ {m})
Ensembles(k) == {SortedSeq(T) : T \in {U \in SUBSET (1..(n + Removed)) : Cardinality(U) = k}}
RECURSIVE Rank(_, _)
Rank(e, i) == IF i > Len(e) THEN 0 ELSE e[i] + 16 * Rank(e, i + 1)
ShardSets(k) == LET E == Ensembles(k) IN
    {<<a>> : a \in E} \cup
    (IF MaxShards >= 2 THEN {s \in {<<a, b>> : a \in E, b \in E} : Rank(s[2], 1) >= Rank(s[1], 1)} ELSE {}) \cup
    (IF MaxShards >= 3 THEN {s \in {<<a, b, d>> : a \in E, b \in E, d \in E} :
                                 Rank(s[2], 1) >= Rank(s[1], 1) /\ Rank(s[3], 1) >= Rank(s[2], 1)} ELSE {})

NoOp == [kind |-> "none", rf |-> 1, load |-> <<>>, useLoad |-> TRUE, ens |-> <<>>, from |-> 0, shards |-> <<>>]
SelectOps == {[NoOp EXCEPT !.kind = "select", !.rf = r, !.load = ld] : r \in 1..MaxRF, ld \in LoadFams}
             \cup {[NoOp EXCEPT !.kind = "select", !.rf = r, !.load = [i \in 1..n |-> 0], !.useLoad = FALSE] : r \in 1..MaxRF}
SwapOps == UNION {{[NoOp EXCEPT !.kind = "swap", !.rf = r, !.load = ld, !.ens = e, !.from = e[j]] :
                     ld \in {[i \in 1..n |-> 0], [i \in 1..n |-> i % 3]}, e \in Ensembles(r), j \in 1..r} : r \in 1..MaxRF}
RoundOps == UNION {{[NoOp EXCEPT !.kind = "round", !.rf = r, !.load = [i \in 1..n |-> 0], !.shards = ss] :
                     ss \in ShardSets(r)} : r \in 2..MaxRF}
OpsHere == (IF "select" \in Ops THEN SelectOps ELSE {}) \cup (IF "swap" \in Ops THEN SwapOps ELSE {})
           \cup (IF "round" \in Ops THEN RoundOps ELSE {})

Cfg == [lab |-> srv, pol |-> pol, rf |-> op.rf, load |-> op.load, useLoad |-> op.useLoad]
(* load seen by swapShard: the extra load plus the shard itself *)
SwapLoad == [i \in 1..n |-> op.load[i] + (IF i \in Range(op.ens) THEN 1 ELSE 0)]
(* within a round the pick among the candidates is over-approximated: any candidate *)
RoundCfg == [Cfg EXCEPT !.useLoad = FALSE]

MInit == /\ stage = "build" /\ srv = <<>> /\ pol = <<>> /\ op = NoOp
         /\ cur = <<>> /\ view = <<>> /\ todo = {} /\ phase = 0 /\ viol = FALSE

AddServer == /\ stage = "build" /\ n < MaxN
             /\ \E t \in Tuples : /\ (IF srv = <<>> THEN TRUE ELSE Code(t) >= Code(srv[n]))
                                  /\ srv' = Append(srv, t)
             /\ UNCHANGED <<stage, pol, op, cur, view, todo, phase, viol>>
ChoosePolicy == /\ stage = "build" /\ n >= 1 /\ ValueCanon
                /\ \E p \in Policies : Relevant(p) /\ pol' = p
                /\ stage' = "op"
                /\ UNCHANGED <<srv, op, cur, view, todo, phase, viol>>
ChooseOp == /\ stage = "op"
            /\ \E o \in OpsHere :
                 /\ op' = o
                 /\ IF o.kind = "round"
                    THEN /\ cur' = o.shards /\ view' = o.shards /\ phase' = 1
                         /\ todo' = {it \in ((n + 1)..(n + Removed)) \X DOMAIN o.shards : it[1] \in Range(o.shards[it[2]])}
                    ELSE UNCHANGED <<cur, view, todo, phase>>
            /\ stage' = "exec"
            /\ UNCHANGED <<srv, pol, viol>>

(* one swapShard call of the round for work item <<node, shard index>> *)
RoundSwap(item) ==
    LET from == item[1]
        i    == item[2]
    IN \E o \in SwapOutcomes(view[i], from, RoundCfg, [x \in 1..n |-> 0]) :
         /\ todo' = todo \ {item}
         /\ IF o.k = "ok"
            THEN LET after == ReplaceInList(cur[i], from, o.to) IN
                 /\ cur' = [cur EXCEPT ![i] = after]
                 /\ view' = IF StaleView THEN view ELSE [view EXCEPT ![i] = ReplaceInList(view[i], from, o.to)]
                 /\ viol' = (viol \/ (Distinct(cur[i]) /\ ~ValidSwap(cur[i], from, o.to, after, Cfg)))
            ELSE UNCHANGED <<cur, view, viol>>
RoundStep ==
    /\ stage = "exec" /\ op.kind = "round"
    /\ \/ /\ \E item \in todo : RoundSwap(item)
          /\ UNCHANGED <<phase, stage>>
       \/ /\ phase = 2                             \* balanceHighestNode may pass over a shard
          /\ \E item \in todo : todo' = todo \ {item}
          /\ UNCHANGED <<phase, stage, cur, view, viol>>
       \/ /\ todo = {} /\ phase = 1               \* cleanDeletedNode is through: balanceHighestNode picks one node
          /\ \E h \in 1..n :
               /\ todo' = {<<h, i>> : i \in {j \in DOMAIN view : h \in Range(view[j])}}
               /\ todo' # {}
          /\ phase' = 2 /\ UNCHANGED <<cur, view, viol, stage>>
       \/ /\ (todo = {} \/ phase = 2)             \* balanced (or the loop condition ends the round)
          /\ stage' = "done"
          /\ UNCHANGED <<todo, phase, cur, view, viol>>
    /\ UNCHANGED <<srv, pol, op>>

MNext == AddServer \/ ChoosePolicy \/ ChooseOp \/ RoundStep
MSpec == MInit /\ [][MNext]_mvars

(***************************************************************************)
(* Properties of the design                                                *)
(***************************************************************************)
Claimed == SingleLabelRules(Cfg)
SelectSafe == (stage = "exec" /\ op.kind = "select" /\ Claimed) =>
                 \A o \in SelectOutcomes(Cfg) : o.k = "err" \/ ValidEnsemble(o.e, Cfg)
SwapSafe == (stage = "exec" /\ op.kind = "swap" /\ Claimed) =>
                 \A o \in SwapOutcomes(op.ens, op.from, Cfg, SwapLoad) :
                     o.k = "refused" \/ ValidSwap(op.ens, op.from, o.to, ReplaceInList(op.ens, op.from, o.to), Cfg)
RoundSafe == Claimed => ~viol
(* never vacuous: where a valid ensemble exists and no rule is unsatisfiable, some outcome is an ensemble *)
SelectLive == (stage = "exec" /\ op.kind = "select" /\ Len(pol) = 0 /\ op.rf <= n) =>
                 \E o \in SelectOutcomes(Cfg) : o.k = "ok"

(***************************************************************************)
(* Export                                                                  *)
(***************************************************************************)
RECURSIVE SumCodes(_, _)
SumCodes(s, i) == IF i > Len(s) THEN 0 ELSE (i + 2) * Code(s[i]) + SumCodes(s, i + 1)
RECURSIVE SumSeq(_, _)
SumSeq(s, i) == IF i > Len(s) THEN 0 ELSE (2 * i + 1) * s[i] + SumSeq(s, i + 1)
RECURSIVE SumShards(_, _)
SumShards(s, i) == IF i > Len(s) THEN 0 ELSE (3 * i + 1) * SumSeq(s[i], 1) + SumShards(s, i + 1)
RECURSIVE SumPol(_, _)
SumPol(p, i) == IF i > Len(p) THEN 0 ELSE (5 * i) * (SumSeq(p[i].labels, 1) + (IF p[i].strict THEN 3 ELSE 0)) + SumPol(p, i + 1)
Mix(s, p, o) == SumCodes(s, 1) + SumPol(p, 1) + 7 * o.rf + SumSeq(o.load, 1) + (IF o.useLoad THEN 0 ELSE 11)
                + 13 * SumSeq(o.ens, 1) + 17 * o.from + SumShards(o.shards, 1)
ExportCfg == (Export = "cfg" /\ stage = "op" /\ stage' = "exec" /\ Mix(srv, pol, op') % SampleMod = SampleRes) =>
                PrintT(<<"CFG", ToJson([lab |-> srv, pol |-> pol, claim |-> SingleLabelRules([pol |-> pol])] @@ op')>>)
=============================================================================
