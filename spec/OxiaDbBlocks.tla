---------------------------- MODULE OxiaDbBlocks ----------------------------
(* C06 at storage scale: the same state machine (OxiaDb!Apply) and the same  *)
(* recorded behaviours as OxiaDbMC mode c06, with a request generator whose  *)
(* parameters are the ones the storage engine is sensitive to:               *)
(*   - keys are ALL strings of length 1..BlkMaxLen over BlkAlphabet (bytes   *)
(*     on both sides of '/' in the byte order: '-' '.' '/' '0' 'a'), so that *)
(*     neighbours in the hierarchical order differ in every way two keys can *)
(*     differ around the separator byte;                                     *)
(*   - values have a SIZE (BlkSizes, in KB; encoded in the value number:     *)
(*     val = KB * 1000000 + serial; the harness pads the stored bytes), so   *)
(*     that a shard spans many storage blocks (a block is 64 KB) whose       *)
(*     boundaries fall between arbitrary neighbours;                         *)
(*   - requests are bulk puts (some conditional), deletes, range deletes     *)
(*     with bounds from the same key space, mixed batches; the leader is     *)
(*     restarted (= flushed) at arbitrary points;                            *)
(*   - a behaviour ends with route records (cut offset of the snapshot, lag  *)
(*     of the announced commit offset) that also carry READ PROBES with the  *)
(*     answers this specification demands: point / floor / ceiling / lower / *)
(*     higher gets on keys of the key space and range lists, to be asked of  *)
(*     every replica whichever route (memory, flushed, snapshot) it took.    *)
(* Exhaustively (Export = "none") the laws of OxiaDbMC are checked over a    *)
(* small instance of the same alphabet; long behaviours are drawn at random  *)
(* (Export = "runs", -simulate).                                             *)
EXTENDS OxiaDbMC, Randomization

CONSTANTS BlkAlphabet,   \* byte codes
          BlkMaxLen,     \* 1..3
          BlkSizes,      \* sequence of value sizes in KB (0 = a few bytes)
          BlkMaxPuts,    \* puts per bulk request
          BlkProbes,     \* probe keys per route record
          BlkRestart     \* a restart is offered with probability 1 / BlkRestart

SizesSmall == <<0, 70>>
SizesMixed == <<0, 0, 1, 3, 8, 8, 20, 70>>
SizesBlock == <<70, 70, 100, 8>>

BKeys1 == {<<c>> : c \in BlkAlphabet}
BKeys2 == {<<c, d>> : c \in BlkAlphabet, d \in BlkAlphabet}
BKeys3 == {<<c, d, e>> : c \in BlkAlphabet, d \in BlkAlphabet, e \in BlkAlphabet}
BlkKeys == BKeys1 \cup (IF BlkMaxLen >= 2 THEN BKeys2 ELSE {}) \cup (IF BlkMaxLen >= 3 THEN BKeys3 ELSE {})

BVal(kb, serial) == kb * 1000000 + serial
Pick(seq, r) == seq[(r % Len(seq)) + 1]

\* ---------------------------------------------------------------- sorting without the cubic cost of SortKeys
RECURSIVE QSort(_)
QSort(S) == IF S = {} THEN <<>>
            ELSE LET p == CHOOSE x \in S : TRUE
                     L == {y \in S : KeyLt(y, p)}
                     G == (S \ L) \ {p}
                 IN QSort(L) \o <<p>> \o QSort(G)
BRecs(s) == LET ks == QSort(DOMAIN s.kv) IN [i \in 1..Len(ks) |-> RecOf(s.kv, ks[i])]
BObserve(s) == [recs |-> BRecs(s), idx |-> IdxKeys(s), shadow |-> ShadowKeys(s), lv |-> s.lastVer]
BNfSeq(nf) == LET ks == QSort(DOMAIN nf) IN [i \in 1..Len(ks) |-> [key |-> ks[i]] @@ nf[ks[i]]]

NoProbes == [gets |-> <<>>, lists |-> <<>>]
BWriteRec(s, req, off, ts) ==
    LET ap == Apply(s, req, off, ts) IN
    [a |-> "Write", off |-> off, ts |-> ts, req |-> req, err |-> "", kf |-> FALSE,
     res |-> ap.res, nf |-> BNfSeq(ap.nf)] @@ BObserve(ap.s) @@ NoProbes
BRestartRec(s) ==
    [a |-> "Restart", off |-> -1, ts |-> 0, req |-> NoReq, err |-> "", kf |-> FALSE,
     res |-> [puts |-> <<>>, dels |-> <<>>, rngs |-> <<>>], nf |-> <<>>] @@ BObserve(s) @@ NoProbes

\* ---------------------------------------------------------------- reads
(* Point / floor / ceiling / lower / higher get on the primary keys (kv_pebble.go Get).  The store also   *)
(* holds the block of internal keys ("__oxia/..."), never empty once a request was applied; no probe key  *)
(* lies inside it, so for these questions it behaves like one key at its lower end.  Answers that fall    *)
(* into the block are not asked (what is stored there is not a record).                                  *)
UserKeys(s) == {k \in DOMAIN s.kv : ~Internal(k)}
KeyGet(s, p, cmp) ==
    LET U  == UserKeys(s)
        C  == U \cup {OxiaPrefix}
        lt == {k \in C : KeyLt(k, p)}
        gt == {k \in C : KeyLt(p, k)}
        hit(k) == [found |-> TRUE, p |-> k]
        miss == [found |-> FALSE, p |-> <<>>]
        lo == IF lt = {} THEN miss ELSE hit(MaxKeyOf(lt))
        hi == IF gt = {} THEN miss ELSE hit(MinKeyOf(gt))
    IN CASE cmp = "EQUAL"   -> IF p \in U THEN hit(p) ELSE miss
         [] cmp = "FLOOR"   -> IF p \in U THEN hit(p) ELSE lo
         [] cmp = "CEILING" -> IF p \in U THEN hit(p) ELSE hi
         [] cmp = "LOWER"   -> lo
         [] cmp = "HIGHER"  -> hi
GetProbesOf(s, P) ==
    LET q == {[n |-> <<>>, key |-> x, cmp |-> c, k |-> <<>>] @@ KeyGet(s, x, c) : x \in P, c \in Cmps}
    IN AnySeq({g \in q : g.p # OxiaPrefix})
\* range list / range scan [a, b), for bounds on the same side of the internal block
SameSide(a, b) == KeyLt(a, OxiaPrefix) = KeyLt(b, OxiaPrefix)
ListProbesOf(s, B) ==
    AnySeq({[n |-> <<>>, s |-> a, e |-> b, ps |-> QSort({k \in UserKeys(s) : InRange(k, a, b)})] :
               <<a, b>> \in {t \in B \X B : KeyLt(t[1], t[2]) /\ SameSide(t[1], t[2])}})

\* ---------------------------------------------------------------- requests drawn at random
\* (every random draw is bound by a quantifier over a singleton set, so that it is made once)
LiveUser == UserKeys(st)
RECURSIVE PutsOf(_, _, _, _)
PutsOf(ks, i, r, acc) ==
    IF i > Len(ks) THEN acc
    ELSE LET x  == IF (r \div (3 ^ (i % 9))) % 7 = 0 THEN -1 ELSE NoExp      \* one put in seven: "must not exist"
             kb == Pick(BlkSizes, r \div (5 ^ (i % 7)) + i)
         IN PutsOf(ks, i + 1, r, Append(acc, PlainPut(ks[i], BVal(kb, 100 * (n + 1) + i), x)))
DelsOf(ks) == [i \in 1..Len(ks) |-> [key |-> ks[i], exp |-> NoExp]]
RangeOf(two) == LET q == QSort(two) IN IF Len(q) < 2 THEN <<>> ELSE <<[s |-> q[1], e |-> q[2]]>>

RandReq(kind, r, pk, dk, bk) ==
    CASE kind \in 0..5 -> [NoReq EXCEPT !.puts = PutsOf(AnySeq(pk), 1, r, <<>>)]
      [] kind = 6 -> [NoReq EXCEPT !.dels = DelsOf(AnySeq(dk))]
      [] kind = 7 -> [NoReq EXCEPT !.rngs = RangeOf(bk)]
      [] OTHER -> [puts |-> PutsOf(AnySeq(pk), 1, r, <<>>), dels |-> DelsOf(AnySeq(dk)), rngs |-> RangeOf(bk)]

Min(a, b) == IF a < b THEN a ELSE b
BWrite(req) ==
    /\ nt' = nt + 1
    /\ hist' = Append(hist, BWriteRec(st, req, n, Ts(n)))
    /\ st' = Apply(st, req, n, Ts(n)).s
    /\ n' = n + 1

BRestart == /\ hist # <<>> /\ hist[Len(hist)].a # "Restart"
            /\ nt' = nt + 1 /\ st' = st /\ n' = n
            /\ hist' = Append(hist, BRestartRec(st))

RoutesRec(cut, lag, P, B) ==
    [BRestartRec(st) EXCEPT !.a = "Routes", !.off = cut, !.ts = lag,
                            !.gets = GetProbesOf(st, P), !.lists = ListProbesOf(st, B)]
BRoutes == /\ nt = MaxReqs /\ n > 0
           /\ nt' = nt + 1 /\ st' = st /\ n' = n
           /\ \E c1 \in {RandomElement(0..(n - 1))}, c2 \in {RandomElement(0..(n - 1))}, g \in {RandomElement({0, 1, 3})},
                 P \in {RandomSubset(BlkProbes, BlkKeys)}, B \in {RandomSubset(4, BlkKeys)} :
                 hist' = hist \o <<RoutesRec(c1, g, P, B), RoutesRec(c2, 0, {}, {})>>

RandWrite(r) ==
    LET kind == IF n < 2 THEN 0 ELSE r % 10
        np   == IF kind \in 0..5 THEN 1 + ((r \div 10) % BlkMaxPuts) ELSE 1 + ((r \div 10) % 4)
    IN \E pk \in {RandomSubset(np, BlkKeys)} :
       \E dk \in {RandomSubset(Min(3, Cardinality(LiveUser)), LiveUser) \cup RandomSubset(1, BlkKeys)} :
       \E bk \in {RandomSubset(2, BlkKeys)} :
          BWrite(RandReq(kind, r, pk, dk, bk))
BStep == \/ \E r \in {RandomElement(1..1000000)} : RandWrite(r)
         \/ (BRestart /\ RandomElement(1..BlkRestart) = 1)
BNextRuns == (nt < MaxReqs /\ BStep) \/ BRoutes

\* ---------------------------------------------------------------- exhaustive instance (laws)
LawKeys == {<<97, 46>>, <<97, 48>>, <<97, 47>>, <<97, 45>>, <<97>>, <<97, 47, 46>>}     \* "a." "a0" "a/" "a-" "a" "a/."
LawP == {PlainPut(k, BVal(kb, 0), x) : k \in LawKeys, kb \in {0, 70}, x \in {NoExp, -1}}
LawD == {[key |-> k, exp |-> NoExp] : k \in LawKeys}
LawR == {[s |-> a, e |-> b] : a, b \in {<<97>>, <<97, 46>>, <<97, 47>>, <<97, 48>>, <<98>>}}
LawStamp(req) == [req EXCEPT !.puts = [i \in 1..Len(req.puts) |-> [req.puts[i] EXCEPT !.val = @ + 100 * (n + 1) + i]]]
BNextLaws ==
    /\ nt < MaxReqs
    /\ \/ \E r \in ReqsOver(LawP, LawD, LawR, MaxOps) : BWrite(LawStamp(r))
       \/ BRestart

BNext == IF Export = "runs" THEN BNextRuns ELSE BNextLaws
BSpec == MInit /\ [][BNext]_mvars

(* the read probes are functions of the records alone and agree with the ordered content: whatever a get   *)
(* answers is a live user key on the demanded side of the probe, and no live user key lies strictly between *)
ProbeLaw ==
    \A p \in LawKeys \cup {<<98>>}, c \in Cmps :
       LET a == KeyGet(st, p, c) IN
       a.found /\ a.p # OxiaPrefix =>
          /\ a.p \in UserKeys(st)
          /\ CASE c = "EQUAL" -> a.p = p
               [] c = "FLOOR" -> KeyLe(a.p, p) /\ ~\E k \in UserKeys(st) : KeyLt(a.p, k) /\ KeyLe(k, p)
               [] c = "LOWER" -> KeyLt(a.p, p) /\ ~\E k \in UserKeys(st) : KeyLt(a.p, k) /\ KeyLt(k, p)
               [] c = "CEILING" -> KeyLe(p, a.p) /\ ~\E k \in UserKeys(st) : KeyLe(p, k) /\ KeyLt(k, a.p)
               [] c = "HIGHER" -> KeyLt(p, a.p) /\ ~\E k \in UserKeys(st) : KeyLt(p, k) /\ KeyLt(k, a.p)
=============================================================================
