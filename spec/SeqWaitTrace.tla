---------------------------- MODULE SeqWaitTrace ----------------------------
(* Trace validation for SeqWaiters: one line per call on the real kv.DB       *)
(* (GetSequenceUpdates / sequence put through ProcessWrite / SequenceWaiter   *)
(* Close / non-blocking read of every waiter's channel), in call order; a     *)
(* "Reset" line starts the next trace.  The handle given to a new subscriber, *)
(* the number and the suffix of the generated key (the put carries its delta) *)
(* and what every channel returned must be what SeqWaiters says.              *)
EXTENDS SeqWaiters

TraceLog == ndJsonDeserialize("trace.ndjson")
VARIABLE l
tvars == <<latest, sfx, wp, tid, open, buf, seen, reg, idGen, hist, l>>

TInit == Init /\ l = 1
TNext ==
    /\ l <= Len(TraceLog) /\ l' = l + 1
    /\ LET e == TraceLog[l] IN
       \/ /\ e.a = "Reset"
          /\ latest' = [p \in Prefixes |-> 0] /\ sfx' = [p \in Prefixes |-> <<>>] /\ wp' = <<>> /\ tid' = <<>> /\ open' = <<>> /\ buf' = <<>> /\ seen' = <<>>
          /\ reg' = [p \in Prefixes |-> EmptyMap] /\ idGen' = 0 /\ hist' = <<>>
       \/ e.a = "Sub"   /\ e.p \in Prefixes /\ Subscribe(e.p) /\ e.w = Len(wp) + 1
       \* (the delta is the one the call carried, any uint64 > 0; the suffix of the generated key is compared)
       \/ e.a = "Put"   /\ e.p \in Prefixes /\ PutD(e.p, Db!PadLeft20(e.d)) /\ e.k = latest[e.p] + 1
                        /\ e.sfx = Db!AddU64(CurSfx(e.p), Db!PadLeft20(e.d))
       \/ e.a = "Close" /\ Close(e.w)
       \/ e.a = "Drain" /\ Drain /\ e.obs = [w \in Handles |-> ObsOf(w)]
TraceSpec == TInit /\ [][TNext]_tvars

HighWater == IF l > TLCGet(1) THEN TLCSet(1, l) ELSE TRUE
ASSUME TLCSet(1, 0)
TraceAccepted == IF TLCGet(1) = Len(TraceLog) + 1 THEN TRUE ELSE Print(<<"REJECTED", TLCGet(1), Len(TraceLog)>>, FALSE)
=============================================================================
