----------------------------- MODULE OxiaDbMC -----------------------------
(* Closed system around OxiaDb: a bounded adversarial client.                *)
(*  - exhaustively (VIEW hides the history): the laws of the state machine   *)
(*    (C12 version/conditional/range/atomicity rules, C15 IndexMirror, C16   *)
(*    freshness of sequence keys, C13 totality);                             *)
(*  - as generator of behaviours replayed on the real kv.DB / on a real RF=1 *)
(*    leader controller: `hist` records every request together with the      *)
(*    per-operation results, the full ordered content and the notification   *)
(*    batch the specification demands after it.                              *)
(* Mode selects the request alphabet:                                        *)
(*   "c12"  plain / conditional puts and deletes, delete-ranges              *)
(*   "c16"  sequence puts mixed with plain writes, deletes and ranges        *)
(*   "c16big" the same with deltas over the whole uint64 range + restarts    *)
(*   "c15"  puts with secondary indexes, deletes, ranges + index probes      *)
(*   "c13"  product of field classes after a few set-up requests             *)
EXTENDS OxiaDb, TLC, Json

CONSTANTS Mode,       \* see above
          MaxReqs,    \* requests per behaviour
          MaxOps,     \* operations per request
          Export      \* "none" | "steps" | "runs"

VARIABLES st, n, nt, hist
mvars == <<st, n, nt, hist>>
View  == <<st, n, nt>>

Ts(i) == 1000 + 10 * i

\* ---------------------------------------------------------------- names
Ka  == <<97>>            \* "a"
Kb  == <<98>>            \* "b"
Kc  == <<99>>            \* "c"
Kab == <<97, 47, 98>>    \* "a/b"
Kba == <<98, 47, 97>>    \* "b/a"
Kaz == <<97, 47, 122>>   \* "a/z"
Kz  == <<122>>           \* "z"
Ks  == <<115>>           \* "s"   sequence prefix
Ktu == <<116, 47, 117>>  \* "t/u" sequence prefix below a slash
Kox == OxiaPrefix \o <<120>>                 \* "__oxia/x"
KoxEnd == OxiaPrefix \o <<126>>              \* "__oxia/~"
Ni  == <<105>>           \* index "i"
Ni2 == <<105, 50>>       \* index "i2"
Nj  == <<106>>           \* index "j"

PlainPut(k, v, x) == [key |-> k, val |-> v, exp |-> x, sess |-> NoSess, cid |-> "", pkey |-> FALSE,
                      deltas |-> <<>>, idx |-> <<>>]
NoReq == [puts |-> <<>>, dels |-> <<>>, rngs |-> <<>>]

\* all requests with a puts, b deletes and c ranges drawn from the given alphabets
Shape(P, D, R, a, b, c) ==
    {[puts |-> ps, dels |-> ds, rngs |-> rs] : ps \in [1..a -> P], ds \in [1..b -> D], rs \in [1..c -> R]}
Shapes(m) == {t \in (0..m) \X (0..m) \X (0..m) : t[1] + t[2] + t[3] >= 1 /\ t[1] + t[2] + t[3] <= m}
ReqsOver(P, D, R, m) == UNION {Shape(P, D, R, t[1], t[2], t[3]) : t \in Shapes(m)}
\* values identify the request and the position of the put
Stamp(req) == [req EXCEPT !.puts = [i \in 1..Len(req.puts) |->
                   IF req.puts[i].val = 0 THEN [req.puts[i] EXCEPT !.val = 10 * (n + 1) + i] ELSE req.puts[i]]]

\* ---------------------------------------------------------------- c12
\* expected version in {none, "not exists", current, next}; "next" is the version the first
\* put of this request will be given, so it is stale before and current after such a put
ExpChoices(k) == IF Has(st.kv, k) THEN {NoExp, -1, st.kv[k].ver, st.lastVer + 1}
                 ELSE {NoExp, -1, st.lastVer + 1, 0}
C12Keys == {Ka, Kb, Kab, Kba}
C12P == {PlainPut(k, 0, x) : k \in C12Keys, x \in {NoExp}} \cup
        UNION {{PlainPut(k, 0, x) : x \in ExpChoices(k)} : k \in C12Keys}
C12D == UNION {{[key |-> k, exp |-> x] : x \in ExpChoices(k)} : k \in C12Keys}
C12R == {[s |-> a, e |-> b] : a, b \in C12Keys}

\* c12p: the same alphabet from pre-populated shards
AllPut(v) == [NoReq EXCEPT !.puts = <<PlainPut(Ka, v, NoExp), PlainPut(Kb, v + 1, NoExp),
                                       PlainPut(Kab, v + 2, NoExp), PlainPut(Kba, v + 3, NoExp)>>]
SetupsP == << <<[NoReq EXCEPT !.puts = <<PlainPut(Ka, 1, NoExp), PlainPut(Kba, 2, NoExp)>>]>>,
              <<AllPut(1)>>,
              <<AllPut(1), [NoReq EXCEPT !.puts = <<PlainPut(Kb, 5, NoExp), PlainPut(Kab, 6, NoExp)>>,
                                         !.dels = <<[key |-> Ka, exp |-> NoExp]>>]>> >>
\* c12big: 99 / 100 / 101 keys "a/b-NNN" so that a delete-range meets both strategies of
\* applyDeleteRange (individual deletes up to DeleteRangeThreshold = 100 keys, one range tombstone above)
BigKey(i) == Kab \o <<DASH, 48 + (i \div 100), 48 + ((i \div 10) % 10), 48 + (i % 10)>>
\* (populated 25 keys per request: TLC's evaluation stack does not survive a 100-operation request)
BigChunk(lo, hi) == [NoReq EXCEPT !.puts = [i \in 1..(hi - lo + 1) |-> PlainPut(BigKey(lo + i - 1), lo + i - 1, NoExp)]]
BigPuts(m) == <<BigChunk(1, 25), BigChunk(26, 50), BigChunk(51, 75), BigChunk(76, m)>>
SetupsBig == <<BigPuts(99), BigPuts(100), BigPuts(101),
               BigPuts(101) \o <<[NoReq EXCEPT !.puts = <<PlainPut(Ka, 1, NoExp), PlainPut(Kz, 2, NoExp)>>]>> >>
BigP == {PlainPut(k, 0, NoExp) : k \in {Ka, BigKey(1), Kaz}}
BigD == {[key |-> k, exp |-> NoExp] : k \in {BigKey(100), BigKey(101)}}
BigR == {[s |-> Ka, e |-> Kaz], [s |-> Kab \o <<DASH>>, e |-> Kab \o <<46>>], [s |-> BigKey(2), e |-> BigKey(101)],
         [s |-> <<>>, e |-> Kz \o <<SLASH>>], [s |-> BigKey(50), e |-> BigKey(51)]}

\* ---------------------------------------------------------------- c16
SeqPut(pfx, ds) == [key |-> pfx, val |-> 0, exp |-> NoExp, sess |-> NoSess, cid |-> "", pkey |-> TRUE,
                    deltas |-> ds, idx |-> <<>>]
C16Prefixes == {Ks, Ktu}
C16Deltas   == {<<1>>, <<3>>, <<1, 2>>, <<2, 0>>}
LiveOf(pfx) == {k \in DOMAIN st.kv : HasPrefix(k, pfx)}
\* the current maximum of every prefix, the prefix key itself, a neighbour
C16Targets == {MaxKeyOf(LiveOf(p)) : p \in {q \in C16Prefixes : LiveOf(q) # {}}} \cup {Ks, Ktu}
C16P == {SeqPut(p, d) : p \in C16Prefixes, d \in C16Deltas} \cup {PlainPut(k, 0, NoExp) : k \in C16Targets}
C16D == {[key |-> k, exp |-> NoExp] : k \in C16Targets}
C16R == {[s |-> Ks, e |-> Ks \o <<46>>], [s |-> Ka, e |-> Kz]}     \* ["s","s."): all "s-..." keys; ["a","z")

\* c16big: the same with deltas over the whole uint64 range (OxiaDb.tla: Delta20 / AddU64) - 2^31, 2^63-1, 2^63,
\* 2^63+1, 2^64-2, 2^64-1 next to 1, in one-suffix ("s") and two-suffix ("t/u") sequences, so that suffixes cross
\* 2^31 and 2^63, reach 2^64-1 exactly (2^63-1 + 2^63, 2^64-2 + 1) and pass it (2^63 + 2^63, 2^64-1 + 1: the
\* class SeqOverflow, where the code wraps); deletes / overwrites of the current maximum, a range delete of the
\* whole sequence and restarts in between.
Dig(ds) == [i \in 1..Len(ds) |-> 48 + ds[i]]
B31   == Dig(<<2,1,4,7,4,8,3,6,4,8>>)                         \* 2^31
B63m1 == Dig(<<9,2,2,3,3,7,2,0,3,6,8,5,4,7,7,5,8,0,7>>)       \* 2^63-1
B63   == Dig(<<9,2,2,3,3,7,2,0,3,6,8,5,4,7,7,5,8,0,8>>)       \* 2^63
B63p1 == Dig(<<9,2,2,3,3,7,2,0,3,6,8,5,4,7,7,5,8,0,9>>)       \* 2^63+1
B64m2 == Dig(<<1,8,4,4,6,7,4,4,0,7,3,7,0,9,5,5,1,6,1,4>>)     \* 2^64-2
B64m1 == Dig(<<1,8,4,4,6,7,4,4,0,7,3,7,0,9,5,5,1,6,1,5>>)     \* 2^64-1
\* (bd[i] = <<>>: the delta is ds[i]; otherwise ds[i] is 0 and the delta is the number written in bd[i])
BigSeqPut(pfx, ds, bd) == SeqPut(pfx, ds) @@ [bd |-> bd]
C16BigOne == {SeqPut(Ks, <<1>>)} \cup {BigSeqPut(Ks, <<0>>, <<b>>) : b \in {B31, B63m1, B63, B63p1, B64m2, B64m1}}
C16BigTwo == {SeqPut(Ktu, <<1, 2>>), SeqPut(Ktu, <<2, 0>>),
              BigSeqPut(Ktu, <<0, 7>>, <<B63, <<>> >>), BigSeqPut(Ktu, <<1, 0>>, << <<>>, B63>>),
              BigSeqPut(Ktu, <<0, 0>>, <<B31, B63p1>>), BigSeqPut(Ktu, <<0, 0>>, <<B64m1, B64m1>>)}
C16BigTargets == {MaxKeyOf(LiveOf(p)) : p \in {q \in C16Prefixes : LiveOf(q) # {}}}
C16BigP == C16BigOne \cup C16BigTwo \cup {PlainPut(k, 0, NoExp) : k \in C16BigTargets}
C16BigD == {[key |-> k, exp |-> NoExp] : k \in C16BigTargets}
C16BigR == {[s |-> Ks, e |-> Ks \o <<46>>]}

\* ---------------------------------------------------------------- c15
IdxPut(k, ix) == [key |-> k, val |-> 0, exp |-> NoExp, sess |-> NoSess, cid |-> "", pkey |-> FALSE,
                  deltas |-> <<>>, idx |-> ix]
IE(name, sk) == [n |-> name, k |-> sk]
C15Keys  == {Ka, Kb, Kab}
C15Names == {Ni, Ni2, Nj}
C15SKs   == {Kb, Kc}
C15Idx   == {<<>>} \cup {<<IE(nm, sk)>> : nm \in C15Names, sk \in C15SKs}
            \cup {<<IE(Ni, Kb), IE(Ni2, Kc)>>, <<IE(Ni2, Kb), IE(Nj, Kb)>>, <<IE(Ni, Kb), IE(Ni, Kc)>>}
C15P == {IdxPut(k, ix) : k \in C15Keys, ix \in C15Idx}
C15D == {[key |-> k, exp |-> NoExp] : k \in C15Keys}
C15R == {[s |-> Ka, e |-> Kab], [s |-> Kb, e |-> Kz]}
\* probes: every index name x comparison x probe key (below the first, between, above the last)
C15Probes == {Ka, Kb, Kc, <<100>>}
Cmps == {"EQUAL", "FLOOR", "CEILING", "LOWER", "HIGHER"}
ProbeGets(s) == LET q == {[n |-> nm, key |-> k, cmp |-> c] : nm \in C15Names, k \in C15Probes, c \in Cmps}
                IN {g @@ IdxGet(s, g.n, g.key, g.cmp) : g \in q}
ProbeLists(s) == {[n |-> nm, s |-> a, e |-> b, ps |-> IdxList(s, nm, a, b)] :
                     nm \in C15Names, a \in {Ka, Kc}, b \in {Kc, <<100>>}}

\* ---------------------------------------------------------------- c13
\* set-up prefixes: an empty shard; a record, a session and one-suffix sequence keys;
\* two-suffix sequence keys
Setups == <<
   <<>>,
   << [NoReq EXCEPT !.puts = <<PlainPut(Ka, 1, NoExp), PlainPut(Kab, 2, NoExp)>>],
      [NoReq EXCEPT !.puts = <<PlainPut(SessKey(1), -1, NoExp)>>],
      [NoReq EXCEPT !.puts = <<SeqPut(Ka, <<1>>), SeqPut(Ka, <<1>>)>>] >>,
   << [NoReq EXCEPT !.puts = <<PlainPut(SessKey(0), -1, NoExp)>>],
      [NoReq EXCEPT !.puts = <<SeqPut(Ka, <<1, 1>>), [PlainPut(Kb, 3, NoExp) EXCEPT !.sess = 0,
                                  !.idx = <<IE(Ni, Kb)>>]>>] >>
>>
\* ... and shards that hold a record written by a plain put whose key looks like a sequence key of prefix "a"
\* but whose suffix parts are not clean 20-digit numbers: non-digit tail, too few digits, 21 digits, an empty
\* part, a part without a leading digit, a part above 2^64-1.  (The generator reads the parts of the highest
\* key below "a-<max>" with Sscanf "%020d".)  From these only sequence puts on "a" are offered.
D(dg) == 48 + dg
LookAlikes == {
   Ka \o <<DASH, D(1), D(2), 120>>,                                                \* "a-12x"
   Ka \o <<DASH, D(7)>>,                                                           \* "a-7"
   Ka \o <<DASH, D(1)>> \o [i \in 1..20 |-> D(0)],                                  \* "a-1" + 20 zeros (21 digits)
   Ka \o <<DASH, DASH, D(5)>>,                                                     \* "a--5"
   Ka \o <<DASH>> \o Pad20(7) \o <<DASH, 118, D(2)>>,                               \* "a-00000000000000000007-v2"
   Ka \o <<DASH>> \o Pad20(1) \o <<DASH>> \o [i \in 1..20 |-> D(9)] }                \* second part = 20 nines
LookSetups == [i \in 1..Cardinality(LookAlikes) |->
                 <<[NoReq EXCEPT !.puts = <<PlainPut(SortKeys(LookAlikes)[i], 1, NoExp)>>]>>]
HasLookAlike == DOMAIN st.kv \cap LookAlikes # {}
\* ... and hostile secondary-index declarations (OxiaDb.tla "Secondary-index declarations"): classes of p.idx a
\* client library would not build - empty index name, names with '/' (inner, leading, trailing), the separator
\* byte, empty secondary key, both empty, a repeated declaration, two declarations that denote the same entry
\* key, ordinary and hostile ones mixed, and many declarations (12: four ordinary ones, each twice, hostile ones
\* in between).  They are offered with a reduced choice of the other fields from every set-up, and there are two
\* more set-ups whose records CARRY such declarations (one of them ephemeral), so that overwriting, deleting and
\* range-deleting such a record - deleteSecondaryIndexes on the stored declarations - is enumerated as well.
NSl  == <<SLASH>>          \* "/"
NiSl == <<105, SLASH>>     \* "i/"
Sep  == <<1>>              \* the separator byte of the entry keys
Kbc  == <<98, SLASH, 99>>  \* "b/c"
ManyIdx == [i \in 1..12 |-> CASE i % 6 = 0 -> IE(<<>>, <<48 + i \div 6>>)
                               [] i % 6 = 3 -> IE(<<105, SLASH, 48 + i \div 6>>, <<>>)
                               [] OTHER     -> IE(<<105, 48 + (i % 4)>>, <<98, 48 + (i % 2)>>)]
C13HostileIdx == { <<IE(<<>>, Kb)>>, <<IE(Kab, Kb)>>, <<IE(NSl, Kb)>>, <<IE(NiSl, Kb)>>, <<IE(Sep, Sep)>>,
                   <<IE(Ni, <<>>)>>, <<IE(<<>>, <<>>)>>,
                   <<IE(Ni, Kb), IE(Ni, Kb)>>,                       \* repeated
                   <<IE(Ka, Kbc), IE(Kab, Kc)>>,                     \* both denote "__oxia/idx/a/b/c\x01<primary>"
                   <<IE(Ni, Kb), IE(<<>>, Kc), IE(Kab, <<>>)>>,      \* ordinary and hostile mixed
                   ManyIdx }
\* (the other fields one feature at a time - unconditional, conditional, ephemeral, sequence put; their
\* combinations with each other are in C13P)
C13HVariants == {[exp |-> NoExp, sess |-> NoSess, deltas |-> <<>>], [exp |-> 0, sess |-> NoSess, deltas |-> <<>>],
                 [exp |-> NoExp, sess |-> 0, deltas |-> <<>>], [exp |-> NoExp, sess |-> NoSess, deltas |-> <<1>>]}
C13HP == {[key |-> k, val |-> 0, exp |-> v.exp, sess |-> v.sess, cid |-> "", pkey |-> TRUE, deltas |-> v.deltas, idx |-> ix] :
            k \in {<<>>, Ka, Kab, Kox}, v \in C13HVariants, ix \in C13HostileIdx}
HostileSetups == <<
   << [NoReq EXCEPT !.puts = <<[PlainPut(Ka, 1, NoExp) EXCEPT !.idx = <<IE(<<>>, Kb), IE(Kab, <<>>)>>],
                               [PlainPut(Kab, 2, NoExp) EXCEPT !.idx = <<IE(Ka, Kbc), IE(Kab, Kc), IE(Ka, Kbc)>>],
                               [PlainPut(<<>>, 3, NoExp) EXCEPT !.idx = ManyIdx]>>] >>,
   << [NoReq EXCEPT !.puts = <<PlainPut(SessKey(0), -1, NoExp)>>],
      [NoReq EXCEPT !.puts = <<[PlainPut(Ka, 1, NoExp) EXCEPT !.sess = 0, !.idx = <<IE(NSl, Sep), IE(<<>>, <<>>)>>],
                               [SeqPut(Ka, <<1>>) EXCEPT !.val = 2, !.idx = <<IE(NiSl, Kb), IE(NiSl, Kb)>>]>>] >>
>>
HasHostileIdx == \E k \in DOMAIN st.kv : HostileDecls(st.kv[k].idx)
C13Seq == {[SeqPut(Ka, d) EXCEPT !.pkey = pk] : d \in {<<1>>, <<2, 1>>, <<1, 1, 1>>, <<0>>}, pk \in BOOLEAN}
C13KeyClasses == {<<>>, Ka, Kab, Kox}
C13Deltas == {<<>>, <<0>>, <<0, 1>>, <<1>>, <<1, 1>>, <<1, 1, 1>>}
C13Sess == {NoSess, 0, 7}            \* none / live in the third set-up, dead otherwise / dead
C13Idx == {<<>>, <<IE(Ni, Kb)>>, <<IE(Ni, Kb), IE(Nj, Kc)>>}
C13P == {[key |-> k, val |-> 0, exp |-> x, sess |-> se, cid |-> c, pkey |-> pk, deltas |-> d, idx |-> ix] :
            k \in C13KeyClasses, x \in {NoExp, 0}, se \in C13Sess, c \in {""}, pk \in BOOLEAN,
            d \in C13Deltas, ix \in C13Idx}
\* ... and optional fields that are PRESENT BUT EMPTY (OxiaDb.tla "Optional fields of a request"): the partition
\* key present with the value "" (and with an odd value, "a/b") on sequence puts AND on ordinary puts, the client
\* identity present with the value "", the expected version present with the value -1 / 0, the session present
\* with the id 0 (live in the third set-up, dead otherwise) - multiplied with the key classes (incl. the empty
\* key) and with the deltas absent / zero first / zero later / positive.  Admission looks at presence only, so
\* every one of these with a positive first delta (or none) is logged and has to be applied with statuses.
C13PkVals == {<<>>, Kab}
C13OptDeltas == {<<>>, <<0>>, <<1>>, <<1, 0>>, <<1, 1>>}
C13Opt == {[key |-> k, val |-> 0, exp |-> x, sess |-> se, cid |-> "", pkey |-> TRUE, pk |-> v, deltas |-> d, idx |-> <<>>] :
              k \in C13KeyClasses, x \in {NoExp, -1, 0}, se \in {NoSess, 0}, v \in C13PkVals, d \in C13OptDeltas}
          \cup {[key |-> k, val |-> 0, exp |-> NoExp, sess |-> NoSess, cid |-> "", cidp |-> TRUE, pkey |-> (v # 0),
                 pk |-> IF v = 2 THEN Kab ELSE <<>>, deltas |-> d, idx |-> <<>>] :
              k \in C13KeyClasses, v \in 0..2, d \in {<<>>, <<1>>}}
\* (from the look-alike set-ups: the sequence puts with a present-but-empty partition key)
C13SeqOpt == {[SeqPut(Ka, d) @@ [pk |-> <<>>] EXCEPT !.pkey = TRUE] : d \in {<<1>>, <<2, 1>>, <<1, 1, 1>>, <<0>>}}
C13D == {[key |-> k, exp |-> x] : k \in C13KeyClasses \cup {SessKey(0)}, x \in {NoExp, -1, 0}}
C13Bounds == {<<>>, Ka, Kaz, Kz, OxiaPrefix, KoxEnd}
C13R == {[s |-> a, e |-> b] : a, b \in C13Bounds}

\* ---------------------------------------------------------------- c06
\* every feature in one alphabet: plain / conditional puts, ephemeral puts (live and dead sessions), puts with
\* secondary indexes, sequence puts, deletes, range deletes (small ones, and - from the pre-populated shard -
\* one above the 100-key switch of applyDeleteRange), session registration, several operations per request
C06Keys == {Ka, Kab, Kb}
C06Live == {x \in 0..(n - 1) : SessKey(x) \in DOMAIN st.kv}
C06P == {PlainPut(k, 0, x) : k \in C06Keys, x \in {NoExp, -1}}
        \cup {[PlainPut(k, 0, NoExp) EXCEPT !.sess = x] : k \in {Ka, Kab}, x \in C06Live \cup {7}}
        \cup {IdxPut(k, ix) : k \in {Ka, Kb}, ix \in {<<IE(Ni, Kb)>>, <<IE(Ni, Kc), IE(Nj, Kb)>>}}
        \cup {SeqPut(Ks, <<1>>), SeqPut(Ktu, <<1, 2>>)}
C06D == {[key |-> k, exp |-> NoExp] : k \in C06Keys}
C06R == {[s |-> Ka, e |-> Kb], [s |-> Ks, e |-> Ks \o <<46>>], [s |-> <<>>, e |-> Kz]}
\* ("c06": from an empty shard; "c06big": from the pre-populated one, one operation per request)
C06Setups == IF Mode = "c06big" THEN << BigPuts(101) >> ELSE << <<>> >>
C06BigR == {[s |-> Ka, e |-> Kaz], [s |-> BigKey(2), e |-> BigKey(101)], [s |-> <<>>, e |-> Kz]}

\* ---------------------------------------------------------------- requests offered in a state
Requests ==
    CASE Mode \in {"c12", "c12p"} -> ReqsOver(C12P, C12D, C12R, MaxOps)
      [] Mode = "c12big" -> ReqsOver(BigP, BigD, BigR, MaxOps)
      [] Mode = "c16" -> {r \in ReqsOver(C16P, C16D, C16R, MaxOps) : ~SeqStateError(st, Stamp(r))}
      [] Mode = "c16big" -> {r \in ReqsOver(C16BigP, C16BigD, C16BigR, MaxOps) : ~SeqStateError(st, Stamp(r))}
      [] Mode = "c15" -> ReqsOver(C15P, C15D, C15R, MaxOps)
      [] Mode = "c13" -> IF HasLookAlike THEN ReqsOver(C13Seq \cup C13SeqOpt, {}, {}, 1)
                         ELSE IF HasHostileIdx THEN ReqsOver(C13HP, C13D, C13R, MaxOps)
                         ELSE ReqsOver(C13P \cup C13HP \cup C13Opt, C13D, C13R, MaxOps)
      [] Mode = "c06" -> {r \in ReqsOver(C06P, C06D, C06R, MaxOps) : ~SeqStateError(st, Stamp(r))}
                         \cup {[NoReq EXCEPT !.puts = <<PlainPut(SessKey(n), -1, NoExp)>>]}
      [] Mode = "c06big" -> ReqsOver(C06P \cup BigP, C06D \cup BigD, C06BigR, 1)
                            \cup {[NoReq EXCEPT !.puts = <<PlainPut(SessKey(n), -1, NoExp)>>]}

\* ---------------------------------------------------------------- steps
RECURSIVE AnySeq(_)
AnySeq(S) == IF S = {} THEN <<>> ELSE LET x == CHOOSE y \in S : TRUE IN <<x>> \o AnySeq(S \ {x})

Probes(s) == [gets  |-> IF Mode = "c15" /\ Export # "none" THEN AnySeq(ProbeGets(s)) ELSE <<>>,
              lists |-> IF Mode = "c15" /\ Export # "none" THEN AnySeq(ProbeLists(s)) ELSE <<>>]

\* one recorded step: the call, the demanded results and the demanded observable state after it
WriteRec(s, req, off, ts) ==
    LET ap == Apply(s, req, off, ts) IN
    [a |-> "Write", off |-> off, ts |-> ts, req |-> req, err |-> "", kf |-> SeqStateError(s, req),
     ovf |-> SeqOverflow(s, req),      \* (finding seqOverflow: what follows is the code's wrapping arithmetic)
     res |-> ap.res, nf |-> NfSeq(ap.nf)] @@ Observe(ap.s) @@ Probes(ap.s)
\* refused by the leader before an offset is allocated: nothing happens
RejectRec(s, req) ==
    [a |-> "Write", off |-> -1, ts |-> 0, req |-> req, err |-> "REJECTED", kf |-> FALSE, ovf |-> FALSE,
     res |-> [puts |-> <<>>, dels |-> <<>>, rngs |-> <<>>], nf |-> <<>>] @@ Observe(s) @@ Probes(s)
\* close and re-create the DB / the leader controller (which replays its log): nothing changes
RestartRec(s) ==
    [a |-> "Restart", off |-> -1, ts |-> 0, req |-> NoReq, err |-> "", kf |-> FALSE, ovf |-> FALSE,
     res |-> [puts |-> <<>>, dels |-> <<>>, rngs |-> <<>>], nf |-> <<>>] @@ Observe(s) @@ Probes(s)

ProbeWrite == [NoReq EXCEPT !.puts = <<PlainPut(Kz, 99, NoExp)>>]

DoWrite(r) ==
    LET req == Stamp(r) IN
    /\ nt' = nt + 1
    /\ IF ~WellFormed(req)
       THEN /\ hist' = hist \o (IF Mode = "c13"
                                THEN <<RejectRec(st, req), RestartRec(st), WriteRec(st, ProbeWrite, n, Ts(n))>>
                                ELSE <<RejectRec(st, req)>>)
            /\ IF Mode = "c13" THEN st' = Apply(st, ProbeWrite, n, Ts(n)).s /\ n' = n + 1 ELSE st' = st /\ n' = n
       ELSE LET s1 == Apply(st, req, n, Ts(n)).s IN
            IF Mode = "c13" /\ ~SeqStateError(st, req)
            THEN /\ hist' = hist \o <<WriteRec(st, req, n, Ts(n)), RestartRec(s1), WriteRec(s1, ProbeWrite, n + 1, Ts(n + 1))>>
                 /\ st' = Apply(s1, ProbeWrite, n + 1, Ts(n + 1)).s /\ n' = n + 2
            ELSE /\ hist' = Append(hist, WriteRec(st, req, n, Ts(n)))
                 /\ st' = s1 /\ n' = n + 1

\* behaviours start with one of the set-up prefixes of the mode, executed as ordinary writes
InitSetups == CASE Mode = "c13" -> Setups \o LookSetups \o HostileSetups [] Mode = "c12p" -> SetupsP [] Mode = "c12big" -> SetupsBig [] Mode \in {"c06", "c06big"} -> C06Setups
                [] OTHER -> << <<>> >>
RECURSIVE RunSetup(_, _, _, _)
RunSetup(s, i, reqs, h) ==
    IF i > Len(reqs) THEN [s |-> s, h |-> h]
    ELSE RunSetup(Apply(s, reqs[i], i - 1, Ts(i - 1)).s, i + 1, reqs, Append(h, WriteRec(s, reqs[i], i - 1, Ts(i - 1))))

MInit ==
    /\ nt = 0
    /\ \E i \in 1..Len(InitSetups) :
          LET r == RunSetup(InitState, 1, InitSetups[i], <<>>) IN
          st = r.s /\ n = Len(InitSetups[i]) /\ hist = r.h

\* c06: the leader is restarted at arbitrary points; a behaviour ends with the choice of the routes by which the
\* same log is applied once more (off: the offset after which the snapshot is cut, ts: how far the commit offset
\* announced to the follower lags behind the entry it is sent with)
IsC06 == Mode \in {"c06", "c06big"}
DoRestart == /\ (IsC06 \/ Mode = "c16big") /\ hist # <<>> /\ hist[Len(hist)].a # "Restart"
             /\ nt' = nt + 1 /\ st' = st /\ n' = n
             /\ hist' = Append(hist, RestartRec(st))
DoRoutes  == /\ IsC06 /\ nt = MaxReqs /\ n > 0
             /\ nt' = nt + 1 /\ st' = st /\ n' = n
             /\ \E k \in 0..(n - 1), g \in {0, 1, 3} :
                   hist' = Append(hist, [RestartRec(st) EXCEPT !.a = "Routes", !.off = k, !.ts = g])

MNext == \/ /\ nt < MaxReqs
            /\ ~(hist # <<>> /\ hist[Len(hist)].kf)        \* a known-finding step ends the behaviour
            \* (long c06 behaviours are drawn request by request: computing every successor of a state only to
            \* keep one of them would cost a recorded observation per candidate request)
            \* (likewise c13: otherwise one simulated behaviour is exported once per request of the alphabet
            \* at its last level, 1 355 behaviours with the same first two requests)
            /\ ((\E r \in (IF (IsC06 \/ Mode = "c13") /\ Export = "runs" THEN {RandomElement(Requests)} ELSE Requests) : DoWrite(r))
                \/ (DoRestart /\ (Export = "runs" => RandomElement(1..6) = 1)))
         \/ DoRoutes

MSpec == MInit /\ [][MNext]_mvars

\* ---------------------------------------------------------------- laws
\* the request under test is the first record appended by a transition; in c13 mode it is followed by
\* a restart and a probe write, so the laws that relate st and st' are stated for the other modes
Stepped == Len(hist') > Len(hist)
Cur == hist'[Len(hist) + 1]
Req == Cur.req
Res == Cur.res
Accepted == Cur.err = ""
Plain == Mode # "c13"

Inv == IndexMirror(st) /\ ShadowMirror(st) /\ VersionsSane(st)

(* C13: totality - every accepted request yields one status per operation, in the status alphabet *)
Statuses == {"OK", "KEY_NOT_FOUND", "UNEXPECTED_VERSION_ID", "SESSION_DOES_NOT_EXIST"}
Total == [][ (Stepped /\ Accepted /\ ~Cur.kf) =>
               /\ Len(Res.puts) = Len(Req.puts) /\ Len(Res.dels) = Len(Req.dels) /\ Len(Res.rngs) = Len(Req.rngs)
               /\ \A i \in 1..Len(Res.puts) : Res.puts[i].st \in Statuses
               /\ \A i \in 1..Len(Res.dels) : Res.dels[i] \in Statuses
               /\ \A i \in 1..Len(Res.rngs) : Res.rngs[i] = "OK" ]_mvars

(* C13: admission and application agree on every request shape (OxiaDb.tla "Optional fields of a request").   *)
(* AdmissionCoversApply: a request on which the sequence-key generator fails because of its content alone is   *)
(* refused before it is logged (stated on every offered request, refused or not; with Total: whatever is not    *)
(* refused gets statuses).  OptNeutral: the value of a present partition key and the presence of an empty      *)
(* client identity are not interpreted - the request yields the results, notifications and records it yields   *)
(* with these replaced by ordinary values (in particular "" is treated like "pk", never like "absent").        *)
AdmissionCoversApply == [][ Stepped => (ContentError(st, Req) => ~WellFormed(Req)) ]_mvars
OptNeutral == [][ (Stepped /\ Accepted /\ ~Cur.kf) =>
    LET a == Apply(st, Req, Cur.off, Cur.ts)
        b == Apply(st, NormOpt(Req), Cur.off, Cur.ts)
    IN a.res = b.res /\ a.nf = b.nf /\ a.s = b.s /\ WellFormed(NormOpt(Req)) ]_mvars

(* C13: secondary-index declarations are neutral and always applicable (OxiaDb.tla "Secondary-index          *)
(* declarations") - whatever a put declares, the request yields the statuses, the records and the version    *)
(* counter it yields with every declaration removed, and after an OK put the record's entry keys are exactly *)
(* the ones its declarations denote, one per declaration.                                                    *)
SameRecords(s1, s2) == /\ DOMAIN s1.kv = DOMAIN s2.kv /\ s1.lastVer = s2.lastVer /\ s1.shadow = s2.shadow
                       /\ \A k \in DOMAIN s1.kv : RecOf(s1.kv, k) = RecOf(s2.kv, k)
DeclNeutral == [][ (Stepped /\ Accepted /\ ~Cur.kf) =>
    LET a == Apply(st, Req, Cur.off, Cur.ts)
        b == Apply(st, StripDecls(Req), Cur.off, Cur.ts)
    IN a.res = b.res /\ a.nf = b.nf /\ SameRecords(a.s, b.s) ]_mvars
DeclEntries == [][ (Stepped /\ Accepted /\ ~Cur.kf /\ Len(Req.puts) = 1 /\ Len(Req.dels) = 0 /\ Len(Req.rngs) = 0
                    /\ Res.puts[1].st = "OK") =>
    LET a  == Apply(st, Req, Cur.off, Cur.ts)
        pk == IF Res.puts[1].key # <<>> THEN Res.puts[1].key ELSE Req.puts[1].key
        w  == DeclWrites(pk, Req.puts[1].idx)
    IN /\ {IdxKey(x.n, x.k, x.p) : x \in {y \in a.s.idx : y.p = pk}} = {w[i] : i \in 1..Len(w)}
       /\ IndexMirror(st) => IndexMirror(a.s) ]_mvars

(* C12: version ids grow strictly, shard-wide and in operation order; modification counts *)
VersionRule == [][ (Stepped /\ Accepted /\ Plain) =>
    LET ok == SelectSeq(Res.puts, LAMBDA r : r.st = "OK") IN
    /\ \A i \in 1..Len(ok) : ok[i].ver = st.lastVer + i
    /\ st'.lastVer = st.lastVer + Len(ok)
    /\ \A k \in DOMAIN st'.kv : st'.kv[k].ver > st.lastVer =>
          \E i \in 1..Len(ok) : ok[i].ver = st'.kv[k].ver /\ ok[i].mod = st'.kv[k].mod
    /\ \A k \in DOMAIN st'.kv : st'.kv[k].ver <= st.lastVer => (k \in DOMAIN st.kv /\ st'.kv[k] = st.kv[k]) ]_mvars

(* C12: a request made of one operation has exactly the documented effect *)
SingleOp == [][ (Stepped /\ Accepted /\ Plain /\ Len(Req.puts) + Len(Req.dels) + Len(Req.rngs) = 1) =>
    \/ /\ Len(Req.puts) = 1 /\ Req.puts[1].deltas = <<>> /\ Req.puts[1].sess = NoSess
       /\ LET p == Req.puts[1]  r == Res.puts[1]
              had == Has(st.kv, p.key)
              match == p.exp = NoExp \/ (had /\ p.exp = st.kv[p.key].ver) \/ (~had /\ p.exp = -1)
          IN /\ (r.st = "OK") = match
             /\ match => /\ st'.kv[p.key].val = p.val
                         /\ r.mod = (IF had THEN st.kv[p.key].mod + 1 ELSE 0)
                         /\ r.cts = (IF had THEN st.kv[p.key].cts ELSE Cur.ts)
                         /\ r.mts = Cur.ts
                         /\ \A k \in DOMAIN st'.kv \ {p.key} : k \in DOMAIN st.kv /\ st'.kv[k] = st.kv[k]
                         /\ DOMAIN st'.kv = DOMAIN st.kv \cup {p.key}
             /\ ~match => (r.st = "UNEXPECTED_VERSION_ID" /\ st' = st)
    \/ /\ Len(Req.puts) = 1 /\ (Req.puts[1].deltas # <<>> \/ Req.puts[1].sess # NoSess)
    \/ /\ Len(Req.dels) = 1
       /\ LET d == Req.dels[1]
              had == Has(st.kv, d.key)
              match == d.exp = NoExp \/ (had /\ d.exp = st.kv[d.key].ver) \/ (~had /\ d.exp = -1)
          IN /\ Res.dels[1] = (IF ~match THEN "UNEXPECTED_VERSION_ID" ELSE IF had THEN "OK" ELSE "KEY_NOT_FOUND")
             /\ st'.kv = (IF match /\ had THEN KvDrop(st.kv, {d.key}) ELSE st.kv)
             /\ st'.lastVer = st.lastVer
    \/ /\ Len(Req.rngs) = 1
       /\ LET r == Req.rngs[1] IN
          /\ Res.rngs[1] = "OK"
          /\ DOMAIN st'.kv = {k \in DOMAIN st.kv : ~(InRange(k, r.s, r.e) /\ (Internal(k) => Internal(r.s)))}
          /\ \A k \in DOMAIN st'.kv : st'.kv[k] = st.kv[k] ]_mvars

(* C12: atomic, ordered batches = the same operations submitted one request at a time     *)
(* (same timestamp) give the same state and the same statuses                             *)
RECURSIVE OneByOne(_, _, _)
OneByOne(s, ops, ts) ==
    IF ops = <<>> THEN [s |-> s, out |-> <<>>]
    ELSE LET ap == Apply(s, ops[1], 0, ts)
             r  == OneByOne(ap.s, Tail(ops), ts)
         IN [s |-> r.s, out |-> <<ap.res>> \o r.out]
Singles(req) == [i \in 1..Len(req.puts) |-> [NoReq EXCEPT !.puts = <<req.puts[i]>>]]
                \o [i \in 1..Len(req.dels) |-> [NoReq EXCEPT !.dels = <<req.dels[i]>>]]
                \o [i \in 1..Len(req.rngs) |-> [NoReq EXCEPT !.rngs = <<req.rngs[i]>>]]
BatchIsSequence == [][ (Stepped /\ Accepted /\ Plain /\ ~Cur.kf) =>
    LET r == OneByOne(st, Singles(Req), Cur.ts)
        np == Len(Req.puts)  nd == Len(Req.dels)
    IN /\ r.s = st'
       /\ \A i \in 1..np : r.out[i].puts[1] = Res.puts[i]
       /\ \A i \in 1..nd : r.out[np + i].dels[1] = Res.dels[i] ]_mvars

(* C16: a sequence put creates a fresh key = prefix + suffixes of the highest key + deltas, *)
(* strictly above every existing key of the prefix.  Numbers are compared as decimal        *)
(* strings (suffixes and deltas are uint64: Sum21 is the exact sum); the rule is claimed    *)
(* wherever the exact result is a uint64 (~SeqOverflow), whatever the size of the numbers.  *)
SeqRule == [][ (Stepped /\ Accepted /\ Plain /\ Len(Req.puts) = 1 /\ Len(Req.dels) = 0 /\ Len(Req.rngs) = 0
                /\ Req.puts[1].deltas # <<>> /\ Res.puts[1].st = "OK" /\ ~SeqOverflow(st, Req)) =>
    LET p == Req.puts[1]
        k == Res.puts[1].key
        ex == {x \in DOMAIN st.kv : HasPrefix(x, p.key \o <<DASH>>)}
        hi == HighestParts(st.kv, p.key)
        nk == Tail(SplitDash(SubSeq(k, Len(p.key) + 1, Len(k))))
    IN /\ HasPrefix(k, p.key \o <<DASH>>)
       /\ k \notin DOMAIN st.kv                               \* never an overwrite
       /\ \A x \in ex : KeyLt(x, k)                            \* strictly greater than every existing key
       /\ Len(nk) = Len(p.deltas)
       /\ \A i \in 1..Len(nk) : /\ Len(nk[i]) = 20 /\ IsDigits(nk[i])
                                /\ <<48>> \o nk[i] = Sum21(IF i <= Len(hi) THEN hi[i] ELSE Zero20, Delta20(p, i))
       /\ DOMAIN st'.kv = DOMAIN st.kv \cup {k} ]_mvars
(* ... also inside batches: the sequence keys generated by one request are new and pairwise distinct *)
SeqFresh == [][ (Stepped /\ Accepted /\ ~SeqOverflow(st, Req)) =>
    LET gen == SelectSeq(Res.puts, LAMBDA r : r.st = "OK" /\ r.key # <<>>) IN
    /\ \A i \in 1..Len(gen) : gen[i].key \notin DOMAIN st.kv
    /\ \A i, j \in 1..Len(gen) : i < j => gen[i].key # gen[j].key ]_mvars
(* ... and grow: every key generated by a request is strictly above every key of its prefix that existed before *)
(* the request and above the keys generated for the same prefix earlier in the request                          *)
SeqGrows == [][ (Stepped /\ Accepted /\ Plain /\ ~SeqOverflow(st, Req)) =>
    \A i \in 1..Len(Res.puts) : (Res.puts[i].st = "OK" /\ Res.puts[i].key # <<>>) =>
        LET pd == Req.puts[i].key \o <<DASH>> IN
        /\ \A x \in DOMAIN st.kv : HasPrefix(x, pd) => KeyLt(x, Res.puts[i].key)
        /\ \A j \in 1..(i - 1) : (Res.puts[j].st = "OK" /\ HasPrefix(Res.puts[j].key, pd)) => KeyLt(Res.puts[j].key, Res.puts[i].key) ]_mvars

(* C17: the notification batch of a request names exactly the user keys it created, modified, deleted or *)
(* range-deleted, with the resulting version ids; one entry per key (the last operation on it), never an  *)
(* internal key; a request that changes nothing yields an empty batch                                     *)
NfEntry(k, t, v, e) == [key |-> k, t |-> t, ver |-> v, end |-> e]
NotifRule == [][ (Stepped /\ Accepted /\ Plain /\ ~Cur.kf) =>
    LET nf == Cur.nf IN
    /\ \A i \in 1..Len(nf) : ~Internal(nf[i].key)
    /\ \A i, j \in 1..Len(nf) : i < j => KeyLt(nf[i].key, nf[j].key)
    \* every entry is the trace of an operation of the request
    /\ \A i \in 1..Len(nf) :
          LET e == nf[i] IN
          \/ /\ e.t \in {"KEY_CREATED", "KEY_MODIFIED"} /\ e.end = <<>>
             /\ \E j \in 1..Len(Res.puts) :
                   /\ Res.puts[j].st = "OK" /\ Res.puts[j].ver = e.ver
                   /\ e.key = (IF Res.puts[j].key # <<>> THEN Res.puts[j].key ELSE Req.puts[j].key)
                   /\ (e.t = "KEY_MODIFIED") = (Res.puts[j].mod > 0)
             /\ (e.key \in DOMAIN st'.kv => st'.kv[e.key].ver = e.ver)
          \/ /\ e.t = "KEY_DELETED" /\ e.ver = -1 /\ e.end = <<>>
             /\ \E j \in 1..Len(Req.dels) : Req.dels[j].key = e.key /\ Res.dels[j] = "OK"
          \/ /\ e.t = "KEY_RANGE_DELETED" /\ e.ver = -1
             /\ \E j \in 1..Len(Req.rngs) : Req.rngs[j].s = e.key /\ Req.rngs[j].e = e.end
    \* every operation that took effect on a user key left its trace (unless a later one replaced it)
    /\ \A j \in 1..Len(Res.puts) :
          LET k == IF Res.puts[j].key # <<>> THEN Res.puts[j].key ELSE Req.puts[j].key IN
          (Res.puts[j].st = "OK" /\ ~Internal(k)) => \E i \in 1..Len(nf) : nf[i].key = k
    /\ \A j \in 1..Len(Req.dels) :
          (Res.dels[j] = "OK" /\ ~Internal(Req.dels[j].key)) => \E i \in 1..Len(nf) : nf[i].key = Req.dels[j].key /\ nf[i].t # "KEY_CREATED" /\ nf[i].t # "KEY_MODIFIED"
    /\ \A j \in 1..Len(Req.rngs) :
          ~Internal(Req.rngs[j].s) => \E i \in 1..Len(nf) : nf[i].key = Req.rngs[j].s /\ nf[i].t = "KEY_RANGE_DELETED"
    \* a request made of one operation: exactly that entry, or none
    /\ (Len(Req.puts) = 1 /\ Len(Req.dels) = 0 /\ Len(Req.rngs) = 0) =>
          LET r == Res.puts[1]  k == IF r.key # <<>> THEN r.key ELSE Req.puts[1].key IN
          nf = (IF r.st = "OK" /\ ~Internal(k)
                THEN <<NfEntry(k, IF r.mod > 0 THEN "KEY_MODIFIED" ELSE "KEY_CREATED", r.ver, <<>>)>> ELSE <<>>)
    /\ (Len(Req.puts) = 0 /\ Len(Req.dels) = 1 /\ Len(Req.rngs) = 0) =>
          nf = (IF Res.dels[1] = "OK" /\ ~Internal(Req.dels[1].key) THEN <<NfEntry(Req.dels[1].key, "KEY_DELETED", -1, <<>>)>> ELSE <<>>)
    /\ (Len(Req.puts) = 0 /\ Len(Req.dels) = 0 /\ Len(Req.rngs) = 1) =>
          nf = (IF ~Internal(Req.rngs[1].s) THEN <<NfEntry(Req.rngs[1].s, "KEY_RANGE_DELETED", -1, Req.rngs[1].e)>> ELSE <<>>) ]_mvars

(* C06: the state is a function of the log alone - folding Apply over the recorded requests (with their      *)
(* offsets and timestamps) from the empty shard, or from the state reached after any prefix, gives the state *)
RECURSIVE FoldHist(_, _, _)
FoldHist(s, h, i) == IF i > Len(h) THEN s
                     ELSE LET nx == IF h[i].a = "Write" /\ h[i].err = "" THEN Apply(s, h[i].req, h[i].off, h[i].ts).s ELSE s
                          IN IF nx = nx THEN FoldHist(nx, h, i + 1) ELSE s
ReplayInv == (IsC06 /\ Export = "none") =>
                /\ FoldHist(InitState, hist, 1) = st
                /\ \A k \in 1..Len(hist) : FoldHist(FoldHist(InitState, SubSeq(hist, 1, k), 1), SubSeq(hist, k + 1, Len(hist)), 1) = st

ExportSteps == (Export = "steps") => PrintT(<<"STEP", ToJson(hist')>>)
ExportRuns  == (Export = "runs" /\ nt = MaxReqs) => PrintT(<<"RUN", ToJson(hist)>>)
ExportRoutes == (Export = "runs" /\ nt = MaxReqs + 1) => PrintT(<<"RUN", ToJson(hist)>>)
=============================================================================
