---------------------------- MODULE SlashOrderTrace ----------------------------
(* Judges what the comparer installed in the real engine                     *)
(* (kv.OxiaSlashSpanComparer) answered.  One line of trace.ndjson per pair   *)
(* (a, b) [and a third key c for transitivity]:                              *)
(*   cmp, cba, cbc, cac   Compare(a,b), Compare(b,a), Compare(b,c), (a,c)    *)
(*   eq                   Equal(a, b)                                        *)
(*   sep, succ, imm       Separator(a,b), Successor(a), ImmediateSuccessor(a)*)
(*   xa, xb               AbbreviatedKey(a), (b) as 8 bytes big-endian       *)
(* Checked per line, on the *recorded* answers:                              *)
(*   "order"   the recorded comparisons equal the specification's Cmp        *)
(*             (the hierarchical order) - keys here are longer and over a    *)
(*             larger alphabet than SlashOrderMC enumerates;                 *)
(*   "laws"    antisymmetry / equality / transitivity of the recorded values *)
(*   "sep" "succ" "abbrev" "immsucc"   the engine's contract for the         *)
(*             recorded answers, with the engine's own guard applied.        *)
(* Bad lines are reported and counted (register 2); validation continues.    *)
EXTENDS SlashOrder, Json, TLC

TraceLog == ndJsonDeserialize("trace.ndjson")
VARIABLE l

Bad(why) == /\ TLCSet(2, TLCGet(2) + 1)
            /\ (TLCGet(2) > 25 \/ PrintT(<<"BAD", l, why>>))
Judge(ok, why) == ok \/ Bad(why)

Neg(x) == 0 - x
TInit == l = 1
TNext ==
    /\ l <= Len(TraceLog)
    /\ l' = l + 1
    /\ LET e == TraceLog[l] IN
       /\ Judge(e.cmp = Cmp(e.a, e.b) /\ e.cba = Cmp(e.b, e.a) /\ e.cbc = Cmp(e.b, e.c) /\ e.cac = Cmp(e.a, e.c), "order")
       /\ Judge(/\ e.cmp \in {-1, 0, 1} /\ e.cba = Neg(e.cmp)
                /\ (e.cmp = 0) = (e.a = e.b) /\ (e.eq = 1) = (e.a = e.b)
                /\ (e.cmp < 0 /\ e.cbc < 0) => e.cac < 0
                /\ (e.cmp <= 0 /\ e.cbc <= 0) => e.cac <= 0, "laws")
       /\ Judge(SepContract(e.a, e.b, e.sep), "sep")
       /\ Judge(SuccContract(e.a, e.succ), "succ")
       /\ Judge(AbbrevContract(e.a, e.b, e.xa, e.xb), "abbrev")
       /\ Judge(ImmSuccGreater(e.a, e.imm) /\ ImmSuccTight(e.a, e.imm, e.b) /\ ImmSuccTight(e.a, e.imm, e.c), "immsucc")

TraceSpec == TInit /\ [][TNext]_l

HighWater == IF l > TLCGet(1) THEN TLCSet(1, l) ELSE TRUE
ASSUME TLCSet(1, 0) /\ TLCSet(2, 0)
TraceAccepted ==
    IF TLCGet(1) = Len(TraceLog) + 1 /\ TLCGet(2) = 0 THEN TRUE
    ELSE Print(<<"REJECTED", TLCGet(1), Len(TraceLog), TLCGet(2)>>, FALSE)
=============================================================================
