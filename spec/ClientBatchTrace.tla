------------------------- MODULE ClientBatchTrace -------------------------
(* Trace validation: is a recorded execution of the real client (public     *)
(* API against fake shard servers owned by the harness) a behaviour of      *)
(* ClientBatch, and does every call complete exactly once with its own      *)
(* result?                                                                  *)
(*                                                                          *)
(* One line per observable event, in the order the harness logged them      *)
(* (every line is logged after its cause and before its effect can be       *)
(* observed; no wall clock is used):                                        *)
(*   Reset  cfg                 a fresh client / cluster                    *)
(*   Issue  c t                 the application calls the client            *)
(*   Batch  s k p d r           a server received a request (type lists)    *)
(*   Respond / Fail  s k p d r  the server answers / fails the request it   *)
(*                              names (the oldest one it holds: on a write  *)
(*                              stream possibly one whose client-side wait  *)
(*                              has timed out)                              *)
(*   Break  s k n p d r         the server ends the attempt with a retriable *)
(*                              error after streaming n responses            *)
(*   Done   c res               a value arrived on the result channel       *)
(*   SEmit  c s key / SEnd c s how   a server sends a record / ends         *)
(*   Out    c key               an item arrived on a list / scan channel    *)
(*   Closed c                   that channel was closed                     *)
(*   End                        the harness has drained everything          *)
(* The client's own steps (batcher iterations, timers, per-shard forwarders,*)
(* the merge, and - in a world whose request timeout is short - the expiry  *)
(* of a request) are not observable: TLC inserts them where a line needs    *)
(* them.                                                                    *)
EXTENDS ClientBatch, Json, TLC

TraceLog == ndJsonDeserialize("trace.ndjson")

VARIABLES l,       \* next line
          seen,    \* the server has reported the in-flight request of (s, k)
          nobs,    \* per call: completions observed on the real client
          nout     \* per call: items observed on the real result channel
tvars == <<cfg, calls, q, cur, fly, ans, agg, done, res, sent, part, late, sst, emitted, wire, chn, gcl, fin, mrg, out, l, seen, nobs, nout>>

CfgOf(e) == [n |-> e.cfg.n, maxReq |-> e.cfg.maxReq, maxBytes |-> e.cfg.maxBytes,
             linger |-> e.cfg.linger, dead |-> Range(e.cfg.dead), tmo |-> e.cfg.tmo]
NoSeen(n) == [s \in 1..n |-> [w |-> FALSE, r |-> FALSE]]

TInit == /\ Len(TraceLog) >= 1 /\ TraceLog[1].a = "Reset"
         /\ Init(CfgOf(TraceLog[1]))
         /\ l = 2 /\ seen = NoSeen(TraceLog[1].cfg.n) /\ nobs = <<>> /\ nout = <<>>

Consume == l' = l + 1

\* the request a Batch / Respond / Fail / Break line names
SameBatch(B, e) ==
    IF e.k = "w" THEN /\ TypeList(B, "put") = e.p /\ TypeList(B, "del") = e.d /\ TypeList(B, "delrange") = e.r
                 ELSE B = e.p /\ e.d = <<>> /\ e.r = <<>>
IsFly(e)  == fly[e.s][e.k] # <<>> /\ seen[e.s][e.k] /\ SameBatch(fly[e.s][e.k], e)
IsLate(e) == e.k = "w" /\ late[e.s] # <<>> /\ SameBatch(Head(late[e.s]), e)

Line(e) ==
    \/ /\ e.a = "Reset" /\ Reinit(CfgOf(e)) /\ seen' = NoSeen(e.cfg.n) /\ nobs' = <<>> /\ nout' = <<>>
    \/ /\ e.a = "Issue" /\ e.c = Len(calls) + 1 /\ Issue(e.t)
       /\ nobs' = Append(nobs, 0) /\ nout' = Append(nout, 0) /\ UNCHANGED seen
    \/ /\ e.a = "Batch"
       /\ e.s \in Shards /\ e.k \in Kinds
       /\ fly[e.s][e.k] # <<>> /\ ~seen[e.s][e.k]
       /\ SameBatch(fly[e.s][e.k], e)
       /\ seen' = [seen EXCEPT ![e.s][e.k] = TRUE]
       /\ UNCHANGED <<vars, nobs, nout>>
    \* the server answers the oldest request it holds: the one in flight, or (write stream) one the client has
    \* given up waiting for - that response must not reach anybody
    \/ /\ e.a = "Respond" /\ e.s \in Shards /\ e.k \in Kinds
       /\ \/ /\ IsFly(e) /\ Respond(e.s, e.k)
             /\ seen' = [seen EXCEPT ![e.s][e.k] = FALSE]
          \/ /\ IsLate(e) /\ RespondLate(e.s) /\ UNCHANGED seen
       /\ UNCHANGED <<nobs, nout>>
    \* the server ends the RPC / the write stream with an error while handling the request it names
    \/ /\ e.a \in {"Fail", "Break"} /\ e.s \in Shards /\ e.k \in Kinds
       /\ \/ /\ IsFly(e) \/ (IsLate(e) /\ fly[e.s][e.k] # <<>> /\ seen[e.s][e.k])
             /\ IF e.a = "Fail" THEN Fail(e.s, e.k) ELSE Break(e.s, e.k, e.n)
             /\ seen' = [seen EXCEPT ![e.s][e.k] = FALSE]
          \/ /\ IsLate(e) /\ DropLate(e.s) /\ UNCHANGED seen
       /\ UNCHANGED <<nobs, nout>>
    \/ /\ e.a = "Done" /\ e.c \in CallIds /\ ~IsStream(calls[e.c])
       /\ done[e.c] >= 1 /\ nobs[e.c] = 0 /\ res[e.c] = e.res
       /\ nobs' = [nobs EXCEPT ![e.c] = 1] /\ UNCHANGED <<vars, seen, nout>>
    \/ /\ e.a = "SEmit" /\ SrvEmit(e.c, e.s, e.key) /\ UNCHANGED <<seen, nobs, nout>>
    \/ /\ e.a = "SEnd" /\ SrvEnd(e.c, e.s, e.how) /\ UNCHANGED <<seen, nobs, nout>>
    \/ /\ e.a = "Out" /\ e.c \in CallIds /\ IsStream(calls[e.c]) /\ nobs[e.c] = 0
       /\ Len(out[e.c]) > nout[e.c] /\ out[e.c][nout[e.c] + 1] = e.key
       /\ nout' = [nout EXCEPT ![e.c] = @ + 1] /\ UNCHANGED <<vars, seen, nobs>>
    \/ /\ e.a = "Closed" /\ e.c \in CallIds /\ IsStream(calls[e.c])
       /\ done[e.c] >= 1 /\ nobs[e.c] = 0 /\ nout[e.c] = Len(out[e.c])
       /\ nobs' = [nobs EXCEPT ![e.c] = 1] /\ UNCHANGED <<vars, seen, nout>>
    \/ /\ e.a = "End" /\ \A c \in CallIds : nobs[c] = 1
       /\ UNCHANGED <<vars, seen, nobs, nout>>

\* Unobservable client steps, demand-driven: only the step the next line needs, so that the search stays
\* linear in the length of the trace (the specification itself allows them at any time).
\*  - before Batch(s,k): iterations / timer of that batcher while its open batch is a prefix of the request
\*    the server reports (calls are taken in issue order = ascending call id);
\*  - before Out(c,item) / Closed(c): list and single-shard scan - forward exactly the item that was
\*    delivered (or, for Closed, the pending ends of stream); multi-shard scan - the merge goroutine's next
\*    step, and the forwarder of the one channel the merge is blocked on.
RECURSIVE SortedIds(_)
SortedIds(S) == IF S = {} THEN <<>> ELSE LET m == CHOOSE x \in S : \A y \in S : x <= y IN <<m>> \o SortedIds(S \ {m})
IsPrefix(a, b) == Len(a) <= Len(b) /\ \A i \in 1..Len(a) : a[i] = b[i]
LowestWith(c, x) == CHOOSE s \in Shards : wire[c][s] # <<>> /\ Head(wire[c][s]) = x
                        /\ \A s2 \in Shards : (wire[c][s2] # <<>> /\ Head(wire[c][s2]) = x) => s <= s2
HasHead(c, x) == \E s \in Shards : wire[c][s] # <<>> /\ Head(wire[c][s]) = x

\*  - request timeout (only in a world whose timeout is short, cfg.tmo): the client-side wait for the request
\*    in flight ended - demanded by a "timeout" completion of one of its calls; by the arrival of the next
\*    request of the same batcher (its Batch line can overtake the completions, which travel through the
\*    application's goroutines); by an answer the server was told to send that the client did not wait for
\*    any more (both orders are tried: the completions that follow decide).
Silent(e) ==
    /\ UNCHANGED <<l, nobs, nout>>
    /\ \/ /\ cfg.tmo
          /\ \E s \in Shards, k \in Kinds :
               /\ fly[s][k] # <<>>
               /\ \/ /\ e.a = "Done" /\ e.c \in Range(fly[s][k]) /\ e.res.st = "timeout" /\ done[e.c] = 0
                  \/ /\ e.a = "Batch" /\ e.s = s /\ e.k = k /\ seen[s][k] /\ ~SameBatch(fly[s][k], e)
                  \/ /\ e.a = "Respond" /\ e.s = s /\ e.k = k /\ k = "w" /\ late[s] = <<>> /\ IsFly(e)
               /\ Expire(s, k)
               /\ seen' = [seen EXCEPT ![s][k] = FALSE]
       \/ /\ e.a = "Batch" /\ e.s \in Shards /\ e.k \in Kinds /\ UNCHANGED seen
          /\ LET T == SortedIds(Range(e.p) \cup Range(e.d) \cup Range(e.r)) IN
             \/ IsPrefix(cur[e.s][e.k], T) /\ Take(e.s, e.k)
             \/ cur[e.s][e.k] = T /\ Timer(e.s, e.k)
       \/ /\ e.a \in {"Out", "Closed"} /\ e.c \in CallIds /\ IsStream(calls[e.c]) /\ UNCHANGED seen
          /\ IF MultiScan(e.c)
             THEN \/ MPop(e.c)
                  \/ MTake(e.c)
                  \/ /\ mrg[e.c].ph \in {"prime", "refill"} /\ ~MTakeEn(e.c)
                     /\ Fwd(e.c, mrg[e.c].i)
             ELSE LET x == IF e.a = "Out" THEN e.key ELSE EOF IN
                  \/ /\ Len(out[e.c]) = nout[e.c] /\ HasHead(e.c, x)
                     /\ Fwd(e.c, LowestWith(e.c, x))
                  \/ e.a = "Closed" /\ ListClose(e.c)

TNext == /\ l <= Len(TraceLog)
         /\ \/ Consume /\ Line(TraceLog[l])
            \/ Silent(TraceLog[l])

TraceSpec == TInit /\ [][TNext]_tvars

HighWater == IF l > TLCGet(1) THEN TLCSet(1, l) ELSE TRUE
ASSUME TLCSet(1, 0)
TraceAccepted ==
    IF TLCGet(1) = Len(TraceLog) + 1 THEN TRUE
    ELSE Print(<<"REJECTED", TLCGet(1), Len(TraceLog)>>, FALSE)
=============================================================================
