------------------------------ MODULE WritePipe ------------------------------
(***************************************************************************)
(* The server side of the public write path as a client sees it (C02, C08: *)
(* "each caller gets the response to its own request"; public_rpc_server.go*)
(* procesWriteStream -> leaderController.write -> db.ProcessWrite).        *)
(*                                                                         *)
(* Clients open write streams on one shard and PIPELINE requests on them:  *)
(* a request is sent without waiting for the responses of the earlier      *)
(* ones; the protocol pairs responses with requests by position.  The      *)
(* leader takes the requests of one stream in the order they were sent,    *)
(* interleaves the streams arbitrarily, applies each request atomically to *)
(* the record store and answers on the same stream, in the same order.     *)
(* One request = one put or one delete, possibly conditional.              *)
(*   clock    shard-wide version id counter (db.versionIdTracker)          *)
(*   kv       key -> version id of the live record (0 = no record)         *)
(*   q        stream -> requests sent and not applied yet (FIFO)           *)
(*   applied  stream -> number of its requests applied so far              *)
(***************************************************************************)
EXTENDS Integers, Sequences, FiniteSets

VARIABLES clock, kv, q, applied
pvars == <<clock, kv, q, applied>>

NoExp == -2          \* no expected version; -1 = "must not exist"
Ver(k) == IF k \in DOMAIN kv THEN kv[k] ELSE 0
SetKv(k, v) == [x \in DOMAIN kv \cup {k} |-> IF x = k THEN v ELSE kv[x]]

\* db.go:checkExpectedVersionId
ExpOk(k, exp) == IF Ver(k) = 0 THEN exp \in {NoExp, -1} ELSE (exp = NoExp \/ exp = Ver(k))

\* the response the leader gives to request r in the current state
Resp(r) ==
    IF r.kind = "put"
    THEN IF ExpOk(r.key, r.exp) THEN [status |-> "OK", ver |-> clock + 1] ELSE [status |-> "UNEXPECTED_VERSION_ID", ver |-> -1]
    ELSE IF ~ExpOk(r.key, r.exp) THEN [status |-> "UNEXPECTED_VERSION_ID", ver |-> -1]
         ELSE IF Ver(r.key) = 0 THEN [status |-> "KEY_NOT_FOUND", ver |-> -1]
         ELSE [status |-> "OK", ver |-> -1]

PInit(base) == clock = base /\ kv = [k \in {} |-> 0] /\ q = [s \in {} |-> <<>>] /\ applied = [s \in {} |-> 0]

QOf(s) == IF s \in DOMAIN q THEN q[s] ELSE <<>>
AppliedOf(s) == IF s \in DOMAIN applied THEN applied[s] ELSE 0

Send(s, r) ==
    /\ q' = [x \in DOMAIN q \cup {s} |-> IF x = s THEN Append(QOf(s), r) ELSE q[x]]
    /\ UNCHANGED <<clock, kv, applied>>

\* the leader applies the oldest request of stream s
Apply(s) ==
    /\ s \in DOMAIN q /\ q[s] # <<>>
    /\ LET r == Head(q[s])
           a == Resp(r)
       IN /\ IF a.status = "OK"
             THEN IF r.kind = "put" THEN kv' = SetKv(r.key, clock + 1) /\ clock' = clock + 1
                                    ELSE kv' = SetKv(r.key, 0) /\ clock' = clock
             ELSE UNCHANGED <<kv, clock>>
          /\ q' = [q EXCEPT ![s] = Tail(@)]
          /\ applied' = [x \in DOMAIN applied \cup {s} |-> IF x = s THEN AppliedOf(s) + 1 ELSE applied[x]]
=============================================================================
