----------------------------- MODULE WalTrace -----------------------------
(* Trace validation: is every recorded execution of the real WAL a         *)
(* behaviour of Wal?  One line of trace.ndjson per public call, in call    *)
(* order (sequential library: the linearization point is the return).      *)
(* Arguments are bound from the line, then the outcome, the returned       *)
(* offset, First/LastOffset and the complete readable content recorded     *)
(* after the call must equal what the specification says.  Many traces are *)
(* concatenated; a "Reset" line starts the next one.                       *)
EXTENDS Wal, Json, TLC

TraceLog == ndJsonDeserialize("trace.ndjson")

VARIABLE l
tvars == <<ents, segs, first, lastApp, lastSync, clock, res, ret, l>>

TInit == WInit /\ l = 1

ObsOK(e) == /\ res' = e.res /\ ret' = e.ret /\ first' = e.first /\ lastSync' = e.last
            /\ Visible' = e.vis

TNext ==
    /\ l <= Len(TraceLog)
    /\ l' = l + 1
    /\ LET e == TraceLog[l] IN
       \/ /\ e.a = "Reset"
          /\ ents' = <<>> /\ segs' = <<0>> /\ first' = -1 /\ lastApp' = -1 /\ lastSync' = -1
          /\ clock' = 0 /\ res' = "init" /\ ret' = -2
       \/ e.a = "Append"   /\ WAppend(e.off, e.size, e.term, e.id) /\ e.ts = clock /\ ObsOK(e)
       \/ e.a = "Sync"     /\ WSync /\ ObsOK(e)
       \/ e.a = "Truncate" /\ WTruncate(e.off) /\ ObsOK(e)
       \/ e.a = "Clear"    /\ WClear /\ ObsOK(e)
       \/ e.a = "Trim"     /\ WTrim(e.commit) /\ e.now = clock /\ ObsOK(e)
       \/ e.a = "Reopen"   /\ WReopen /\ ObsOK(e)
       \/ e.a = "Tick"     /\ WTick(e.n) /\ ObsOK(e)

TraceSpec == TInit /\ [][TNext]_tvars

\* high-water mark of consumed lines (for diagnostics) and acceptance
HighWater == IF l > TLCGet(1) THEN TLCSet(1, l) ELSE TRUE
ASSUME TLCSet(1, 0)
TraceAccepted ==
    IF TLCGet(1) = Len(TraceLog) + 1 THEN TRUE
    ELSE Print(<<"REJECTED", TLCGet(1), Len(TraceLog)>>, FALSE)
=============================================================================
