------------------------------ MODULE OxiaCoord ------------------------------
(***************************************************************************)
(* The coordinator's shard controller (coordinator/controllers/            *)
(* shard_controller.go) as a reactive component: it stores shard metadata, *)
(* sends NewTerm / BecomeLeader / AddFollower / DeleteShard requests and   *)
(* consumes the answers of the storage nodes, which are arbitrary here     *)
(* (any head, error or silence, in any order).  This module is the rule    *)
(* book for those outputs; OxiaShard.tla composes the same rules with the  *)
(* real node behaviour.  It is used for trace validation: every recorded   *)
(* input/output event of a real ShardController must be a step of it.      *)
(*                                                                         *)
(* Real numbering is used here (terms and offsets start at 0, -1 = none).  *)
(***************************************************************************)
EXTENDS Integers, Sequences, FiniteSets

VARIABLES stored,    \* last durable metadata: [term, ens, removed, leader, st]
          el,        \* the election in progress: [on, term, resp, bl, blok, fm, leader]
          sentMax,   \* highest term ever put into a request (over all incarnations of the coordinator)
          alive      \* the controller process is running

cvars == <<stored, el, sentMax, alive>>

NoEl == [on |-> FALSE, term |-> -1, resp |-> [n \in {} |-> 0], bl |-> FALSE, blok |-> FALSE, fm |-> [n \in {} |-> 0], leader |-> "none"]
HeadLess(a, b) == a.t < b.t \/ (a.t = b.t /\ a.o < b.o)
Majority(S) == Cardinality(S) \div 2 + 1

CInit(m) == /\ stored = m /\ el = NoEl /\ sentMax = -1 /\ alive = TRUE

\* -------------------------------------------------------------------- outputs of the controller
(* UpdateShardMetadata.  A new election is opened by storing term + 1 (and the possibly swapped      *)
(* ensemble) BEFORE anything is sent; the steady state is stored after BecomeLeader succeeded.       *)
CStore(m) ==
    /\ alive
    /\ m.term >= stored.term                                      \* terms never go back
    /\ \/ /\ m.st = "Election"                                    \* electLeader: first step
          /\ m.term = stored.term + 1 /\ m.leader = "none"
          /\ el' = [on |-> TRUE, term |-> m.term, resp |-> [n \in {} |-> 0], bl |-> FALSE, blok |-> FALSE, fm |-> [n \in {} |-> 0], leader |-> "none"]
       \/ /\ m.st = "SteadyState"                                 \* electLeader: last step
          /\ el.on /\ el.blok /\ m.term = el.term /\ m.leader = el.leader
          /\ m.ens = stored.ens /\ m.removed = {}
          /\ el' = el
    /\ stored' = m
    /\ UNCHANGED <<sentMax, alive>>

\* NewTerm request: only for the durable term, only to members of ensemble + removed nodes
CSendNewTerm(n, t) ==
    /\ alive
    /\ t = stored.term                                            \* C05: never a term that is not durable yet
    /\ n \in stored.ens \cup stored.removed
    /\ sentMax' = IF t > sentMax THEN t ELSE sentMax
    /\ UNCHANGED <<stored, el, alive>>

\* a NewTerm answer reaches the controller (input)
CRecvNewTerm(n, t, ok, head) ==
    /\ el' = IF el.on /\ t = el.term /\ ok /\ ~el.bl
             THEN [el EXCEPT !.resp = [m \in DOMAIN el.resp \cup {n} |-> IF m = n THEN head ELSE el.resp[m]]]
             ELSE el
    /\ UNCHANGED <<stored, sentMax, alive>>

(* BecomeLeader request: the decision of the election.  fm = follower map (node -> head).            *)
(*  - a majority of ensemble + removed nodes answered ok (removed nodes count for the majority)      *)
(*  - leader and followers are ensemble members whose ok answers were received                       *)
(*  - the leader's head is maximal among them                                                        *)
CSendBecomeLeader(n, t, rf, fm) ==
    /\ alive /\ el.on /\ ~el.bl
    /\ t = stored.term /\ t = el.term
    /\ rf = Cardinality(stored.ens)
    /\ LET F == DOMAIN fm \cup {n}
           okAll == DOMAIN el.resp
       IN /\ F \subseteq okAll \cap stored.ens                     \* C05: only fenced members of the ensemble being installed
          /\ Cardinality(F \cup (okAll \cap stored.removed)) >= Majority(stored.ens \cup stored.removed)
          /\ \A m \in DOMAIN fm : fm[m] = el.resp[m]
          /\ \A m \in F : ~HeadLess(el.resp[n], el.resp[m])       \* C05: best log wins
    /\ el' = [el EXCEPT !.bl = TRUE, !.fm = fm, !.leader = n]
    /\ sentMax' = IF t > sentMax THEN t ELSE sentMax
    /\ UNCHANGED <<stored, alive>>

\* a failed (or unanswered) BecomeLeader may have taken effect on the node: the election of this term is
\* over (bl stays set, no second BecomeLeader in the same term - C05: at most one leader per term); the
\* controller starts again with the next term
CRecvBecomeLeader(ok) ==
    /\ el' = IF el.on /\ el.bl THEN [el EXCEPT !.blok = ok] ELSE el
    /\ UNCHANGED <<stored, sentMax, alive>>

\* removed nodes are deleted only after the new leader is in place, with the current term
CSendDeleteShard(n, t) ==
    /\ alive /\ el.on /\ el.blok
    /\ n \in stored.removed /\ t = stored.term
    /\ UNCHANGED cvars

\* a member that missed the election is added later with the head it reported for this term
CSendAddFollower(l, f, t, head) ==
    /\ alive /\ stored.st = "SteadyState"
    /\ t = stored.term /\ l = stored.leader
    /\ f \in stored.ens /\ f # l
    /\ UNCHANGED cvars

CCrash == alive /\ alive' = FALSE /\ el' = NoEl /\ UNCHANGED <<stored, sentMax>>
CRestart == ~alive /\ alive' = TRUE /\ el' = NoEl /\ UNCHANGED <<stored, sentMax>>

\* SwapNode: the ensemble changes in memory; it becomes durable with the election that follows
CStoreSwap(m, from, to) ==
    /\ alive /\ m.st = "Election" /\ m.term = stored.term + 1 /\ m.leader = "none"
    /\ from \in stored.ens /\ to \notin stored.ens
    /\ m.ens = (stored.ens \ {from}) \cup {to} /\ m.removed = stored.removed \cup {from}
    /\ el' = [on |-> TRUE, term |-> m.term, resp |-> [n \in {} |-> 0], bl |-> FALSE, blok |-> FALSE, fm |-> [n \in {} |-> 0], leader |-> "none"]
    /\ stored' = m
    /\ UNCHANGED <<sentMax, alive>>

\* -------------------------------------------------------------------- invariants on every state
DurableBeforeSend == sentMax <= stored.term
=============================================================================
