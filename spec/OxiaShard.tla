----------------------------- MODULE OxiaShard -----------------------------
(***************************************************************************)
(* One Oxia shard as a closed system: storage nodes (leader / follower     *)
(* controllers behind a shards director, WAL with explicit sync rounds, DB *)
(* with explicit durability), the replication wire (one FIFO stream per    *)
(* follower cursor), the coordinator's shard controller (elections,        *)
(* follower retries, node swap, crash/restart), clients and faults.        *)
(*                                                                         *)
(* The specification follows the lock structure of the code: one action    *)
(* per RPC handler / critical section (file:function in the comments);     *)
(* handlers are total (a rejected request is a step with an error          *)
(* outcome).  Known deviations of the code from an ideal protocol are      *)
(* modelled as the code has them ("faithful:" comments) and can be         *)
(* switched by constants, so that the repaired variant and the mutants are *)
(* configurations of the same module.                                      *)
(*                                                                         *)
(* Offsets are 1-based (real offset = spec offset - 1; 0 = "none"), terms  *)
(* are 1-based (real term = spec term - 1; 0 = "no term").                 *)
(***************************************************************************)
EXTENDS Integers, Sequences, FiniteSets, TLC

CONSTANTS Nodes,          \* all storage nodes (ensemble members + spares)
          InitEnsemble,   \* initial ensemble
          Values,         \* client payloads
          NULL,
          MaxTerm, MaxWrites, MaxCrash, MaxReset, MaxCoCrash, MaxSwap, MaxLate, MaxStreams, MaxCancel,
          \* switches: TRUE = repaired behaviour, FALSE = what the code did at the pinned commit
          DupAckSynced,   \* follower acknowledges a duplicate only once the entry is synced
          SyncedHead,     \* NewTerm syncs the WAL before it reads the head entry
          \* mutants (TRUE = as the code; FALSE = one rule weakened, expected to violate a property)
          TermCheckOnAppend,   \* follower rejects an Append whose term is not its own
          LeaderMaxHead,       \* coordinator picks a responder with a maximal head
          WaitElectionHead,    \* BecomeLeader waits for the quorum on the log it found
          QuorumAcks           \* acks required = RF \div 2  (FALSE: one less)

VARIABLES
    up, ctrl, status, term, wal, phantom, synced, applied, dur, lead, fol,   \* storage nodes
    streams, sid,                                                  \* wire
    co, meta, ntq, ntr,                                            \* coordinator
    acked, nwrites, hcommit, leaders, fence, kf, budget            \* clients / history

nodeVars == <<up, ctrl, status, term, wal, phantom, synced, applied, dur, lead, fol>>
wireVars == <<streams, sid>>
coVars   == <<co, meta, ntq, ntr>>
histVars == <<acked, nwrites, hcommit, leaders, fence, kf, budget>>
vars == <<nodeVars, wireVars, coVars, histVars>>

(* up      [Nodes -> BOOLEAN]                                                              *)
(* ctrl    [Nodes -> {"none","leader","follower"}]  controller held by the shards director *)
(* status  [Nodes -> {"NOT_MEMBER","FENCED","FOLLOWER","LEADER"}]                          *)
(* term    [Nodes -> 0..MaxTerm]  term of the controller (volatile copy of dur.term)       *)
(* wal     [Nodes -> Seq([t, v])];  synced [Nodes -> Nat] = LastOffset()                   *)
(* phantom [Nodes -> Nat]  the first phantom[n] entries of wal[n] are not physically in the *)
(*         WAL: the node installed a snapshot that covers them (its WAL starts after them) *)
(* applied [Nodes -> Seq([t, v])]  entries applied to the DB; Len = DB commit offset       *)
(* dur     [Nodes -> [term, applied]]  durable image of the DB (Pebble runs without WAL)   *)
(* lead    leader-only volatile state or NULL:                                             *)
(*         [rf, elHead, next, head, commit, acks, cur, cbq, wait, busy]                    *)
(* fol     follower-only volatile state or NULL: [lastApp, adv, stream, parked]            *)
(* streams [<<leader, follower>> -> [id, t, app, ack] or NULL]                             *)
(* co      shard controller (NULL when crashed); meta = durable shard metadata             *)
(* ntq/ntr NewTerm requests in flight / responses not yet observed                         *)

----------------------------------------------------------------------------
Max(S) == CHOOSE x \in S : \A y \in S : y <= x
Hole == [t |-> 0, v |-> "hole"]
Prefix(s, k) == SubSeq(s, 1, k)
IsPrefix(a, b) == Len(a) <= Len(b) /\ \A i \in 1..Len(a) : a[i] = b[i]
NoHead == [t |-> 0, o |-> 0]
LastEntryOf(w, k) == IF k = 0 THEN NoHead ELSE [t |-> w[k].t, o |-> k]
HeadLess(a, b) == a.t < b.t \/ (a.t = b.t /\ a.o < b.o)
Quorum(rf) == IF QuorumAcks THEN rf \div 2 ELSE (IF rf \div 2 > 0 THEN rf \div 2 - 1 ELSE 0)
StreamKeys == Nodes \X Nodes
DiskTerm(n) == dur[n].term
DiskStatus(n) == IF dur[n].term = 0 THEN "NOT_MEMBER" ELSE "FENCED"

DropStreamsOf(S, s)   == [k \in StreamKeys |-> IF k[1] \in S \/ k[2] \in S THEN NULL ELSE s[k]]
DropStreamsTo(n, s)   == [k \in StreamKeys |-> IF k[2] = n THEN NULL ELSE s[k]]
DropStreamsFrom(n, s) == [k \in StreamKeys |-> IF k[1] = n THEN NULL ELSE s[k]]
\* a follower whose stream was torn down by the other side learns it
FolAfterDrop(fo, s) == [n \in Nodes |-> IF fo[n] # NULL /\ fo[n].stream # 0 /\
                                           ~(\E l \in Nodes : s[<<l, n>>] # NULL /\ s[<<l, n>>].id = fo[n].stream)
                                        THEN [fo[n] EXCEPT !.stream = 0] ELSE fo[n]]

\* applying log entries Len(applied)+1 .. k of the node's own WAL to its DB (replay always resumes after
\* the DB's commit offset, whatever the log holds below it)
\* (a hole - entries the node never received, see DeliverAppend - cannot be read: application stops before it)
Applied(ap, w, k) == IF k > Len(ap)
                     THEN LET H == {i \in (Len(ap) + 1)..k : w[i] = Hole}
                              to == IF H = {} THEN k ELSE (CHOOSE i \in H : \A j \in H : i <= j) - 1
                          IN ap \o SubSeq(w, Len(ap) + 1, to)
                     ELSE ap

NoParkedSync(n) == (lead[n] # NULL => lead[n].cbq = {}) /\ (fol[n] # NULL => fol[n].parked = {})
Busy(n) == lead[n] # NULL /\ lead[n].busy

Init ==
    /\ up = [n \in Nodes |-> TRUE]
    /\ ctrl = [n \in Nodes |-> "none"]
    /\ status = [n \in Nodes |-> "NOT_MEMBER"]
    /\ term = [n \in Nodes |-> 0]
    /\ wal = [n \in Nodes |-> <<>>]
    /\ phantom = [n \in Nodes |-> 0]
    /\ synced = [n \in Nodes |-> 0]
    /\ applied = [n \in Nodes |-> <<>>]
    /\ dur = [n \in Nodes |-> [term |-> 0, applied |-> <<>>]]
    /\ lead = [n \in Nodes |-> NULL]
    /\ fol = [n \in Nodes |-> NULL]
    /\ streams = [k \in StreamKeys |-> NULL]
    /\ sid = 0
    /\ co = [phase |-> "idle", leader |-> NULL,
             fmap |-> [n \in Nodes |-> NULL], retry |-> {}]
    /\ meta = [term |-> 0, ens |-> InitEnsemble, removed |-> {}, leader |-> NULL, st |-> "unknown"]
    /\ ntq = {} /\ ntr = {}
    /\ acked = {} /\ nwrites = 0 /\ hcommit = {}
    /\ leaders = [t \in 1..MaxTerm |-> {}]
    /\ fence = [n \in Nodes |-> NULL]
    /\ kf = {}
    /\ budget = [crash |-> MaxCrash, reset |-> MaxReset, cocrash |-> MaxCoCrash, swap |-> MaxSwap, late |-> MaxLate, cancel |-> MaxCancel]

----------------------------------------------------------------------------
(***************************************************************************)
(* NewTerm (internal_rpc_server.go:NewTerm -> follower_controller.go:      *)
(* NewTerm | shards_director.go:GetOrCreateLeader + leader_controller.go:  *)
(* NewTerm)                                                                *)
(***************************************************************************)
NewTermOutcome(n, t) ==
    IF ctrl[n] = "follower"
    THEN IF t < term[n] THEN "InvalidTerm" ELSE "ok"
    ELSE LET ct == IF ctrl[n] = "leader" THEN term[n] ELSE DiskTerm(n)
             cs == IF ctrl[n] = "leader" THEN status[n] ELSE DiskStatus(n)
         IN IF t < ct THEN "InvalidTerm" ELSE IF t = ct /\ cs # "FENCED" THEN "InvalidStatus" ELSE "ok"

\* faithful (SyncedHead = FALSE): getLastEntryIdInWal reads through a reverse reader bounded by
\* LastOffset() = last *synced* offset, so an appended-but-unsynced tail is not reported
ReportedHead(n) == LET k == IF SyncedHead THEN Len(wal[n]) ELSE synced[n] IN
                   IF k <= phantom[n] THEN NoHead ELSE LastEntryOf(wal[n], k)

HandleNewTerm(n, t) ==
    /\ up[n] /\ [n |-> n, t |-> t] \in ntq /\ ~Busy(n)
    /\ ntq' = ntq \ {[n |-> n, t |-> t]}
    /\ LET oc == NewTermOutcome(n, t) IN
       IF oc = "ok"
       THEN /\ ntr' = ntr \cup {[n |-> n, t |-> t, ok |-> TRUE, head |-> ReportedHead(n)]}
            /\ ctrl' = [ctrl EXCEPT ![n] = IF @ = "none" THEN "leader" ELSE @]
            /\ term' = [term EXCEPT ![n] = t]
            /\ status' = [status EXCEPT ![n] = "FENCED"]
            /\ synced' = [synced EXCEPT ![n] = IF SyncedHead THEN Len(wal[n]) ELSE @]
            \* db.UpdateTerm flushes the DB: the term and everything applied so far become durable
            /\ dur' = [dur EXCEPT ![n] = [term |-> t, applied |-> applied[n]]]
            \* leader: tracker and cursors are closed (pending writes fail); follower: stream closed
            /\ lead' = [lead EXCEPT ![n] = NULL]
            /\ LET s1 == IF ctrl[n] = "follower" THEN DropStreamsTo(n, streams) ELSE DropStreamsFrom(n, streams)
                   \* repaired handler: it syncs the WAL itself; a pending sync round completes with it, but the
                   \* stream is closed already: nothing is acknowledged and no apply round is signalled
                   f1 == [fol EXCEPT ![n] = IF @ # NULL THEN [@ EXCEPT !.stream = 0, !.parked = IF SyncedHead THEN {} ELSE @] ELSE @]
               IN /\ streams' = s1 /\ fol' = FolAfterDrop(f1, s1)
            /\ fence' = [fence EXCEPT ![n] = [t |-> t, head |-> ReportedHead(n)]]
            /\ kf' = IF Len(wal[n]) > synced[n] /\ ~SyncedHead THEN kf \cup {"headLag"} ELSE kf
       ELSE /\ ntr' = ntr \cup {[n |-> n, t |-> t, ok |-> FALSE, head |-> NoHead]}
            \* a rejected request still leaves a leader controller behind if there was none
            /\ ctrl' = [ctrl EXCEPT ![n] = IF @ = "none" THEN "leader" ELSE @]
            /\ term' = [term EXCEPT ![n] = IF ctrl[n] = "none" THEN DiskTerm(n) ELSE @]
            /\ status' = [status EXCEPT ![n] = IF ctrl[n] = "none" THEN DiskStatus(n) ELSE @]
            /\ UNCHANGED <<synced, dur, lead, fol, streams, fence, kf>>
    /\ UNCHANGED <<up, wal, phantom, applied, sid, co, meta, acked, nwrites, hcommit, leaders, budget>>

----------------------------------------------------------------------------
(***************************************************************************)
(* BecomeLeader / AddFollower (leader_controller.go:BecomeLeader,          *)
(* addFollower, truncateFollowerIfNeeded; follower_controller.go:Truncate; *)
(* quorum_ack_tracker.go:NewCursorAcker)                                   *)
(***************************************************************************)
\* highest entry of w (first k entries) whose term is <= t     (getHighestEntryOfTerm)
HighestOfTerm(w, ph, k, t) ==
    LET S == {i \in (ph + 1)..k : w[i].t <= t} IN IF S = {} THEN NoHead ELSE LastEntryOf(w, Max(S))

\* truncateFollowerIfNeeded: "keep" (attach at fh.o), "trunc" (Truncate RPC to offset .to), "refuse"
TruncDecision(w, ph, k, eh, fh) ==
    IF fh.t = eh.t /\ fh.o <= eh.o THEN [d |-> "keep", to |-> fh.o]
    ELSE IF fh.t > eh.t THEN [d |-> "refuse", to |-> 0]
    ELSE LET h == HighestOfTerm(w, ph, k, fh.t) IN
         IF fh.t = h.t /\ fh.o <= h.o THEN [d |-> "keep", to |-> fh.o]
         ELSE [d |-> "trunc", to |-> h.o]       \* faithful: only the offset reaches wal.TruncateLog

\* NewCursorAcker(a): offsets commit+1 .. a are acknowledged by f
AcksWith(acks, commit, a, f) == [o \in DOMAIN acks |-> IF o > commit /\ o <= a THEN acks[o] \cup {f} ELSE acks[o]]
\* quorum_ack_tracker.go:ack - the ack that completes the quorum of a tracked offset moves the commit offset
\* there when it lies above it.  Offsets are NOT required to complete in order: the ack of offset o stands
\* for the whole prefix (a follower's log is synced in order), so after lost acks (stream reset) the commit
\* offset may jump over offsets whose own acks never arrived; those complete later without effect.
CommitFrom(old, new, commit, head, rf) ==
    LET done == {o \in 1..head : Cardinality(old[o]) < Quorum(rf) /\ Cardinality(new[o]) >= Quorum(rf)} IN
    Max(done \cup {commit})

\* Attach the followers of `todo` one after the other (the order is irrelevant: each attachment only
\* touches its own follower and adds acks).  x carries the variables changed so far.
RECURSIVE AttachAll(_, _, _, _)
AttachAll(n, t, todo, x) ==
    IF todo = {} \/ ~x.ok THEN x
    ELSE LET f   == CHOOSE y \in todo : TRUE
             fh  == x.fmap[f]
             ld  == x.ld
             dec == TruncDecision(x.wal[n], phantom[n], x.synced[n], ld.elHead, fh)
             \* a truncation at or below the follower's snapshot point empties its WAL (TruncateLog below FirstOffset)
             a   == IF dec.d = "trunc" /\ dec.to <= x.phantom[f] THEN 0 ELSE dec.to
             acks2 == AcksWith(ld.acks, ld.commit, a, f)
             ld2 == [ld EXCEPT !.acks = acks2,
                               !.cur = [@ EXCEPT ![f] = [ack |-> a, pushed |-> a, sid |-> 0]],
                               !.commit = CommitFrom(ld.acks, acks2, ld.commit, ld.head, ld.rf)]
         IN IF dec.d = "refuse" \/ a > ld.head            \* ErrInvalidStatus / ErrInvalidHeadOffset
            THEN [x EXCEPT !.ok = FALSE]
            ELSE IF dec.d = "keep"
            THEN AttachAll(n, t, todo \ {f}, [x EXCEPT !.ld = ld2])
            ELSE \* synchronous Truncate RPC: GetOrCreateFollower(t) then followerController.Truncate
                 LET swap == x.ctrl[f] # "follower"
                     fst  == IF swap THEN DiskStatus(f) ELSE x.status[f]
                     ftm  == IF swap THEN DiskTerm(f) ELSE x.term[f]
                     okT  == /\ up[f] /\ f # n
                             /\ ~(x.ctrl[f] = "leader" /\ x.term[f] # t)      \* late request must not close a leader
                             /\ ~(x.ctrl[f] = "leader" /\ Busy(f))
                             /\ fst = "FENCED" /\ ftm = t
                             /\ dec.to <= Len(x.wal[f])                         \* else wal.TruncateLog: out of bounds
                             /\ NoParkedSync(f)
                 IN IF ~okT THEN [x EXCEPT !.ok = FALSE]
                    ELSE AttachAll(n, t, todo \ {f},
                           [x EXCEPT !.ld = ld2,
                                     !.wal = [@ EXCEPT ![f] = Prefix(@, a)],
                                     !.phantom = [@ EXCEPT ![f] = IF a = 0 THEN 0 ELSE @],
                                     !.synced = [@ EXCEPT ![f] = a],
                                     !.status = [@ EXCEPT ![f] = "FOLLOWER"],
                                     !.term = [@ EXCEPT ![f] = t],
                                     !.ctrl = [@ EXCEPT ![f] = "follower"],
                                     !.fol = [@ EXCEPT ![f] = [lastApp |-> a, adv |-> 0, stream |-> 0, parked |-> {}, sig |-> FALSE]],
                                     !.lead = [@ EXCEPT ![f] = NULL],
                                     !.truncated = @ \cup {f},
                                     !.below = @ \/ a < Len(applied[f])])

BecomeLeaderOutcome(n, t) ==
    LET create == ctrl[n] # "leader"
        st == IF create THEN DiskStatus(n) ELSE status[n]
        tm == IF create THEN DiskTerm(n) ELSE term[n]
    IN IF ~up[n] THEN "Unavailable" ELSE IF st # "FENCED" THEN "InvalidStatus" ELSE IF tm # t THEN "InvalidTerm" ELSE "ok"

\* result of the first half of BecomeLeader(n, t, rf, fm) as a record of new variable values
BLBegin(n, t, rf, fm) ==
    LET create == ctrl[n] # "leader"                       \* a follower controller is closed first: clean close
        syn0 == IF create THEN Len(wal[n]) ELSE synced[n]
        eh == IF syn0 <= phantom[n] THEN NoHead ELSE LastEntryOf(wal[n], syn0)
        ld0 == [rf |-> rf, elHead |-> eh, next |-> eh.o, head |-> eh.o, commit |-> Len(applied[n]),
                base |-> Len(applied[n]),              \* offsets up to the commit offset at creation are never tracked
                acks |-> [o \in 1..MaxWrites |-> {}], cur |-> [f \in Nodes |-> NULL],
                cbq |-> {}, wait |-> {}, busy |-> TRUE]
        x0 == [ok |-> TRUE, ld |-> ld0, fmap |-> fm, wal |-> wal, phantom |-> phantom, synced |-> [synced EXCEPT ![n] = syn0],
               status |-> [status EXCEPT ![n] = "FENCED"], term |-> [term EXCEPT ![n] = t],
               ctrl |-> [ctrl EXCEPT ![n] = "leader"], fol |-> [fol EXCEPT ![n] = NULL],
               lead |-> lead, truncated |-> {}, below |-> FALSE]
    IN AttachAll(n, t, {f \in Nodes : fm[f] # NULL}, x0)

\* Figure-8 trigger: leader n of term t commits its log w[n][1..k], which contains an entry of an
\* older term, while some node holds an entry of a term in between that is not part of that log
Fig8At(n, w, k, t) == \E i \in 1..k : \E m \in Nodes : \E j \in 1..Len(w[m]) :
                          /\ w[n][i].t < w[m][j].t /\ w[m][j].t < t
                          /\ (j > k \/ w[m][j] # w[n][j])

\* assign the node/wire/history variables from an attach result; the leader record gets busy = b.
\* fin: the quorum on the election head is there already, BecomeLeader completes in the same step
\* (applyAllEntriesIntoDB, status = LEADER)
ApplyAttach(n, x, b, dropOwn, fin, extraKf) ==
    /\ wal' = x.wal /\ phantom' = x.phantom /\ synced' = x.synced /\ ctrl' = x.ctrl /\ term' = x.term
    /\ status' = IF fin THEN [x.status EXCEPT ![n] = "LEADER"] ELSE x.status
    /\ lead' = [x.lead EXCEPT ![n] = [x.ld EXCEPT !.busy = b /\ ~fin]]
    /\ LET s1 == DropStreamsOf(x.truncated \cup (IF dropOwn THEN {n} ELSE {}), streams)
       IN /\ streams' = s1 /\ fol' = FolAfterDrop(x.fol, s1)
    /\ applied' = IF fin THEN [applied EXCEPT ![n] = Applied(@, x.wal[n], x.synced[n])] ELSE applied
    \* a controller that is replaced by one of the other kind is closed first: its DB is flushed
    /\ dur' = [m \in Nodes |-> IF ctrl[m] # "none" /\ x.ctrl[m] # ctrl[m] THEN [dur[m] EXCEPT !.applied = applied[m]] ELSE dur[m]]
    /\ leaders' = IF fin THEN [leaders EXCEPT ![x.term[n]] = @ \cup {n}] ELSE leaders
    \* attaching a follower that already holds entries can advance the commit offset at once
    /\ hcommit' = hcommit \cup {[off |-> i, e |-> x.wal[n][i], by |-> x.term[n]] :
                                    i \in 1..(IF fin THEN x.synced[n] ELSE x.ld.commit)}
    /\ fence' = [m \in Nodes |-> IF m \in x.truncated \/ (fin /\ m = n) THEN NULL ELSE fence[m]]
    \* "truncBelowDb" is a model-only observation (not reproduced on the code, never reported): a
    \* follower is truncated below its own DB commit offset, e.g. by a leader whose WAL starts after a snapshot
    /\ kf' = kf \cup extraKf \cup (IF x.below THEN {"truncBelowDb"} ELSE {})
                \cup (IF fin /\ Fig8At(n, x.wal, x.synced[n], x.term[n]) THEN {"fig8"} ELSE {})

----------------------------------------------------------------------------
(***************************************************************************)
(* Leader write path (leader_controller.go:write, wal_impl.go:runSync,     *)
(* quorum_ack_tracker.go)                                                  *)
(***************************************************************************)
ClientWrite(n, v) ==
    /\ up[n] /\ ctrl[n] = "leader" /\ status[n] = "LEADER" /\ ~Busy(n)
    /\ nwrites < MaxWrites
    /\ LET o == lead[n].next + 1 IN
       /\ o = Len(wal[n]) + 1
       /\ wal' = [wal EXCEPT ![n] = Append(@, [t |-> term[n], v |-> v])]
       /\ lead' = [lead EXCEPT ![n] = [@ EXCEPT !.next = o, !.cbq = @ \cup {o}]]
    /\ nwrites' = nwrites + 1
    \* Figure-8 trigger, other half: a deposed leader keeps appending in a term that a later leader
    \* has already jumped over when it committed older entries
    /\ kf' = IF \E h \in hcommit : h.e.t < term[n] /\ term[n] < h.by THEN kf \cup {"fig8"} ELSE kf
    /\ UNCHANGED <<up, ctrl, status, term, phantom, synced, applied, dur, fol, wireVars, coVars, acked, hcommit, leaders, fence, budget>>

\* The client gives up (context cancelled / timed out) after its write was handed to the leader.  The
\* write is in the log: it still commits, is applied and acknowledged like any other (the outcome is
\* merely unknown to that client).  No state changes; the harness cancels the context of the call.
ClientCancel(n) ==
    /\ up[n] /\ lead[n] # NULL /\ (lead[n].cbq \cup lead[n].wait) # {}
    /\ budget.cancel > 0
    /\ budget' = [budget EXCEPT !.cancel = @ - 1]
    /\ UNCHANGED <<nodeVars, wireVars, coVars, acked, nwrites, hcommit, leaders, fence, kf>>

\* leader n (record ld, after its commit moved from oldCommit to ld.commit): waiters run in offset order
LeaderCommitEffects(n, ld, oldCommit) ==
    LET serving == status[n] = "LEADER" /\ ~ld.busy
        done == {w \in ld.wait : w <= ld.commit}
    IN /\ applied' = [applied EXCEPT ![n] = IF serving /\ done # {} THEN Applied(@, wal[n], Max(done)) ELSE @]
       /\ acked' = IF serving THEN acked \cup {[v |-> wal[n][o].v, off |-> o, t |-> term[n]] : o \in done} ELSE acked
       /\ hcommit' = hcommit \cup {[off |-> i, e |-> wal[n][i], by |-> term[n]] : i \in (oldCommit + 1)..ld.commit}

\* eager sender: the cursor for f pushes everything synced on the leader (syn = new synced count)
RECURSIVE PushAll(_, _, _, _, _)
PushAll(l, ld, strm, syn, todo) ==
    IF todo = {} THEN [ld |-> ld, strm |-> strm]
    ELSE LET f == CHOOSE y \in todo : TRUE
             c == ld.cur[f]
             s == strm[<<l, f>>]
         IN IF c = NULL \/ s = NULL \/ c.sid # s.id \/ syn <= c.pushed THEN PushAll(l, ld, strm, syn, todo \ {f})
            ELSE LET msgs == [i \in 1..(syn - c.pushed) |->
                                 [t |-> s.t, o |-> c.pushed + i, e |-> wal[l][c.pushed + i], c |-> ld.commit]]
                 IN PushAll(l, [ld EXCEPT !.cur = [@ EXCEPT ![f] = [@ EXCEPT !.pushed = syn]]],
                            [strm EXCEPT ![<<l, f>>] = [@ EXCEPT !.app = @ \o msgs]], syn, todo \ {f})

\* One WAL sync round (wal_impl.go:runSync): everything appended becomes synced, then the queued
\* callbacks run.  Leader: AdvanceHeadOffset, wait for commit.  Follower: acks, apply round.
WalSync(n) ==
    /\ up[n]
    /\ synced' = [synced EXCEPT ![n] = Len(wal[n])]
    /\ \/ /\ ctrl[n] = "leader" /\ lead[n] # NULL /\ lead[n].cbq # {}
          /\ LET ld == lead[n]
                 newHead == Max(ld.cbq \cup {ld.head})
                 ld1 == [ld EXCEPT !.head = newHead, !.cbq = {}, !.wait = @ \cup ld.cbq,
                                   !.commit = IF Quorum(ld.rf) = 0 THEN newHead ELSE @]
                 r == PushAll(n, ld1, streams, Len(wal[n]), Nodes)
             IN /\ LeaderCommitEffects(n, ld1, ld.commit)
                /\ lead' = [lead EXCEPT ![n] = [r.ld EXCEPT !.wait = {w \in @ : w > ld1.commit}]]
                /\ streams' = r.strm
                /\ UNCHANGED <<fol, kf>>
       \/ /\ ctrl[n] = "follower" /\ fol[n] # NULL /\ fol[n].parked # {}
          /\ LET fo == fol[n]
                 ls == {x \in Nodes : streams[<<x, n>>] # NULL /\ streams[<<x, n>>].id = fo.stream}
                 canAck == fo.stream # 0 /\ fo.stream \in fo.parked /\ ls # {}
                 \* faithful: after a snapshot install nothing is physically synced, LastOffset() is -1 and
                 \* the round acknowledges every offset from the start, also those covered by the snapshot
                 old == IF synced[n] > phantom[n] THEN synced[n] ELSE 0
                 newAcks == [i \in 1..(Len(wal[n]) - old) |-> old + i]
                 upto == IF fo.adv < Len(wal[n]) THEN fo.adv ELSE Len(wal[n])
             IN /\ streams' = IF canAck THEN LET l == CHOOSE x \in ls : TRUE IN
                                             [streams EXCEPT ![<<l, n>>] = [@ EXCEPT !.ack = @ \o newAcks]]
                              ELSE streams
                /\ fol' = [fol EXCEPT ![n] = [@ EXCEPT !.parked = {}, !.sig = IF canAck THEN FALSE ELSE @]]
                \* the apply round is signalled by the sync goroutine of the live stream only: a goroutine whose
                \* stream was closed meanwhile leaves without acknowledging and without signalling
                /\ applied' = [applied EXCEPT ![n] = IF canAck THEN Applied(@, wal[n], upto) ELSE @]
                /\ UNCHANGED <<lead, acked, hcommit, kf>>
    /\ UNCHANGED <<up, ctrl, status, term, wal, phantom, dur, sid, coVars, nwrites, leaders, fence, budget>>

----------------------------------------------------------------------------
(***************************************************************************)
(* Replication stream (follower_cursor.go, follower_controller.go:         *)
(* Replicate/append/handleReplicateSync, shards_director.go)               *)
(***************************************************************************)
\* A snapshot is sent instead of log entries when the follower is empty while the leader has
\* committed state, or when the follower is behind the first entry of the leader's WAL
\* (follower_cursor.go:shouldSendSnapshot)
SnapshotNeeded(l, f) == LET c == lead[l].cur[f] IN
    (c.ack = 0 /\ lead[l].commit >= 1) \/ (phantom[l] > 0 /\ c.ack < phantom[l])

\* GetOrCreateFollower(term) on node f for a stream of term t (shards_director.go): the outcome and
\* the controller state after it.  A leader controller of the same term is closed and replaced.
FollowerFor(f, t) ==
    IF ctrl[f] = "follower" THEN [ok |-> TRUE, swap |-> FALSE]
    ELSE IF ctrl[f] = "leader" /\ term[f] # t THEN [ok |-> FALSE, swap |-> FALSE]   \* late request: InvalidTerm
    ELSE [ok |-> TRUE, swap |-> TRUE]

\* the cursor (re)connects: GetReplicateStream -> GetOrCreateFollower(term) -> Replicate; it then
\* streams from its ack offset.  Total: a refused connection may still have replaced f's controller.
CursorConnect(l, f) ==
    /\ up[l] /\ up[f] /\ l # f
    /\ lead[l] # NULL /\ lead[l].cur[f] # NULL /\ streams[<<l, f>>] = NULL
    /\ ~SnapshotNeeded(l, f)
    /\ ~Busy(f)
    /\ sid < MaxStreams
    /\ (FollowerFor(f, term[l]).swap => NoParkedSync(f))
    /\ LET g == FollowerFor(f, term[l])
           st == IF g.swap THEN DiskStatus(f) ELSE status[f]
           fo == IF g.swap THEN [lastApp |-> Len(wal[f]), adv |-> 0, stream |-> 0, parked |-> {}, sig |-> FALSE] ELSE fol[f]
           accept == g.ok /\ st \in {"FENCED", "FOLLOWER"} /\ fo.stream = 0
           c == lead[l].cur[f]
           ld0 == [lead[l] EXCEPT !.cur = [@ EXCEPT ![f] = [@ EXCEPT !.pushed = c.ack, !.sid = sid + 1]]]
           s0 == [(IF g.swap THEN DropStreamsOf({f}, streams) ELSE streams)
                     EXCEPT ![<<l, f>>] = [id |-> sid + 1, t |-> term[l], app |-> <<>>, ack |-> <<>>]]
           r == PushAll(l, ld0, s0, synced[l], {f})
       IN /\ g.ok                      \* a refused GetOrCreateFollower changes nothing: not a step
          /\ ctrl' = [ctrl EXCEPT ![f] = "follower"]
          /\ term' = [term EXCEPT ![f] = IF g.swap THEN DiskTerm(f) ELSE @]
          /\ status' = [status EXCEPT ![f] = st]
          /\ synced' = [synced EXCEPT ![f] = IF g.swap THEN Len(wal[f]) ELSE @]     \* clean close of the old controller
          /\ dur' = [dur EXCEPT ![f] = IF g.swap /\ ctrl[f] # "none" THEN [@ EXCEPT !.applied = applied[f]] ELSE @]
          /\ IF accept
             THEN /\ sid' = sid + 1
                  /\ streams' = r.strm
                  /\ lead' = [(IF g.swap THEN [lead EXCEPT ![f] = NULL] ELSE lead) EXCEPT ![l] = r.ld]
                  \* the sync goroutine of the new stream takes over a pending signal left by the old stream
                  /\ fol' = [fol EXCEPT ![f] = [fo EXCEPT !.stream = sid + 1, !.sig = FALSE,
                                                         !.parked = IF fo.sig /\ synced[f] < Len(wal[f]) /\ ~g.swap
                                                                    THEN @ \cup {sid + 1} ELSE @]]
             ELSE /\ g.swap            \* otherwise nothing changes: not a step
                  /\ sid' = sid
                  /\ LET s1 == DropStreamsOf({f}, streams) IN
                     streams' = s1 /\ fol' = FolAfterDrop([fol EXCEPT ![f] = fo], s1)
                  /\ lead' = [lead EXCEPT ![f] = NULL]
    \* a pending signal with nothing left to flush makes the new stream's sync goroutine run an empty round
    \* at once: nothing to acknowledge, but the apply round is signalled
    /\ LET g == FollowerFor(f, term[l])
           fo == IF g.swap THEN [adv |-> 0, sig |-> FALSE, stream |-> 0] ELSE fol[f]
           st == IF g.swap THEN DiskStatus(f) ELSE status[f]
           accept == g.ok /\ st \in {"FENCED", "FOLLOWER"} /\ fo.stream = 0
           upto == IF fo.adv < Len(wal[f]) THEN fo.adv ELSE Len(wal[f])
       IN applied' = [applied EXCEPT ![f] = IF accept /\ fo.sig /\ synced[f] = Len(wal[f]) THEN Applied(@, wal[f], upto) ELSE @]
    /\ UNCHANGED <<up, wal, phantom, coVars, histVars>>

\* the cursor sends a DB snapshot (follower_cursor.go:sendSnapshot, follower_controller.go:handleSnapshot):
\* the follower's WAL is wiped and its DB replaced by the leader's
CursorSnapshot(l, f) ==
    /\ up[l] /\ up[f] /\ l # f
    /\ lead[l] # NULL /\ lead[l].cur[f] # NULL /\ streams[<<l, f>>] = NULL
    /\ SnapshotNeeded(l, f)
    /\ ~Busy(f) /\ NoParkedSync(f)
    /\ LET g == FollowerFor(f, term[l])
           tm == IF g.swap THEN DiskTerm(f) ELSE term[f]
           fo == IF g.swap THEN [lastApp |-> Len(wal[f]), adv |-> 0, stream |-> 0, parked |-> {}, sig |-> FALSE] ELSE fol[f]
           k == Len(applied[l])
       IN /\ g.ok /\ fo.stream = 0
          /\ (tm = 0 \/ tm = term[l])                     \* else InvalidTerm on the first chunk
          /\ ctrl' = [ctrl EXCEPT ![f] = "follower"]
          /\ term' = [term EXCEPT ![f] = term[l]]
          /\ status' = [status EXCEPT ![f] = IF g.swap THEN DiskStatus(f) ELSE @]
          /\ wal' = [wal EXCEPT ![f] = applied[l]]
          /\ phantom' = [phantom EXCEPT ![f] = k]
          /\ synced' = [synced EXCEPT ![f] = k]
          /\ applied' = [applied EXCEPT ![f] = applied[l]]
          \* db.Snapshot() on the leader is a Pebble checkpoint: it flushes the leader's DB as well
          /\ dur' = [dur EXCEPT ![f] = [term |-> term[l], applied |-> applied[l]],
                                ![l] = [@ EXCEPT !.applied = applied[l]]]
          /\ fol' = [fol EXCEPT ![f] = [fo EXCEPT !.lastApp = k, !.adv = 0]]
          /\ lead' = [(IF g.swap THEN [lead EXCEPT ![f] = NULL] ELSE lead)
                         EXCEPT ![l] = [@ EXCEPT !.cur = [@ EXCEPT ![f] = [@ EXCEPT !.ack = k, !.pushed = k]]]]
          /\ streams' = IF g.swap THEN DropStreamsOf({f}, streams) ELSE streams
          /\ fence' = [fence EXCEPT ![f] = NULL]
    /\ UNCHANGED <<up, sid, coVars, acked, nwrites, hcommit, leaders, kf, budget>>

\* the follower handles the next Append of its stream (follower_controller.go:append)
DeliverAppend(l, f) ==
    /\ up[f] /\ streams[<<l, f>>] # NULL /\ streams[<<l, f>>].app # <<>>
    /\ ctrl[f] = "follower" /\ fol[f].stream = streams[<<l, f>>].id
    /\ LET s == streams[<<l, f>>]
           m == s.app[1]
           rest == [s EXCEPT !.app = Tail(@)]
           closed == [streams EXCEPT ![<<l, f>>] = NULL]
       IN IF TermCheckOnAppend /\ m.t # term[f]
          THEN \* ErrInvalidTerm: the stream is closed
               /\ streams' = closed /\ fol' = [fol EXCEPT ![f] = [@ EXCEPT !.stream = 0]]
               /\ UNCHANGED <<status, wal, phantom, fence, kf, synced>>
          ELSE IF m.o <= fol[f].lastApp
          THEN \* duplicate: acknowledged without comparing
               \* faithful (DupAckSynced = FALSE): at once, even when the first copy is not synced yet
               \* repaired (DupAckSynced = TRUE): the handler syncs the WAL first; a pending sync round (of a
               \* closed stream: nothing acknowledged, no apply round) completes with it
               /\ streams' = [streams EXCEPT ![<<l, f>>] = [rest EXCEPT !.ack = Append(@, m.o)]]
               /\ status' = [status EXCEPT ![f] = "FOLLOWER"]
               /\ kf' = IF ~DupAckSynced /\ m.o > synced[f] THEN kf \cup {"dupAck"} ELSE kf
               /\ synced' = [synced EXCEPT ![f] = IF DupAckSynced /\ m.o > @ THEN Len(wal[f]) ELSE @]
               /\ fol' = [fol EXCEPT ![f] = IF DupAckSynced /\ m.o > synced[f] THEN [@ EXCEPT !.parked = {}] ELSE @]
               /\ UNCHANGED <<wal, phantom, fence>>
          ELSE IF m.o # Len(wal[f]) + 1 /\ Len(wal[f]) > phantom[f]
          THEN \* wal.AppendAsync refuses a gap: the stream is closed
               /\ streams' = closed /\ fol' = [fol EXCEPT ![f] = [@ EXCEPT !.stream = 0]]
               /\ status' = [status EXCEPT ![f] = "FOLLOWER"]
               /\ UNCHANGED <<wal, phantom, fence, kf, synced>>
          ELSE \* (an empty WAL accepts any first offset - checkNextOffset - as it must after a snapshot; when the
               \* leader believes the follower holds entries it lost, the log starts with a hole: Hole entries,
               \* counted as phantom.  Only reachable beyond a known finding.)
               /\ wal' = [wal EXCEPT ![f] = @ \o [i \in 1..(m.o - 1 - Len(@)) |-> Hole] \o <<m.e>>]
               /\ phantom' = [phantom EXCEPT ![f] = IF m.o # Len(wal[f]) + 1 THEN m.o - 1 ELSE @]
               \* syncCond.Signal(): an idle sync goroutine of this stream starts (or joins) a sync round; if it
               \* is inside a round already the signal stays pending (the condition's channel holds one signal)
               /\ fol' = [fol EXCEPT ![f] = [@ EXCEPT !.lastApp = m.o, !.adv = m.c, !.parked = @ \cup {s.id},
                                                      !.sig = @ \/ s.id \in fol[f].parked]]
               /\ status' = [status EXCEPT ![f] = "FOLLOWER"]
               /\ streams' = [streams EXCEPT ![<<l, f>>] = rest]
               /\ fence' = [fence EXCEPT ![f] = NULL]
               /\ UNCHANGED <<kf, synced>>
    /\ UNCHANGED <<up, ctrl, term, applied, dur, lead, sid, coVars, acked, nwrites, hcommit, leaders, budget>>

\* the leader's cursor receives the next Ack (follower_cursor.go:receiveAcks, quorum_ack_tracker.go:ack)
DeliverAck(f, l) ==
    /\ up[l] /\ streams[<<l, f>>] # NULL /\ streams[<<l, f>>].ack # <<>>
    /\ lead[l] # NULL /\ lead[l].cur[f] # NULL /\ lead[l].cur[f].sid = streams[<<l, f>>].id
    /\ LET o == streams[<<l, f>>].ack[1]
           ld == lead[l]
           \* other offsets have no tracker entry (not tracked yet, or completed and deleted): ignored
           known == o <= ld.head /\ o > ld.base /\ Cardinality(ld.acks[o]) < Quorum(ld.rf)
           acks2 == IF known THEN [ld.acks EXCEPT ![o] = @ \cup {f}] ELSE ld.acks
           ld1 == [ld EXCEPT !.acks = acks2,
                             !.commit = IF known THEN CommitFrom(ld.acks, acks2, ld.commit, ld.head, ld.rf) ELSE @,
                             !.cur = [@ EXCEPT ![f] = [@ EXCEPT !.ack = o]]]
           \* BecomeLeader was waiting for the quorum on the log it found: it completes now
           \* (applyAllEntriesIntoDB, status = LEADER) while still holding the controller lock
           fin == ld.busy /\ ld1.commit >= ld.elHead.o
       IN /\ IF fin
             THEN /\ applied' = [applied EXCEPT ![l] = Applied(@, wal[l], synced[l])]
                  /\ status' = [status EXCEPT ![l] = "LEADER"]
                  /\ leaders' = [leaders EXCEPT ![term[l]] = @ \cup {l}]
                  /\ hcommit' = hcommit \cup {[off |-> i, e |-> wal[l][i], by |-> term[l]] : i \in 1..synced[l]}
                  /\ fence' = [fence EXCEPT ![l] = NULL]
                  /\ kf' = IF Fig8At(l, wal, synced[l], term[l]) THEN kf \cup {"fig8"} ELSE kf
                  /\ acked' = acked
             ELSE /\ LeaderCommitEffects(l, ld1, ld.commit)
                  /\ UNCHANGED <<status, leaders, fence, kf>>
          /\ lead' = [lead EXCEPT ![l] = [ld1 EXCEPT !.wait = {w \in @ : w > ld1.commit}, !.busy = @ /\ ~fin]]
          /\ streams' = [streams EXCEPT ![<<l, f>>] = [@ EXCEPT !.ack = Tail(@)]]
    /\ UNCHANGED <<up, ctrl, term, wal, phantom, synced, dur, fol, sid, coVars, nwrites, budget>>

StreamReset(l, f) ==
    /\ streams[<<l, f>>] # NULL /\ budget.reset > 0
    /\ budget' = [budget EXCEPT !.reset = @ - 1]
    /\ LET s1 == [streams EXCEPT ![<<l, f>>] = NULL] IN streams' = s1 /\ fol' = FolAfterDrop(fol, s1)
    /\ UNCHANGED <<up, ctrl, status, term, wal, phantom, synced, applied, dur, lead, sid, coVars, acked, nwrites, hcommit, leaders, fence, kf>>

----------------------------------------------------------------------------
Crash(n) ==
    /\ up[n] /\ budget.crash > 0
    /\ budget' = [budget EXCEPT !.crash = @ - 1]
    /\ up' = [up EXCEPT ![n] = FALSE]
    /\ ctrl' = [ctrl EXCEPT ![n] = "none"]
    /\ status' = [status EXCEPT ![n] = "NOT_MEMBER"]
    /\ term' = [term EXCEPT ![n] = DiskTerm(n)]
    /\ wal' = [wal EXCEPT ![n] = Prefix(@, synced[n])]          \* the unsynced tail is lost
    /\ applied' = [applied EXCEPT ![n] = dur[n].applied]         \* the unflushed part of the DB is lost
    /\ lead' = [lead EXCEPT ![n] = NULL]
    /\ LET s1 == DropStreamsOf({n}, streams) IN streams' = s1 /\ fol' = FolAfterDrop([fol EXCEPT ![n] = NULL], s1)
    /\ UNCHANGED <<phantom, synced, dur, sid, coVars, acked, nwrites, hcommit, leaders, fence, kf>>

Restart(n) ==
    /\ ~up[n]
    /\ up' = [up EXCEPT ![n] = TRUE]
    /\ UNCHANGED <<ctrl, status, term, wal, phantom, synced, applied, dur, lead, fol, wireVars, coVars, histVars>>

----------------------------------------------------------------------------
(***************************************************************************)
(* Coordinator: coordinator/controllers/shard_controller.go                *)
(***************************************************************************)
FencingSet == meta.ens \cup meta.removed
Majority(S) == Cardinality(S) \div 2 + 1

\* electLeader, first part: term++ and the (possibly swapped) ensemble become durable, then NewTerm
\* goes to ensemble + removed nodes.  Requests of a superseded election may stay in flight.
StartElection(ens, removed) ==
    /\ meta.term < MaxTerm
    /\ meta' = [meta EXCEPT !.term = @ + 1, !.leader = NULL, !.st = "election", !.ens = ens, !.removed = removed]
    /\ co' = [phase |-> "fencing", leader |-> NULL,
              fmap |-> [n \in Nodes |-> NULL], retry |-> {}]
    /\ LET late == IF budget.late > 0 THEN ntq ELSE {} IN
       /\ ntq' = late \cup {[n |-> n, t |-> meta.term + 1] : n \in ens \cup removed}
       /\ budget' = IF late # {} THEN [budget EXCEPT !.late = @ - 1] ELSE budget
    /\ ntr' = {}

CoElect ==
    /\ co # NULL /\ co.phase \in {"idle", "steady", "failed", "fencing"}
    /\ StartElection(meta.ens, meta.removed)
    /\ UNCHANGED <<nodeVars, wireVars, acked, nwrites, hcommit, leaders, fence, kf>>

CoSwap(from, to) ==
    /\ co # NULL /\ co.phase = "steady" /\ budget.swap > 0
    /\ from \in meta.ens /\ to \notin meta.ens /\ to \notin meta.removed
    /\ meta.term < MaxTerm
    /\ meta' = [meta EXCEPT !.term = @ + 1, !.leader = NULL, !.st = "election",
                            !.ens = (meta.ens \ {from}) \cup {to}, !.removed = meta.removed \cup {from}]
    /\ co' = [phase |-> "fencing", leader |-> NULL,
              fmap |-> [n \in Nodes |-> NULL], retry |-> {}]
    /\ ntq' = {[n |-> n, t |-> meta.term + 1] : n \in meta.ens \cup meta.removed \cup {to}}
    /\ ntr' = {}
    /\ budget' = [budget EXCEPT !.swap = @ - 1]
    /\ UNCHANGED <<nodeVars, wireVars, acked, nwrites, hcommit, leaders, fence, kf>>

\* newTermQuorum + selectNewLeader + the BecomeLeader RPC.  The coordinator has consumed the ok
\* responses of the set R (any set that reaches the majority of ensemble + removed: responses arrive
\* in any order and the rest may be late or lost); the first half of BecomeLeader runs atomically
\* with the decision because the coordinator is blocked in the call.
OkResponders == {r.n : r \in {q \in ntr : q.t = meta.term /\ q.ok}}
RespHead(n) == (CHOOSE r \in ntr : r.n = n /\ r.t = meta.term /\ r.ok).head
CoBecomeLeader(n, R) ==
    /\ co # NULL /\ co.phase = "fencing"
    /\ R \subseteq OkResponders /\ Cardinality(R) >= Majority(FencingSet)
    /\ n \in R \cap meta.ens
    /\ (LeaderMaxHead => \A m \in R \cap meta.ens : ~HeadLess(RespHead(n), RespHead(m)))
    /\ LET fm == [m \in Nodes |-> IF m \in (R \cap meta.ens) \ {n} THEN RespHead(m) ELSE NULL]
           rf == Cardinality(meta.ens)
       IN IF BecomeLeaderOutcome(n, meta.term) # "ok" \/ Busy(n) \/ ~NoParkedSync(n)
          THEN /\ co' = [co EXCEPT !.phase = "failed"]
               /\ UNCHANGED <<nodeVars, wireVars, hcommit, fence, kf, leaders>>
          ELSE LET x == BLBegin(n, meta.term, rf, fm)
                   fin == x.ok /\ (~WaitElectionHead \/ x.ld.commit >= x.ld.elHead.o)
                   \* known finding (swap): a removed node counted for the fencing majority holds a longer log
                   \* than the chosen leader; removed nodes are no candidates, so its entries may be lost
                   stale == IF \E m \in R \cap meta.removed : HeadLess(RespHead(n), RespHead(m)) THEN {"swapStale"} ELSE {}
               IN /\ ApplyAttach(n, x, x.ok, ctrl[n] # "leader", fin, stale)
                  /\ co' = [co EXCEPT !.phase = IF x.ok THEN "becoming" ELSE "failed", !.leader = n, !.fmap = fm]
                  /\ UNCHANGED <<up, sid>>
    /\ ntr' = {}
    /\ UNCHANGED <<meta, ntq, acked, nwrites, budget>>

\* BecomeLeader returned: removed nodes are deleted, the leader becomes durable metadata, the
\* members that did not answer in time are retried in the background (keepFencingFailedFollowers)
CoElected ==
    /\ co # NULL /\ co.phase = "becoming"
    /\ up[co.leader] /\ lead[co.leader] # NULL /\ ~lead[co.leader].busy /\ status[co.leader] = "LEADER"
    /\ term[co.leader] = meta.term
    /\ \A r \in meta.removed : up[r]                    \* DeleteShard must succeed, else the election is retried
    /\ meta' = [meta EXCEPT !.leader = co.leader, !.st = "steady", !.removed = {}]
    /\ co' = [co EXCEPT !.phase = "steady",
                        !.retry = meta.ens \ ({co.leader} \cup {m \in Nodes : co.fmap[m] # NULL})]
    \* DeleteShard on the removed nodes: controller closed, WAL and DB wiped
    /\ LET R == {r \in meta.removed : ~(ctrl[r] # "none" /\ term[r] > meta.term)} IN
       /\ ctrl' = [n \in Nodes |-> IF n \in R THEN "none" ELSE ctrl[n]]
       /\ status' = [n \in Nodes |-> IF n \in R THEN "NOT_MEMBER" ELSE status[n]]
       /\ term' = [n \in Nodes |-> IF n \in R THEN 0 ELSE term[n]]
       /\ wal' = [n \in Nodes |-> IF n \in R THEN <<>> ELSE wal[n]]
       /\ phantom' = [n \in Nodes |-> IF n \in R THEN 0 ELSE phantom[n]]
       /\ synced' = [n \in Nodes |-> IF n \in R THEN 0 ELSE synced[n]]
       /\ applied' = [n \in Nodes |-> IF n \in R THEN <<>> ELSE applied[n]]
       /\ dur' = [n \in Nodes |-> IF n \in R THEN [term |-> 0, applied |-> <<>>] ELSE dur[n]]
       /\ lead' = [n \in Nodes |-> IF n \in R THEN NULL ELSE lead[n]]
       /\ LET s1 == DropStreamsOf(R, streams) IN
          streams' = s1 /\ fol' = FolAfterDrop([n \in Nodes |-> IF n \in R THEN NULL ELSE fol[n]], s1)
       /\ fence' = [n \in Nodes |-> IF n \in R THEN NULL ELSE fence[n]]      \* a deleted replica has left the shard
    /\ UNCHANGED <<up, sid, ntq, ntr, acked, nwrites, hcommit, leaders, kf, budget>>

\* BecomeLeader fails for the coordinator (context expired / connection lost) while the node waits
CoBecomeLeaderTimeout ==
    /\ co # NULL /\ co.phase = "becoming" /\ Busy(co.leader)
    /\ lead' = [lead EXCEPT ![co.leader] = [@ EXCEPT !.busy = FALSE]]
    /\ co' = [co EXCEPT !.phase = "failed"]
    /\ UNCHANGED <<up, ctrl, status, term, wal, phantom, synced, applied, dur, fol, wireVars, meta, ntq, ntr, histVars>>

\* internalNewTermAndAddFollower for a member that missed the election: NewTerm ...
CoRetryNewTerm(f) ==
    /\ co # NULL /\ co.phase = "steady" /\ f \in co.retry
    /\ [n |-> f, t |-> meta.term] \notin ntq /\ ~(\E r \in ntr : r.n = f /\ r.t = meta.term)
    /\ ntq' = ntq \cup {[n |-> f, t |-> meta.term]}
    /\ UNCHANGED <<nodeVars, wireVars, co, meta, ntr, histVars>>

\* ... then AddFollower on the leader with the head it reported
CoRetryAdd(f) ==
    /\ co # NULL /\ co.phase = "steady" /\ f \in co.retry
    /\ \E r \in ntr :
         /\ r.n = f /\ r.t = meta.term
         /\ ntr' = ntr \ {r}
         /\ LET l == meta.leader IN
            IF ~r.ok \/ ~up[l] \/ ctrl[l] # "leader" \/ term[l] # meta.term \/ status[l] # "LEADER" \/ Busy(l)
               \/ lead[l].cur[f] # NULL
            THEN /\ co' = [co EXCEPT !.retry = IF ~r.ok THEN @ \ {f} ELSE @]      \* invalid term: stop trying
                 /\ UNCHANGED <<nodeVars, wireVars, hcommit, fence, kf, leaders>>
            ELSE LET x0 == [ok |-> TRUE, ld |-> lead[l], fmap |-> [m \in Nodes |-> IF m = f THEN r.head ELSE NULL],
                            wal |-> wal, phantom |-> phantom, synced |-> synced, status |-> status, term |-> term, ctrl |-> ctrl,
                            fol |-> fol, lead |-> lead, truncated |-> {}, below |-> FALSE]
                     x == AttachAll(l, meta.term, {f}, x0)
                 IN IF x.ok
                    THEN /\ ApplyAttach(l, x, FALSE, FALSE, FALSE, {})
                         /\ co' = [co EXCEPT !.retry = @ \ {f}]
                         /\ UNCHANGED <<up, sid>>
                    ELSE /\ UNCHANGED <<nodeVars, wireVars, co, hcommit, fence, kf, leaders>>
    /\ UNCHANGED <<meta, ntq, acked, nwrites, budget>>

CoCrash ==
    /\ co # NULL /\ budget.cocrash > 0
    /\ ~(co.phase = "becoming" /\ Busy(co.leader))
    /\ budget' = [budget EXCEPT !.cocrash = @ - 1]
    /\ co' = NULL
    /\ ntr' = {}
    /\ UNCHANGED <<nodeVars, wireVars, meta, ntq, acked, nwrites, hcommit, leaders, fence, kf>>

\* restart from the durable metadata (shard_controller.go:run): either the recorded leader and all
\* members check out (verifyCurrentEnsemble), or a new election is needed
CoRestart ==
    /\ co = NULL
    /\ LET verified == /\ meta.leader # NULL /\ meta.st = "steady"
                       /\ \A n \in meta.ens : /\ up[n] /\ ctrl[n] # "none" /\ term[n] = meta.term
                                              /\ status[n] = IF n = meta.leader THEN "LEADER" ELSE "FOLLOWER"
       IN co' = [phase |-> IF verified THEN "steady" ELSE "idle",
                 leader |-> meta.leader, fmap |-> [n \in Nodes |-> NULL], retry |-> {}]
    /\ UNCHANGED <<nodeVars, wireVars, meta, ntq, ntr, histVars>>

----------------------------------------------------------------------------
Next ==
    \/ \E r \in ntq : HandleNewTerm(r.n, r.t)
    \/ \E n \in Nodes : WalSync(n) \/ Crash(n) \/ Restart(n)
    \/ \E n \in Nodes, v \in Values : ClientWrite(n, v)
    \/ \E n \in Nodes : ClientCancel(n)
    \/ \E l, f \in Nodes : CursorConnect(l, f) \/ CursorSnapshot(l, f) \/ DeliverAppend(l, f) \/ DeliverAck(f, l) \/ StreamReset(l, f)
    \/ CoElect \/ CoElected \/ CoBecomeLeaderTimeout \/ CoCrash \/ CoRestart
    \/ \E n \in Nodes, R \in SUBSET Nodes : CoBecomeLeader(n, R)
    \/ \E n \in Nodes : CoRetryNewTerm(n) \/ CoRetryAdd(n)
    \/ \E a, b \in Nodes : CoSwap(a, b)

Spec == Init /\ [][Next]_vars

----------------------------------------------------------------------------
(***************************************************************************)
(* Properties                                                              *)
(***************************************************************************)
Serving(n) == up[n] /\ ctrl[n] = "leader" /\ status[n] = "LEADER" /\ ~Busy(n)

\* C01: an acknowledged write is in the state exposed by every later leader
AckedSurvive ==
    \A w \in acked, n \in Nodes :
        (Serving(n) /\ term[n] >= w.t) => (Len(applied[n]) >= w.off /\ applied[n][w.off].v = w.v)

\* C02 / C03: what is applied anywhere was committed, and replicas never apply different entries
AppliedIsCommitted == \A n \in Nodes : \A i \in 1..Len(applied[n]) : \E h \in hcommit : h.off = i /\ h.e = applied[n][i]
StateMachineSafety == \A a, b \in Nodes : IsPrefix(applied[a], applied[b]) \/ IsPrefix(applied[b], applied[a])
CommittedUnique == \A x, y \in hcommit : x.off = y.off => x.e = y.e
\* C03: an ack in flight vouches for the follower's durable log up to that offset (checked against the
\* leader that owns the stream while both are still in the stream's term)
AckSound ==
    \A l, f \in Nodes :
        LET s == streams[<<l, f>>] IN
        (s # NULL /\ up[f] /\ up[l] /\ term[f] = s.t /\ term[l] = s.t /\ ctrl[f] = "follower" /\ fol[f].stream = s.id) =>
            \A i \in 1..Len(s.ack) :
                LET o == s.ack[i] IN o <= synced[f] /\ \A k \in 1..o : k <= Len(wal[l]) /\ wal[f][k] = wal[l][k]

\* C04
TrueHead(n) == IF Len(wal[n]) <= phantom[n] THEN NoHead ELSE LastEntryOf(wal[n], Len(wal[n]))
HeadTruthful == \A n \in Nodes : (fence[n] # NULL /\ up[n]) => TrueHead(n) = fence[n].head
FencedTerm == \A n \in Nodes : (fence[n] # NULL) => dur[n].term >= fence[n].t

\* C05
OneLeaderPerTerm == \A t \in 1..MaxTerm : Cardinality(leaders[t]) <= 1
TermDurableMonotone == [][\A n \in Nodes : dur'[n].term >= dur[n].term \/ dur'[n].term = 0]_vars
NoTermAboveCoordinator == \A n \in Nodes : dur[n].term <= meta.term /\ \A r \in ntq : r.t <= meta.term

\* C07: the DB is the fold of a prefix of the node's own log
DbIsLogPrefix == \A n \in Nodes : IsPrefix(applied[n], wal[n]) /\ IsPrefix(dur[n].applied, applied[n])
DurableNotAheadOfLog == \A n \in Nodes : Len(dur[n].applied) <= synced[n]

\* C08
CommitLeHead == \A n \in Nodes : lead[n] # NULL => (lead[n].commit <= lead[n].head \/ lead[n].busy) /\ lead[n].head <= synced[n]
\* an acknowledged write is durable on the leader and on Quorum(rf) followers (in the term it was acked)
AckedDurable ==
    \A w \in acked, n \in Nodes :
        (Serving(n) /\ term[n] = w.t /\ w.off > lead[n].elHead.o) =>
            /\ w.off <= synced[n]
            /\ Cardinality({f \in (meta.ens \cup meta.removed) \ {n} : up[f] => (w.off <= synced[f] /\ wal[f][w.off] = wal[n][w.off])}) >= Quorum(lead[n].rf)

\* C08 "does not fail spuriously", as a state predicate: when nothing is in flight any more (every follower of
\* a quorum is connected, has received, synced and acknowledged everything, all acks are delivered, no sync
\* round is pending anywhere) the leader of the current term has committed its whole log - no write is stuck
CaughtUp(l, f) == /\ streams[<<l, f>>] # NULL /\ streams[<<l, f>>].app = <<>> /\ streams[<<l, f>>].ack = <<>>
                  /\ up[f] /\ fol[f] # NULL /\ fol[f].parked = {} /\ fol[f].stream = streams[<<l, f>>].id
                  /\ lead[l].cur[f] # NULL /\ lead[l].cur[f].sid = streams[<<l, f>>].id
                  /\ Len(wal[f]) = Len(wal[l]) /\ synced[f] = Len(wal[f]) /\ lead[l].cur[f].pushed = Len(wal[l])
QuiescentCommitted ==
    \A l \in Nodes :
        (/\ up[l] /\ lead[l] # NULL /\ status[l] = "LEADER" /\ ~lead[l].busy /\ term[l] = meta.term
         /\ lead[l].cbq = {} /\ synced[l] = Len(wal[l])
         /\ Cardinality({f \in Nodes \ {l} : CaughtUp(l, f)}) >= Quorum(lead[l].rf))
        => lead[l].commit = lead[l].head /\ lead[l].head = Len(wal[l])

\* C03/C09: a node's log has no gap (an empty WAL accepts any first offset, see DeliverAppend: a follower that lost
\* an entry it had acknowledged ends up with a hole - only beyond the dupAck finding)
LogContiguous == \A n \in Nodes : \A i \in 1..Len(wal[n]) : wal[n][i] # Hole

TypeOK ==
    /\ \A n \in Nodes : synced[n] <= Len(wal[n]) /\ Len(applied[n]) <= Len(wal[n]) + MaxWrites
    /\ \A n \in Nodes : (lead[n] # NULL) => ctrl[n] = "leader"
    /\ \A n \in Nodes : (fol[n] # NULL) <=> ctrl[n] = "follower"

Guarded(P) == (kf = {}) => P
=============================================================================
