---------------------------- MODULE OxiaShardMC ----------------------------
(* Model-checking instance of OxiaShard: concrete constants, guarded forms  *)
(* of the invariants (known findings, DESIGN 2.5/2.7) and symmetry sets.     *)
EXTENDS OxiaShard

CONSTANTS a, b, c, d, v1, v2, v3

Guard == kf = {}
G_AckedSurvive       == Guard => AckedSurvive
G_AppliedIsCommitted == Guard => AppliedIsCommitted
G_StateMachineSafety == Guard => StateMachineSafety
G_CommittedUnique    == Guard => CommittedUnique
G_AckSound           == Guard => AckSound
G_HeadTruthful       == Guard => HeadTruthful
G_DbIsLogPrefix      == Guard => DbIsLogPrefix
G_DurableNotAhead    == Guard => DurableNotAheadOfLog
G_AckedDurable       == Guard => AckedDurable
G_CommitLeHead       == Guard => CommitLeHead
G_Quiescent          == Guard => QuiescentCommitted
G_LogContiguous      == Guard => LogContiguous

Symm == Permutations({v1, v2, v3}) \cup Permutations({a, b, c})
SymmV == Permutations({v1, v2, v3})

=============================================================================
