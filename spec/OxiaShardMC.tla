---------------------------- MODULE OxiaShardMC ----------------------------
(* Model-checking instance of OxiaShard: concrete constants, guarded forms  *)
(* of the invariants (known findings, DESIGN 2.5/2.7) and state constraint. *)
EXTENDS OxiaShard

CONSTANTS a, b, c, d, v1, v2, v3

G_AckedSurvive       == (kf = {}) => AckedSurvive
G_AppliedIsCommitted == (kf = {}) => AppliedIsCommitted
G_StateMachineSafety == (kf = {}) => StateMachineSafety
G_CommittedUnique    == (kf = {}) => CommittedUnique
G_AckSound           == (kf = {}) => AckSound
G_HeadTruthful       == (kf = {}) => HeadTruthful
G_DbIsLogPrefix      == (kf = {}) => DbIsLogPrefix
G_AckedDurable       == (kf = {}) => AckedDurable

\* only the Figure-8 finding is tolerated (used once headLag / dupAck are repaired)
F_AppliedIsCommitted == (kf \subseteq {"fig8"}) => (("fig8" \in kf) \/ AppliedIsCommitted)

Symm == Permutations({v1, v2, v3})
=============================================================================
