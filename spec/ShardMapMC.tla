----------------------------- MODULE ShardMapMC -----------------------------
(***************************************************************************)
(* Closed system around ShardMap: an adversarial operator changes the      *)
(* cluster configuration (add / remove namespaces, change the number of    *)
(* servers), shard controllers finish deletions one shard at a time, a     *)
(* client of namespace ClientNs receives the published assignments at      *)
(* arbitrary moments.                                                      *)
(*  - exhaustive (VIEW hides the history): the partition / id / routing    *)
(*    invariants hold for every reachable status                           *)
(*  - generator: `hist` records every step with the status the model       *)
(*    demands after it; the behaviours are replayed on the real            *)
(*    ApplyClusterChanges + StatusResource and on a real coordinator.      *)
(***************************************************************************)
EXTENDS ShardMap, Json

CONSTANTS Names,          \* namespace names, e.g. {"a", "b"}
          ClientNs,       \* the namespace the client is bound to
          MaxCount,       \* shard counts 1..MaxCount
          MaxServers,
          MaxSteps,
          AllOrNothing,
          EagerDelete,    \* TRUE: shard deletions finish before the next configuration change (as they do in
                          \* a coordinator whose storage nodes answer at once)
          Export          \* "none" | "steps" | "runs"

VARIABLES cfg, st, used, client, cinit, fresh, steps, hist
mvars == <<cfg, st, used, client, cinit, fresh, steps, hist>>
View == <<cfg, st, used, client, cinit, fresh, steps>>

Empty == [x \in {} |-> {}]
AllHashes == {<<a, b>> : a \in 0..LimbMax, b \in 0..LimbMax}
NsSpecs == {[name |-> x, count |-> c, rf |-> r] : x \in Names, c \in 1..MaxCount, r \in 1..MaxServers}
NsSeqs == {<<>>} \cup {<<a>> : a \in NsSpecs} \cup {s \in {<<a, b>> : a \in NsSpecs, b \in NsSpecs} : s[1].name # s[2].name}
Configs == {[servers |-> k, ns |-> q] : k \in 1..MaxServers, q \in NsSeqs}

(* the expected projection recorded for the replay: per namespace the ids and deletion flags, and the generator *)
Proj(s) == [gen |-> s.gen,
            ns |-> {[name |-> x, shards |-> {[id |-> sh.id, del |-> sh.del] : sh \in s.ns[x]}] : x \in DOMAIN s.ns}]
Rec(r) == /\ hist' = Append(hist, r @@ [exp |-> Proj(st'), table |-> {s.id : s \in client'}])
          /\ steps' = steps + 1

MInit == /\ cfg = [servers |-> 1, ns |-> <<>>] /\ st = [ns |-> Empty, gen |-> 0] /\ used = {}
         /\ client = {} /\ cinit = FALSE /\ fresh = FALSE /\ steps = 0 /\ hist = <<>>

ConfigChange(c) ==
    /\ c # cfg
    /\ EagerDelete => \A s \in AllShards(st) : ~s.del
    /\ cfg' = c
    /\ st' = Apply(c, st, AllOrNothing)
    /\ used' = used \cup Ids(st')
    /\ fresh' = (fresh /\ st' = st)
    /\ UNCHANGED <<client, cinit>>
    /\ Rec([a |-> "Config", servers |-> c.servers, ns |-> c.ns, name |-> "", id |-> -1])

FinishDelete(x, s) ==
    /\ s.del
    /\ st' = DeleteShard(st, x, s.id)
    /\ UNCHANGED <<cfg, used, client, cinit, fresh>>
    /\ Rec([a |-> "Deleted", servers |-> 0, ns |-> <<>>, name |-> x, id |-> s.id])

RECURSIVE SeqOfSet(_)
SeqOfSet(S) == IF S = {} THEN <<>> ELSE LET m == CHOOSE x \in S : \A y \in S : x.id <= y.id IN <<m>> \o SeqOfSet(S \ {m})
Reverse(q) == [i \in 1..Len(q) |-> q[Len(q) + 1 - i]]

(* the client receives the assignments currently published for its namespace *)
ClientRecv ==
    /\ ClientNs \in DOMAIN st.ns
    /\ client' = ClientUpdate(client, SeqOfSet(Published(st, ClientNs)))
    /\ cinit' = (cinit \/ Published(st, ClientNs) # {})
    /\ fresh' = TRUE
    /\ UNCHANGED <<cfg, st, used>>
    /\ Rec([a |-> "ClientRecv", servers |-> 0, ns |-> <<>>, name |-> ClientNs, id |-> -1])

MNext ==
    /\ steps < MaxSteps
    /\ \/ \E c \in Configs : ConfigChange(c)
       \/ \E x \in DOMAIN st.ns : \E s \in st.ns[x] : FinishDelete(x, s)
       \/ ClientRecv
MSpec == MInit /\ [][MNext]_mvars

(***************************************************************************)
(* Properties                                                              *)
(***************************************************************************)
PartitionOK == StatusPartitioned(st)
UniqueIds == StatusIdsUnique(st) /\ \A i \in Ids(st) : i >= 0 /\ i < st.gen
(* ids come from a monotonic generator and are never handed out twice *)
NeverReused == [][ /\ st'.gen >= st.gen
                   /\ \A i \in Ids(st') \ Ids(st) : i \notin used /\ i >= st.gen ]_mvars
(* every key (hash) is routed by the client to exactly one shard ... *)
ClientRoutesOnce == cinit => \A h \in AllHashes : Cardinality(RouteSet(client, h)) = 1
(* ... independent of the order in which the updates of one message are processed ... *)
ClientOrderFree == (ClientNs \in DOMAIN st.ns) =>
    ClientUpdate(client, SeqOfSet(Published(st, ClientNs))) = ClientUpdate(client, Reverse(SeqOfSet(Published(st, ClientNs))))
(* ... and, once it has the current assignments of a live namespace, to the shard the servers use *)
RoutingAgrees == (fresh /\ ClientNs \in DOMAIN st.ns /\ Published(st, ClientNs) # {}) =>
    \A h \in AllHashes : RouteSet(client, h) = RouteSet(Published(st, ClientNs), h)
(* GenerateShards itself, for every count the small space can hold with non-empty shards.  (Before the fix *)
(* in /repo the bucket size was always rounded up and k = B + 1 -- 65537 in the real space -- wrapped.)     *)
GenOK == \A k \in 1..(B * B - 1) : PartitionSet(Range(GenShards(7, k))) /\ Cardinality({s.id : s \in Range(GenShards(7, k))}) = k
ASSUME GenOK

ExportSteps == (Export = "steps") => PrintT(<<"STEP", ToJson(hist')>>)
ExportRuns  == (Export = "runs" /\ steps = MaxSteps) => PrintT(<<"RUN", ToJson(hist)>>)
=============================================================================
