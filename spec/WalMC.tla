------------------------------ MODULE WalMC ------------------------------
(* Closed system around Wal: a bounded, adversarial caller.  Used          *)
(*  - exhaustively (VIEW hides the history) to check the model's own laws  *)
(*  - as generator of behaviours that are replayed on the real WAL:        *)
(*    `hist` records every call with its arguments and the outcome and     *)
(*    observable state the specification demands after it.                 *)
EXTENDS Wal, TLC, Json

CONSTANTS Sizes,      \* payload sizes offered to Append
          MaxOps,     \* calls per behaviour
          MaxClock,
          Export      \* "none" | "steps" (print every transition) | "runs" (print at depth MaxOps)

VARIABLES ops, nid, hist
mvars == <<ents, segs, first, lastApp, lastSync, clock, res, ret, ops, nid, hist>>
View == <<ents, segs, first, lastApp, lastSync, clock, ops, nid>>

TermOf(id) == 1 + (id % 3)

Obs == [res |-> res', ret |-> ret', first |-> first', last |-> lastSync', vis |-> Visible']
Rec(r) == /\ hist' = Append(hist, r @@ Obs) /\ ops' = ops + 1

AppendOffsets == IF lastApp = -1 THEN {0, 3} ELSE {lastApp + 1, lastApp, lastApp + 2, 0}
TruncTargets  == {-1} \cup (IF lastApp = -1 THEN {0, 2} ELSE ((IF first > 0 THEN first - 1 ELSE 0)..(lastApp + 1)))
Commits       == -1..(IF lastApp = -1 THEN 0 ELSE lastApp)

MInit == WInit /\ ops = 0 /\ nid = 0 /\ hist = <<>>

MNext ==
    /\ ops < MaxOps
    /\ \/ \E o \in AppendOffsets, sz \in Sizes :
            /\ WAppend(o, sz, TermOf(nid + 1), nid + 1) /\ nid' = nid + 1
            /\ Rec([a |-> "Append", off |-> o, size |-> sz, term |-> TermOf(nid + 1), id |-> nid + 1, ts |-> clock])
       \/ WSync /\ UNCHANGED nid /\ Rec([a |-> "Sync"])
       \/ \E o \in TruncTargets : WTruncate(o) /\ UNCHANGED nid /\ Rec([a |-> "Truncate", off |-> o])
       \/ WClear /\ UNCHANGED nid /\ Rec([a |-> "Clear"])
       \/ \E c \in Commits : WTrim(c) /\ UNCHANGED nid /\ Rec([a |-> "Trim", commit |-> c, now |-> clock])
       \/ WReopen /\ UNCHANGED nid /\ Rec([a |-> "Reopen"])
       \/ clock < MaxClock /\ WTick(1) /\ UNCHANGED nid /\ Rec([a |-> "Tick", n |-> 1])

MSpec == MInit /\ [][MNext]_mvars

(* Trimming only removes a prefix whose entries are all expired and not above the commit offset. *)
TrimSafe == [][ LET h == hist'[Len(hist')] IN
                 (Len(hist') > Len(hist) /\ h.a = "Trim") =>
                     /\ lastApp' = lastApp /\ lastSync' = lastSync
                     /\ first' >= first
                     /\ \A o \in first..(first' - 1) : Expired(o) /\ o < h.commit + 1
                     /\ \A o \in Stored : (o \notin {segs'[1] + i - 1 : i \in 1..Len(ents')}) => o < first'
              ]_mvars
(* Nothing but truncate/clear/trim ever removes an entry; appends are accepted exactly at last+1. *)
AppendOnlyAtTail == [][ LET h == hist'[Len(hist')] IN
                 (Len(hist') > Len(hist) /\ h.a = "Append") =>
                     /\ (h.res = "ok") = (h.off >= 0 /\ (lastApp = -1 \/ h.off = lastApp + 1))
                     /\ h.res = "ok" => lastApp' = h.off /\ Len(ents') = Len(ents) + 1
                     /\ h.res # "ok" => UNCHANGED <<ents, segs, first, lastApp, lastSync>>
              ]_mvars

ExportSteps == (Export = "steps") => PrintT(<<"STEP", ToJson(hist')>>)
ExportRuns  == (Export = "runs" /\ ops = MaxOps) => PrintT(<<"RUN", ToJson(hist)>>)
=============================================================================
