----------------------------- MODULE TrimReplay -----------------------------
(* C07: replay of the log into a database that came back OLDER than the     *)
(* first entry its (trimmed) log still holds.                               *)
(*                                                                          *)
(* One storage node, one shard, in the shape of the implementation:         *)
(*   - the log (WAL) is a sequence of segments, each a file named after its *)
(*     base offset; an entry that does not fit the current segment opens a  *)
(*     new one (`Write` with roll = 1; how many bytes fit is abstracted     *)
(*     into that choice);                                                   *)
(*   - the database (Pebble, run WITHOUT a write-ahead log of its own)      *)
(*     keeps what it applies in memory until a flush (`Flush`: the one      *)
(*     forced by a term change, a checkpoint, a full memtable): a process   *)
(*     kill leaves the image of the last flush (`dur`);                     *)
(*   - the trimmer (`Trim`) removes whole segments below the segment that   *)
(*     holds its target; the target is bounded by the commit offset of the  *)
(*     RUNNING node (wal/trimmer.go: "we cannot trim past the commit        *)
(*     offset") - which is ahead of the flushed database;                   *)
(*   - `Crash` = process kill: the database is the last flushed image, the  *)
(*     log is what is on disk; its first offset is the base of the first    *)
(*     segment file left (wal.recoverWal);                                  *)
(*   - the node starts again and is elected (`Lead`: NewTerm + BecomeLeader *)
(*     with replication factor 1 -> applyAllEntriesIntoDB) or follows       *)
(*     (`Follow(adv)`: NewTerm + an Append that announces the commit offset *)
(*     adv -> processCommittedEntries): both open a log reader positioned   *)
(*     right after the commit offset c stored in the database.              *)
(*                                                                          *)
(* The database is modelled by the sequence of the offsets of the entries   *)
(* applied to it, in the order of application (`app`); the commit offset it *)
(* stores is the offset of the last one (commit-offset key and effects are  *)
(* one atomic batch - that is the crash-point part of C07).  The content of *)
(* the entries is OxiaDb.tla's: the harness takes the logs from behaviours  *)
(* of OxiaDbMC and the database "after 0..k" is the one the running node    *)
(* had after entry k, compared step by step with OxiaDb!Apply.              *)
(*                                                                          *)
(* The only correct outcomes of the replay:                                 *)
(*   first <= c+1 : every entry c+1..(head | adv) is applied, in order;     *)
(*   first >  c+1 : the entries c+1..first-1 are gone: the replay REFUSES   *)
(*                  (BecomeLeader fails / the apply loop stops and the      *)
(*                  replication stream is closed) and the database stays    *)
(*                  the result of 0..c.                                     *)
(* `Lenient` is the mutant: resume from the first entry that is available.  *)
EXTENDS Integers, Sequences, FiniteSets, TLC, Json

CONSTANTS MaxN,       \* entries logged at most
          MaxFlush,   \* database flushes (besides the one of the first NewTerm: the empty database)
          MaxTrim,    \* trimmer rounds that remove something
          MaxCrash,   \* process kills
          TrimAny,    \* TRUE: the trimmer's time cutoff may stop anywhere up to the commit offset; FALSE: everything has expired (target = commit offset)
          Roles,      \* subset of {"leader", "follower"}: what the node becomes after the restart
          Lenient,    \* MUTANT: a replay reader that resumes from the first available entry
          Export      \* print every behaviour that ends with a replay (for the harness)

VARIABLES n,        \* the log holds the entries 0..n-1 (appended and synced)
          segs,     \* base offsets of the segment files of the log
          first,    \* first offset the log serves (wal.FirstOffset; 0 for an empty log)
          app,      \* the database of the running node: offsets applied, in order of application
          dur,      \* the database image on disk (last flush)
          st,       \* "run" (leading, RF=1) | "down" | "follower" | "refused"
          nflush, ntrim, ncrash,
          hist
vars == <<n, segs, first, app, dur, st, nflush, ntrim, ncrash, hist>>

Commit(a) == IF a = <<>> THEN -1 ELSE a[Len(a)]      \* the commit offset stored in a database
Range(a, b) == [i \in 1..(b - a + 1) |-> a + i - 1]     \* <<a, ..., b>> (empty when b < a)
MaxOf(S) == CHOOSE x \in S : \A y \in S : y <= x
MinOf(S) == CHOOSE x \in S : \A y \in S : x <= y

Rec(a, x, out) == [a |-> a, x |-> x, out |-> out, n |-> n', c |-> Commit(app'), f |-> first', d |-> Commit(dur')]

Init == /\ n = 0 /\ segs = {0} /\ first = 0 /\ app = <<>> /\ dur = <<>> /\ st = "run"
        /\ nflush = 0 /\ ntrim = 0 /\ ncrash = 0 /\ hist = <<>>

\* leaderController.write with replication factor 1: the entry is appended, committed and applied
Write(roll) ==
    /\ st = "run" /\ n < MaxN
    /\ roll = 1 => n > MaxOf(segs)              \* only a non-empty segment is closed
    /\ n' = n + 1 /\ app' = Append(app, n)
    /\ segs' = IF roll = 1 THEN segs \cup {n} ELSE segs
    /\ UNCHANGED <<first, dur, st, nflush, ntrim, ncrash>>
    /\ hist' = Append(hist, Rec("Write", roll, "ok"))

Flush ==
    /\ st = "run" /\ nflush < MaxFlush /\ dur # app
    /\ dur' = app /\ nflush' = nflush + 1
    /\ UNCHANGED <<n, segs, first, app, st, ntrim, ncrash>>
    /\ hist' = Append(hist, Rec("Flush", 0, "ok"))

\* trimmer.doTrim -> wal.trim(t) -> readOnlySegmentsGroup.TrimSegments(t): t is bounded by the commit offset
\* of the running node.  Only closed (read-only) segments are candidates; the closed segment that holds t -
\* or, when t lies in the current segment, the last closed one - is kept with everything above it.
TrimTargets == IF TrimAny THEN (first + 1)..Commit(app) ELSE {Commit(app)} \cap ((first + 1)..Commit(app))
Trim(t) ==
    /\ st = "run" /\ ntrim < MaxTrim /\ t \in TrimTargets
    /\ LET closed == segs \ {MaxOf(segs)}
           below == {b \in closed : b <= t} IN
       segs' = IF below = {} THEN segs ELSE {b \in segs : b >= MaxOf(below)}
    /\ first' = t /\ ntrim' = ntrim + 1
    /\ UNCHANGED <<n, app, dur, st, nflush, ncrash>>
    /\ hist' = Append(hist, Rec("Trim", t, "ok"))

Crash ==
    /\ st = "run" /\ ncrash < MaxCrash
    /\ st' = "down" /\ ncrash' = ncrash + 1
    /\ app' = dur                           \* everything since the last flush is lost
    /\ first' = MinOf(segs)                 \* recoverWal: base of the first segment file
    /\ UNCHANGED <<n, segs, dur, nflush, ntrim>>
    /\ hist' = Append(hist, Rec("Crash", 0, "ok"))

\* the reader both replay paths open: wal.NewReader(c) fails with ErrEntryNotFound when c+1 < FirstOffset
ReplayFrom(c) == IF first <= c + 1 THEN c + 1 ELSE IF Lenient THEN first ELSE -1

Lead ==
    /\ st = "down" /\ "leader" \in Roles
    /\ dur' = app                           \* NewTerm flushes (before anything is replayed)
    /\ UNCHANGED <<n, segs, first, nflush, ntrim, ncrash>>
    /\ LET from == ReplayFrom(Commit(app)) IN
       IF from >= 0
       THEN /\ app' = app \o Range(from, n - 1) /\ st' = "run"
            /\ hist' = Append(hist, Rec("Lead", 0, "ok"))
       ELSE /\ app' = app /\ st' = "refused"
            /\ hist' = Append(hist, Rec("Lead", 0, "refused"))

\* a leader's commit offset is never behind the commit offset of any database: adv >= c
Follow(adv) ==
    /\ st = "down" /\ "follower" \in Roles /\ n > 0
    /\ adv \in 0..(n - 1) /\ adv >= Commit(app)
    /\ dur' = app
    /\ UNCHANGED <<n, segs, first, nflush, ntrim, ncrash>>
    /\ LET c == Commit(app)
           from == ReplayFrom(c) IN
       IF adv <= c
       THEN /\ app' = app /\ st' = "follower"
            /\ hist' = Append(hist, Rec("Follow", adv, "ok"))
       ELSE IF from >= 0
       THEN /\ app' = app \o Range(from, adv) /\ st' = "follower"
            /\ hist' = Append(hist, Rec("Follow", adv, "ok"))
       ELSE /\ app' = app /\ st' = "refused"
            /\ hist' = Append(hist, Rec("Follow", adv, "refused"))

Next == \/ \E r \in {0, 1} : Write(r)
        \/ Flush
        \/ \E t \in 0..(MaxN - 1) : Trim(t)
        \/ Crash
        \/ Lead
        \/ \E a \in 0..(MaxN - 1) : Follow(a)

Spec == Init /\ [][Next]_vars
\* (the configurations that only check the laws leave the history out of the state)
View == <<n, segs, first, app, dur, st, nflush, ntrim, ncrash>>

(***************************************************************************)
(* The property                                                            *)
(***************************************************************************)
InOrderOnce(a) == \A i \in 1..Len(a) : a[i] = i - 1
\* a database is always the result of applying the entries 0..k once each, in order, k = its commit offset
NoSkip == InOrderOnce(app) /\ InOrderOnce(dur)
\* and never ahead of the log
WithinLog == Commit(app) <= n - 1 /\ Commit(dur) <= n - 1
\* a node that leads has applied its whole log
LeaderComplete == (st = "run") => Commit(app) = n - 1
\* the trimmer's assumption: nothing above the commit offset of the running node is removed
TrimBound == (st = "run") => first <= Commit(app) + 1
\* refusal happens exactly when entries between the database and the log are gone
RefusedOnlyWithGap == (st = "refused") => first > Commit(app) + 1

TypeOK == /\ n \in 0..MaxN /\ segs \subseteq 0..MaxN /\ segs # {}
          /\ first \in 0..MaxN /\ st \in {"run", "down", "follower", "refused"}

(***************************************************************************)
(* Export: one line per behaviour that ends with a replay                  *)
(***************************************************************************)
ExportCases ==
    (Export /\ st = "down" /\ st' # "down") => PrintT(<<"CASE", ToJson(hist')>>)
=============================================================================
