----------------------------- MODULE NotifTrace -----------------------------
(* Trace validation for NotifStream: recorded schedules of a real RF=1 leader controller     *)
(* (WriteBlock, GetNotifications with / without StartOffsetExclusive with the dispatcher      *)
(* parked in the callback, the real trimmer run at chosen instants, controller restarts,      *)
(* elections of a replica whose DB lags its log).                                             *)
(* One line per step: the step and its argument are bound from the line; the number of        *)
(* committed offsets, the notification batches stored in the DB, the offset of the empty      *)
(* first batch, the batch the dispatcher offers next, the batch delivered and the last offset *)
(* the subscriber saw must equal what the specification says.  Every state is checked        *)
(* against the stream properties of C17.  "Reset" starts the next trace.                      *)
EXTENDS NotifStream, Json

TraceLog == ndJsonDeserialize("trace.ndjson")

VARIABLES ns, l
tvars == <<ns, l>>

TInit == ns = NS0 /\ l = 1

HeadOf(s) == IF s.buf = <<>> THEN -1 ELSE s.buf[1]
ObsOK(s, e) == /\ s.n = e.n /\ SortAsc(s.kept) = e.kept /\ s.open = e.open /\ HeadOf(s) = e.head /\ s.seen = e.seen
               /\ s.now = e.now /\ e.err = ""

TNext ==
    /\ l <= Len(TraceLog)
    /\ l' = l + 1
    /\ LET e == TraceLog[l] IN
       \/ e.a = "Reset" /\ ns' = NS0
       \/ e.a = "Commit" /\ e.arg = ns.n /\ e.ts = ns.now /\ ns' = DoCommit(ns) /\ ObsOK(ns', e)
       \/ e.a = "Clock" /\ ns' = DoClock(ns) /\ ObsOK(ns', e)
       \/ e.a = "Trim" /\ ns' = DoTrim(ns) /\ ObsOK(ns', e)
       \/ e.a = "Subscribe" /\ ~ns.open
          \* a subscriber either starts (no offset / any offset) or resumes with the last offset it saw
          /\ (ns.pos # NoStart => e.arg = ResumeArg(ns))
          /\ LET r == DoSubscribe(ns, e.arg) IN r.dummy = e.dummy /\ ns' = r.s /\ ObsOK(ns', e)
       \/ e.a = "Send" /\ CanSend(ns) /\ e.arg = ns.buf[1] /\ ns' = DoSend(ns) /\ ObsOK(ns', e)
       \/ e.a = "Elect" /\ e.arg \in 1..ns.n /\ ns' = DoElect(ns, e.arg) /\ ObsOK(ns', e)
       \/ e.a = "Disconnect" /\ ns' = DoDisconnect(ns) /\ ObsOK(ns', e)
       \/ e.a = "Restart" /\ ns' = DoRestart(ns) /\ ObsOK(ns', e)

TraceSpec == TInit /\ [][TNext]_tvars

TraceInv == StreamProps(ns)
TraceTrim == [][ (l' = l + 1 /\ l <= Len(TraceLog) /\ TraceLog[l].a = "Trim") => TrimExact(ns, ns') ]_tvars

HighWater == IF l > TLCGet(1) THEN TLCSet(1, l) ELSE TRUE
ASSUME TLCSet(1, 0)
TraceAccepted ==
    IF TLCGet(1) = Len(TraceLog) + 1 THEN TRUE
    ELSE Print(<<"REJECTED", TLCGet(1), Len(TraceLog)>>, FALSE)
=============================================================================
