------------------------------ MODULE OrderedKV ------------------------------
(***************************************************************************)
(* Sorted-reference semantics of the storage engine's key-value interface  *)
(* (server/kv/kv.go: KV / WriteBatch, implemented by kv_pebble.go).        *)
(*                                                                         *)
(* Abstract state: `live`, a function from the stored keys to value ids.   *)
(* `mem` and `disk` describe the *layout* the way the engine has it (which *)
(* keys have their newest entry in the memtable, which have entries in     *)
(* sstables).  No query reads them: Flush, Compact and Reopen only move    *)
(* layout, they are no-ops on `live` - that is the second sentence of C11  *)
(* ("before and after flushes and compactions ... exactly what a sorted    *)
(* reference of the live keys returns").  They are state so that the       *)
(* bounded state graph contains "the same data, flushed / compacted" as    *)
(* distinct states and every query is replayed in each of them.            *)
(*                                                                         *)
(* One action per public call, all total (the engine never refuses a       *)
(* well-formed call); queries are state functions (Get / Scan) with        *)
(* checking forms (IsGet / IsScan) used where the data set is large.       *)
(***************************************************************************)
EXTENDS SlashOrder, TLC

VARIABLES live, mem, disk
kvars == <<live, mem, disk>>

NoKey == <<>>                 \* as a bound: "unbounded" (Pebble.RangeScan: `if lowerBound != ""`)
Keys  == DOMAIN live
Empty == [x \in {} |-> 0]

KInit == live = Empty /\ mem = {} /\ disk = {}

Restrict(f, S) == [x \in S |-> f[x]]
InRange(k, lo, hi) == (lo = NoKey \/ Le(lo, k)) /\ (hi = NoKey \/ Lt(k, hi))
Range(lo, hi) == {k \in Keys : InRange(k, lo, hi)}

(***************************************************************************)
(* Mutations: WriteBatch.Put / Delete / DeleteRange + Commit               *)
(***************************************************************************)
KPut(k, v) == /\ live' = (k :> v) @@ live
              /\ mem' = mem \cup {k} /\ UNCHANGED disk
KDelete(k) == /\ live' = Restrict(live, Keys \ {k})
              /\ mem' = mem \cup {k} /\ UNCHANGED disk
\* DeleteRange(lo, hi) removes lo <= k < hi (both bounds are real keys here)
KDeleteRange(lo, hi) ==
    LET D == {k \in Keys : Le(lo, k) /\ Lt(k, hi)}
    IN  /\ live' = Restrict(live, Keys \ D)
        /\ mem' = mem \cup D /\ UNCHANGED disk
(***************************************************************************)
(* Layout changes: KV.Flush, manual compaction, Close + reopen (Close      *)
(* flushes).  No-ops on `live`.                                            *)
(***************************************************************************)
KFlush   == /\ UNCHANGED live /\ disk' = disk \cup mem /\ mem' = {}
KCompact == /\ UNCHANGED live /\ disk' = Keys /\ mem' = {}       \* tombstones are dropped at the bottom level
KReopen  == KFlush

(***************************************************************************)
(* Queries.  A result is [f |-> 0/1 found, k |-> key, v |-> value id].     *)
(***************************************************************************)
Modes == {"EQ", "FLOOR", "CEILING", "LOWER", "HIGHER"}
NotFound == [f |-> 0, k |-> NoKey, v |-> 0]
Found(k) == [f |-> 1, k |-> k, v |-> live[k]]

MaxOf(S) == CHOOSE x \in S : \A y \in S : Le(y, x)
MinOf(S) == CHOOSE x \in S : \A y \in S : Le(x, y)
Candidates(k, m) ==
    CASE m = "EQ"      -> {x \in Keys : x = k}
      [] m = "FLOOR"   -> {x \in Keys : Le(x, k)}
      [] m = "CEILING" -> {x \in Keys : Le(k, x)}
      [] m = "LOWER"   -> {x \in Keys : Lt(x, k)}
      [] m = "HIGHER"  -> {x \in Keys : Lt(k, x)}
Get(k, m) ==
    LET S == Candidates(k, m)
    IN  IF S = {} THEN NotFound
        ELSE IF m \in {"FLOOR", "LOWER"} THEN Found(MaxOf(S))
        ELSE Found(MinOf(S))

\* checking form, linear in the number of keys: is r a correct answer to Get(k, m)?
Admissible(x, k, m) ==
    CASE m = "EQ"      -> x = k
      [] m = "FLOOR"   -> Le(x, k)
      [] m = "CEILING" -> Le(k, x)
      [] m = "LOWER"   -> Lt(x, k)
      [] m = "HIGHER"  -> Lt(k, x)
IsGet(k, m, r) ==
    IF r.f = 0 THEN r = NotFound /\ \A x \in Keys : ~Admissible(x, k, m)
    ELSE /\ r.f = 1 /\ r.k \in Keys /\ r.v = live[r.k] /\ Admissible(r.k, k, m)
         /\ \A x \in Keys : Admissible(x, k, m) =>
                (IF m \in {"FLOOR", "LOWER"} THEN Le(x, r.k) ELSE Le(r.k, x))

\* list / range scan of [lo, hi): the keys in slash order, with their values
RECURSIVE InOrder(_)
InOrder(S) == IF S = {} THEN <<>> ELSE LET x == MinOf(S) IN <<x>> \o InOrder(S \ {x})
List(lo, hi) == InOrder(Range(lo, hi))
Scan(lo, hi) == LET ks == List(lo, hi) IN [i \in 1..Len(ks) |-> [k |-> ks[i], v |-> live[ks[i]]]]
RevList(lo, hi) == LET ks == List(lo, hi) IN [i \in 1..Len(ks) |-> ks[Len(ks) + 1 - i]]

\* checking form: ks (keys) and vs (value ids) are the scan of [lo, hi)
IsScan(lo, hi, ks, vs) ==
    /\ Len(ks) = Len(vs)
    /\ {ks[i] : i \in 1..Len(ks)} = Range(lo, hi)
    /\ \A i \in 1..(Len(ks) - 1) : Lt(ks[i], ks[i + 1])
    /\ \A i \in 1..Len(ks) : ks[i] \in Keys /\ vs[i] = live[ks[i]]
IsRevList(lo, hi, ks) ==
    /\ {ks[i] : i \in 1..Len(ks)} = Range(lo, hi)
    /\ \A i \in 1..(Len(ks) - 1) : Lt(ks[i + 1], ks[i])

LayoutSound == /\ Keys \subseteq (mem \cup disk)
               /\ \A k \in Keys : live[k] > 0
=============================================================================
