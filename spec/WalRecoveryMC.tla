--------------------------- MODULE WalRecoveryMC ---------------------------
(* Closed system around WalRecovery: every pre-crash state of the bounded    *)
(* domain (with every history of append + TruncateLog rounds that leads to   *)
(* it), every crash image of it, every damage; one behaviour =               *)
(*     pre  --Crash-->  crashed  --Recover-->  recovered                     *)
(* Used (1) to check exhaustively that recovery in the shape of the          *)
(* implementation (Model) satisfies the property (RecoveryOk), and that each *)
(* repaired rule is necessary (mutant configurations), and (2) as the        *)
(* generator of the abstract images that the harness concretizes to bytes    *)
(* and runs through the real recovery path.                                  *)
EXTENDS WalRecovery, TLC, Json

CONSTANTS Codecs,          \* subset of {"v1", "v2"}
          SegSizes,        \* segment sizes in bytes
          Sizes,           \* payload sizes offered
          MaxRec,          \* entries appended before the crash
          MinRec,          \* ... at least (multi-segment configurations: only logs with closed segments in front of the current one)
          MinSynced,       \* ... of which at least the first MinSynced are synced (0 = any synced offset)
          IdxStates,       \* index-file states offered for closed segments
          DmgNames,        \* damage kinds offered, by name (see KindTable)
          TearWithDamage,  \* combine damage with torn/absent records (FALSE: damage only on otherwise intact images)
          PostSizes,       \* sizes offered for the one entry appended after the recovery ({} = no post phase)
          PostWithDamage,  \* run the post phase on damaged images too
          MaxLost,
          MinRounds, MaxRounds, \* history: number of append+TruncateLog rounds in front of the final appends (0, 0 = none)
          HistSizes,       \* payload sizes offered for the entries appended in a round
          MaxApp,          \* entries appended per round
          WithClear,       \* TruncateLog(-1) = wal.Clear is offered as a truncation point
          TearStates,      \* record states a crash may leave ({"complete", "absent", "tornh", "tornp"} = all)
          Guarded,         \* known findings are attributed (TRUE) or reported (FALSE)
          Export

VARIABLES phase, img, out
vars == <<phase, img, out>>

NoOut == [res |-> "na", ents |-> <<>>, first |-> -1, last |-> -1, pres |-> "none", pents |-> <<>>, pfirst |-> -1, plast |-> -1]

Seqs(S, n) == UNION {[1..k -> S] : k \in 0..n}

\* histories: every sequence of MinRounds..MaxRounds rounds "append 1..MaxApp entries, TruncateLog(k)" with every
\* truncation point MinKeep..last (last = nothing removed), built forwards
MinKeep == IF WithClear THEN -1 ELSE 0
RoundsAfter(h) == LET lg == HFinal(h) IN
    UNION {{[app |-> a, keep |-> k] : k \in MinKeep..(Len(lg) + Len(a) - 1)} : a \in Seqs(HistSizes, MaxApp) \ {<<>>}}
RECURSIVE HistsOfLen(_)
HistsOfLen(n) == IF n = 0 THEN {<<>>}
                 ELSE UNION {{h \o <<rd>> : rd \in RoundsAfter(h)} :
                                h \in HistsOfLen(n - 1)}
Hists == UNION {HistsOfLen(n) : n \in MinRounds..MaxRounds}

\* the final log: what the history left, completed by further appends
Pre == {[codec |-> c, seg |-> sg, sizes |-> HFinal(h) \o tl, synced |-> sy, commit |-> cm,
         rs |-> [i \in 1..(Len(HFinal(h)) + Len(tl)) |-> "complete"], lost |-> 0,
         idx |-> <<>>, dmg |-> None, post |-> <<>>, hist |-> h] :
           c \in Codecs, sg \in SegSizes, h \in Hists, tl \in Seqs(Sizes, MaxRec), sy \in -1..(MaxRec - 1), cm \in -1..(MaxRec - 1)}

Init == /\ phase = "pre" /\ out = NoOut
        /\ img \in {p \in Pre : /\ N(p) <= MaxRec /\ N(p) >= MinRec /\ p.synced + 1 >= MinSynced /\ p.synced < N(p) /\ p.commit <= p.synced
                                 /\ \A i \in 1..N(p) : H(p) + p.sizes[i] <= p.seg
                                 /\ HistOK(p)}

States(c) == IF c = "v1" THEN {"complete", "absent"} ELSE {"complete", "absent", "tornh", "tornp"} \cap TearStates
IdxOf(c) == IF c = "v1" THEN IdxStates \cap {"ok", "missing"} ELSE IdxStates

KindTable == [n \in {"size.s0", "size.s1", "size.exact", "size.plus1", "size.max31", "size.ovf_lo", "size.ovf_at", "size.ovf_max"} |->
                 <<"size", CASE n = "size.s0" -> "s0" [] n = "size.s1" -> "s1" [] n = "size.exact" -> "exact"
                             [] n = "size.plus1" -> "plus1" [] n = "size.max31" -> "max31" [] n = "size.ovf_lo" -> "ovf_lo"
                             [] n = "size.ovf_at" -> "ovf_at" [] n = "size.ovf_max" -> "ovf_max">>]
             @@ ("prevcrc.rand" :> <<"prevcrc", "rand">>) @@ ("crc.rand" :> <<"crc", "rand">>)
             @@ ("prevcrc.zero" :> <<"prevcrc", "zero">>) @@ ("crc.zero" :> <<"crc", "zero">>)
             @@ ("payload.rand" :> <<"payload", "rand">>) @@ ("payload.zero" :> <<"payload", "zero">>)
             @@ ("splice.donor" :> <<"splice", "donor">>) @@ ("record.zero" :> <<"record", "zero">>)
DmgKinds == {KindTable[n] : n \in DmgNames}

\* records a crash may tear / records damage may hit / segment files a crash may lose
Tearable(p) == {i \in 1..N(p) : i - 1 > Durable(p)}
Losable(p) == {l \in 0..MaxLost : l <= NSeg(p) - 1 /\ \A s \in (NSeg(p) - l + 1)..NSeg(p) : FirstRec(p, s) - 1 > p.synced}
Damages(p, rs, lost) ==
    LET hit == {d \in 0..(N(p) - 1) : rs[d + 1] = "complete" /\ Lay(p)[d + 1].seg <= NSeg(p) - lost} IN
    {None} \cup
    {[rec |-> d, field |-> k[1], cls |-> k[2], at |-> -1] : d \in hit, k \in {x \in DmgKinds : x[1] # "splice"}} \cup
    UNION {{[rec |-> d, field |-> "splice", cls |-> "donor", at |-> j] :
               j \in {x \in 0..(N(p) - 1) : /\ <<"splice", "donor">> \in DmgKinds /\ x # d
                                            /\ p.sizes[x + 1] = p.sizes[d + 1]}} : d \in hit}
\* at most one index file is in a state other than ok
Idxs(p) == LET k == NSeg(p) - 1 IN
           {[s \in 1..k |-> "ok"]} \cup
           {[s \in 1..k |-> IF s = t THEN x ELSE "ok"] : t \in 1..k, x \in IdxOf(p.codec) \ {"ok"}}

Posts(dm) == IF dm.field # "none" /\ ~PostWithDamage THEN {<<>>} ELSE {<<>>} \cup {<<s>> : s \in PostSizes}

Crash ==
    /\ phase = "pre" /\ phase' = "crashed" /\ UNCHANGED out
    /\ \E t \in [Tearable(img) -> States(img.codec)], lost \in Losable(img) :
         LET rs == [i \in 1..N(img) |-> IF i \in Tearable(img) THEN t[i] ELSE "complete"] IN
         \E dm \in Damages(img, rs, lost) :
            /\ (dm.field # "none" /\ ~TearWithDamage) => \A i \in 1..N(img) : rs[i] = "complete"
            /\ \E ix \in Idxs(img), po \in Posts(dm) :
                 img' = [img EXCEPT !.rs = rs, !.lost = lost, !.idx = ix, !.dmg = dm, !.post = po]

Modelled(i) == i.codec = "v2" \/ ~Damaged(i)

Recover ==
    /\ phase = "crashed" /\ phase' = "recovered" /\ UNCHANGED img
    /\ out' = IF Modelled(img) THEN Model(img) ELSE NoOut

Next == Crash \/ Recover
Spec == Init /\ [][Next]_vars

(***************************************************************************)
(* Laws                                                                    *)
(***************************************************************************)
Done == phase = "recovered" /\ Modelled(img)
\* the model of the implementation satisfies the property (known findings attributed when Guarded)
ModelSatisfiesProperty == Done => Judge(img, out, Guarded) # "bad"
\* the conjuncts of the property by name
NoPanic == Done => out.res \in {"ok", "error", "hole"} /\ out.pres \in {"none", "ok", "error"}
PureCrashRecovers == (Done /\ ~Damaged(img) /\ ~IdxDamaged(img)) =>
                         /\ out.res = "ok" /\ Len(out.ents) >= img.synced + 1
                         /\ out.ents = Ids(Len(out.ents))
CommittedDamageReported == (Done /\ Damaged(img) /\ D(img) <= img.commit /\ Kf(img) = {}) => out.res = "error"
TailDamageDiscarded == (Done /\ Damaged(img) /\ D(img) > img.commit /\ Kf(img) = {} /\ ~IdxDamaged(img)) =>
                         /\ out.res = "ok" /\ out.ents = Ids(Len(out.ents)) /\ Len(out.ents) <= D(img)
NothingFabricated == (Done /\ out.pres = "ok" /\ Kf(img) = {}) => out.pents = out.ents \o [j \in 1..Len(img.post) |-> 100 + j - 1]
\* what a truncation removed never comes back (ids of removed entries are >= 200)
NothingResurrected == Done => /\ \A k \in 1..Len(out.ents) : ~IsStaleId(out.ents[k])
                              /\ \A k \in 1..Len(out.pents) : ~IsStaleId(out.pents[k])
\* the history leaves nothing but the log in the files (holds for the current code; the mutant breaks it)
NoResidue == FinalResidue(img) = {}
\* a recorded finding never hides anything but its own symptom
FindingsNarrow == (Done /\ Kf(img) # {} /\ ~RecoveryOk(img, out)) => Symptom(img, out)
\* a reopened WAL never serves a log with a gap: whatever it claims between FirstOffset and LastOffset is readable or
\* its damage is reported (a wholly zeroed LAST record of a closed segment with a lost index is the recorded exception)
NoHole == (Done /\ ~KfRoWipedLast(img)) => out.res # "hole"
\* every image handed to the harness is in the domain of the crash model
ImagesWellFormed == phase # "pre" => ImageOK(img)

ExportImg == (Export /\ phase' = "recovered") => PrintT(<<"IMG", ToJson(img' @@ [exp |-> out'])>>)
=============================================================================
