---------------------------- MODULE WalRecovery ----------------------------
(***************************************************************************)
(* Crash / corruption / recovery model of the segmented WAL (server/wal).  *)
(*                                                                         *)
(*   pre-crash state  -->  crash image (+ optional damage)  -->  outcome   *)
(*                                                                         *)
(* A pre-crash state is a sequence of appended entries (payload sizes; the *)
(* entry appended at offset o has id o), laid out in segments by the       *)
(* rollover rule of Wal.tla, a synced offset and a commit offset.  A crash *)
(* image keeps every durable record and leaves each other record absent,   *)
(* torn in the header, torn in the payload or complete (any combination,   *)
(* so holes are possible); index files of closed segments are never        *)
(* fsynced and can be missing / empty / short; the newest segment file may *)
(* not exist at all.  Damage hits one field of one record (or an index     *)
(* file) with a value class derived from the codec's arithmetic.           *)
(*                                                                         *)
(* The pre-crash state may be the result of a HISTORY (img.hist): rounds   *)
(* of "append some entries, then TruncateLog(keep)", followed by the       *)
(* appends that complete img.sizes.  The log that the history defines is   *)
(* img.sizes (ids 0..n-1); the entries that a truncation removed have ids  *)
(* >= 200 and must never be seen again.  What a truncation leaves in the   *)
(* segment files (Residue) is modelled in the shape of                     *)
(* readWriteSegment.Truncate / wal.TruncateLog.                            *)
(*                                                                         *)
(* Two descriptions of recovery live here:                                 *)
(*   RecoveryOk(img, out)  the property (C10), declarative;                *)
(*   Model(img)            recovery in the shape of the implementation     *)
(*                         (recoverWal / newReadOnlySegment / RecoverIndex *)
(*                         with the commit-offset test / lazy read-only    *)
(*                         segments), deterministic.                       *)
(* TLC checks exhaustively that Model satisfies RecoveryOk on every image  *)
(* of the bounded domain; real executions are judged against RecoveryOk    *)
(* (WalRecoveryTrace.tla).  Rules of the implementation that were repaired *)
(* are boolean constants: TRUE = the repaired code; the FALSE value is     *)
(* kept as a mutant configuration.  "Never panics" = the outcome domain    *)
(* {ok, error} has no other member.                                        *)
(*                                                                         *)
(* Answers of the reopened WAL.  An outcome is "ok" (every offset of       *)
(* [FirstOffset, LastOffset] was read), "error" (the open or the read of   *)
(* an entry REPORTED damage: a corruption error) or "hole": the WAL opened,*)
(* claims [FirstOffset, LastOffset], and answers "there is no such offset" *)
(* for an offset inside that range - it serves a log with a gap, the       *)
(* entries from there to the end of the segment are dropped without any    *)
(* report (out.ents = what was read in front of the gap).  A hole arises   *)
(* when the index of a closed segment covers fewer records than the        *)
(* segment holds: the index file of a closed segment is never fsynced, so  *)
(* after a crash it is rebuilt from the txn file (newReadOnlySegment ->    *)
(* RecoverIndex without a commit offset), and a rebuild that STOPS at a    *)
(* record instead of failing yields a short index, which is also written   *)
(* back.  "hole" is outside the outcome domain of the property.            *)
(***************************************************************************)
EXTENDS Integers, Sequences, FiniteSets, TLC

CONSTANTS SizeOverflowChecked, \* header size near 2^32 is rejected (FALSE: size+header wraps, slice panic / endless loop)
          IdxRobust,           \* a missing / too short index file is rebuilt from the txn file (FALSE: error / panic)
          ZeroTail,            \* recovery clears the writable segment behind the recovered end (FALSE: stale records stay)
          RolloverFlushes,     \* a segment is flushed before its successor is created (FALSE: closed segments can be torn)
          EmptyReported,       \* a zero size field at or below the commit offset with data behind it is an error (FALSE: end of log)
          TruncClearsTail,     \* Truncate zeroes the whole removed tail of the segment (FALSE: only the header of the first removed record)
          RoRebuildStrict,     \* a corrupt record met while the index of a CLOSED segment is rebuilt from its txn file fails the rebuild
                               \* (FALSE: the scan stops there and the segment is served with the records in front of the damage)
          RoEmptyReported      \* a zero size field with data behind it met by that rebuild (RecoverIndex without a commit offset) fails it
                               \* too (FALSE: taken for the end of the segment, the records behind it become a hole)

None == [rec |-> -1, field |-> "none", cls |-> "none", at |-> -1]

H(img) == IF img.codec = "v1" THEN 4 ELSE 12
N(img) == Len(img.sizes)

(***************************************************************************)
(* Layout: segment number (1..) and byte position of every record.         *)
(* readwrite_segment.go:HasSpace, wal_impl.go:rolloverSegment.             *)
(***************************************************************************)
RECURSIVE LayFrom(_, _, _, _, _)
LayFrom(img, sz, i, seg, cur) ==
    IF i > Len(sz) THEN <<>>
    ELSE LET len  == H(img) + sz[i]
             roll == cur + len > img.seg
             s    == IF roll THEN seg + 1 ELSE seg
             p    == IF roll THEN 0 ELSE cur
         IN <<[seg |-> s, pos |-> p]>> \o LayFrom(img, sz, i + 1, s, p + len)
LayOf(img, sz) == LayFrom(img, sz, 1, 1, 0)       \* layout of a log with the payload sizes sz
Lay(img) == LayOf(img, img.sizes)
NSeg(img) == IF N(img) = 0 THEN 1 ELSE Lay(img)[N(img)].seg
Live(img) == NSeg(img) - img.lost                     \* segment files present; the last one is writable
RecsOf(img, s) == {i \in 1..N(img) : Lay(img)[i].seg = s}
MinOf(S) == CHOOSE x \in S : \A y \in S : x <= y
MaxOf(S) == CHOOSE x \in S : \A y \in S : y <= x
FirstRec(img, s) == MinOf(RecsOf(img, s))
LastRec(img, s) == MaxOf(RecsOf(img, s))
Ids(m) == [k \in 1..m |-> k - 1]

(***************************************************************************)
(* History: how the pre-crash state came about.  img.hist is a sequence of *)
(* rounds [app |-> <<payload sizes>>, keep |-> k]: the entries `app` are   *)
(* appended to the log, then TruncateLog(k) removes every entry above      *)
(* offset k (k = -1: the whole log, wal.Clear).  After the last round the  *)
(* entries that complete img.sizes are appended.  The layout of a log does *)
(* not depend on its history (a truncation puts the write position back at *)
(* the end of record k and the rollover rule is a function of positions),  *)
(* so Lay(img) stays the layout of the final log.                          *)
(*                                                                         *)
(* An entry appended in round r at offset o is part of the final log iff   *)
(* no later truncation removes it; then its id is o.  Otherwise its id is  *)
(* StaleId(r, o): an entry that the history REMOVED.  The property speaks  *)
(* about ids 0..n-1 (and 100+j for the post phase) only: an entry with a   *)
(* stale id in a recovered log is a resurrected entry = fabricated.        *)
(***************************************************************************)
NR(img) == Len(img.hist)
StaleId(r, o) == 200 + 20 * (r - 1) + o
IsStaleId(id) == id >= 200

\* payload sizes of the log after r rounds / at the moment of the truncation of round r
RECURSIVE HLogAfter(_, _)
HLogAfter(hist, r) ==
    IF r = 0 THEN <<>>
    ELSE LET b == HLogAfter(hist, r - 1) \o hist[r].app
         IN SubSeq(b, 1, IF hist[r].keep + 1 < Len(b) THEN hist[r].keep + 1 ELSE Len(b))
HLogBefore(hist, r) == HLogAfter(hist, r - 1) \o hist[r].app
HFinal(hist) == HLogAfter(hist, Len(hist))
LogAfter(img, r) == HLogAfter(img.hist, r)
LogBefore(img, r) == HLogBefore(img.hist, r)

\* id of the entry at offset o of LogBefore(img, r)
BornIn(img, r, o) == MaxOf({q \in 1..r : o >= Len(LogAfter(img, q - 1))})     \* the round that appended it
EntryIdAt(img, r, o) ==
    LET q == BornIn(img, r, o)
    IN IF \A t \in q..NR(img) : o <= img.hist[t].keep THEN o ELSE StaleId(q, o)

HistOK(img) ==
    /\ (NR(img) > 0) => img.codec = "v2"                    \* the running code writes format v2 only
    /\ \A r \in 1..NR(img) :
          /\ img.hist[r].app # <<>>
          /\ \A j \in 1..Len(img.hist[r].app) : img.hist[r].app[j] >= 1 /\ H(img) + img.hist[r].app[j] <= img.seg
          /\ img.hist[r].keep \in -1..(Len(LogBefore(img, r)) - 1)
          /\ Len(LogBefore(img, r)) <= 20                    \* StaleId is injective
    /\ LET L == LogAfter(img, NR(img))
       IN Len(L) <= N(img) /\ SubSeq(img.sizes, 1, Len(L)) = L
    \* Truncate flushes the segment and the kept entries count as synced (wal.TruncateLog)
    /\ (NR(img) > 0) => img.synced >= img.hist[NR(img)].keep

(***************************************************************************)
(* What the history leaves in the segment files besides the log: intact    *)
(* records of removed entries ("stale" records [seg, pos, len, id]).       *)
(*   readWriteSegment.Append    overwrites whatever is at its position;    *)
(*   wal.TruncateLog(k)         deletes the segment files above the        *)
(*       segment sk of entry k; when sk is not the current segment it is   *)
(*       reopened as the writable one (newReadWriteSegment: scan, which    *)
(*       also walks into stale records chained to the live ones, and clear *)
(*       the rest - ZeroTail); then                                        *)
(*   readWriteSegment.Truncate(k)  clears [end of record k, write position)*)
(*       when TruncClearsTail, and only the header of the first removed    *)
(*       record otherwise: the later removed records stay intact.          *)
(* A partly overwritten / partly cleared record is garbage: a scan that    *)
(* arrives there finds a corrupt record above the commit offset and stops. *)
(***************************************************************************)
Overlaps(x, s, pos, len) == x.seg = s /\ pos < x.pos + x.len /\ x.pos < pos + len
StaleAt(st, s, p) == {x \in st : x.seg = s /\ x.pos = p}
RECURSIVE ChainSeq(_, _, _)
ChainSeq(st, s, p) ==            \* the stale records a scan walks through when it arrives at position p of segment s
    IF StaleAt(st, s, p) = {} THEN <<>>
    ELSE LET x == CHOOSE y \in StaleAt(st, s, p) : TRUE IN <<x>> \o ChainSeq(st, s, p + x.len)
RECURSIVE SumLen(_)
SumLen(q) == IF q = <<>> THEN 0 ELSE q[1].len + SumLen(Tail(q))

RECURSIVE Residue(_, _)
Residue(img, r) ==               \* stale records on disk right after the truncation of round r
    IF r = 0 THEN {}
    ELSE LET old  == Residue(img, r - 1)
             n0   == Len(LogAfter(img, r - 1))
             bef  == LogBefore(img, r)
             nb   == Len(bef)
             lay  == LayOf(img, bef)
             k    == img.hist[r].keep
             RL(i) == H(img) + bef[i]
             o1   == {x \in old : ~\E i \in (n0 + 1)..nb : Overlaps(x, lay[i].seg, lay[i].pos, RL(i))}
         IN IF k = -1 THEN {}                                         \* wal.Clear removes the directory
            ELSE LET sk      == lay[k + 1].seg
                     cur     == lay[nb].seg
                     endk    == lay[k + 1].pos + RL(k + 1)
                     lastSk  == MaxOf({i \in 1..nb : lay[i].seg = sk})
                     liveEnd == lay[lastSk].pos + RL(lastSk)
                     chain   == IF sk < cur THEN ChainSeq(o1, sk, liveEnd) ELSE <<>>
                     cfo     == liveEnd + SumLen(chain)                \* write position when Truncate runs
                     o2      == IF sk < cur /\ ZeroTail THEN {x \in o1 : x.seg # sk \/ x.pos < cfo} ELSE o1
                     clrTo   == IF TruncClearsTail THEN cfo
                                ELSE IF endk + H(img) < cfo THEN endk + H(img) ELSE cfo
                     removed == {[seg |-> sk, pos |-> lay[i].pos, len |-> RL(i), id |-> EntryIdAt(img, r, i - 1)] :
                                    i \in (k + 2)..lastSk}
                 IN {x \in o2 \cup removed : x.seg < sk \/ (x.seg = sk /\ x.pos >= clrTo)}

\* stale records in the files of the pre-crash state: the appends after the last round overwrite some
FinalResidue(img) ==
    LET old == Residue(img, NR(img))
        n0  == Len(LogAfter(img, NR(img)))
    IN {x \in old : ~\E i \in (n0 + 1)..N(img) : Overlaps(x, Lay(img)[i].seg, Lay(img)[i].pos, H(img) + img.sizes[i])}

(***************************************************************************)
(* Well-formed images (the domain of the crash model).                     *)
(***************************************************************************)
SizeClasses == {"s0", "s1", "exact", "plus1", "max31", "ovf_lo", "ovf_at", "ovf_max"}
IdxCrash  == {"missing", "empty", "short", "trunc"}   \* states a crash alone can leave (the file is never fsynced)
IdxDamage == {"zeros", "flip"}

\* last offset that is certainly on disk
Durable(img) ==
    IF RolloverFlushes /\ NSeg(img) > 1
    THEN LET c == LastRec(img, NSeg(img) - 1) - 1 IN IF c > img.synced THEN c ELSE img.synced
    ELSE img.synced

ImageOK(img) ==
    /\ img.codec \in {"v1", "v2"}
    /\ \A i \in 1..N(img) : H(img) + img.sizes[i] <= img.seg
    /\ img.synced \in -1..(N(img) - 1) /\ img.commit \in -1..img.synced
    /\ Len(img.rs) = N(img)
    /\ \A i \in 1..N(img) :
          /\ img.rs[i] \in (IF img.codec = "v1" THEN {"complete", "absent"} ELSE {"complete", "absent", "tornh", "tornp"})
          /\ (i - 1 <= Durable(img)) => img.rs[i] = "complete"
    /\ img.lost \in 0..(NSeg(img) - 1)
    /\ \A s \in (Live(img) + 1)..NSeg(img) : FirstRec(img, s) - 1 > img.synced
    /\ Len(img.idx) = NSeg(img) - 1
    /\ \A s \in 1..(NSeg(img) - 1) :
          img.idx[s] \in (IF img.codec = "v1" THEN {"ok", "missing"} ELSE {"ok"} \cup IdxCrash \cup IdxDamage)
    /\ \/ img.dmg.field = "none" /\ img.dmg.rec = -1
       \/ /\ img.dmg.rec \in 0..(N(img) - 1)
          /\ img.rs[img.dmg.rec + 1] = "complete"
          /\ Lay(img)[img.dmg.rec + 1].seg <= Live(img)
          /\ \/ img.dmg.field = "size" /\ img.dmg.cls \in SizeClasses
             \/ img.codec = "v2" /\ img.dmg.field \in {"prevcrc", "crc", "payload"} /\ img.dmg.cls \in {"rand", "zero"}
             \/ img.codec = "v2" /\ img.dmg.field = "record" /\ img.dmg.cls = "zero"       \* the whole record is zeroed
             \/ /\ img.codec = "v2" /\ img.dmg.field = "splice"
                /\ img.dmg.at \in 0..(N(img) - 1) /\ img.dmg.at # img.dmg.rec
                /\ img.sizes[img.dmg.at + 1] = img.sizes[img.dmg.rec + 1]
    /\ \A j \in 1..Len(img.post) : 12 + img.post[j] <= img.seg      \* new segments are always written in format v2
    /\ HistOK(img)

\* the damage changes a byte
Damaged(img) == img.dmg.field # "none" /\ ~(img.dmg.field = "size" /\ img.dmg.cls = "exact")
D(img) == img.dmg.rec
IdxDamaged(img) == \E s \in 1..(Live(img) - 1) : img.idx[s] \in IdxDamage

(***************************************************************************)
(* Known findings (recorded in known-findings.json, not repaired): the     *)
(* trigger is a predicate of the image, the symptom is the exact outcome.  *)
(***************************************************************************)
\* non-zero bytes follow record i in its segment file
DataFollows(img, i) ==
    \/ img.dmg.field = "size" /\ img.dmg.rec = i - 1 /\ img.rs[i] = "complete"
    \/ \E j \in (i + 1)..N(img) : Lay(img)[j].seg = Lay(img)[i].seg /\ img.rs[j] # "absent"
\* a committed record at the very end of the writable segment that is zeroed completely cannot be told from
\* the end of the log (the WAL does not compare its last offset with the commit offset)
KfWipedLast(img) == /\ img.dmg.field = "record" /\ D(img) <= img.commit
                    /\ Lay(img)[D(img) + 1].seg = Live(img) /\ ~DataFollows(img, D(img) + 1)
\* read-only segments are opened lazily and never validated against the commit offset:
\* damage above the commit offset surfaces as an error instead of being discarded
KfRoTail(img) == /\ Damaged(img) /\ D(img) > img.commit /\ Lay(img)[D(img) + 1].seg < Live(img)
\* a record's checksum is seeded with the previous-crc field of its own header; nothing compares
\* that field with the checksum of the record before it
KfSplice(img) == img.dmg.field = "splice"
\* a record at the very end of a CLOSED segment that is zeroed completely (nothing non-zero behind it) cannot be told
\* from the end of the segment by the rebuild of a lost index (newReadOnlySegment does not know that the segment must
\* reach the base offset of its successor): the segment is served with the records in front of it, the last one is a
\* hole.  (A zeroed size field / record with data behind it is reported since the repair - rule RoEmptyReported.)
KfRoWipedLast(img) ==
    /\ img.codec = "v2" /\ img.dmg.field = "record"
    /\ LET s == Lay(img)[D(img) + 1].seg
       IN /\ s < Live(img) /\ D(img) + 1 > FirstRec(img, s) /\ ~DataFollows(img, D(img) + 1)
          \* the index is rebuilt.  With a history the index file of a closed segment is not reliable either:
          \* WriteIndex does not truncate the file, so a segment that was closed, reopened by TruncateLog and
          \* closed again with fewer records keeps a stale tail, fails its checksum and is rebuilt on every open
          /\ img.idx[s] # "ok" \/ NR(img) > 0
Kf(img) == (IF KfWipedLast(img) THEN {"wipedLast"} ELSE {}) \cup
           (IF KfRoTail(img) THEN {"roTail"} ELSE {}) \cup
           (IF KfSplice(img) THEN {"splice"} ELSE {}) \cup
           (IF KfRoWipedLast(img) THEN {"roWipedLast"} ELSE {})

(***************************************************************************)
(* The property.                                                           *)
(***************************************************************************)
\* entries as read back: a clean prefix of what was appended, holding at least `lo` and at most `hi` entries
CleanPrefix(out, lo, hi) ==
    /\ out.res = "ok"
    /\ \E m \in lo..hi : out.ents = Ids(m)
    /\ out.first = (IF out.ents = <<>> THEN -1 ELSE 0)
    /\ out.last = Len(out.ents) - 1
\* life after the recovery: what is appended next follows the recovered log, nothing else ever shows up
PostOk(img, out) ==
    \/ out.pres = "none"
    \/ /\ out.pres = "ok"
       /\ out.pents = out.ents \o [j \in 1..Len(img.post) |-> 100 + j - 1]
       /\ out.pfirst = 0 /\ out.plast = Len(out.pents) - 1

RecoveryOkV2(img, out) ==
    /\ out.res \in {"ok", "error"}
    /\ IF Damaged(img) /\ D(img) <= img.commit
       THEN out.res = "error"                                             \* committed data damaged: reported
       ELSE /\ \/ IF Damaged(img)
                  THEN LET lo == IF Durable(img) + 1 < D(img) THEN Durable(img) + 1 ELSE D(img)
                       IN CleanPrefix(out, lo, D(img))                    \* uncommitted tail damaged: discarded
                  ELSE CleanPrefix(out, Durable(img) + 1, N(img))         \* crash: synced entries + prefix of the tail
               \/ IdxDamaged(img) /\ out.res = "error"                    \* a damaged index may also be reported
            /\ out.res = "ok" => PostOk(img, out)

\* v1 has no checksum: crash images at record granularity are claimed in full; with a damaged size field only
\* "no panic, no hang" and the entries in front of the damage
RecoveryOkV1(img, out) ==
    /\ out.res \in {"ok", "error"} \/ (Damaged(img) /\ out.res = "hole")     \* no checksum: damage cannot be told from the end
    /\ IF Damaged(img)
       THEN /\ out.res \in {"ok", "hole"} => LET k == IF Len(out.ents) < D(img) THEN Len(out.ents) ELSE D(img)
                                 IN SubSeq(out.ents, 1, k) = Ids(k)
            /\ out.pres \in {"none", "ok", "error"}
       ELSE /\ CleanPrefix(out, Durable(img) + 1, N(img))
            /\ PostOk(img, out)

RecoveryOk(img, out) == IF img.codec = "v1" THEN RecoveryOkV1(img, out) ELSE RecoveryOkV2(img, out)

\* the exact symptom of each known finding (anything else on such an image is a different violation)
Symptom(img, out) ==
    \/ /\ KfWipedLast(img)
       /\ CleanPrefix(out, D(img), D(img)) /\ PostOk(img, out)
    \/ /\ KfRoTail(img) /\ out.res = "error"
    \/ /\ KfSplice(img) /\ out.res = "ok"
       /\ \E m \in (D(img) + 1)..N(img) :
             out.ents = [k \in 1..m |-> IF k = D(img) + 1 THEN img.dmg.at ELSE k - 1]
       /\ out.first = 0 /\ out.last = Len(out.ents) - 1
       /\ \/ out.pres = "none"
          \/ out.pres = "ok" /\ out.pents = out.ents \o [j \in 1..Len(img.post) |-> 100 + j - 1]
    \/ /\ KfRoWipedLast(img) /\ out.res = "hole" /\ out.ents = Ids(D(img)) \* the gap is exactly the zeroed last record

\* verdict on one outcome: "ok", "kf:<id>" (a recorded finding shows its symptom) or "bad"
Judge(img, out, guarded) ==
    IF RecoveryOk(img, out) THEN "ok"
    ELSE IF guarded /\ Kf(img) # {} /\ Symptom(img, out)
         THEN "kf"
         ELSE "bad"

(***************************************************************************)
(* Recovery in the shape of the implementation (codec v2).                 *)
(***************************************************************************)
\* what ReadHeaderWithValidation sees at record i
Stat(img, i) ==
    IF img.rs[i] = "absent" THEN "empty"
    ELSE IF img.rs[i] \in {"tornh", "tornp"} THEN "corrupt"
    ELSE IF img.dmg.field # "none" /\ img.dmg.rec = i - 1
         THEN CASE img.dmg.field = "size" ->
                      (CASE img.dmg.cls = "s0" -> "empty"
                         [] img.dmg.cls = "exact" -> "valid"
                         [] img.dmg.cls \in {"ovf_at", "ovf_max"} -> "ovf"
                         [] OTHER -> "corrupt")
                [] img.dmg.field = "record" -> "empty"
                [] img.dmg.field = "splice" -> "valid"          \* self-consistent: accepted
                [] OTHER -> "corrupt"
         ELSE "valid"
\* the id a reader gets for record i
IdAt(img, i) == IF img.dmg.field = "splice" /\ img.dmg.rec = i - 1 THEN img.dmg.at ELSE i - 1

\* codec.RecoverIndex from record i to record hi; useCommit = a commit offset was passed.
\* Result: res and `upto` = last record accepted.
RECURSIVE Scan(_, _, _, _)
Scan(img, i, hi, useCommit) ==
    IF i > hi THEN [res |-> "ok", upto |-> hi]
    ELSE LET st == Stat(img, i) IN
         IF st = "valid" THEN Scan(img, i + 1, hi, useCommit)
         ELSE IF st = "empty"
              THEN IF /\ DataFollows(img, i)                                         \* !isZeroed(buf[newFileOffset:])
                      /\ IF useCommit THEN EmptyReported /\ i - 1 <= img.commit
                                      ELSE RoEmptyReported                           \* nil commit offset: nothing may be discarded
                   THEN [res |-> "error", upto |-> i - 1]
                   ELSE [res |-> "ok", upto |-> i - 1]                               \* taken for the end of the log
         ELSE IF st = "ovf" /\ ~SizeOverflowChecked THEN [res |-> "panic", upto |-> i - 1]
         ELSE IF useCommit /\ i - 1 > img.commit THEN [res |-> "ok", upto |-> i - 1]   \* discard
         ELSE IF ~useCommit /\ ~RoRebuildStrict THEN [res |-> "ok", upto |-> i - 1]    \* mutant: closed segment cut short
         ELSE [res |-> "error", upto |-> i - 1]

\* newReadOnlySegment(s): res and `upto` = last record the index covers
OpenRO(img, s) ==
    LET lo == FirstRec(img, s)
        hi == LastRec(img, s)
        ix == img.idx[s]
        r  == IF ix = "ok" THEN [res |-> "ok", upto |-> hi]
              ELSE IF ix \in {"missing", "empty", "short"} /\ ~IdxRobust
                   THEN [res |-> IF ix = "missing" THEN "error" ELSE "panic", upto |-> lo - 1]
                   ELSE Scan(img, lo, hi, FALSE)
    IN IF r.res # "ok" THEN r
       ELSE IF r.upto < lo                                                \* nothing indexed: fileOffset(idx, base, base-1)
            THEN [res |-> IF IdxRobust THEN "error" ELSE "panic", upto |-> r.upto]
       ELSE LET st == Stat(img, r.upto) IN                                \* "recover the last crc"
            IF st = "valid" THEN r
            ELSE IF st = "ovf" /\ ~SizeOverflowChecked THEN [res |-> "panic", upto |-> r.upto]
            ELSE [res |-> "error", upto |-> r.upto]

\* recoverWal + reading first..last
RECURSIVE ReadAll(_, _, _, _)
ReadAll(img, i, last, acc) ==          \* i = record to read next; last = last record of the log
    IF i > last THEN [res |-> "ok", ents |-> acc]
    ELSE LET s  == Lay(img)[i].seg
             ro == IF s < Live(img) THEN OpenRO(img, s) ELSE [res |-> "ok", upto |-> last]
             st == Stat(img, i)
         IN IF ro.res # "ok" THEN [res |-> ro.res, ents |-> acc]
            ELSE IF i > ro.upto THEN [res |-> "hole", ents |-> acc]       \* readOnlySegment.Read: offset > lastOffset
            ELSE IF st = "valid" THEN ReadAll(img, i + 1, last, Append(acc, IdAt(img, i)))
            ELSE IF st = "ovf" /\ ~SizeOverflowChecked THEN [res |-> "panic", ents |-> acc]
            ELSE [res |-> "error", ents |-> acc]

Recovered(img) ==
    LET live == Live(img)
        hro  == IF live > 1 THEN OpenRO(img, live - 1) ELSE [res |-> "ok", upto |-> 0]
        rw   == IF N(img) = 0 THEN [res |-> "ok", upto |-> 0]
                ELSE Scan(img, FirstRec(img, live), LastRec(img, live), TRUE)
        \* the scan accepted every live record of the writable segment: it goes on at the end of the last one and
        \* accepts the stale records it finds there (a record is validated against the previous-crc field of its own
        \* header only, and a stale record is above the commit offset or it would not have been removed)
        lr   == LastRec(img, live)
        ch   == IF N(img) > 0 /\ rw.res = "ok" /\ rw.upto = lr
                THEN ChainSeq(FinalResidue(img), live, Lay(img)[lr].pos + H(img) + img.sizes[lr]) ELSE <<>>
    IN IF hro.res # "ok" THEN [res |-> hro.res, ents |-> <<>>, upto |-> 0, extra |-> 0]
       ELSE IF rw.res # "ok" THEN [res |-> rw.res, ents |-> <<>>, upto |-> 0, extra |-> 0]
       ELSE LET ra == ReadAll(img, 1, rw.upto, <<>>)
            IN IF ra.res # "ok" THEN ra @@ [upto |-> rw.upto, extra |-> 0]
               ELSE [res |-> "ok", ents |-> ra.ents \o [k \in 1..Len(ch) |-> ch[k].id], upto |-> rw.upto, extra |-> SumLen(ch)]

\* appends after the recovery, clean close, reopen: the writable segment is scanned again
RECURSIVE PostLay(_, _, _, _)
PostLay(img, j, cur, rolled) ==        \* -> [cur, rolled] after appending post[j..]
    IF j > Len(img.post) THEN [cur |-> cur, rolled |-> rolled]
    ELSE LET len == H(img) + img.post[j] IN
         IF cur + len > img.seg THEN PostLay(img, j + 1, len, TRUE) ELSE PostLay(img, j + 1, cur + len, rolled)

Model(img) ==
    LET r    == Recovered(img)
        live == Live(img)
        none == [pres |-> "none", pents |-> <<>>, pfirst |-> -1, plast |-> -1]
        base == [res |-> r.res, ents |-> r.ents,
                 first |-> IF r.res = "ok" /\ r.ents # <<>> THEN 0 ELSE -1,
                 last |-> IF r.res = "ok" THEN Len(r.ents) - 1 ELSE -1]
    IN IF r.res # "ok" \/ img.post = <<>> THEN base @@ none
       ELSE LET inRw == r.upto >= 1 /\ Lay(img)[r.upto].seg = live
                cur0 == IF N(img) > 0 /\ inRw THEN Lay(img)[r.upto].pos + H(img) + img.sizes[r.upto] + r.extra ELSE 0
                pl   == PostLay(img, 1, cur0, FALSE)
                new  == [j \in 1..Len(img.post) |-> 100 + j - 1]
                \* a stale record that starts exactly where the new data ends
                J    == {j \in (r.upto + 1)..N(img) : Lay(img)[j].seg = live /\ Lay(img)[j].pos = pl.cur}
                st   == IF ZeroTail \/ pl.rolled \/ J = {} THEN [res |-> "ok", upto |-> 0]
                        ELSE Scan(img, MinOf(J), LastRec(img, live), TRUE)
                back == IF ZeroTail \/ pl.rolled \/ J = {} THEN <<>>
                        ELSE [k \in 1..(st.upto - MinOf(J) + 1) |-> IdAt(img, MinOf(J) + k - 1)]
                pe   == r.ents \o new \o back
            IN IF st.res # "ok" THEN base @@ [pres |-> st.res, pents |-> <<>>, pfirst |-> -1, plast |-> -1]
               ELSE base @@ [pres |-> "ok", pents |-> pe, pfirst |-> 0, plast |-> Len(pe) - 1]
=============================================================================
