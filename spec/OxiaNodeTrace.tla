--------------------------- MODULE OxiaNodeTrace ---------------------------
(***************************************************************************)
(* Code -> spec for the storage node: every event that the real leader /   *)
(* follower controllers and the quorum tracker emit at their linearization *)
(* points (hooks under the `verif` build tag, written by the repository's  *)
(* own tests, by the replay harness and by stress drivers) must be a step  *)
(* of the node-local rules of OxiaShard.tla.  The rules are those of the   *)
(* handlers NewTerm / Truncate / append / sync-ack / apply / BecomeLeader /*)
(* write, stated per controller instance (`i`): the environment (who sends *)
(* what) is unconstrained, the reaction of the node is.                    *)
(* Real numbering (offsets and terms start at 0, -1 = none).               *)
(***************************************************************************)
EXTENDS Integers, Sequences, FiniteSets, Json, TLC

TraceLog == ndJsonDeserialize("trace.ndjson")

VARIABLES inst,   \* controller instance id -> its tracked state
          kfs,    \* known-finding triggers seen in the trace
          l
tvars == <<inst, kfs, l>>

None == [kind |-> "none"]
Get(i) == IF i \in DOMAIN inst THEN inst[i] ELSE None
Put(i, r) == [x \in DOMAIN inst \cup {i} |-> IF x = i THEN r ELSE inst[x]]

TInit == inst = [x \in {} |-> None] /\ kfs = {} /\ l = 1

\* ---- follower controller (follower_controller.go)
\* snap: a snapshot was installed and nothing has been appended since: the WAL is physically empty and the
\* head is reported as (-1,-1) although lastAppendedOffset is the snapshot's commit offset
FCreated(e) == inst' = Put(e.i, [kind |-> "F", term |-> e.term, status |-> e.status, lastapp |-> e.lastapp, commit |-> e.commit, snap |-> FALSE])

FNewTerm(e) == LET s == Get(e.i) IN
    /\ s.kind = "F"
    /\ e.ok = (e.req >= s.term)                                   \* total handler: refused iff the term is older
    /\ IF e.ok THEN /\ e.term = e.req
                    /\ e.lastapp = s.lastapp
                    /\ e.ho = IF s.snap THEN -1 ELSE s.lastapp       \* C04: the reported head is the end of the log
                    /\ inst' = Put(e.i, [s EXCEPT !.term = e.req, !.status = "FENCED"])
               ELSE e.term = s.term /\ inst' = inst

FTruncate(e) == LET s == Get(e.i) IN
    /\ s.kind = "F"
    /\ e.ok = (s.status = "FENCED" /\ e.req = s.term)
    /\ IF e.ok THEN /\ e.lastapp <= e.to
                    /\ inst' = Put(e.i, [s EXCEPT !.status = "FOLLOWER", !.lastapp = e.lastapp])
               ELSE inst' = inst

FAppend(e) == LET s == Get(e.i) IN
    /\ s.kind = "F"
    /\ e.term = s.term /\ e.lastapp = s.lastapp                     \* the handler saw the state we track
    /\ (e.out = "badterm") = (e.mterm # s.term)                      \* C04: nothing of another term is accepted
    /\ (e.out = "dup") = (e.mterm = s.term /\ e.off <= s.lastapp)
    /\ (e.out = "appended") => (e.mterm = s.term /\ e.off = s.lastapp + 1)
    /\ inst' = IF e.out = "appended" THEN Put(e.i, [s EXCEPT !.status = "FOLLOWER", !.lastapp = e.off, !.snap = FALSE])
               ELSE IF e.out = "dup" THEN Put(e.i, [s EXCEPT !.status = "FOLLOWER"]) ELSE inst

\* acks of a sync round: only what is synced (C03)
FAck(e) == Get(e.i).kind = "F" /\ e.off <= e.synced /\ inst' = inst

\* apply loop: in offset order, exactly once, never beyond the advertised commit offset (C07)
FApply(e) == LET s == Get(e.i) IN
    /\ s.kind = "F"
    \* (not compared with lastapp: the sync goroutine can make an entry durable, acknowledge it and have it
    \* applied before the append handler, which wrote it to the WAL, has emitted its own event)
    /\ e.prev = s.commit /\ e.off = s.commit + 1 /\ e.off <= e.adv
    /\ inst' = Put(e.i, [s EXCEPT !.commit = e.off])

FSnapshot(e) == LET s == Get(e.i) IN
    /\ s.kind = "F"
    \* C04: a snapshot is installed only from the leader of the node's own term (sterm: term of the stream)
    /\ (s.term = -1 \/ e.sterm = -1 \/ e.sterm = s.term)
    /\ inst' = Put(e.i, [s EXCEPT !.commit = e.commit, !.lastapp = e.commit, !.term = e.term, !.snap = TRUE])

\* ---- leader controller (leader_controller.go)
LCreated(e) == inst' = Put(e.i, [kind |-> "L", term |-> e.term, status |-> e.status, alloc |-> -1, synced |-> -1, apply |-> -1])

LNewTerm(e) == LET s == Get(e.i) IN
    /\ s.kind = "L"
    /\ e.ok = ~(e.req < s.term \/ (e.req = s.term /\ s.status # "FENCED"))
    /\ IF e.ok THEN e.term = e.req /\ inst' = Put(e.i, [s EXCEPT !.term = e.req, !.status = "FENCED"])
               ELSE e.term = s.term /\ inst' = inst

LBecome(e) == LET s == Get(e.i) IN
    /\ s.kind = "L"
    /\ e.ok = (s.status = "FENCED" /\ e.req = s.term)
    \* C02/C01: the node serves only when the log it was elected with is committed on a quorum
    /\ IF e.ok THEN /\ (e.rf \div 2 = 0 \/ e.commit >= e.head)    \* (no follower acks are needed with RF = 1)
                    /\ inst' = Put(e.i, [s EXCEPT !.status = "LEADER", !.alloc = e.head, !.synced = e.head, !.apply = e.head])
               ELSE inst' = inst

\* C04/C08: offsets are handed out only by a leader, in its term, consecutively
LAlloc(e) == LET s == Get(e.i) IN
    /\ s.kind = "L" /\ s.status = "LEADER" /\ e.status = "LEADER" /\ e.term = s.term
    /\ e.off = s.alloc + 1
    /\ inst' = Put(e.i, [s EXCEPT !.alloc = e.off])

\* C08: entries reach the WAL (and their sync callbacks run) in allocation order
LSynced(e) == LET s == Get(e.i) IN
    /\ s.kind = "L" /\ e.off = s.synced + 1 /\ e.off <= s.alloc
    /\ inst' = Put(e.i, [s EXCEPT !.synced = e.off])

\* C07/C08: applied in offset order, exactly once, only when committed
LApply(e) == LET s == Get(e.i) IN
    /\ s.kind = "L" /\ e.off = s.apply + 1 /\ e.off <= e.commit /\ e.off <= s.synced
    /\ inst' = Put(e.i, [s EXCEPT !.apply = e.off])

\* ---- quorum tracker: the commit offset only moves forward and never passes the head (C08)
TCommit(e) == e.off > e.prev /\ e.off <= e.head /\ inst' = inst

Step(e) ==
    \/ (e.ev = "FCreated" /\ FCreated(e))
    \/ (e.ev = "FNewTerm" /\ FNewTerm(e))
    \/ (e.ev = "FTruncate" /\ FTruncate(e))
    \/ (e.ev = "FAppend" /\ FAppend(e))
    \/ (e.ev = "FAck" /\ FAck(e))
    \/ (e.ev = "FApply" /\ FApply(e))
    \/ (e.ev = "FSnapshot" /\ FSnapshot(e))
    \/ (e.ev = "LCreated" /\ LCreated(e))
    \/ (e.ev = "LNewTerm" /\ LNewTerm(e))
    \/ (e.ev = "LBecome" /\ LBecome(e))
    \/ (e.ev = "LAlloc" /\ LAlloc(e))
    \/ (e.ev = "LSynced" /\ LSynced(e))
    \/ (e.ev = "LApply" /\ LApply(e))
    \/ (e.ev = "TCommit" /\ TCommit(e))
    \/ (e.ev = "LAppendFail" /\ inst' = inst)

TNext == /\ l <= Len(TraceLog) /\ l' = l + 1
         /\ LET e == TraceLog[l] IN
            /\ Step(e)
            \* known finding dupAck: a duplicate is acknowledged although its first copy is not synced yet
            /\ kfs' = IF e.ev = "FAppend" /\ e.out = "dup" /\ e.off > e.synced THEN kfs \cup {"dupAck"} ELSE kfs

TraceSpec == TInit /\ [][TNext]_tvars

HighWater == IF l > TLCGet(1) THEN TLCSet(1, l) ELSE TRUE
ASSUME TLCSet(1, 0)
TraceAccepted == IF TLCGet(1) = Len(TraceLog) + 1 THEN TRUE ELSE Print(<<"REJECTED", TLCGet(1), Len(TraceLog)>>, FALSE)
KfSeen == kfs
=============================================================================
