--------------------------- MODULE OxiaCoordTrace ---------------------------
(* Trace validation of a real ShardController against OxiaCoord: one line of *)
(* trace.ndjson per input/output event, in the order in which the harness's  *)
(* metadata store and RPC provider saw them (a single lock orders them).     *)
EXTENDS OxiaCoord, Json, TLC

TraceLog == ndJsonDeserialize("trace.ndjson")
VARIABLE l
tvars == <<stored, el, sentMax, alive, l>>

SetOf(s) == {s[i] : i \in 1..Len(s)}
Meta(m) == [term |-> m.term, ens |-> SetOf(m.ens), removed |-> SetOf(m.removed), leader |-> m.leader, st |-> m.st]
FmOf(s) == [n \in {s[i].n : i \in 1..Len(s)} |-> LET i == CHOOSE k \in 1..Len(s) : s[k].n = n IN [t |-> s[i].t, o |-> s[i].o]]

TInit == l = 1 /\ CInit(Meta(TraceLog[1].meta))

TNext ==
    /\ l <= Len(TraceLog)
    /\ l' = l + 1
    /\ LET e == TraceLog[l] IN
       \/ e.ev = "Reset" /\ stored' = Meta(e.meta) /\ el' = NoEl /\ sentMax' = -1 /\ alive' = TRUE
       \/ e.ev = "Store" /\ LET m == Meta(e.meta) IN
             IF m.ens = stored.ens THEN CStore(m)
             ELSE \E from \in stored.ens, to \in m.ens : CStoreSwap(m, from, to)
       \/ e.ev = "SendNewTerm" /\ CSendNewTerm(e.n, e.t)
       \/ e.ev = "RecvNewTerm" /\ CRecvNewTerm(e.n, e.t, e.ok, e.head)
       \/ e.ev = "SendBecomeLeader" /\ CSendBecomeLeader(e.n, e.t, e.rf, FmOf(e.fm))
       \/ e.ev = "RecvBecomeLeader" /\ CRecvBecomeLeader(e.ok)
       \/ e.ev = "SendDeleteShard" /\ CSendDeleteShard(e.n, e.t)
       \/ e.ev = "SendAddFollower" /\ CSendAddFollower(e.l, e.f, e.t, e.head)
       \/ e.ev = "Crash" /\ CCrash
       \/ e.ev = "Restart" /\ CRestart

TraceSpec == TInit /\ [][TNext]_tvars

HighWater == IF l > TLCGet(1) THEN TLCSet(1, l) ELSE TRUE
ASSUME TLCSet(1, 0)
TraceAccepted == IF TLCGet(1) = Len(TraceLog) + 1 THEN TRUE ELSE Print(<<"REJECTED", TLCGet(1), Len(TraceLog)>>, FALSE)
=============================================================================
