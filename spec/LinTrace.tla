------------------------------ MODULE LinTrace ------------------------------
(* Is a recorded client history linearizable (Lin)?  One line per event;   *)
(* silent Linearize steps are inferred by TLC (depth-first search).        *)
EXTENDS Lin, Json, TLC

TraceLog == ndJsonDeserialize("trace.ndjson")
VARIABLE l
tvars == <<present, past, pend, done, l>>
SetOf(s) == {s[i] : i \in 1..Len(s)}

TInit == LInit /\ l = 1

Consume ==
    /\ l <= Len(TraceLog)
    /\ l' = l + 1
    /\ LET e == TraceLog[l] IN
       \/ e.ev = "reset" /\ present' = {} /\ past' = {{}} /\ pend' = [o \in {} |-> 0] /\ done' = [o \in {} |-> 0]
       \/ e.ev = "invw" /\ InvWrite(e.op, e.w)
       \/ e.ev = "invr" /\ InvRead(e.op)
       \/ e.ev = "retw" /\ RetWrite(e.op)
       \/ e.ev = "retr" /\ RetRead(e.op, SetOf(e.res), e.stale)

\* a silent linearization step is only useful right before the response that needs it, or (for writes whose
\* outcome stays unknown) before a read that observed them: restrict to operations that are still pending
Silent == /\ l <= Len(TraceLog)
          /\ \E op \in DOMAIN pend : Linearize(op)
          /\ UNCHANGED l

TNext == Consume \/ Silent
TraceSpec == TInit /\ [][TNext]_tvars

HighWater == IF l > TLCGet(1) THEN TLCSet(1, l) ELSE TRUE
ASSUME TLCSet(1, 0)
TraceAccepted == IF TLCGet(1) = Len(TraceLog) + 1 THEN TRUE ELSE Print(<<"REJECTED", TLCGet(1), Len(TraceLog)>>, FALSE)
=============================================================================
