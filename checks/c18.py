"""C18 - the shard map always partitions the hash space and routes every key to one shard.

1. TLC checks the design exhaustively on a small hash space with the real limb arithmetic (ShardMapMC):
   every status reachable by config changes / deletions partitions the space per live namespace, ids are unique
   and never reused, the client's table routes every hash to exactly one shard and agrees with the published
   assignments.  The mutant AllOrNothing=FALSE (refused shards silently left out - the behaviour found in the
   code and fixed) must be caught.
2. spec -> code: every transition of a bounded state graph and long simulated behaviours are replayed on the real
   ApplyClusterChanges (+ real ensemble selector, real StatusResource, client shard manager); behaviours of the
   EagerDelete variant drive a real Coordinator (memory metadata, fake RPC provider). The status projection
   is compared after every step.
3. code -> spec: every status, every published ShardAssignments message, every client table and routing
   decision observed in 2., and GenerateShards for 1..64 and 2^k+-1 up to 4096 shards, are judged by TLC
   (ShardMapTrace, LimbMax = 65535: the real 32-bit space on 16-bit limbs).
A rejected trace is re-executed; only a reproduced rejection is reported.
"""
import json
import os
import re
import vf


def _export(r, tag, path, every=1):
    n = k = 0
    pre = '<<"%s", "' % tag
    with open(path, "w") as f:
        for l in r.out.splitlines():
            if l.startswith(pre) and l.endswith('">>'):
                k += 1
                if k % every:
                    continue
                f.write(l[len(pre):-3].replace('\\"', '"').replace("\\\\", "\\") + "\n")
                n += 1
    return n


def _validate(ctx, path, label):
    """returns (bad line numbers 1-based, nonconforming line numbers, total)"""
    total = sum(1 for _ in open(path))
    r = ctx.tlc("ShardMapTrace", "shardmap-trace.cfg", files=[(path, "trace.ndjson")], workers=1, deque=True,
                label=label, seed=False, allow_violation=True, heap="8g")
    m = re.search(r'<<\s*"NOTES",\s*"(\[[^"]*\])"\s*>>', r.out)
    if not m:
        raise vf.Inconclusive("trace validation printed no NOTES line:\n" + r.out[-2000:])
    nonconf = json.loads(m.group(1))
    if r.ok:
        return [], nonconf, total
    m = re.search(r'<<\s*"REJECTED",\s*(\d+),\s*(\d+),\s*"(\[[^"]*\])"\s*>>', r.out)
    if not m:
        raise vf.Inconclusive("trace validation failed without a REJECTED line:\n" + r.out[-2000:])
    hw, ln, bad = int(m.group(1)), int(m.group(2)), json.loads(m.group(3))
    if hw != ln + 1:
        raise vf.Inconclusive("TLC stopped at line %d of %d of %s" % (hw, ln, path))
    return bad, nonconf, total


def _brief(e):
    a = e.get("a")
    if a == "Route":
        return "Route key=%r hash=%s client->shard %s, published assignments->shard %s (%s)" % (
            e["name"], e["hash"], e["client"], e["server"], e["res"])
    if a == "Gen":
        return "GenerateShards(base=%s, n=%s) = %s..." % (e["base"], e["count"], e["shards"][:3])
    if a in ("Config", "Deleted"):
        return "%s cfg=%s servers=%s -> status gen=%s %s (%s)" % (
            a, [(c["name"], c["count"], c["rf"]) for c in e["cfg"]], e["servers"], e["gen"],
            [(n["name"], [(s["id"], s["min"], s["max"], "del" if s["del"] else "") for s in n["shards"][:5]]) for n in e["ns"]], e["res"])
    if a == "Assign":
        return "published assignments %s" % [(n["name"], [(s["id"], s["min"], s["max"]) for s in n["shards"][:5]]) for n in e["ns"]]
    if a == "ClientRecv":
        return "client table after update: %s" % [(s["id"], s["min"], s["max"]) for s in e["shards"][:6]]
    return json.dumps(e)[:300]


def _random_sequences(path, seed, n):
    """random publication sequences for one namespace: 2-4 shard counts (small, medium, a few large), any order"""
    import random
    rnd = random.Random(seed * 7919 + 13)
    with open(path, "w") as f:
        for _ in range(n):
            seq, base, table = [], 0, []
            for _ in range(rnd.randint(2, 4)):
                k = rnd.random()
                c = rnd.randint(1, 8) if k < 0.4 else rnd.randint(1, 64) if k < 0.9 else rnd.randint(65, 400)
                recv = rnd.random() < 0.9
                if recv:
                    table = list(range(base, base + c))
                seq.append({"count": c, "order": rnd.choice(["asc", "desc", "mid", "shuffle"]), "recv": recv, "table": table})
                base += c
            f.write(json.dumps(seq) + "\n")


class Run:
    """one harness execution (mode, input behaviours) with its trace"""

    def __init__(self, ctx, binp, mode, label, infile=None, limit=0):
        self.ctx, self.binp, self.mode, self.label, self.infile = ctx, binp, mode, label, infile
        self.trace = os.path.join(ctx.scratch, "trace-%s.ndjson" % label)
        self.res = os.path.join(ctx.scratch, "res-%s.json" % label)
        argv = [binp, mode, "-out", self.trace, "-seed", str(ctx.seed), "-res", self.res]
        if infile:
            argv += ["-in", infile]
        if limit:
            argv += ["-limit", str(limit)]
        p = ctx.run(argv)
        self.stats = json.loads(p.stdout.strip().splitlines()[-1])
        self.result = json.load(open(self.res)) if os.path.exists(self.res) else {"mismatches": []}

    def judge(self):
        ctx = self.ctx
        bad, nonconf, total = _validate(ctx, self.trace, self.label)
        lines = None
        nres = 0
        if bad or nonconf:
            lines = open(self.trace).read().splitlines()
        nres = sum(1 for l in open(self.trace) if l.startswith('{"a":"Reset"'))
        ctx.traces_validated += max(1, nres) if not bad else 0
        ctx.log("%s: %d lines (%d traces) judged by TLC: %d rejected, %d differ from the model; %d replay mismatches"
                % (self.label, total, nres, len(bad), len(nonconf), len(self.result["mismatches"])))
        if nonconf:
            ctx.notes.setdefault("model_conformance_differences", []).extend(
                ["%s: %s" % (self.label, _brief(json.loads(lines[i - 1]))) for i in nonconf[:3]])
        if self.result["mismatches"]:
            ctx.notes.setdefault("replay_mismatches_model_vs_code", []).extend(
                ["%s step %d: %s" % (self.label, m["step"], m["what"][:300]) for m in self.result["mismatches"][:3]])
        out = []
        seen = set()
        for i in bad:
            # the behaviour this line belongs to = number of Reset lines before it (gen mode: none)
            idx = sum(1 for x in lines[:i] if x.startswith('{"a":"Reset"')) - 1
            if idx in seen:
                continue
            seen.add(idx)
            out.append((idx, json.loads(lines[i - 1])))
        return out

    def behaviour(self, idx):
        if not self.infile:
            return None
        with open(self.infile) as f:
            for k, l in enumerate(f):
                if k == idx:
                    return json.loads(l)
        return None


def _confirm(ctx, binp, mode, beh, tag):
    """re-execute one behaviour (or the whole gen run); return the first rejected line or None"""
    infile = None
    if mode != "gen":
        infile = os.path.join(ctx.scratch, "re-%s.ndjson" % tag)
        with open(infile, "w") as f:
            # what the coordinator publishes depends on goroutine timing: give a rejection several chances to recur
            for _ in range(30 if mode == "coord" else 1):
                f.write(json.dumps(beh) + "\n")
    r = Run(ctx, binp, mode, "re-" + tag, infile)
    bad, _, _ = _validate(ctx, r.trace, "re-" + tag)
    if not bad:
        return None
    return json.loads(open(r.trace).read().splitlines()[bad[0] - 1])


def _report(ctx, binp, run, rejected):
    n = 0
    for idx, e in rejected:
        n += 1
        if n > (1 if run.mode == "gen" else 8):
            break
        beh = run.behaviour(idx)
        tag = "%s-%d" % (run.label, n)
        again = _confirm(ctx, binp, run.mode, beh, tag)
        if again is None:
            ctx.notes.setdefault("unreproduced", []).append("%s: %s" % (run.label, _brief(e)))
            continue
        p = ctx.save_replay("%s.json" % tag, {"mode": run.mode, "behaviour": beh, "rejected_line": again})
        if run.mode == "client":
            ctx.violation("real client shard manager breaks ShardMap.tla: %s after the namespace was re-created with shard counts %s"
                          % (_brief(again), [(x["count"], x["order"], "received" if x["recv"] else "missed") for x in beh]), p)
            continue
        steps = "" if beh is None else " after " + " ; ".join(
            "%s%s" % (s["a"], [(c["name"], c["count"], c["rf"]) for c in s["ns"]] if s["a"] == "Config" else
                      ("(%s,%s)" % (s["name"], s["id"]) if s["a"] == "Deleted" else "")) for s in beh[:8])
        ctx.violation("real shard-map code (%s mode) breaks ShardMap.tla: %s%s" % (run.mode, _brief(again), steps), p)


def run(ctx):
    quick = ctx.tier == "quick"
    ctx.assumptions += [
        "a namespace all of whose shards are being deleted is not required to cover the hash space (it publishes no shard)",
        "an empty assignment list is accepted only for a namespace that was dropped from a configuration",
        "GenerateShards is observed for 1..64, 2^k-1, 2^k, 2^k+1 up to 4097 and 65535..65538, 131071 shards; the model "
        "GenShards covers every count the (small) space can hold",
        "client and servers agree once the client holds the currently published assignments; a stale client is still "
        "required to route every key to exactly one shard; after every update the client's table must be exactly the "
        "publication it applied (no stale shard survives, also when the new shards are fewer and wider)",
        "configuration notifications that change nothing are not sent to the coordinator (they end its config watcher, "
        "cluster_config_resource.go:waitForUpdates - observation, not part of this property)",
    ]
    binp = ctx.go_build("shardmap")

    # 1. design
    r = ctx.tlc("ShardMapMC", "shardmap-quick.cfg" if quick else "shardmap-thorough.cfg", label="design")
    ctx.log("design: %d distinct states, %d transitions: partition / ids / routing invariants hold" % (r.distinct, r.generated))
    r = ctx.tlc("ShardMapMC", "shardmap-mutant-gaps.cfg", label="mutant-gaps", allow_violation=True)
    if "PartitionOK" not in r.violated:
        raise vf.Inconclusive("the mutant AllOrNothing=FALSE was not caught by TLC (vacuous model?)")
    # the client's table under re-creations of its namespace with any old/new shard counts (fewer, wider shards too)
    r = ctx.tlc("ShardMapClientMC", "shardmap-client-quick.cfg" if quick else "shardmap-client-thorough.cfg", label="design-client")
    ctx.log("design (client table): %d distinct states, %d transitions: table = last publication, routing agrees"
            % (r.distinct, r.generated))
    r = ctx.tlc("ShardMapClientMC", "shardmap-client-mutant-endpoint.cfg", label="mutant-endpoint", allow_violation=True)
    if "TableLast" not in r.violated and "RoutesLast" not in r.violated:
        raise vf.Inconclusive("the mutant EndpointOverlap=TRUE was not caught by TLC (vacuous client model?)")
    ctx.notes["design_mutants_caught"] = ["AllOrNothing=FALSE -> PartitionOK violated",
                                          "EndpointOverlap=TRUE (old shard strictly inside a new one is kept) -> TableLast violated"]

    runs = []
    # 3a. GenerateShards and big namespaces
    g = Run(ctx, binp, "gen", "gen")
    runs.append(g)

    # 2. spec -> code
    wit = os.path.join(vf.VERIF, "replays", "C18", "witnesses.ndjson")
    runs.append(Run(ctx, binp, "replay", "wit-direct", wit))
    runs.append(Run(ctx, binp, "coord", "wit-coord", wit))
    ctx.replayed += 2 * sum(1 for _ in open(wit))

    # the connected client across re-creations: witnesses, every TLC sequence (counts 1..8, <= 3 publications,
    # two update orders), random larger sequences
    cw = os.path.join(vf.VERIF, "replays", "C18", "client-witnesses.ndjson")
    runs.append(Run(ctx, binp, "client", "wit-client", cw))
    ctx.replayed += sum(1 for _ in open(cw))
    r = ctx.tlc("ShardMapClientMC", "shardmap-client-steps.cfg", label="client-steps")
    cpath = os.path.join(ctx.scratch, "client-seqs.ndjson")
    n = _export(r, "SEQ", cpath)
    if n == 0:
        raise vf.Inconclusive("TLC exported no publication sequences")
    s = Run(ctx, binp, "client", "client-seqs", cpath)
    runs.append(s)
    ctx.replayed += s.stats["behaviours"]
    rpath2 = os.path.join(ctx.scratch, "client-random.ndjson")
    _random_sequences(rpath2, ctx.seed, 150 if quick else 3000)
    runs.append(Run(ctx, binp, "client", "client-random", rpath2))

    r = ctx.tlc("ShardMapMC", "shardmap-steps.cfg" if quick else "shardmap-steps-thorough.cfg", label="steps")
    steps = os.path.join(ctx.scratch, "steps.ndjson")
    n = _export(r, "STEP", steps)
    if n == 0:
        raise vf.Inconclusive("TLC exported no transitions")
    s = Run(ctx, binp, "replay", "steps", steps)
    runs.append(s)
    ctx.replayed += s.stats["behaviours"]
    with open(steps) as f:
        lines = f.readlines()
        ctx.samples.append({"kind": "spec transition replayed on the real ApplyClusterChanges/StatusResource/shard manager",
                            "behaviour": json.loads(lines[len(lines) // 2])})

    r = ctx.tlc("ShardMapMC", "shardmap-runs.cfg", simulate="num=%d" % (20 if quick else 200), depth=12, workers=1, label="runs")
    rpath = os.path.join(ctx.scratch, "runs.ndjson")
    n = _export(r, "RUN", rpath, every=2 if quick else 4)
    if n == 0:
        raise vf.Inconclusive("TLC simulation exported no behaviours")
    s = Run(ctx, binp, "replay", "runs", rpath)
    runs.append(s)
    ctx.replayed += s.stats["behaviours"]

    r = ctx.tlc("ShardMapMC", "shardmap-runs-eager.cfg", simulate="num=%d" % (20 if quick else 200), depth=12, workers=1, label="runs-eager")
    epath = os.path.join(ctx.scratch, "runs-eager.ndjson")
    n = _export(r, "RUN", epath, every=7)
    if n == 0:
        raise vf.Inconclusive("TLC simulation exported no behaviours for the coordinator")
    s = Run(ctx, binp, "coord", "coordinator", epath)
    runs.append(s)
    ctx.replayed += s.stats["behaviours"]

    # 3. TLC judges everything that was observed
    rejected = []
    for x in runs:
        rej = x.judge()
        if rej:
            rejected.append((x, rej))
    with open(g.trace) as f:
        for l in f:
            if l.startswith('{"a":"Route"'):
                ctx.samples.append({"kind": "routing decision on the real client (accepted by TLC)", "line": json.loads(l)})
                break
    for x, rej in rejected:
        _report(ctx, binp, x, rej)
    if ctx.notes.get("unreproduced") and not ctx.violations:
        raise vf.Inconclusive("trace lines rejected by TLC did not reproduce: %s" % ctx.notes["unreproduced"][:3])
    if ctx.notes.get("replay_mismatches_model_vs_code") and not ctx.violations:
        # the code left the model but TLC found nothing wrong with what it did: not a violation of the property
        ctx.log("note: the real code differs from the model on some behaviours (see evidence notes); TLC accepted every "
                "observed status / assignment / routing decision")
    ctx.notes["harness_runs"] = {x.label: x.stats for x in runs}
    ctx.notes["exhaustive"] = True
    ctx.notes["explanation"] = ("states/transitions: TLC exhaustive search of ShardMapMC on the small hash space (LimbMax=2: 9 hashes, "
                                "same limb arithmetic) plus one state per judged trace line on the real space (LimbMax=65535)")


def replay(ctx, path):
    binp = ctx.go_build("shardmap")
    d = json.load(open(path))
    again = _confirm(ctx, binp, d.get("mode", "replay"), d.get("behaviour"), "replay")
    if again is None:
        ctx.traces_validated += 1
        ctx.log("re-execution accepted by ShardMapTrace")
        return
    ctx.violation("real shard-map code breaks ShardMap.tla: " + _brief(again), path)
