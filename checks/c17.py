"""C17 - notifications are a complete, ordered, resumable record of committed changes.

Content (one batch per committed write request):
1. TLC checks NotifRule on OxiaDb.tla (modes c12, c16 and - thorough - c15): the batch of a request names
   exactly the user keys it created / modified / deleted / range-deleted with the resulting version ids, one
   entry per key, never an internal key, empty when nothing changed.
2. spec -> code: every transition of the bounded graphs is replayed on a real kv.DB (batch read back with
   db.ReadNextNotifications) and on a real RF=1 leader (batch read back through GetNotifications) and the batch
   of every offset is compared with the one OxiaDb.tla demands (offset, shard, timestamp of the entry, keys,
   types, version ids, range ends); session requests (registration, cleanup of ephemeral records: internal
   keys must not leak) come from Sessions.tla through the real session manager.
3. code -> spec: random request streams on the real leader judged by DbTrace with the batch in scope.
Stream (spec/NotifStream.tla):
4. TLC checks exhaustively: <= 4 committed offsets x start {none, every offset} x <= 2 reconnects with the last
   offset seen x 1 trimming round x 1 leader restart or election of a replica whose DB is 1..2 entries behind its
   log (BecomeLeader applies the tail and stores its batches) x a clock: delivered offsets strictly increasing, only
   committed ones, no loss unless the batch was trimmed, the trimmer (binary search as in the code) removes
   exactly the batches that reached the retention time.
5. spec -> code: every transition of a bounded graph and long simulated behaviours on a real RF=1 leader:
   GetNotifications with / without StartOffsetExclusive with the dispatcher parked in the callback (one batch
   per step), reconnect to the same or a re-created controller or to an elected replica (a real follower
   controller fed the whole log with a lagging commit offset, fenced, closed and made leader: the tail is applied
   by the real BecomeLeader), the real trimmer at instants chosen from the
   abstract clock; compared after every step: commit offset, notification keys stored in the DB, the offset of
   the empty first batch, the batch offered next, the batch delivered.
   The subscriber half is bound to the real client library: oxia.AsyncClient.GetNotifications against a fake
   leader (gRPC on a unix socket) that plays the behaviour; the StartOffsetExclusive of every reconnection must be
   the last offset seen.
6. code -> spec: random schedules recorded and judged by TLC (NotifTrace.tla).
"""
import json
import os
import _db
import vf

SCOPE = "res,recs,nf"


def _export(ctx, module, cfg, tag, label, simulate=None, depth=None, workers=None):
    r = ctx.tlc(module, cfg, label=label, simulate=simulate, depth=depth, workers=workers, heap="4g")
    path = os.path.join(ctx.scratch, "%s.ndjson" % label)
    n = _db.export(r, tag, path)
    if n == 0:
        raise vf.Inconclusive("TLC exported no behaviours for %s" % cfg)
    return path, n, r


def _show(beh):
    out = []
    for s in beh:
        if s["a"] in ("Subscribe",):
            out.append("Subscribe(%s)" % ("no offset" if s["arg"] == -2 else "after %d" % s["arg"]))
        elif s["a"] == "Elect":
            out.append("Elect(a replica whose DB is %d entries behind its log)" % s["arg"])
        elif s["a"] in ("Send", "Commit"):
            out.append("%s(%d)" % (s["a"], s["arg"]))
        else:
            out.append(s["a"])
    return " ; ".join(out)


def _stream_replay(ctx, binp, path, label):
    out = os.path.join(ctx.scratch, "replay-%s.json" % label)
    ctx.run([binp, "replay", "-in", path, "-out", out, "-workers", str(max(4, min(14, ctx.cores - 2)))])
    res = json.load(open(out))
    res["mismatches"] = res.get("mismatches") or []
    ctx.replayed += res["behaviours"]
    ctx.log("replayed %d stream behaviours (%d steps) on a real RF=1 leader [%s]: %d mismatch class(es)" %
            (res["behaviours"], res["steps"], label, len(res["mismatches"])))
    if res.get("unreproduced"):
        # seen under heavy machine load only: the dispatcher is not parked yet when the next commit arrives and misses
        # its wake-up (notificationsTracker.UpdatedCommitOffset broadcasts without the tracker's mutex) - a delay
        # until the next commit, not a loss; never a verdict, but more than a few mean that the run says nothing
        ctx.log("%d mismatch(es) were gone on re-execution (timing), first: %s" % (res["unreproduced"], res["unreproducedFirst"][:300]))
        ctx.unreproduced = getattr(ctx, "unreproduced", 0) + res["unreproduced"]
        if ctx.unreproduced > 3:
            raise vf.Inconclusive("%d stream mismatches did not reproduce on re-execution, first: %s" % (ctx.unreproduced, res["unreproducedFirst"][:500]))
    for i, mm in enumerate(res["mismatches"]):
        mm["kind"] = "stream"
        p = ctx.save_replay("c17-%s-%d.json" % (label, i), mm)
        ctx.violation("real notification stream deviates from NotifStream.tla at step %d of [%s]: %s" %
                      (mm["step"], _show(mm["behaviour"]), mm["what"][:500]), p)


def _stream_validate(ctx, path, label):
    r = ctx.tlc("NotifTrace", "notif-trace.cfg", files=[(path, "trace.ndjson")], workers=1, deque=True, label=label,
                seed=False, allow_violation=True, heap="2g")
    total = sum(1 for _ in open(path))
    if r.ok:
        return True, total, total, r
    hw = 0
    for l in r.out.splitlines():
        if l.startswith('<<"REJECTED"'):
            hw = int(l.split(",")[1])
    if hw == 0 and not r.violated:
        raise vf.Inconclusive("NotifTrace failed without a rejection mark:\n%s" % "\n".join(r.out.splitlines()[-30:]))
    if hw == 0:
        n = 0
        for l in r.out.splitlines():
            if l.startswith("State ") and ":" in l:
                n = max(n, int(l.split()[1].rstrip(":")))
        hw = max(1, n - 1)
    return False, hw, total, r


def _stream_report(ctx, tp, hw, total, r, label):
    lines = open(tp).read().splitlines()
    bad = min(hw, total) - 1
    start = bad
    while start > 0 and json.loads(lines[start])["a"] != "Reset":
        start -= 1
    calls = [json.loads(x) for x in lines[start + 1: bad + 1]]
    last = calls[-1] if calls else {}
    why = ("violates %s" % ",".join(r.violated)) if [v for v in r.violated if not v.startswith("postcondition")] else "is not a step of NotifStream.tla"
    p = ctx.save_replay("trace-%s-line%d.json" % (label, bad), {"kind": "stream", "behaviour": calls, "step": len(calls) - 1,
                        "what": "recorded step %s (fields as observed on the real code)" % why})
    ctx.violation("real notification stream %s at step #%d of [%s]: observed %s" %
                  (why, len(calls) - 1, _show(calls), {k: last.get(k) for k in ("n", "kept", "dummy", "head", "seen", "err")}), p)


def run(ctx):
    quick = ctx.tier == "quick"
    ctx.assumptions += [
        "timestamps of log entries do not decrease with the offset (one leader clock; the trimmer's binary search relies on it)",
        "trimming is exercised by running the trimmer's own round (trimNotifications) at instants derived from the abstract clock; its background ticker (real time) is not exercised",
        "RF=1: every logged request is committed; 'nothing for uncommitted requests' is covered only as 'nothing for requests the leader refuses'",
        "a leader change is a new controller on the same WAL and DB (Restart) or a leader controller on the WAL and DB of a real follower that received the whole log and applied all but the last 1..3 entries (Elect); the replica's trimmer has removed what the leader's removed (same entry timestamps, same retention: the real trimmer is run on the replica)",
    ]
    # 1. content laws
    for cfg in (("db-c17-c12.cfg", "db-c17-c16.cfg") if quick else ("db-c17-c12.cfg", "db-c17-c16.cfg", "db-c17-c15.cfg")):
        r = ctx.tlc("OxiaDbMC", cfg, label="law-" + cfg[7:-4], heap="4g")
        ctx.log("NotifRule (%s): %d distinct states, %d transitions" % (cfg[7:-4], r.distinct, r.generated))
    # 4. stream model
    r = ctx.tlc("NotifStreamMC", "notif-quick.cfg" if quick else "notif-thorough.cfg", label="stream", heap="4g")
    ctx.log("NotifStream: %d distinct states, %d transitions" % (r.distinct, r.generated))
    m = ctx.tlc("NotifStreamMC", "notif-mutant-minusone.cfg", label="mutant-minusone", heap="2g", allow_violation=True)
    if not m.violated:
        raise vf.Inconclusive("the subscriber that cannot resume after offset -1 is not refuted: NoLoss is vacuous")
    m = ctx.tlc("NotifStreamMC", "notif-mutant-silentreplay.cfg", label="mutant-silentreplay", heap="2g", allow_violation=True)
    if not m.violated:
        raise vf.Inconclusive("an election whose replay of the log tail stores no notification batches is not refuted: NoLoss is vacuous")

    dbc = ctx.go_build("dbcheck")
    # 2. content, spec -> code
    plan = [("db-c12-steps-a.cfg", "db"), ("db-c12-steps-b.cfg", "leader"), ("db-c16-steps.cfg", "leader")]
    if not quick:
        plan += [("db-c12-steps-a.cfg", "leader"), ("db-c12-steps-b.cfg", "db"), ("db-c12-steps-big.cfg", "db"), ("db-c15-steps.cfg", "leader")]
    exported = {}
    for cfg, mode in plan:
        label = cfg[3:-4] + "-" + mode
        if cfg not in exported:
            exported[cfg] = _db.tlc_export(ctx, cfg, "STEP", cfg[3:-4])[0]
        res = _db.replay(ctx, dbc, exported[cfg], mode, SCOPE, label)
        _db.report(ctx, res, "c17-" + label, "notification batch / state of the real %s deviates from OxiaDb.tla" % ("leader" if mode == "leader" else "kv.DB"))
    _db.sample_from(exported["db-c12-steps-b.cfg"], "spec transition (with the demanded notification batch) replayed on a real RF=1 leader", ctx)
    sess = ctx.go_build("sesscheck")
    r = ctx.tlc("SessionsMC", "sess-steps-e.cfg", label="sess-steps", heap="4g")
    sp = os.path.join(ctx.scratch, "sess-steps.ndjson")
    _db.export(r, "STEP", sp)
    out = os.path.join(ctx.scratch, "replay-sess.json")
    ctx.run([sess, "replay", "-in", sp, "-cmp", "recs,nf", "-out", out, "-workers", str(max(4, min(14, ctx.cores - 2)))])
    res = json.load(open(out))
    ctx.replayed += res["behaviours"]
    ctx.log("replayed %d session behaviours (%d calls): batches of session registration and cleanup writes: %d mismatch class(es)" %
            (res["behaviours"], res["steps"], len(res.get("mismatches") or [])))
    for i, mm in enumerate(res.get("mismatches") or []):
        mm["kind"] = "sessions"
        p = ctx.save_replay("c17-sess-%d.json" % i, mm)
        ctx.violation("notification batch of a session request deviates from Sessions.tla at step %d: %s" % (mm["step"], mm["what"][:500]), p)
    # 3. content, code -> spec
    _db.drive_and_validate(ctx, dbc, "leader", "mix", 60 if quick else 500, 30, "db-trace-c17.cfg", "content-leader", 1)
    _db.drive_and_validate(ctx, dbc, "db", "mix", 60 if quick else 500, 30, "db-trace-c17.cfg", "content-db", 2)

    # 5. stream, spec -> code
    nb = ctx.go_build("notifcheck")
    path, n, _ = _export(ctx, "NotifStreamMC", "notif-steps.cfg" if quick else "notif-steps-thorough.cfg", "STEP", "stream-steps")
    _stream_replay(ctx, nb, path, "steps")
    with open(path) as f:
        lines = f.readlines()
    beh = json.loads(lines[len(lines) // 2])
    ctx.samples.append({"kind": "stream behaviour replayed on a real RF=1 leader", "steps": _show(beh), "demanded_after_last_step": beh[-1]})
    steps_path = path
    # elections of a replica whose DB is behind its log: every transition of a graph without clock (3 offsets, lag
    # 1..3), only the behaviours with an election; thorough: also 2 offsets with clock and trimming
    epath, n, _ = _export(ctx, "NotifStreamMC", "notif-steps-elect.cfg", "STEP", "stream-elect")
    _stream_replay(ctx, nb, epath, "elect")
    if not quick:
        tpath, n, _ = _export(ctx, "NotifStreamMC", "notif-steps-elect-thorough.cfg", "STEP", "stream-elect-trim")
        _stream_replay(ctx, nb, tpath, "elect-trim")
    path, n, _ = _export(ctx, "NotifStreamMC", "notif-runs.cfg", "RUN", "stream-runs", simulate="num=%d" % (30 if quick else 400), depth=20, workers=1)
    _stream_replay(ctx, nb, path, "runs")
    # 5b. the subscriber half of the same behaviours: the real client library against a fake leader that does what
    # the behaviour says the leader does; one representative per client-visible projection
    nc = ctx.go_build("notifclient")
    cp = os.path.join(ctx.scratch, "client.ndjson")
    seen = set()
    with open(cp, "w") as out:
        for src in (steps_path, epath, path):
            for l in open(src):
                b = json.loads(l)
                subs = [s for s in b if s["a"] == "Subscribe"]
                if len(subs) < 2 or subs[0]["arg"] != -2:
                    continue
                # for the subscriber an election is a leader that went away, whatever the lag
                proj = json.dumps([("Restart", 0, s["dummy"]) if s["a"] == "Elect" else (s["a"], s["arg"], s["dummy"])
                                   for s in b if s["a"] in ("Subscribe", "Send", "Disconnect", "Restart", "Elect")])
                if proj not in seen and len(seen) < (60 if quick else 400):
                    seen.add(proj)
                    out.write(l)
    if not seen:
        raise vf.Inconclusive("no behaviour with a resuming subscriber was exported")
    cout = os.path.join(ctx.scratch, "client.json")
    ctx.run([nc, "replay", "-in", cp, "-out", cout])
    cres = json.load(open(cout))
    ctx.replayed += cres["behaviours"]
    ctx.log("replayed %d subscriber behaviours on the real client library (oxia.GetNotifications against a scripted leader): %d mismatch class(es)" %
            (cres["behaviours"], len(cres.get("mismatches") or [])))
    for i, mm in enumerate(cres.get("mismatches") or []):
        p = ctx.save_replay("c17-client-%d.json" % i, mm)
        ctx.violation("real notifications client deviates from NotifStream.tla's subscriber at step %d of [%s]: %s" %
                      (mm["step"], _show(mm["behaviour"]), mm["what"][:500]), p)
    # 6. stream, code -> spec
    nt = 150 if quick else 1500
    tp = os.path.join(ctx.scratch, "trace-stream.ndjson")
    ctx.run([nb, "drive", "-seed", str(ctx.seed), "-n", str(nt), "-ops", "40", "-out", tp])
    ok, hw, total, r = _stream_validate(ctx, tp, "stream-trace")
    if ok:
        ctx.traces_validated += nt
        ctx.log("%d random stream schedules (%d steps) of the real leader accepted by NotifTrace" % (nt, total - nt))
        # binding self-test: a delivered offset changed by one must be rejected
        lines = open(tp).read().splitlines()
        for i, l in enumerate(lines):
            s = json.loads(l)
            if s["a"] == "Send":
                s["arg"] += 1
                lines[i] = json.dumps(s)
                bad = os.path.join(ctx.scratch, "trace-corrupt.ndjson")
                open(bad, "w").write("\n".join(lines[:i + 5]) + "\n")
                ok2, _, _, _ = _stream_validate(ctx, bad, "selftest")
                if ok2:
                    raise vf.Inconclusive("self-test: a trace with a corrupted delivered offset was accepted by NotifTrace")
                ctx.assumptions.append("self-test: a recorded stream trace with one delivered offset changed is rejected by NotifTrace")
                break
    else:
        _stream_report(ctx, tp, hw, total, r, "stream")
    ctx.notes["exhaustive"] = True
    ctx.notes["explanation"] = ("states/transitions: TLC exhaustive search of OxiaDbMC (NotifRule) and NotifStreamMC plus trace validation; batch "
                                "content compared for every replayed request, stream behaviours executed through GetNotifications of a real leader")


def replay(ctx, path):
    path = os.path.abspath(path)
    mm = json.load(open(path))
    if mm.get("kind") == "stream":
        nb = ctx.go_build("notifcheck")
        tp = os.path.join(ctx.scratch, "rerun.ndjson")
        ctx.run([nb, "rerun", "-in", path, "-out", tp])
        ok, hw, total, r = _stream_validate(ctx, tp, "rerun")
        if ok:
            ctx.traces_validated += 1
            ctx.log("replayed schedule is accepted by NotifTrace")
        else:
            _stream_report(ctx, tp, hw, total, r, "rerun")
        return
    if mm.get("kind") == "client":
        nc = ctx.go_build("notifclient")
        cp = os.path.join(ctx.scratch, "client.ndjson")
        open(cp, "w").write(json.dumps(mm["behaviour"]) + "\n")
        cout = os.path.join(ctx.scratch, "client.json")
        ctx.run([nc, "replay", "-in", cp, "-out", cout])
        for x in json.load(open(cout)).get("mismatches") or []:
            ctx.violation("real notifications client deviates from NotifStream.tla's subscriber: %s" % x["what"][:500], path)
        return
    if mm.get("kind") == "sessions":
        import c14
        return c14.replay(ctx, path)
    _db.replay_file(ctx, path, "db-trace-c17.cfg")
