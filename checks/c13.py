"""C13 - every request accepted into the log can be applied by every replica.

1. TLC: Apply (OxiaDb.tla) is total - for every request of the enumerated product of field classes (key
   empty / plain / with slashes / under the internal prefix; partition key +-; sequence deltas none / [0] /
   [0,1] / [1] / [1,1] / [1,1,1] against prefixes with 0, 1 and 2 existing suffixes and against records written
   by plain puts that look like sequence keys (non-digit tail, too few / 21 digits, empty part, part without a
   leading digit, part above 2^64-1 - the generator's Sscanf("%020d") is transcribed); expected version +-;
   session none / live / dead; 0-2 secondary indexes; deletes; ranges incl. start > end and bounds around
   the internal block) x pre-states it yields one status per operation; requests the leader refuses before
   logging (WellFormed) are steps with outcome REJECTED and no effect.  Hostile secondary-index declarations
   (OxiaDb.tla "Secondary-index declarations": empty name, names with '/', separator byte, empty secondary
   key, repeated / colliding / many declarations) are refused by nobody, so they are enumerated as puts and
   as pre-states whose records carry them (then overwritten, deleted, range-deleted); DeclNeutral /
   DeclEntries: declarations never change statuses or records and each denotes exactly one entry key.
   Optional fields carry presence and value separately (OxiaDb.tla "Optional fields of a request"): partition
   key present with the value "" / "a/b" on sequence and ordinary puts, client identity present and empty,
   expected version -1 / 0, session 0, empty key, deltas absent / zero first / zero later.  WellFormed is
   transcribed from validateWriteRequest (presence of the partition key, first delta); AdmissionCoversApply:
   whatever the generator cannot apply because of the request's content is refused before logging;
   OptNeutral: the value of a present partition key / an empty present client identity changes nothing.
2. spec -> code: each request is built as a real protobuf and (a) applied by a real kv.DB.ProcessWrite,
   (b) written through a real RF=1 leader controller (WriteBlock), which is then closed and re-created
   (NewTerm + BecomeLeader replay the WAL) and has to accept a further write.  Outcome (accepted / refused /
   infrastructure error), statuses and the content read back are compared with the specification.
3. code -> spec: random hostile request streams through the real leader (and the bare DB), judged by TLC
   (DbTrace.tla has no "infrastructure error" outcome).
Known findings (known-findings.json) are replayed from their witnesses on every run.
"""
import json
import os
import _db
import vf

SCOPE = "res,recs,lv"


def _known(ctx, res, seen):
    """Errors on requests of a known-finding class (the spec marks them) are attributed to the finding."""
    for f in res["findings"]:
        seen.setdefault("seqStateError", []).append(f)


def _witness(ctx, binp, fid, path, seen):
    if not os.path.exists(path):
        raise vf.Inconclusive("witness %s missing" % path)
    out = os.path.join(ctx.scratch, "witness-%s.json" % fid)
    ctx.run([binp, "replay", "-in", path, "-mode", "leader", "-cmp", SCOPE, "-out", out, "-workers", "1"])
    res = json.load(open(out))
    ctx.replayed += res["behaviours"]
    for mm in res.get("mismatches") or []:
        p = ctx.save_replay("witness-%s.json" % fid, mm)
        ctx.violation("witness of %s deviates before its known-finding step: %s" % (fid, mm["what"][:400]), p)
    for f in res.get("findings") or []:
        seen.setdefault(fid, []).append(f)


def run(ctx):
    quick = ctx.tier == "quick"
    ctx.assumptions += [
        "the replicas of a shard run the same ProcessWrite on the same log; follower apply and BecomeLeader replay fail exactly when ProcessWrite returns an error (code reading: follower_controller.go processCommittedEntries, leader_controller.go applyAllEntriesIntoDBLoop); the follower loop itself is not driven",
        "client requests addressing oxia's own non-record keys are outside the request domain of the specification (recorded finding internalRecordAccess)",
    ]
    seen = {}
    binp = ctx.go_build("dbcheck")

    # 1 + 2: classes x pre-states, one behaviour per transition: set-up, request, restart, probe write
    path, n, r = _db.tlc_export(ctx, "db-c13-steps.cfg", "STEP", "classes")
    ctx.log("classes: %d requests x pre-states enumerated by TLC (Total, DeclNeutral, DeclEntries, AdmissionCoversApply, OptNeutral hold on %d transitions)" % (n, r.generated))
    res = _db.replay(ctx, binp, path, "leader", SCOPE, "classes-leader")
    _db.report(ctx, res, "c13-leader", "real leader controller deviates from OxiaDb.tla")
    _known(ctx, res, seen)
    res = _db.replay(ctx, binp, path, "db", SCOPE, "classes-db")
    _db.report(ctx, res, "c13-db", "real kv.DB deviates from OxiaDb.tla")
    _known(ctx, res, seen)
    _db.sample_from(path, "request class replayed through a real RF=1 leader (write, restart, probe write)", ctx)

    # longer behaviours: several class requests in a row (each followed by restart + probe); one random request per
    # level (OxiaDbMC!MNext), so every simulated trace is one behaviour
    path, n, _ = _db.tlc_export(ctx, "db-c13-runs.cfg", "RUN", "runs", simulate="num=%d" % (300 if quick else 2000), depth=8, workers=1)
    res = _db.replay(ctx, binp, path, "leader", SCOPE, "runs-leader")
    _db.report(ctx, res, "c13-run", "real leader controller deviates from OxiaDb.tla")
    _known(ctx, res, seen)

    # 3: hostile random streams
    for mode, nt, salt in (("leader", 40 if quick else 300, 1), ("db", 40 if quick else 300, 2)):
        tp = _db.drive_and_validate(ctx, binp, mode, "hostile", nt, 25, "db-trace-c13.cfg", "hostile-" + mode, salt)
        if not ctx.violations:
            # lines with an infrastructure error that TLC accepted can only have matched the known-finding branch
            for l in open(tp):
                if '"err":"ERROR' in l:
                    s = json.loads(l)
                    seen.setdefault("seqStateError", []).append({"req": _db.show_req(s["req"]), "err": s["err"], "count": 1})

    # known findings: replay the witnesses, report while they still fail
    for f in vf.findings_for("C13"):
        for w in f.get("witnesses") or [f["witness"]]:
            _witness(ctx, binp, f["id"], os.path.join(vf.VERIF, w), seen)
    for f in vf.findings_for("C13"):
        hits = seen.get(f["id"], [])
        if hits:
            ex = hits[0]
            ctx.known_finding("%s: %d request(s) of this class failed to apply, e.g. [%s] -> %s" %
                              (f["id"], sum(h["count"] for h in hits), ex["req"], ex["err"][:300]))
    unknown = [k for k in seen if k not in [f["id"] for f in vf.findings_for("C13")]]
    if unknown:
        raise vf.Inconclusive("errors attributed to unregistered findings: %s" % unknown)
    ctx.notes["exhaustive"] = True
    ctx.notes["explanation"] = ("every request of the class product x pre-states was applied by a real kv.DB and written through a "
                                "real RF=1 leader followed by a restart (WAL replay in BecomeLeader) and a further write")


def replay(ctx, path):
    path = os.path.abspath(path)
    if path.endswith(".ndjson"):
        binp = ctx.go_build("dbcheck")
        seen = {}
        _witness(ctx, binp, "replay", path, seen)
        for h in seen.get("replay", []):
            ctx.log("still fails: [%s] -> %s" % (h["req"], h["err"][:300]))
        return
    _db.replay_file(ctx, path, "db-trace-c13.cfg")
