"""C16 - sequence keys are fresh, strictly increasing and computed exactly; subscribers see the latest key.

1. TLC checks, exhaustively over bounded request sequences (two prefixes - one of them below a '/' -,
   deltas [1] [3] [1,2] [2,0], several sequence puts per request, deletes and overwrites of the current
   maximum, range deletes, plain writes on neighbouring keys):  SeqRule (new key = prefix + suffixes of the
   highest existing key of the prefix, zero where none, + deltas; strictly above every existing key of the
   prefix; not an overwrite) and SeqFresh (keys generated inside one request are new and distinct).
   Suffixes and deltas are uint64: the specification keeps them as decimal strings (Delta20 / Sum21 / AddU64)
   and a second alphabet (mode c16big) offers the deltas 2^31, 2^63-1, 2^63, 2^63+1, 2^64-2, 2^64-1 next to 1 in
   one- and two-suffix sequences, with deletes / overwrites of the maximum, a range delete of the sequence and
   restarts, so that suffixes cross 2^31 and 2^63, reach 2^64-1 and pass it.  SeqRule / SeqFresh / SeqGrows are
   claimed wherever the exact result is a uint64; beyond (SeqOverflow) the code wraps modulo 2^64 - Apply
   transcribes it, the class is the recorded finding seqOverflow (witness replayed on every run).
2. spec -> code: every transition and long simulated behaviours are replayed on a real kv.DB and on a real
   RF=1 leader; the generated key in the PutResponse and the key listing are compared.
3. code -> spec: random sequence-heavy request streams (three prefixes with 1, 2 and 3 deltas, mixed with
   conditional writes, deletes, ranges, reopen; small deltas, and deltas anywhere in uint64 - jumps next to
   2^31 / 2^32 / 2^62 / 2^63 / 2^64-1 followed by small steps across them) are recorded and judged by TLC
   (DbTrace.tla).
4. OverrideChannel.tla (common/channel/override_channel.go, one action per select): TLC checks
   <>[](lastReceived = lastWritten) under weak fairness plus Monotone / LatestKept; a mutant that drops the
   value when the buffer is full must violate them; stress runs of the real channel (2 writers, 1 receiver,
   per-goroutine event queues) are validated by ChanTrace.tla, which looks for an interleaving that is a
   behaviour of the contract and ends with the receiver holding the last value.
5. SeqWaiters.tla (db_sequences_wait_tracker.go + GetSequenceUpdates): Subscribe / Put / Close / Drain with the
   tracker's id -> waiter map and the uint64 suffixes of the generated keys (a new subscriber is handed the
   highest existing key of the scanned suffix range, which has to be 0 .. 2^64-1: one prefix of the model jumps
   to 2^63-1 with its first put; the mutant that scans below MaxInt64 must be caught); LatestKept (a live subscriber has read the latest key of its prefix or it is
   waiting in its channel), LiveRegistered, ClosedSilent, CloseIndependent; the mutant "id = len(map)+1" must be
   caught; every transition and long runs are replayed on a real kv.DB (GetSequenceUpdates, sequence puts through
   ProcessWrite, SequenceWaiter.Close, non-blocking channel reads); random lifecycles are judged by SeqWaitTrace.
"""
import os
import _db
import vf

SCOPE = "res,recs,lv"


def run(ctx):
    quick = ctx.tier == "quick"
    ctx.assumptions += [
        "suffixes and deltas range over all of uint64 (decimal strings in the specification); the laws are claimed wherever the exact result suffix + delta is a uint64 - requests beyond that are the recorded finding seqOverflow (the code wraps, Apply transcribes it)",
        "requests that fail in the sequence generator (fewer deltas than existing suffixes, malformed) are C13's subject and excluded here",
        "on the real channel 'eventually' is checked at quiescence (writers finished, receiver drained); the fairness-based liveness is model-checked on the specification only",
        "keys under a sequence prefix that look like 'prefix-...' are only created by sequence puts in the enumerated domain",
    ]
    r = ctx.tlc("OxiaDbMC", "db-c16-quick.cfg", label="laws", heap="4g")
    ctx.log("SeqRule/SeqFresh (4 requests x 1 op): %d distinct states, %d transitions" % (r.distinct, r.generated))
    r = ctx.tlc("OxiaDbMC", "db-c16-laws3.cfg", label="laws3", heap="4g")
    ctx.log("SeqRule/SeqFresh (1 request x <=3 ops): %d distinct states, %d transitions" % (r.distinct, r.generated))
    if not quick:
        r = ctx.tlc("OxiaDbMC", "db-c16-laws2.cfg", label="laws2", heap="4g")
        ctx.log("SeqRule/SeqFresh (2 requests x <=2 ops): %d distinct states, %d transitions" % (r.distinct, r.generated))

    binp = ctx.go_build("dbcheck")
    for cfg, mode in ((("db-c16-steps.cfg", "db"),) if quick else
                      (("db-c16-steps.cfg", "db"), ("db-c16-steps2.cfg", "db"), ("db-c16-steps.cfg", "leader"))):
        label = cfg[len("db-c16-"):-len(".cfg")] + "-" + mode
        path, n, _ = _db.tlc_export(ctx, cfg, "STEP", label)
        res = _db.replay(ctx, binp, path, mode, SCOPE, label)
        _db.report(ctx, res, "c16-" + label)
    _db.sample_from(path, "spec transition (sequence puts) replayed on the real code", ctx)

    # the whole uint64 range: deltas 2^31, 2^63-1, 2^63, 2^63+1, 2^64-2, 2^64-1 next to 1, one- and two-suffix
    # sequences, deletes / overwrites of the maximum, range deletes, restarts; the laws are checked by the run
    # that exports the behaviours (every transition of the bounded graph is replayed)
    hits = []
    big = [("db-c16big-steps.cfg", "db"), ("db-c16big-batch.cfg", "db")]
    if not quick:
        big += [("db-c16big-steps2.cfg", "db"), ("db-c16big-batch3.cfg", "db"), ("db-c16big-steps.cfg", "leader")]
        r = ctx.tlc("OxiaDbMC", "db-c16big-laws4.cfg", label="big-laws4", heap="4g")
        ctx.log("uint64 range, SeqRule/SeqFresh/SeqGrows (4 requests x 1 op): %d distinct states, %d transitions" % (r.distinct, r.generated))
    for cfg, mode in big:
        label = "big-" + cfg[len("db-c16big-"):-len(".cfg")] + "-" + mode
        bpath, n, r = _db.tlc_export(ctx, cfg, "STEP", label)
        ctx.log("uint64 range, SeqRule/SeqFresh/SeqGrows [%s]: %d distinct states, %d transitions" % (cfg, r.distinct, r.generated))
        res = _db.replay(ctx, binp, bpath, mode, SCOPE, label)
        _db.report(ctx, res, "c16-" + label)
        hits += res["findings"]
    _db.sample_from(bpath, "spec transition (sequence puts with deltas up to 2^64-1) replayed on the real code", ctx)
    bpath, n, _ = _db.tlc_export(ctx, "db-c16big-runs.cfg", "RUN", "big-runs", simulate="num=%d" % (6 if quick else 60), depth=10, workers=1)
    res = _db.replay(ctx, binp, bpath, "db", SCOPE, "big-runs")
    _db.report(ctx, res, "c16-big-run")
    hits += res["findings"]
    _overflow_finding(ctx, binp, hits)

    path, n, _ = _db.tlc_export(ctx, "db-c16-runs.cfg", "RUN", "runs", simulate="num=%d" % (15 if quick else 150), depth=10, workers=1)
    res = _db.replay(ctx, binp, path, "db", SCOPE, "runs")
    _db.report(ctx, res, "c16-run")

    _db.drive_and_validate(ctx, binp, "db", "seq", 16 if quick else 200, 30, "db-trace-c16.cfg", "seq", 1)
    # ... and with deltas anywhere in uint64: one jump next to 2^31 / 2^32 / 2^62 / 2^63 / 2^64-1 and small steps
    # across it, or arbitrary deltas (the invariant of this configuration leaves IndexMirror out: a sequence put
    # that wraps onto a live key - finding seqOverflow - replaces the record without removing its index entries)
    _db.drive_and_validate(ctx, binp, "db", "seqwide", 24 if quick else 200, 30, "db-trace-c16.cfg", "seqwide", 3)
    if not quick:
        _db.drive_and_validate(ctx, binp, "leader", "seq", 40, 30, "db-trace-c16.cfg", "seq-leader", 2)
        _db.drive_and_validate(ctx, binp, "leader", "seqwide", 40, 30, "db-trace-c16.cfg", "seqwide-leader", 4)

    # override channel
    r = ctx.tlc("OverrideChannel", "chan-live.cfg" if quick else "chan-live-thorough.cfg", label="chan", heap="1g")
    ctx.log("OverrideChannel liveness + invariants: %d distinct states" % r.distinct)
    r = ctx.tlc("OverrideChannel", "chan-mutant-drop.cfg", label="chan-mutant", allow_violation=True, heap="1g")
    if not r.violated:
        raise vf.Inconclusive("the drop-when-full mutant of OverrideChannel.tla is not caught: the properties are vacuous")
    cbin = ctx.go_build("chancheck")
    tp = os.path.join(ctx.scratch, "chan.ndjson")
    runs, writes = (12, 40) if quick else (60, 60)
    p = ctx.run([cbin, "stress", "-seed", str(ctx.seed), "-runs", str(runs), "-writes", str(writes), "-out", tp], ok_codes=(0, 3))
    r = ctx.tlc("ChanTrace", "chan-trace.cfg", files=[(tp, "trace.ndjson")], workers=1, deque=True, label="chantrace",
                seed=False, allow_violation=True, heap="2g")
    if p.returncode == 3 or not r.ok:
        bad = "?"
        for l in r.out.splitlines():
            if l.startswith('<<"REJECTED"'):
                bad = l.split(",")[1].strip()
        rp = ctx.save_replay("chan-run%s.ndjson" % bad, open(tp).read())
        ctx.violation("stress run %s of the real OverrideChannel is not a behaviour of its contract (%s): no interleaving of the "
                      "recorded WriteLast/Receive events ends with the receiver holding the last value written"
                      % (bad, (p.stderr or "").strip()[:200] or "rejected by ChanTrace"), rp)
    else:
        ctx.traces_validated += runs
        ctx.log("override channel: %d stress runs x %d writes of the real channel accepted by ChanTrace (%d states)" % (runs, writes, r.distinct))
    _seq_waiters(ctx, quick)
    ctx.notes["exhaustive"] = True


def _overflow_finding(ctx, binp, hits):
    """Known finding seqOverflow: the committed witness is replayed on every run; while the code still wraps,
    the finding is reported (the behaviours enumerated by TLC that fall into the class are counted with it)."""
    import json
    for f in vf.findings_for("C16"):
        if f["id"] != "seqOverflow":
            continue
        wp = os.path.join(vf.VERIF, f["witness"])
        if not os.path.exists(wp):
            raise vf.Inconclusive("witness %s missing" % wp)
        MAXU = "18446744073709551615"
        still = []
        for mode in ("db", "leader"):
            res = _db.replay(ctx, binp, wp, mode, SCOPE, "witness-overflow-" + mode)
            _db.report(ctx, res, "c16-witness-overflow-" + mode, "witness of seqOverflow deviates outside its overflow steps:")
            wraps = [h for h in res["findings"] if h["err"].startswith("wraps")]
            if wraps:
                still.append((mode, max(wraps, key=lambda h: (MAXU in h["req"]) + (MAXU in h["err"]))))
            for h in res["findings"]:
                if not h["err"].startswith("wraps"):
                    ctx.log("seqOverflow witness: %s -> %s" % (h["req"], h["err"][:300]))
        if still:
            n = sum(h["count"] for h in hits if h["err"].startswith("wraps"))
            ex = still[0][1]
            ctx.known_finding("seqOverflow (%s): a sequence put whose suffix + delta exceeds 2^64-1 is not refused, the uint64 sum wraps: "
                              "the generated key is not above the existing keys of the prefix and can be the key of a live record, which is "
                              "replaced - e.g. (%s) %s -> %s (%d enumerated behaviours of this class behave the same)" %
                              (" and ".join(m for m, _ in still), f["witness"], ex["req"], ex["err"], n))
    other = [h for h in hits if not h["err"].startswith("wraps")]
    if other:
        ctx.log("%d overflowing request(s) are no longer treated by wrapping, e.g. %s -> %s" % (len(other), other[0]["req"], other[0]["err"][:300]))


def _call(s):
    d = "".join(chr(c) for c in s.get("d") or []).lstrip("0")
    if s["a"] == "Put" and d not in ("", "1"):
        return "Put(%s,delta=%s)" % (s["p"], d)
    return "%s(%s)" % (s["a"], s["p"] or (s["w"] or ""))


def _seq_waiters(ctx, quick):
    """SeqWaiters.tla: the subscribers of sequence updates (wait tracker + GetSequenceUpdates) on a real kv.DB."""
    import json
    r = ctx.tlc("SeqWaiters", "seqw-quick.cfg" if quick else "seqw-thorough.cfg", label="seqw", heap="4g")
    ctx.log("SeqWaiters (subscribe / put / close / drain): %d distinct states, %d transitions" % (r.distinct, r.generated))
    r = ctx.tlc("SeqWaiters", "seqw-mutant-id.cfg", label="seqw-mutant", allow_violation=True, heap="2g")
    if not r.violated:
        raise vf.Inconclusive("the id-from-map-size mutant of SeqWaiters.tla is not caught: the properties are vacuous")
    r = ctx.tlc("SeqWaiters", "seqw-mutant-scan.cfg", label="seqw-mutant-scan", allow_violation=True, heap="2g")
    if not r.violated:
        raise vf.Inconclusive("the mutant of SeqWaiters.tla whose initial read stops below MaxInt64 is not caught: no sequence of the model passes 2^63")
    wbin = ctx.go_build("seqwait")

    def replay_on_db(cfg, tag, label, **kw):
        r = ctx.tlc("SeqWaiters", cfg, label=label, heap="4g", **kw)
        path = os.path.join(ctx.scratch, label + ".ndjson")
        if _db.export(r, tag, path) == 0:
            raise vf.Inconclusive("TLC exported no behaviours for %s" % cfg)
        out = os.path.join(ctx.scratch, label + ".json")
        ctx.run([wbin, "replay", "-in", path, "-out", out])
        res = json.load(open(out))
        ctx.replayed += res["behaviours"]
        ctx.log("replayed %d subscriber behaviours (%d calls) on the real kv.DB [%s]: %d mismatch class(es)" %
                (res["behaviours"], res["steps"], label, len(res["mismatches"])))
        for i, mm in enumerate(res["mismatches"]):
            p = ctx.save_replay("seqw-%s-%d.json" % (label, i), mm)
            calls = " ".join(_call(s) for s in mm["behaviour"])
            ctx.violation("sequence-update subscribers of the real kv.DB deviate from SeqWaiters.tla at step %d of [%s]: %s"
                          % (mm["step"], calls, mm["what"]), p)
        return path

    path = replay_on_db("seqw-steps.cfg", "STEP", "seqw-steps")
    with open(path) as f:
        lines = f.readlines()
        ctx.samples.append({"kind": "subscriber behaviour replayed on the real kv.DB", "behaviour": json.loads(lines[len(lines) // 2])})
    replay_on_db("seqw-runs.cfg", "RUN", "seqw-runs", simulate="num=%d" % (20 if quick else 200), depth=26, workers=1)

    tp = os.path.join(ctx.scratch, "seqw-trace.ndjson")
    nt = 60 if quick else 600
    ctx.run([wbin, "drive", "-seed", str(ctx.seed), "-n", str(nt), "-ops", "40", "-out", tp])
    r = ctx.tlc("SeqWaitTrace", "seqw-trace.cfg", files=[(tp, "trace.ndjson")], workers=1, deque=True, label="seqw-trace",
                seed=False, allow_violation=True, heap="2g")
    if r.ok:
        ctx.traces_validated += nt
        ctx.log("subscribers: %d random lifecycles on the real kv.DB accepted by SeqWaitTrace" % nt)
    else:
        hw = 0
        for l in r.out.splitlines():
            if l.startswith('<<"REJECTED"'):
                hw = int(l.split(",")[1])
        if hw == 0:
            raise vf.Inconclusive("SeqWaitTrace failed without a rejection mark:\n%s" % "\n".join(r.out.splitlines()[-20:]))
        lines = open(tp).read().splitlines()
        bad = min(hw, len(lines)) - 1
        start = bad
        while start > 0 and json.loads(lines[start])["a"] != "Reset":
            start -= 1
        calls = [json.loads(x) for x in lines[start + 1: bad + 1]]
        p = ctx.save_replay("seqw-trace-line%d.json" % bad, {"behaviour": calls, "step": len(calls) - 1,
                            "what": "recorded call is not a step of SeqWaiters.tla (observed fields are those of the real kv.DB)"})
        ctx.violation("real subscriber lifecycle [%s] rejected by SeqWaitTrace at call #%d %s: observed %s" %
                      (" ".join(_call(c) for c in calls)[-600:], len(calls) - 1, calls[-1]["a"], json.dumps(calls[-1])), p)


def replay(ctx, path):
    path = os.path.abspath(path)
    if path.endswith(".ndjson"):
        r = ctx.tlc("ChanTrace", "chan-trace.cfg", files=[(path, "trace.ndjson")], workers=1, deque=True, label="chantrace",
                    seed=False, allow_violation=True, heap="2g")
        if not r.ok:
            ctx.violation("recorded run of the override channel is rejected by ChanTrace", path)
        return
    if os.path.basename(path).startswith("seqw-"):
        import json
        wbin = ctx.go_build("seqwait")
        beh = json.load(open(path))["behaviour"]
        lp = os.path.join(ctx.scratch, "one.ndjson")
        open(lp, "w").write(json.dumps(beh) + "\n")
        out = os.path.join(ctx.scratch, "one.json")
        ctx.run([wbin, "replay", "-in", lp, "-out", out])
        for mm in json.load(open(out))["mismatches"]:
            ctx.violation("replayed subscriber behaviour deviates from SeqWaiters.tla at step %d: %s" % (mm["step"], mm["what"]), path)
        return
    _db.replay_file(ctx, path, "db-trace-c16.cfg")
