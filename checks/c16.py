"""C16 - sequence keys are fresh, strictly increasing and computed exactly; subscribers see the latest key.

1. TLC checks, exhaustively over bounded request sequences (two prefixes - one of them below a '/' -,
   deltas [1] [3] [1,2] [2,0], several sequence puts per request, deletes and overwrites of the current
   maximum, range deletes, plain writes on neighbouring keys):  SeqRule (new key = prefix + suffixes of the
   highest existing key of the prefix, zero where none, + deltas; strictly above every existing key of the
   prefix; not an overwrite) and SeqFresh (keys generated inside one request are new and distinct).
2. spec -> code: every transition and long simulated behaviours are replayed on a real kv.DB and on a real
   RF=1 leader; the generated key in the PutResponse and the key listing are compared.
3. code -> spec: random sequence-heavy request streams (three prefixes with 1, 2 and 3 deltas, mixed with
   conditional writes, deletes, ranges, reopen) are recorded and judged by TLC (DbTrace.tla).
4. OverrideChannel.tla (common/channel/override_channel.go, one action per select): TLC checks
   <>[](lastReceived = lastWritten) under weak fairness plus Monotone / LatestKept; a mutant that drops the
   value when the buffer is full must violate them; stress runs of the real channel (2 writers, 1 receiver,
   per-goroutine event queues) are validated by ChanTrace.tla, which looks for an interleaving that is a
   behaviour of the contract and ends with the receiver holding the last value.
"""
import os
import _db
import vf

SCOPE = "res,recs,lv"


def run(ctx):
    quick = ctx.tier == "quick"
    ctx.assumptions += [
        "sequence numbers stay far below 2^31: arithmetic near 2^64 is outside TLC's integer range and is not claimed",
        "requests that fail in the sequence generator (fewer deltas than existing suffixes, malformed) are C13's subject and excluded here",
        "on the real channel 'eventually' is checked at quiescence (writers finished, receiver drained); the fairness-based liveness is model-checked on the specification only",
        "keys under a sequence prefix that look like 'prefix-...' are only created by sequence puts in the enumerated domain",
    ]
    r = ctx.tlc("OxiaDbMC", "db-c16-quick.cfg", label="laws", heap="4g")
    ctx.log("SeqRule/SeqFresh (4 requests x 1 op): %d distinct states, %d transitions" % (r.distinct, r.generated))
    r = ctx.tlc("OxiaDbMC", "db-c16-laws2.cfg", label="laws2", heap="4g")
    ctx.log("SeqRule/SeqFresh (2 requests x <=2 ops): %d distinct states, %d transitions" % (r.distinct, r.generated))

    binp = ctx.go_build("dbcheck")
    for cfg, mode in ((("db-c16-steps.cfg", "db"),) if quick else
                      (("db-c16-steps.cfg", "db"), ("db-c16-steps2.cfg", "db"), ("db-c16-steps.cfg", "leader"))):
        label = cfg[len("db-c16-"):-len(".cfg")] + "-" + mode
        path, n, _ = _db.tlc_export(ctx, cfg, "STEP", label)
        res = _db.replay(ctx, binp, path, mode, SCOPE, label)
        _db.report(ctx, res, "c16-" + label)
    _db.sample_from(path, "spec transition (sequence puts) replayed on the real code", ctx)
    path, n, _ = _db.tlc_export(ctx, "db-c16-runs.cfg", "RUN", "runs", simulate="num=%d" % (15 if quick else 150), depth=10, workers=1)
    res = _db.replay(ctx, binp, path, "db", SCOPE, "runs")
    _db.report(ctx, res, "c16-run")

    _db.drive_and_validate(ctx, binp, "db", "seq", 30 if quick else 300, 30, "db-trace-c16.cfg", "seq", 1)
    if not quick:
        _db.drive_and_validate(ctx, binp, "leader", "seq", 40, 30, "db-trace-c16.cfg", "seq-leader", 2)

    # override channel
    r = ctx.tlc("OverrideChannel", "chan-live.cfg" if quick else "chan-live-thorough.cfg", label="chan", heap="1g")
    ctx.log("OverrideChannel liveness + invariants: %d distinct states" % r.distinct)
    r = ctx.tlc("OverrideChannel", "chan-mutant-drop.cfg", label="chan-mutant", allow_violation=True, heap="1g")
    if not r.violated:
        raise vf.Inconclusive("the drop-when-full mutant of OverrideChannel.tla is not caught: the properties are vacuous")
    cbin = ctx.go_build("chancheck")
    tp = os.path.join(ctx.scratch, "chan.ndjson")
    runs, writes = (12, 40) if quick else (60, 60)
    p = ctx.run([cbin, "stress", "-seed", str(ctx.seed), "-runs", str(runs), "-writes", str(writes), "-out", tp], ok_codes=(0, 3))
    r = ctx.tlc("ChanTrace", "chan-trace.cfg", files=[(tp, "trace.ndjson")], workers=1, deque=True, label="chantrace",
                seed=False, allow_violation=True, heap="2g")
    if p.returncode == 3 or not r.ok:
        bad = "?"
        for l in r.out.splitlines():
            if l.startswith('<<"REJECTED"'):
                bad = l.split(",")[1].strip()
        rp = ctx.save_replay("chan-run%s.ndjson" % bad, open(tp).read())
        ctx.violation("stress run %s of the real OverrideChannel is not a behaviour of its contract (%s): no interleaving of the "
                      "recorded WriteLast/Receive events ends with the receiver holding the last value written"
                      % (bad, (p.stderr or "").strip()[:200] or "rejected by ChanTrace"), rp)
    else:
        ctx.traces_validated += runs
        ctx.log("override channel: %d stress runs x %d writes of the real channel accepted by ChanTrace (%d states)" % (runs, writes, r.distinct))
    ctx.notes["exhaustive"] = True


def replay(ctx, path):
    path = os.path.abspath(path)
    if path.endswith(".ndjson"):
        r = ctx.tlc("ChanTrace", "chan-trace.cfg", files=[(path, "trace.ndjson")], workers=1, deque=True, label="chantrace",
                    seed=False, allow_violation=True, heap="2g")
        if not r.ok:
            ctx.violation("recorded run of the override channel is rejected by ChanTrace", path)
        return
    _db.replay_file(ctx, path, "db-trace-c16.cfg")
