"""C11 - key order is a strict total order and the storage engine honours it.

1. TLC checks the order laws of the transcribed comparator exhaustively (SlashOrderMC: all pairs / triples of
   keys over an alphabet that contains '/' and its byte neighbours) and the engine's contract
   (a <= Separator(a,b) < b, a <= Successor(a), abbreviated keys, immediate successor) for the functions the
   comparer installs.  The mutant configuration (bytewise separator, what the tree had before the fix) must be
   refuted - its violating pairs are the adversarial inputs of the engine tests.
2. Binding 1, spec -> code: TLC exports the comparison table; kvorder compares the real
   compare.CompareWithSlash / kv.OxiaSlashSpanComparer entry by entry (and pebble's DefaultComparer against the
   transcription of the bytewise functions).  code -> spec: what the installed comparer answers on the table
   pairs and on longer random pairs/triples is judged by TLC (SlashOrderTrace).
3. Binding 2, spec -> code: every transition of the bounded OrderedKV state graph and simulated long runs are
   replayed on the real kv.KV (Pebble on /dev/shm, values of tens of KB, real Flush / Compact / reopen) and
   every get mode on every probe key and every scan over every pair of bounds is compared.
   code -> spec: randomized larger data sets (built around the adversarial pairs) are recorded call by call
   and validated by TLC (OrderedKVTrace).
"""
import json
import os
import vf

MAXREPORT = 4


def _export(r, tag, path):
    n = 0
    pre = '<<"%s", "' % tag
    with open(path, "w") as f:
        for l in r.out.splitlines():
            if l.startswith(pre) and l.endswith('">>'):
                f.write(l[len(pre):-3].replace('\\"', '"').replace("\\\\", "\\") + "\n")
                n += 1
    return n


def _s(k):
    """printable form of a key given as byte codes"""
    return json.dumps(bytes(k).decode("latin-1"))


def _bad_lines(r):
    """[(line, why)] printed by the trace specs, and the total count"""
    bad, total, hw, n = [], 0, 0, 0
    for l in r.out.splitlines():
        if l.startswith('<<"BAD", '):
            p = l[2:-2].split(", ")
            bad.append((int(p[1]), p[2].strip('"')))
        elif l.startswith('<<"REJECTED"'):
            p = l.split(">>")[0][2:].split(", ")
            hw, n, total = int(p[1]), int(p[2]), int(p[3])
    return bad, total, hw, n


def _validate(ctx, module, cfg, path, label):
    r = ctx.tlc(module, cfg, files=[(path, "trace.ndjson")], workers=1, deque=True, label=label,
                seed=False, allow_violation=True, heap="12g")
    bad, total, hw, n = _bad_lines(r)
    if r.ok:
        return True, [], r
    if not bad and hw and hw <= n:
        # TLC could not take line hw at all (malformed line): a harness problem, not a verdict
        raise vf.Inconclusive("%s: TLC stopped at line %d of %d without a verdict:\n%s"
                              % (label, hw, n, "\n".join(r.out.splitlines()[-20:])))
    if not bad:
        raise vf.Inconclusive("%s: TLC rejected the trace without naming a line:\n%s"
                              % (label, "\n".join(r.out.splitlines()[-20:])))
    return False, bad, r


def _death(p):
    """None if the harness process ended by itself; else what killed it.  The harness returns 0, or 2 with a
    message for its own problems.  A panic of an engine goroutine ends the process with Go's traceback; Pebble's
    Fatalf (the repository's pebbleLogger) ends it with exit status 1 after a warning on stderr."""
    err = p.stderr or ""
    first = [l for l in err.splitlines() if l.startswith("panic:") or l.startswith("fatal error:")]
    if first:
        return first[0][:300]
    if p.returncode == 1:
        warn = [l for l in err.splitlines() if "level=WARN" in l or "level=ERROR" in l]
        return "the engine exited the process (os.Exit(1))" + (": " + warn[-1][:300] if warn else "")
    return None


# ------------------------------------------------------------------------------------------- comparer
def _check_comparer(ctx, binp, rows, quick):
    out = os.path.join(ctx.scratch, "table.json")
    real = os.path.join(ctx.scratch, "real.ndjson")
    ctx.run([binp, "table", "-in", rows, "-out", out, "-dump", real, "-seed", str(ctx.seed),
             "-rand", "2500" if quick else "20000", "-dumpmax", "7000" if quick else "20000"])
    res = json.load(open(out))
    ctx.replayed += res["rows"]
    ctx.notes["comparison_table_rows"] = res["rows"]
    ctx.notes["installed_separator"] = res["installed"]
    ctx.log("table: %d rows compared with the real comparator; installed Separator/Successor: %s; %d comparator mismatches"
            % (res["rows"], res["installed"], res["cmp_bad"]))
    if res.get("transcription"):
        raise vf.Inconclusive("the transcription of pebble's DefaultComparer in SlashOrder.tla is wrong: %s"
                              % res["transcription"][:3])
    if not res["abbrev_same"]:
        ctx.notes["abbreviated_key"] = "differs from the transcription; judged on its contract only"
    # code -> spec: TLC judges what the installed comparer answers
    ok, bad, r = _validate(ctx, "SlashOrderTrace", "slash-trace.cfg", real, "comparer")
    lines = None
    if ok:
        ctx.traces_validated += 1
        ctx.log("comparer: %d recorded answers accepted by SlashOrderTrace" % res["real_lines"])
    else:
        lines = open(real).read().splitlines()
        kinds = {}
        for ln, why in bad:
            kinds.setdefault(why, []).append(json.loads(lines[ln - 1]))
        names = {"order": "the comparator orders keys differently from the hierarchical order",
                 "laws": "the comparator is not a strict total order consistent with equality",
                 "sep": "Separator breaks the engine contract a <= Separator(a,b) < b",
                 "succ": "Successor breaks the engine contract a <= Successor(a)",
                 "abbrev": "AbbreviatedKey contradicts the comparator",
                 "immsucc": "ImmediateSuccessor is not the least greater key"}
        for why, rws in kinds.items():
            p = ctx.save_replay("comparer-%s.json" % why, {"kind": "comparer", "what": why, "rows": rws[:10]})
            e = rws[0]
            ctx.violation("%s: e.g. a=%s b=%s c=%s -> cmp(a,b)=%s cmp(b,a)=%s cmp(b,c)=%s cmp(a,c)=%s sep=%s succ=%s (%d recorded answers rejected by TLC)"
                          % (names.get(why, why), _s(e["a"]), _s(e["b"]), _s(e["c"]), e["cmp"], e["cba"], e["cbc"], e["cac"],
                             _s(e["sep"]), _s(e["succ"]), len(rws)), p)
    if res["cmp_bad"] and (ok or not any(w in ("order", "laws") for _, w in bad)):
        # differs from the table on pairs that were not sampled into the dump
        p = ctx.save_replay("comparer-table.json", {"kind": "table", "mismatches": res["cmp_mismatches"]})
        ctx.violation("the comparator differs from the specification's comparison table on %d pairs, e.g. %s"
                      % (res["cmp_bad"], res["cmp_mismatches"][0]), p)
    with open(real) as f:
        ctx.samples.append({"kind": "answers of the installed comparer judged by TLC (SlashOrderTrace)",
                            "lines": [json.loads(next(f)) for _ in range(3)]})


# ------------------------------------------------------------------------------------------- engine, spec -> code
def _replay(ctx, binp, behaviours, obs, label):
    out = os.path.join(ctx.scratch, "replay-%s.json" % label)
    argv = [binp, "replay", "-in", behaviours, "-out", out]
    if obs:
        argv += ["-obs", obs]
    p = ctx.run(argv + ["-par", str(max(4, ctx.cores))], ok_codes=(0, 1, 2))
    if p.returncode != 0:
        why = _death(p)
        if why is None:
            raise vf.Inconclusive("replay failed: %s" % (p.stderr or "")[-2000:])
        # the engine killed the process: find the behaviour (sequential run with a progress file), re-execute it
        prog = os.path.join(ctx.scratch, "progress-%s" % label)
        q = ctx.run(argv + ["-par", "1", "-progress", prog], ok_codes=(0, 1, 2))
        if q.returncode == 0 or _death(q) is None or not os.path.exists(prog):
            raise vf.Inconclusive("the engine killed the replayer once (%s) but not in a sequential run [%s]" % (why, label))
        idx = int(open(prog).read())
        with open(behaviours) as f:
            beh = [json.loads(l) for i, l in enumerate(f) if i == idx][0]
        rp = ctx.save_replay("%s-crash.json" % label, {"kind": "behaviour", "path": beh["path"], "probes": []})
        ok2, bad2, _ = _rerun(ctx, binp, rp, label + "-crash")
        if ok2:
            raise vf.Inconclusive("the engine killed the replayer (%s) but the behaviour runs when re-executed alone [%s]" % (why, label))
        calls = " ".join(c["a"] for c in beh["path"])
        ctx.violation("real kv.KV ends the process while executing [%s] (%d calls): %s" % (calls[:400], len(beh["path"]), bad2[0][1]), rp)
        return {"behaviours": idx, "bad": 1, "mismatches": []}
    res = json.load(open(out))
    ctx.replayed += res["behaviours"]
    ctx.log("replayed %d behaviours (%d calls, %d queries) [%s]: %d disagree" %
            (res["behaviours"], res["steps"], res["queries"], label, res["bad"]))
    if res.get("unreproduced"):
        ctx.notes["unreproduced_mismatches_" + label] = res["unreproduced"]
        if not res["bad"]:
            raise vf.Inconclusive("%d behaviours disagreed once and agreed on three re-executions [%s]" % (res["unreproduced"], label))
    for i, mm in enumerate((res["mismatches"] or [])[:MAXREPORT]):
        mm["kind"] = "behaviour"
        p = ctx.save_replay("%s-%d.json" % (label, i), mm)
        calls = " ".join("%s(%s)" % (c["a"], _s(c["k"]) if c["k"] else (_s(c["lo"]) + "," + _s(c["hi"]) if c["lo"] else ""))
                         for c in mm["path"])
        ctx.violation("real kv.KV deviates from OrderedKV after [%s]: %s: %s (%d of %d behaviours disagree)"
                      % (calls, mm["query"], mm["what"], res["bad"], res["behaviours"]), p)
    return res


# ------------------------------------------------------------------------------------------- engine, code -> spec
MUT = ("Put", "Delete", "DeleteRange", "Flush", "Compact", "Reopen")


def _trace_replay(lines, ln):
    """the calls that lead to (1-based) line ln of a concatenated trace: mutations since the Reset + that line"""
    start = ln - 1
    while start > 0 and json.loads(lines[start])["a"] != "Reset":
        start -= 1
    calls = [json.loads(x) for x in lines[start + 1: ln - 1]]
    calls = [c for c in calls if c["a"] in MUT]
    last = json.loads(lines[ln - 1])
    return {"kind": "trace", "calls": calls + [last]}, last


def _describe(last):
    if last["a"] == "Get":
        got = "not found" if last["rf"] == 0 else "%s (value %d)" % (_s(last["rk"]), last["rv"])
        return "Get(%s, %s) via %s returned %s [%s]" % (_s(last["k"]), last["m"], last["via"], got, last["res"])
    if last["a"] in ("Scan", "RevList"):
        return "%s(%s, %s) via %s returned %d keys [%s]" % (last["a"], _s(last["lo"]), _s(last["hi"]), last["via"],
                                                             len(last["keys"]), last["res"])
    return "%s -> %s" % (last["a"], last["res"])


def _rerun(ctx, binp, path, label):
    """re-execute a replay file on the real code and let TLC judge the fresh recording; True = accepted"""
    rf = json.load(open(path))
    tp = os.path.join(ctx.scratch, "rerun-%s.ndjson" % label)
    q = ctx.run([binp, "rerun", "-in", path, "-out", tp], ok_codes=(0, 1, 2))
    if q.returncode != 0:
        why = _death(q)
        if why is None:
            raise vf.Inconclusive("rerun failed: %s" % (q.stderr or "")[-2000:])
        return False, [(0, "the engine ended the process: " + why)], tp
    if rf.get("kind") == "comparer":
        ok, bad, r = _validate(ctx, "SlashOrderTrace", "slash-trace.cfg", tp, "rerun-" + label)
    else:
        ok, bad, r = _validate(ctx, "OrderedKVTrace", "okv-trace.cfg", tp, "rerun-" + label)
    return ok, bad, tp


def _crashed(ctx, binp, p, tp, label):
    """the driver process died: if the engine panicked (a background goroutine of Pebble cannot be recovered
    in-process) re-execute the calls recorded so far; a crash that happens again is reported"""
    first = _death(p)
    if first is None:
        raise vf.Inconclusive("driver failed: %s" % (p.stderr or "")[-2000:])
    lines = [l for l in open(tp).read().splitlines() if l.endswith("}")]
    calls = []
    for l in lines:
        try:
            c = json.loads(l)
        except ValueError:
            continue
        if c["a"] == "Reset":
            calls = []
        elif c["a"] in MUT:
            calls.append(c)
    rp = ctx.save_replay("crash-%s.json" % label, {"kind": "trace", "calls": calls, "panic": first})
    for attempt in range(3):
        q = ctx.run([binp, "rerun", "-in", rp, "-out", os.path.join(ctx.scratch, "crash-rerun.ndjson")], ok_codes=(0, 1, 2))
        if q.returncode != 0 and _death(q):
            ctx.violation("the engine crashed the process after %d mutations (re-executed: crashes again): %s" % (len(calls), first[:300]), rp)
            return
    raise vf.Inconclusive("the engine crashed the driver (%s) but not on re-execution of the recorded calls" % first[:300])


def _drive(ctx, binp, rows, n, keys, label, seed):
    tp = os.path.join(ctx.scratch, "trace-%s.ndjson" % label)
    p = ctx.run([binp, "drive", "-seed", str(seed), "-n", str(n), "-keys", keys, "-adv", rows, "-out", tp], ok_codes=(0, 1, 2))
    if p.returncode != 0:
        _crashed(ctx, binp, p, tp, label)
        return tp, False
    info = json.loads(p.stdout.strip().splitlines()[-1])
    if info["adversarial_pairs"] == 0:
        raise vf.Inconclusive("no adversarial pairs reached the driver")
    ok, bad, r = _validate(ctx, "OrderedKVTrace", "okv-trace.cfg", tp, "trace-" + label)
    if ok:
        ctx.traces_validated += n
        ctx.log("%s: %d data sets (%s keys, %d calls) accepted by OrderedKVTrace" % (label, n, keys, info["lines"]))
        return tp, True
    lines = open(tp).read().splitlines()
    nbad = _bad_lines(r)[1]
    reported, tried = 0, 0
    seen = set()
    for ln, why in bad:
        rp, last = _trace_replay(lines, ln)
        key = (last["a"], last.get("m"), last.get("via"), last["res"][:12])
        if key in seen or reported >= MAXREPORT or tried >= 3 * MAXREPORT:
            continue
        seen.add(key)
        tried += 1
        p = ctx.save_replay("trace-%s-line%d.json" % (label, ln), rp)
        # only a wrong answer that the real code gives again on re-execution is reported
        ok2, bad2, _ = _rerun(ctx, binp, p, "%s-%d" % (label, ln))
        if ok2:
            ctx.log("line %d (%s) was rejected by TLC but the re-execution of its calls is accepted" % (ln, _describe(last)))
            os.remove(p)
            continue
        reported += 1
        ctx.violation("real kv.KV execution rejected by OrderedKVTrace (%s): %s after %d mutations (%d wrong answers in %d calls)"
                      % (why, _describe(last), len(rp["calls"]) - 1, nbad, info["lines"]), p)
    if reported == 0:
        raise vf.Inconclusive("TLC rejected %d lines of %s but none of the re-executed ones fails again" % (nbad, tp))
    return tp, False


def run(ctx):
    quick = ctx.tier == "quick"
    ctx.assumptions += [
        "the hierarchical order is the one CompareWithSlash defines at the pinned commit (transcribed in SlashOrder.tla and bound entry by entry)",
        "keys are non-empty byte strings; an empty scan bound means unbounded (the convention of kv.KV.RangeScan)",
        "pebble uses a comparer's Separator/Successor only through InternalKey.Separator/Successor (guard transcribed as Guarded)",
        "automatic background compactions of Pebble are not scheduled by the harness; manual compaction goes through a verif-tagged export",
    ]
    # ---- 1. the laws of the order and the engine contract, exhaustively
    r = ctx.tlc("SlashOrderMC", "slash-pairs-quick.cfg" if quick else "slash-pairs-thorough.cfg", label="pairs")
    ctx.log("pair laws + engine contract: %d pairs of keys" % r.distinct)
    r = ctx.tlc("SlashOrderMC", "slash-triples-quick.cfg", label="triples")
    ctx.log("transitivity: %d triples (alphabet . / 0 a, length <= 3)" % r.distinct)
    if not quick:
        r = ctx.tlc("SlashOrderMC", "slash-triples3.cfg", label="triples3")
        ctx.log("transitivity: %d triples (alphabet . / 0, length <= 4)" % r.distinct)
    # the contract discriminates: the bytewise separator (the tree before the fix) is refuted
    r = ctx.tlc("SlashOrderMC", "slash-mutant-bytewise.cfg", label="mutant-bytewise", allow_violation=True)
    if "EngineSeparator" not in r.violated:
        raise vf.Inconclusive("the engine contract does not refute the bytewise separator (vacuous contract)")
    ctx.notes["mutant_bytewise_separator"] = "refuted by TLC (EngineSeparator)"

    # ---- 2. binding 1: the comparison table (all short keys, and the chunk family: long keys, '/' around the
    # 8- and 16-byte boundaries); the chunk run also checks the pair laws and the contract on its keys
    r = ctx.tlc("SlashOrderMC", "slash-table.cfg", label="table")
    rows = os.path.join(ctx.scratch, "rows.ndjson")
    n = _export(r, "ROW", rows)
    r.out, r.printed = "", []
    r = ctx.tlc("SlashOrderMC", "slash-chunks-table.cfg", label="chunk-table")
    rows2 = os.path.join(ctx.scratch, "rows-chunks.ndjson")
    n2 = _export(r, "ROW", rows2)
    r.out, r.printed = "", []
    if n == 0 or n2 == 0:
        raise vf.Inconclusive("TLC exported no comparison table")
    ctx.log("comparison table: %d pairs of short keys, %d pairs of chunk-built keys (up to 24 bytes)" % (n, n2))
    with open(rows, "a") as f:
        f.write(open(rows2).read())
    r = ctx.tlc("SlashOrderMC", "slash-chunks-triples.cfg", label="chunk-triples")
    ctx.log("transitivity: %d triples of chunk-built keys" % r.distinct)
    if not quick:
        r = ctx.tlc("SlashOrderMC", "slash-chunks-pairs-thorough.cfg", label="chunk-pairs")
        ctx.log("pair laws + engine contract: %d pairs of chunk-built keys (up to 4 chunks, 36 bytes)" % r.distinct)
    adv = [json.loads(l) for l in open(rows) if '"bsepok":false' in l]
    if not adv:
        raise vf.Inconclusive("TLC found no pair on which the bytewise separator breaks the contract")
    ctx.notes["adversarial_pairs"] = len(adv)
    ctx.samples.append({"kind": "pair on which TLC refutes the contract for the bytewise separator (adversarial input)",
                        "a": _s(adv[len(adv) // 2]["a"]), "b": _s(adv[len(adv) // 2]["b"]),
                        "bytewise_separator": _s(adv[len(adv) // 2]["eff"])})
    binp = ctx.go_build("kvorder")
    _check_comparer(ctx, binp, rows, quick)

    # ---- 3. the ordered map: model laws
    r = ctx.tlc("OrderedKVMC", "okv-quick.cfg" if quick else "okv-thorough.cfg", label="okv-laws")
    ctx.log("OrderedKV laws: %d distinct states, %d transitions" % (r.distinct, r.generated))

    # ---- 4. spec -> code: every transition of the bounded graph
    # (3 keys x value ids {1,2}; thorough adds 4 keys x value id {1})
    for label, cfg in [("transition", "okv-replay-steps.cfg")] + ([] if quick else [("transition4", "okv-replay-steps-thorough.cfg")]):
        r = ctx.tlc("OrderedKVMC", cfg, label=label)
        steps, obs = os.path.join(ctx.scratch, label + ".ndjson"), os.path.join(ctx.scratch, label + "-obs.ndjson")
        ns, no = _export(r, "STEP", steps), _export(r, "OBS", obs)
        if ns == 0 or no == 0:
            raise vf.Inconclusive("TLC exported no transitions / observations")
        if ns != r.generated - 1:
            raise vf.Inconclusive("TLC exported %d of %d transitions" % (ns, r.generated - 1))
        r.out, r.printed = "", []  # free the memory held by the exported lines
        _replay(ctx, binp, steps, obs, label)
        if label == "transition":
            with open(steps) as f:
                for i, l in enumerate(f):
                    if i == ns // 2:
                        ctx.samples.append({"kind": "spec transition replayed on the real kv.KV (path, then every query of obs[live])",
                                            "behaviour": json.loads(l)})
    # long simulated runs over a larger key set
    r = ctx.tlc("OrderedKVMC", "okv-replay-runs.cfg", simulate="num=%d" % (10 if quick else 40), depth=25, workers=4, label="runs")
    runs = os.path.join(ctx.scratch, "runs.ndjson")
    if _export(r, "RUN", runs) == 0:
        raise vf.Inconclusive("TLC simulation exported no behaviours")
    r.out, r.printed = "", []
    _replay(ctx, binp, runs, None, "run")

    # ---- 5. code -> spec: randomized larger data sets on the real engine, judged by TLC
    groups = [("a", 4, "60,120,240,464")] if quick else \
             [("a", 5, "60,120,240,464,300"), ("b", 5, "464,90,600,150,30"), ("c", 4, "200,464,700,24"), ("d", 5, "40,330,464,120,520")]
    sample = None
    for i, (label, n, keys) in enumerate(groups):
        if i > 0 and ctx.left() < 240:
            ctx.notes["drive_groups_skipped"] = len(groups) - i
            break
        tp, ok = _drive(ctx, binp, rows, n, keys, label, ctx.seed * 100 + i)
        if ok and sample is None:
            sample = tp
    if sample:
        with open(sample) as f:
            ls = [json.loads(next(f)) for _ in range(80)]
        ctx.samples.append({"kind": "recorded kv.KV trace accepted by TLC (OrderedKVTrace); first put, a get and a scan",
                            "lines": [ls[1]] + [x for x in ls if x["a"] == "Get"][:1]})
    # ---- 6. thorough: transitivity over larger sets of triples as far as the budget allows (3 and 6 minutes)
    if not quick and ctx.left() > 420:
        r = ctx.tlc("SlashOrderMC", "slash-triples-thorough6.cfg", label="triples6")
        ctx.log("transitivity: %d triples (alphabet 00 . / 0 a ff, length <= 3)" % r.distinct)
        ctx.notes["triples_6letters_len3"] = r.distinct
    if not quick and ctx.left() > 800:
        r = ctx.tlc("SlashOrderMC", "slash-triples-thorough.cfg", label="triples4")
        ctx.log("transitivity: %d triples (alphabet . / 0 a, length <= 4)" % r.distinct)
        ctx.notes["triples_4letters_len4"] = r.distinct
    ctx.notes["exhaustive"] = True
    ctx.notes["explanation"] = ("states: pairs/triples of keys checked by TLC against the order laws and the engine contract, states of the "
                                "OrderedKV graph, and lines of real-code recordings judged by TLC; every transition of the bounded "
                                "OrderedKV graph was replayed on the real Pebble-backed kv.KV")


def replay(ctx, path):
    """Re-execute a saved replay on the real code; TLC judges the fresh recording."""
    rf = json.load(open(path))
    if rf.get("kind") == "table":
        raise vf.Inconclusive("a table replay lists comparator mismatches; run the check itself to re-evaluate them")
    binp = ctx.go_build("kvorder")
    ok, bad, tp = _rerun(ctx, binp, path, "replay")
    if ok:
        ctx.traces_validated += 1
        ctx.log("the re-executed calls are accepted by TLC")
        return
    lines = open(tp).read().splitlines()
    ln, why = bad[0]
    if ln == 0:
        ctx.violation(why, path)
        return
    last = json.loads(lines[ln - 1])
    if rf.get("kind") == "comparer":
        ctx.violation("installed comparer rejected by SlashOrderTrace (%s): a=%s b=%s cmp=%s sep=%s succ=%s"
                      % (why, _s(last["a"]), _s(last["b"]), last["cmp"], _s(last["sep"]), _s(last["succ"])), path)
    else:
        ctx.violation("re-executed calls rejected by OrderedKVTrace (%s): %s (%d wrong answers)"
                      % (why, _describe(last), len(bad)), path)
