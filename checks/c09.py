"""C09 - the WAL is a faithful, contiguous, durable sequence.

1. TLC checks the model's own laws exhaustively (Shape, SegFits, TrimSafe, AppendOnlyAtTail).
2. spec -> code: every transition of the bounded state graph (one behaviour per transition) and
   long simulated behaviours are replayed on the real WAL; outcome, returned offset, First/LastOffset
   and the complete readable content are compared after every call.
3. code -> spec: random call sequences on the real WAL (other segment sizes, arbitrary entry sizes)
   are recorded and validated by WalTrace.tla.
"""
import json
import os
import vf


def _export(ctx, r, tag, path):
    n = 0
    with open(path, "w") as f:
        pre = '<<"%s", "' % tag
        for l in r.out.splitlines():
            if l.startswith(pre) and l.endswith('">>'):
                s = l[len(pre):-3].replace('\\"', '"').replace("\\\\", "\\")
                f.write(s + "\n")
                n += 1
    return n


def _replay(ctx, binp, path, seg, label):
    out = os.path.join(ctx.scratch, "replay-%s.json" % label)
    ctx.run([binp, "replay", "-in", path, "-seg", str(seg), "-ret", "2", "-out", out])
    res = json.load(open(out))
    ctx.replayed += res["behaviours"]
    ctx.log("replayed %d behaviours (%d calls) [%s]: %d mismatch classes" %
            (res["behaviours"], res["steps"], label, len(res["mismatches"] or [])))
    return res


def _report(ctx, mismatches, origin):
    for i, mm in enumerate(mismatches or []):
        p = ctx.save_replay("%s-%d.json" % (origin, i), mm)
        calls = " ".join("%s(%s)" % (s["a"], s.get("off", "")) for s in mm["behaviour"])
        ctx.violation("real WAL deviates from Wal.tla at step %d of [%s]: %s" % (mm["step"], calls, mm["what"]), p)


def validate_traces(ctx, path, cfg, label):
    """Run WalTrace on a concatenated trace file; returns (accepted, highwater, total)."""
    r = ctx.tlc("WalTrace", cfg, files=[(path, "trace.ndjson")], workers=1, deque=True, label=label,
                seed=False, allow_violation=True)
    total = sum(1 for _ in open(path))
    if r.ok:
        return True, total, total, r
    hw = 0
    for l in r.out.splitlines():
        if l.startswith('<<"REJECTED"'):
            hw = int(l.split(",")[1])
    return False, hw, total, r


def run(ctx):
    quick = ctx.tier == "quick"
    ctx.assumptions += [
        "timestamps handed to the WAL are non-decreasing (the trimmer's binary search relies on it)",
        "entries larger than a segment are outside the enumerated domain",
        "a clean Close loses nothing (crash images are C10's subject)",
    ]
    # 1. the model's own laws
    r = ctx.tlc("WalMC", "wal-quick.cfg" if quick else "wal-thorough.cfg", label="laws")
    ctx.log("model laws: %d distinct states, %d transitions" % (r.distinct, r.generated))

    binp = ctx.go_build("walcheck")

    # 2. spec -> code
    r = ctx.tlc("WalMC", "wal-replay-steps.cfg" if quick else "wal-replay-steps-thorough.cfg", label="steps")
    steps = os.path.join(ctx.scratch, "steps.ndjson")
    n = _export(ctx, r, "STEP", steps)
    if n == 0:
        raise vf.Inconclusive("TLC exported no transitions")
    res = _replay(ctx, binp, steps, 128, "steps")
    _report(ctx, res["mismatches"], "transition")
    with open(steps) as f:
        lines = f.readlines()
        ctx.samples.append({"kind": "spec transition replayed on the real WAL", "behaviour": json.loads(lines[len(lines) // 2])})

    num = 300 if quick else 4000
    r = ctx.tlc("WalMC", "wal-replay-runs.cfg", simulate="num=%d" % num, depth=15, workers=1, label="runs")
    runs = os.path.join(ctx.scratch, "runs.ndjson")
    n = _export(ctx, r, "RUN", runs)
    if n == 0:
        raise vf.Inconclusive("TLC simulation exported no behaviours")
    res = _replay(ctx, binp, runs, 128, "runs")
    _report(ctx, res["mismatches"], "run")

    # 3. code -> spec
    ntr = 60 if quick else 600
    for seg in ((128, 256) if quick else (128, 160, 256, 1024)):
        tp = os.path.join(ctx.scratch, "trace-%d.ndjson" % seg)
        ctx.run([binp, "drive", "-seed", str(ctx.seed * 1000 + seg), "-n", str(ntr), "-ops", "30",
                 "-seg", str(seg), "-ret", "2", "-out", tp])
        ok, hw, total, tr = validate_traces(ctx, tp, "wal-trace-%d.cfg" % seg, "trace%d" % seg)
        if ok:
            ctx.traces_validated += ntr
            ctx.log("seg=%d: %d traces (%d calls) accepted by WalTrace" % (seg, ntr, total))
            if seg == 128:
                with open(tp) as f:
                    ctx.samples.append({"kind": "recorded WAL trace accepted by TLC",
                                        "first_lines": [json.loads(next(f)) for _ in range(6)]})
            continue
        # find the trace containing the first rejected line and turn it into a replay file
        lines = open(tp).read().splitlines()
        bad = min(hw, total) - 1          # 0-based index of the first line TLC could not match
        start = bad
        while start > 0 and json.loads(lines[start])["a"] != "Reset":
            start -= 1
        calls = [json.loads(x) for x in lines[start + 1: bad + 1]]
        before = sum(1 for x in lines[:start] if json.loads(x)["a"] == "Reset")
        ctx.traces_validated += before
        p = ctx.save_replay("trace-seg%d-line%d.json" % (seg, bad),
                            {"behaviour": calls, "seg": seg, "ret": 2, "step": len(calls) - 1,
                             "what": "recorded call is not a step of Wal.tla (observed fields are those of the real WAL)"})
        last = calls[-1] if calls else {}
        ctx.violation("real WAL execution rejected by WalTrace at call %s (seg=%d): observed res=%s ret=%s first=%s last=%s"
                      % (last.get("a"), seg, last.get("res"), last.get("ret"), last.get("first"), last.get("last")), p)
    ctx.notes["exhaustive"] = True
    ctx.notes["explanation"] = ("states/transitions: TLC exhaustive search of WalMC (all call sequences up to the bound) plus "
                                "trace-validation runs; every transition of the bounded graph was replayed on the real WAL")


def replay(ctx, path):
    """Re-execute a saved replay file on the real WAL and let TLC (WalTrace) judge the fresh recording."""
    binp = ctx.go_build("walcheck")
    mm = json.load(open(path))
    seg = mm.get("seg", 128) or 128
    tp = os.path.join(ctx.scratch, "rerun.ndjson")
    ctx.run([binp, "rerun", "-in", path, "-out", tp])
    cfg = "wal-trace-%d.cfg" % seg
    ok, hw, total, tr = validate_traces(ctx, tp, cfg, "rerun")
    if ok:
        ctx.traces_validated += 1
        ctx.log("replayed execution is accepted by WalTrace")
        return
    lines = open(tp).read().splitlines()
    last = json.loads(lines[min(hw, total) - 1])
    ctx.violation("replayed execution rejected by WalTrace at call #%d %s: observed res=%s ret=%s first=%s last=%s"
                  % (min(hw, total) - 1, last.get("a"), last.get("res"), last.get("ret"), last.get("first"), last.get("last")), path)
