"""C10 - WAL recovery after crash or corruption yields a clean prefix or an error.

1. TLC checks exhaustively, on a bounded domain of pre-crash states (optionally the result of a history of
   appends and TruncateLog calls) x crash images x damage, that recovery in
   the shape of the implementation (WalRecovery!Model) satisfies the property (RecoveryOk), and that every
   repaired rule / recorded finding is necessary for that (mutant configurations must be refuted).
2. spec -> code: the same TLC run exports every abstract image with the model's outcome; harness/cmd/walrecover
   builds a real WAL, rewrites its segment files to the bytes the image stands for, reopens it through the real
   recovery path (panic recovery + watchdog), reads everything back, appends, closes, reopens again.
3. code -> spec: the observed outcomes (and those of random images beyond the enumerated domain: other segment
   sizes, more records, damage at arbitrary bytes with arbitrary values) are judged by TLC against
   WalRecoveryTrace.tla, one line per image.  A rejected line is re-executed; if it is rejected again it is a
   violation.  Recorded findings are attributed by their trigger + exact symptom; their witnesses are replayed
   unguarded on every run, and so are the failing images of repaired defects (REPAIRED), which must be accepted.
"""
import concurrent.futures as cf
import json
import os
import re
import vf

CHUNK = 30000
WITNESS_DIR = os.path.join(vf.VERIF, "replays", "C10")
# failing images of defects that were repaired in /repo (known-findings.json "fixed"): replayed on every run,
# judged by TLC without the guard, and they must be accepted - a rejection is a regression of the repair
REPAIRED = ["replays/C10/ro-zero-hole.json"]


def _export(r, path):
    n = 0
    pre = '<<"IMG", "'
    with open(path, "w") as f:
        for l in r.out.splitlines():
            if l.startswith(pre) and l.endswith('">>'):
                f.write(l[len(pre):-3].replace('\\"', '"').replace("\\\\", "\\") + "\n")
                n += 1
    return n


def _run_shard(ctx, binp, inp, outp):
    """Run the harness over one shard; a hang makes it exit 3 after the hanging image, we resume behind it.
    Returns False when the shard was abandoned (several hangs: the tree is broken, the evidence is in)."""
    done = 0
    for _ in range(6):
        p = ctx.run([binp, "run", "-in", inp, "-out", outp, "-seed", str(ctx.seed), "-skip", str(done)],
                    ok_codes=(0, 3))
        if p.returncode == 0:
            return True
        done = sum(1 for _ in open(outp))
    return False


def _harness(ctx, binp, images, label):
    """Execute all images on the real WAL (sharded); returns the path of the observation file."""
    lines = open(images).read().splitlines()
    k = max(1, min(8, ctx.cores // 2, len(lines) // 2000 + 1))
    shards = []
    for i in range(k):
        ip = os.path.join(ctx.scratch, "%s-in-%d.ndjson" % (label, i))
        with open(ip, "w") as f:
            f.write("\n".join(lines[i::k]) + "\n")
        shards.append((ip, os.path.join(ctx.scratch, "%s-obs-%d.ndjson" % (label, i))))
    with cf.ThreadPoolExecutor(max_workers=k) as ex:
        complete = all([fu.result() for fu in [ex.submit(_run_shard, ctx, binp, ip, op) for ip, op in shards]])
    out = os.path.join(ctx.scratch, "%s-obs.ndjson" % label)
    n = 0
    with open(out, "w") as f:
        for _, op in shards:
            for l in open(op):
                f.write(l)
                n += 1
    if complete and n != len(lines):
        raise vf.Inconclusive("harness produced %d observations for %d images" % (n, len(lines)))
    if not complete:
        ctx.log("%s: the real code hangs repeatedly; %d of %d images executed" % (label, n, len(lines)))
    return out


def _judge(ctx, obs, label, guarded=True):
    """TLC judges every line of obs. Returns (lines, verdicts {idx: (verdict, kf)}, diffs [idx])."""
    lines = open(obs).read().splitlines()
    chunks = [lines[i:i + CHUNK] for i in range(0, len(lines), CHUNK)]
    cfg = "walrec-trace.cfg" if guarded else "walrec-trace-unguarded.cfg"

    def one(ci):
        p = os.path.join(ctx.scratch, "%s-chunk-%d.ndjson" % (label, ci))
        with open(p, "w") as f:
            f.write("\n".join(chunks[ci]) + "\n")
        return ctx.tlc("WalRecoveryTrace", cfg, files=[(p, "trace.ndjson")], workers=1, deque=True,
                       label="%s-%d" % (label, ci), seed=False, heap="3g")

    verdicts, diffs = {}, []
    with cf.ThreadPoolExecutor(max_workers=max(1, min(6, ctx.cores // 2))) as ex:
        results = list(ex.map(one, range(len(chunks))))
    for ci, r in enumerate(results):
        if not r.ok:
            raise vf.Inconclusive("trace validation did not finish on %s chunk %d" % (label, ci))
        for l in r.out.splitlines():
            m = re.match(r'<<"VERDICT", (\d+), "(\w+)", "(.*)">>', l)
            if m:
                verdicts[ci * CHUNK + int(m.group(1)) - 1] = (m.group(2), m.group(3).replace('\\"', '"'))
            m = re.match(r'<<"DIFF", (\d+)>>', l)
            if m:
                diffs.append(ci * CHUNK + int(m.group(1)) - 1)
    return lines, verdicts, diffs


def _describe(o):
    d = o["dmg"]
    ob = o["obs"]
    s = "codec=%s seg=%d sizes=%s synced=%d commit=%d records=%s lost=%d idx=%s" % (
        o["codec"], o["seg"], o["sizes"], o["synced"], o["commit"], o["rs"], o["lost"], o["idx"])
    if d["field"] != "none":
        s += " damage=%s/%s@%d(val %s)" % (d["field"], d["cls"], d["rec"], d.get("val"))
    if o.get("hist"):
        s = "history=[%s, then the appends that complete sizes] " % ", ".join(
            "append%s+TruncateLog(%d)" % (r["app"], r["keep"]) for r in o["hist"]) + s
    if o["post"]:
        s += " then-append=%s" % o["post"]
    s += " -> recovery %s %s entries=%s" % (ob["res"], ("(" + ob["where"][:120] + ")") if ob["where"] else "", ob["ents"])
    if ob["pres"] != "none":
        s += "; after append+reopen %s %s entries=%s" % (ob["pres"], ("(" + ob["pwhere"][:120] + ")") if ob["pwhere"] else "", ob["pents"])
    return s


def _process(ctx, binp, images, label, state, from_spec):
    """images -> real WAL -> TLC verdicts; rejected lines are re-executed and reported."""
    obs = _harness(ctx, binp, images, label)
    lines, verdicts, diffs = _judge(ctx, obs, label)
    n = len(lines)
    bad = [i for i, v in verdicts.items() if v[0] == "bad"]
    ill = [i for i, v in verdicts.items() if v[0] == "illformed"]
    if ill:
        raise vf.Inconclusive("harness/generator produced an image outside the crash model: %s" % lines[ill[0]][:600])
    for i, v in verdicts.items():
        if v[0] == "kf":
            state["kf"][v[1]] = state["kf"].get(v[1], 0) + 1
    state["diffs"] += len(diffs)
    if diffs and not state.get("diff_sample"):
        state["diff_sample"] = json.loads(lines[diffs[0]])
    if from_spec:
        ctx.replayed += n
    else:
        ctx.traces_validated += n - len(bad)
    ctx.log("%s: %d images executed on the real WAL; TLC: %d ok, %d attributed to recorded findings, %d rejected; "
            "%d differ from the model's outcome" % (label, n, n - len(verdicts), len(verdicts) - len(bad), len(bad), len(diffs)))
    if not state["sampled"].get(label) and n:
        state["sampled"][label] = True
        o = json.loads(lines[(n * 2) // 3])
        ctx.samples.append({"kind": "%s image executed on the real WAL and judged by TLC" % label, "line": o})
    if not bad:
        return
    # re-execution of the rejected images (exact concretization is recorded in the line)
    room = max(0, 25 - state["reported"])
    sel = sorted(bad)[:room]
    if not sel:
        return
    rp = os.path.join(ctx.scratch, "%s-redo.ndjson" % label)
    with open(rp, "w") as f:
        for i in sel:
            f.write(lines[i] + "\n")
    obs2 = _harness(ctx, binp, rp, label + "-redo")
    lines2, verdicts2, _ = _judge(ctx, obs2, label + "-redo")
    for k, i in enumerate(sel):
        if verdicts2.get(k, ("ok", ""))[0] != "bad":
            raise vf.Inconclusive("a rejected outcome did not reproduce on re-execution: %s" % lines[i][:600])
        o = json.loads(lines2[k])
        state["reported"] += 1
        p = ctx.save_replay("%s-%d.json" % (label, state["reported"]), o)
        ctx.violation("real WAL recovery breaks the property: " + _describe(o), p)


def _mutants(ctx):
    """Every repaired rule and every recorded finding must be necessary: TLC has to refute the mutants."""
    names = ["SizeOverflowChecked", "IdxRobust", "ZeroTail", "RolloverFlushes", "EmptyReported", "TruncClearsTail",
             "RoRebuildStrict", "RoEmptyReported", "Unguarded"]

    def one(nm):
        return ctx.tlc("WalRecoveryMC", "walrec-mutant-%s.cfg" % nm, workers=3, label="mutant-" + nm,
                       allow_violation=True, heap="3g")

    with cf.ThreadPoolExecutor(max_workers=len(names)) as ex:
        res = list(ex.map(one, names))
    for nm, r in zip(names, res):
        if not r.violated:
            raise vf.Inconclusive("specification mutant %s is not refuted by TLC: the laws are vacuous" % nm)
    ctx.notes["spec_mutants_refuted"] = names
    ctx.log("specification mutants refuted by TLC: %s" % ", ".join(names))


def _witnesses(ctx, binp):
    """Replay the witnesses of the recorded findings without the guard; report those that still fail."""
    for f in vf.findings_for("C10"):
        wp = os.path.join(vf.VERIF, f["witness"])
        img = json.load(open(wp))
        ip = os.path.join(ctx.scratch, "witness-%s.ndjson" % f["id"])
        with open(ip, "w") as fh:
            fh.write(json.dumps(img) + "\n")
        obs = _harness(ctx, binp, ip, "witness-" + f["id"])
        lines, verdicts, _ = _judge(ctx, obs, "witness-" + f["id"], guarded=False)
        v = verdicts.get(0, ("ok", ""))[0]
        if v == "illformed":
            raise vf.Inconclusive("witness %s is outside the crash model" % wp)
        if v == "bad":
            ctx.known_finding("%s [witness %s: %s]" % (f["what"], f["witness"], _describe(json.loads(lines[0]))))
        else:
            ctx.log("witness %s no longer fails (finding %s seems repaired)" % (f["witness"], f["id"]))
    for w in REPAIRED:
        wp = os.path.join(vf.VERIF, w)
        label = "repaired-" + os.path.splitext(os.path.basename(w))[0]
        ip = os.path.join(ctx.scratch, label + ".ndjson")
        with open(ip, "w") as fh:
            fh.write(json.dumps(json.load(open(wp))) + "\n")
        obs = _harness(ctx, binp, ip, label)
        lines, verdicts, _ = _judge(ctx, obs, label, guarded=False)
        v = verdicts.get(0, ("ok", ""))[0]
        if v == "illformed":
            raise vf.Inconclusive("witness %s is outside the crash model" % wp)
        o = json.loads(lines[0])
        if v == "bad":
            # re-executed from the committed image itself: the replay file is the witness
            ctx.violation("real WAL recovery breaks the property (failing image of a repaired defect): " + _describe(o), wp)
        else:
            ctx.traces_validated += 1
            ctx.log("failing image of the repaired defect %s is accepted: %s" % (w, _describe(o)[-260:]))


def run(ctx):
    quick = ctx.tier == "quick"
    ctx.assumptions += [
        "directory operations (segment file creation) are durable; only file contents are subject to the crash model",
        "a segment is flushed (msync) before its successor is created, so only records of the writable segment beyond "
        "the synced offset can be torn (rolloverSegment was repaired to do so; msync itself is not observable from the harness)",
        "damage = one field of one record or one index file per image; value classes 0, 1, exact, exact+1, 0x7FFFFFFF, "
        "2^32-1-header, 2^32-header, 0xFFFFFFFF for the size field, zero / seeded random values elsewhere; random images "
        "add arbitrary single bytes",
        "a checksum collision (2^-32 per damaged image) is not distinguished from a violation",
        "codec v1 (no checksum): crash images at record granularity and size-field damage (no panic, entries in front "
        "of the damage intact) only",
        "the commit offset handed to recovery is not above the synced offset of the same node",
        "histories: rounds of appends + TruncateLog in front of the final appends, executed through the real calls; "
        "TruncateLog flushes the segment, so what it keeps is durable and what it cleared stays cleared in a crash image",
        "answers of a reader: an entry, a report of damage (wrapped ErrDataCorrupted / ErrOffsetOutOfBounds of the record "
        "validation or of a failed index rebuild) or 'no such offset' (the bare sentinels of the range checks); the last "
        "one for an offset inside [FirstOffset, LastOffset] is the outcome 'hole', which the property excludes",
    ]
    binp = ctx.go_build("walrecover")
    state = {"kf": {}, "diffs": 0, "reported": 0, "sampled": {}}

    # 1 + 2 + 3: laws and export in one TLC run per configuration, then the real code, then TLC as judge
    # *-hist: pre-crash states that are the result of a history of appends and TruncateLog calls
    # *-multi: logs of three segments with three records in each closed one; index files of the closed segments
    # lost / damaged together with a damaged record (first, middle, last; older segment and the one in front of
    # the current one) - the reopened WAL must report the damage, never serve a log with a gap
    cfgs = (["quick-v2", "quick-multi", "quick-hist", "quick-v1"] if quick else
            ["thorough-v2a", "thorough-multi", "thorough-hist", "thorough-hist2", "thorough-v2b", "thorough-v2c", "thorough-v1"])
    for c in cfgs:
        if not quick and ctx.left() < 420:
            ctx.log("budget: skipping configuration %s" % c)
            ctx.notes.setdefault("skipped", []).append(c)
            continue
        r = ctx.tlc("WalRecoveryMC", "walrec-%s.cfg" % c, label=c, heap="8g")
        ip = os.path.join(ctx.scratch, "images-%s.ndjson" % c)
        n = _export(r, ip)
        ctx.log("%s: model satisfies the property on %d distinct states; %d images exported" % (c, r.distinct, n))
        if n == 0:
            raise vf.Inconclusive("TLC exported no images for %s" % c)
        _process(ctx, binp, ip, c, state, True)

    _mutants(ctx)

    # 3b. random images beyond the enumerated domain
    for codec, n in (("v2", 6000 if quick else 60000), ("v1", 2000 if quick else 20000)):
        if ctx.left() < 120:
            ctx.notes.setdefault("skipped", []).append("random-" + codec)
            continue
        ip = os.path.join(ctx.scratch, "images-random-%s.ndjson" % codec)
        ctx.run([binp, "gen", "-seed", str(ctx.seed * 7919 + (1 if codec == "v1" else 0)), "-n", str(n),
                 "-codec", codec, "-out", ip])
        _process(ctx, binp, ip, "random-" + codec, state, False)

    _witnesses(ctx, binp)
    ctx.notes["exhaustive"] = True
    ctx.notes["attributed_to_recorded_findings"] = state["kf"]
    ctx.notes["outcomes_differing_from_model_without_breaking_the_property"] = state["diffs"]
    if state.get("diff_sample"):
        ctx.notes["diff_sample"] = state["diff_sample"]
    ctx.notes["explanation"] = ("states/transitions: TLC exhaustive search of WalRecoveryMC (pre-crash state -> crash image -> "
                                "recovery) plus one state per judged real execution; every exported image was executed on "
                                "the real WAL and its outcome judged by TLC against RecoveryOk")


def replay(ctx, path):
    """Re-execute a saved image on the real WAL and let TLC judge the fresh observation."""
    binp = ctx.go_build("walrecover")
    img = json.load(open(path))
    ip = os.path.join(ctx.scratch, "replay.ndjson")
    with open(ip, "w") as f:
        f.write(json.dumps(img) + "\n")
    obs = _harness(ctx, binp, ip, "replay")
    lines, verdicts, _ = _judge(ctx, obs, "replay")
    v = verdicts.get(0, ("ok", ""))
    o = json.loads(lines[0])
    if v[0] == "illformed":
        raise vf.Inconclusive("the image is outside the crash model")
    if v[0] == "bad":
        ctx.violation("real WAL recovery breaks the property: " + _describe(o), path)
    elif v[0] == "kf":
        ctx.log("outcome is the symptom of recorded finding %s: %s" % (v[1], _describe(o)))
    else:
        ctx.traces_validated += 1
        ctx.log("accepted: " + _describe(o))
