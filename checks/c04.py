import shard_common


def run(ctx):
    shard_common.run(ctx, "C04")


def replay(ctx, path):
    shard_common.replay_file(ctx, "C04", path)
