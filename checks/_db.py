"""Shared by the checks built on spec/OxiaDb.tla (C12, C13, C15, C16): exporting behaviours from TLC,
replaying them on the real code with harness/cmd/dbcheck, validating recorded real executions with
DbTrace.tla, and turning disagreements into replay files.
"""
import json
import os
import vf


def export(r, tag, path):
    """Write the JSON strings printed by TLC as <<tag, "json">> to an ndjson file; returns the count."""
    n = 0
    pre = '<<"%s", "' % tag
    with open(path, "w") as f:
        for l in r.out.splitlines():
            if l.startswith(pre) and l.endswith('">>'):
                f.write(l[len(pre):-3].replace('\\"', '"').replace("\\\\", "\\") + "\n")
                n += 1
    return n


def key(codes):
    return "".join(chr(c) if 32 <= c < 127 else "\\x%02x" % c for c in codes)


def show_req(req):
    out = []
    for p in req.get("puts", []):
        s = "put(%r" % key(p["key"])
        if p["exp"] != -2:
            s += ",exp=%d" % p["exp"]
        if p["sess"] != -1:
            s += ",sess=%d" % p["sess"]
        if p["deltas"]:
            # (deltas that do not fit a TLC integer are given as decimal digits in "bd")
            bd = p.get("bd") or []
            ds = [int(key(bd[i])) if i < len(bd) and bd[i] else d for i, d in enumerate(p["deltas"])]
            s += ",deltas=%s,pkey=%s" % (ds, p["pkey"])
        if p["pkey"] and "pk" in p:
            s += ",pk=%r" % key(p["pk"])
        if p.get("cidp"):
            s += ",cid=''(present)"
        for ix in p["idx"]:
            s += ",%s:%s" % (key(ix["n"]), key(ix["k"]))
        out.append(s + ")")
    for d in req.get("dels", []):
        out.append("del(%r%s)" % (key(d["key"]), "" if d["exp"] == -2 else ",exp=%d" % d["exp"]))
    for g in req.get("rngs", []):
        out.append("delrange[%r,%r)" % (key(g["s"]), key(g["e"])))
    return " ".join(out)


def show_beh(steps):
    return " ; ".join(s["a"] if s["a"] != "Write" else show_req(s["req"]) for s in steps)


def tlc_export(ctx, cfg, tag, label, simulate=None, depth=None, workers=None):
    r = ctx.tlc("OxiaDbMC", cfg, label=label, simulate=simulate, depth=depth, workers=workers, heap="4g")
    path = os.path.join(ctx.scratch, "%s.ndjson" % label)
    n = export(r, tag, path)
    if n == 0:
        raise vf.Inconclusive("TLC exported no behaviours for %s" % cfg)
    return path, n, r


def replay(ctx, binp, path, mode, scope, label):
    """Replay exported behaviours on the real code.  Returns the result dict of dbcheck."""
    out = os.path.join(ctx.scratch, "replay-%s.json" % label)
    ctx.run([binp, "replay", "-in", path, "-mode", mode, "-cmp", scope, "-out", out,
             "-workers", str(max(4, min(14, ctx.cores - 2)))])
    res = json.load(open(out))
    res["mismatches"] = res.get("mismatches") or []
    res["findings"] = res.get("findings") or []
    ctx.replayed += res["behaviours"]
    ctx.log("replayed %d behaviours (%d calls) on the real %s [%s]: %d mismatch class(es), %d known-finding hit(s)" %
            (res["behaviours"], res["steps"], "leader controller" if mode == "leader" else "kv.DB", label,
             len(res["mismatches"]), sum(f["count"] for f in res["findings"])))
    return res


def report(ctx, res, origin, what="real state machine deviates from OxiaDb.tla"):
    for i, mm in enumerate(res["mismatches"]):
        p = ctx.save_replay("%s-%d.json" % (origin, i), mm)
        ctx.violation("%s at step %d of [%s]: %s" % (what, mm["step"], show_beh(mm["behaviour"]), mm["what"][:600]), p)


def validate(ctx, path, cfg, label):
    """Run DbTrace on a concatenated trace file; returns (accepted, highwater, total, result)."""
    r = ctx.tlc("DbTrace", cfg, files=[(path, "trace.ndjson")], workers=1, deque=True, label=label,
                seed=False, allow_violation=True, heap="2g")
    total = sum(1 for _ in open(path))
    if r.ok:
        return True, total, total, r
    hw = 0
    for l in r.out.splitlines():
        if l.startswith('<<"REJECTED"'):
            hw = int(l.split(",")[1])
    if hw == 0:
        raise vf.Inconclusive("DbTrace failed without a rejection mark:\n%s" % "\n".join(r.out.splitlines()[-30:]))
    return False, hw, total, r


def drive_and_validate(ctx, binp, mode, profile, ntraces, ops, cfg, label, seed_salt=0):
    """Random request streams on the real code, judged by TLC.  Reports a violation for a rejected trace."""
    tp = os.path.join(ctx.scratch, "trace-%s.ndjson" % label)
    ctx.run([binp, "drive", "-seed", str(ctx.seed * 1000 + seed_salt), "-n", str(ntraces), "-ops", str(ops),
             "-mode", mode, "-profile", profile, "-out", tp])
    ok, hw, total, r = validate(ctx, tp, cfg, label)
    if ok:
        ctx.traces_validated += ntraces
        ctx.log("%s/%s: %d traces (%d calls) of the real code accepted by DbTrace" % (mode, profile, ntraces, total - ntraces))
        return tp
    lines = open(tp).read().splitlines()
    bad = min(hw, total) - 1
    start = bad
    while start > 0 and json.loads(lines[start])["a"] != "Reset":
        start -= 1
    calls = [json.loads(x) for x in lines[start + 1: bad + 1]]
    ctx.traces_validated += sum(1 for x in lines[:start] if '"a":"Reset"' in x)
    last = calls[-1] if calls else {}
    p = ctx.save_replay("trace-%s-line%d.json" % (label, bad),
                        {"mode": mode, "behaviour": calls, "step": len(calls) - 1, "cfg": cfg,
                         "what": "recorded call is not a step of OxiaDb.tla (the recorded fields are those observed on the real code)"})
    ctx.violation("real %s execution rejected by DbTrace at call #%d [%s]: outcome=%r results=%s" %
                  (mode, len(calls) - 1, show_req(last.get("req", {})) or last.get("a"), last.get("err"),
                   json.dumps(last.get("res"))[:300]), p)
    return tp


def sample_from(path, kind, ctx, nlines=1):
    with open(path) as f:
        lines = f.readlines()
    if lines:
        beh = json.loads(lines[len(lines) // 2])
        if isinstance(beh, list):
            beh = [{k: s[k] for k in ("a", "req", "res", "err", "recs") if k in s} for s in beh]
        ctx.samples.append({"kind": kind, "behaviour": beh})


def replay_file(ctx, path, default_cfg):
    """bin/check <ID> --replay: re-execute a saved behaviour on the real code and let TLC judge the recording."""
    path = os.path.abspath(path)
    binp = ctx.go_build("dbcheck")
    mm = json.load(open(path))
    tp = os.path.join(ctx.scratch, "rerun.ndjson")
    ctx.run([binp, "rerun", "-in", path, "-out", tp])
    ok, hw, total, r = validate(ctx, tp, mm.get("cfg") or default_cfg, "rerun")
    if ok:
        ctx.traces_validated += 1
        ctx.log("replayed execution is accepted by DbTrace")
        return
    lines = open(tp).read().splitlines()
    last = json.loads(lines[min(hw, total) - 1])
    ctx.violation("replayed execution rejected by DbTrace at call #%d [%s]: outcome=%r results=%s" %
                  (min(hw, total) - 2, show_req(last.get("req", {})) or last.get("a"), last.get("err"),
                   json.dumps(last.get("res"))[:300]), path)
