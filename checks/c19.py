"""C19 - every shard ensemble has RF distinct eligible servers and respects anti-affinity.

1. TLC checks the design (spec/Placement.tla: the selector chain anti-affinity -> lowest load -> final,
   the ensemble loop, the balancer's swap proposal, one rebalancing round) exhaustively over bounded
   configurations (PlacementMC): every possible outcome is a refusal or valid.  A mutant of the round
   model (StaleView: a round sees the ensembles as they were at its start) must be caught.
2. spec -> code: the configurations enumerated by TLC are exported (a checksum-selected sample of the
   complete enumeration, the residue rotates with VERIF_SEED) and executed on the real code:
   ensemble.NewSelector, balancer.swapShard, balancer.rebalanceEnsemble + shardController's replaceInList.
   Plus the committed witness configurations of the defects found (replays/C19/witnesses.ndjson).
3. code -> spec: every execution (and random larger clusters) is recorded as one trace line and TLC
   (PlacementTrace.tla) judges it: refused, or ValidEnsemble / ValidSwap.
A rejected line is re-executed; only a reproduced one is reported.
"""
import json
import os
import re
import vf

CHUNK = 40000


def _cfg(ctx, name, **subst):
    """scratch copy of spec/cfg/<name> with some constants replaced"""
    text = open(os.path.join(vf.SPEC, "cfg", name)).read()
    for k, v in subst.items():
        text, n = re.subn(r"(?m)^(\s*%s\s*=\s*).*$" % k, lambda m: m.group(1) + str(v), text)
        if n != 1:
            raise vf.Inconclusive("cannot set %s in %s" % (k, name))
    p = os.path.join(ctx.scratch, "%s-%s" % (len(os.listdir(ctx.scratch)), name))
    with open(p, "w") as f:
        f.write(text)
    return p


def _export(r, path):
    n = 0
    pre = '<<"CFG", "'
    with open(path, "a") as f:
        for l in r.out.splitlines():
            if l.startswith(pre) and l.endswith('">>'):
                f.write(l[len(pre):-3].replace('\\"', '"').replace("\\\\", "\\") + "\n")
                n += 1
    return n


def _validate(ctx, path, label):
    """TLC judges a trace file. Returns (bad line numbers (1-based), nonconforming, observation lines, total)."""
    total = sum(1 for _ in open(path))
    r = ctx.tlc("PlacementTrace", "placement-trace.cfg", files=[(path, "trace.ndjson")], workers=1, deque=True,
                label=label, seed=False, allow_violation=True, heap="6g")
    m = re.search(r'<<\s*"NOTES",\s*"(\[[^"]*\])",\s*"(\[[^"]*\])"\s*>>', r.out)
    if not m:
        raise vf.Inconclusive("trace validation printed no NOTES line:\n" + r.out[-2000:])
    nonconf, obs = json.loads(m.group(1)), json.loads(m.group(2))
    if r.ok:
        return [], nonconf, obs, total
    m = re.search(r'<<\s*"REJECTED",\s*(\d+),\s*(\d+),\s*"(\[[^"]*\])"\s*>>', r.out)
    if not m:
        raise vf.Inconclusive("trace validation failed without a REJECTED line:\n" + r.out[-2000:])
    hw, ln, bad = int(m.group(1)), int(m.group(2)), json.loads(m.group(3))
    if hw != ln + 1:
        raise vf.Inconclusive("TLC stopped at line %d of %d of %s" % (hw, ln, path))
    return bad, nonconf, obs, total


def _validate_chunks(ctx, path, label):
    """split a big trace into chunks; returns list of (line text) rejected, plus counters"""
    lines = open(path).read().splitlines()
    badl, nonconf, obs = [], [], []
    for k in range(0, len(lines), CHUNK):
        part = lines[k:k + CHUNK]
        pp = os.path.join(ctx.scratch, "%s-%d.ndjson" % (label, k // CHUNK))
        with open(pp, "w") as f:
            f.write("\n".join(part) + "\n")
        bad, nc, ob, total = _validate(ctx, pp, "%s-%d" % (label, k // CHUNK))
        badl += [part[i - 1] for i in bad]
        nonconf += [part[i - 1] for i in nc]
        obs += [part[i - 1] for i in ob]
        ctx.traces_validated += total - len(bad)
    return badl, nonconf, obs, len(lines)


CFG_FIELDS = ("kind", "lab", "pol", "claim", "rf", "load", "useLoad", "ens", "from", "shards")


def _describe(e):
    s = "%s on lab=%s pol=%s rf=%s" % (e["kind"], e["lab"], [(r["labels"], "S" if r["strict"] else "R") for r in e["pol"]], e["rf"])
    if e["kind"] == "swap":
        s += " ens=%s from=%s -> res=%s to=%s after=%s" % (e["ens"], e["from"], e["res"], e["out"], e["after"])
    elif e["kind"] == "round":
        s += " shards=%s -> res=%s actions=%s" % (e["shards"], e["res"],
                                                   [(a["shard"], a["from"], a["to"], a["after"]) for a in e["acts"]])
    else:
        s += " load=%s -> res=%s ensemble=%s" % (e["load"], e["res"], e["out"])
    if e.get("err"):
        s += " (%s)" % e["err"]
    return s


def _reexecute(ctx, binp, cfgline, tag, reps=40):
    """re-run one configuration; returns a rejected trace line (dict) or None"""
    cin = os.path.join(ctx.scratch, "re-%s.ndjson" % tag)
    with open(cin, "w") as f:
        f.write(json.dumps({k: cfgline[k] for k in CFG_FIELDS}) + "\n")
    out = os.path.join(ctx.scratch, "re-%s-trace.ndjson" % tag)
    ctx.run([binp, "run", "-in", cin, "-out", out, "-seed", str(ctx.seed + 7), "-reps", str(reps), "-exact"])
    bad, _, _, _ = _validate(ctx, out, "re-" + tag)
    if not bad:
        return None
    return json.loads(open(out).read().splitlines()[bad[0] - 1])


def _report(ctx, binp, badlines, origin):
    seen = set()
    n = 0
    for text in badlines:
        e = json.loads(text)
        key = json.dumps({k: e[k] for k in CFG_FIELDS}, sort_keys=True)
        if key in seen:
            continue
        seen.add(key)
        n += 1
        if n > 10:
            break
        again = _reexecute(ctx, binp, e, "%s-%d" % (origin, n))
        if again is None:
            ctx.notes.setdefault("unreproduced", []).append(_describe(e))
            ctx.log("rejected line did not reproduce in 40 re-executions: " + _describe(e))
            continue
        p = ctx.save_replay("%s-%d.json" % (origin, n), {k: again[k] for k in CFG_FIELDS} | {"observed": again})
        ctx.violation("real placement code breaks Placement.tla: " + _describe(again), p)
    if ctx.notes.get("unreproduced") and not ctx.violations:
        raise vf.Inconclusive("trace lines rejected by TLC did not reproduce: %s" % ctx.notes["unreproduced"][:3])


def run(ctx):
    quick = ctx.tier == "quick"
    ctx.assumptions += [
        "anti-affinity on a label: no two members carry the label with the same value; a server lacking the label "
        "conflicts with nobody (the implementation is stricter: it never picks such a server)",
        "only rules naming ONE label are claimed; rules naming several labels are executed and the outcome is "
        "reported as an observation (notes.multi_label_rule_outcomes)",
        "a swap is judged against the ensemble it is applied to, assuming that ensemble was duplicate-free",
        "Relaxed rules impose nothing (the implementation refuses when it cannot satisfy them)",
        "the shard controller applies swap actions in emission order (one action worker)",
    ]
    binp = ctx.go_build("placement")
    cfgs = os.path.join(ctx.scratch, "cfgs.ndjson")
    open(cfgs, "w").close()

    # 1. design + export (one TLC run per operation family does both)
    tier = "quick" if quick else "thorough"
    mods = {"select": 40 if quick else 8, "swap": 40 if quick else 40, "round": 2 if quick else 15}
    exported = {}
    for fam in ("select", "swap", "round"):
        mod = mods[fam]
        cfg = _cfg(ctx, "placement-%s-%s.cfg" % (fam, tier), SampleMod=mod, SampleRes=ctx.seed % mod)
        r = ctx.tlc("PlacementMC", cfg, label="design-" + fam)
        n = _export(r, cfgs)
        exported[fam] = n
        ctx.log("design %-6s: %d distinct states, all outcomes refused-or-valid; %d configurations exported (1/%d)"
                % (fam, r.distinct, n, mod))
        if n == 0:
            raise vf.Inconclusive("TLC exported no %s configuration" % fam)
    ctx.notes["configurations_exported"] = exported

    # the design mutant: a round working on stale ensembles must violate RoundSafe
    r = ctx.tlc("PlacementMC", "placement-round-mutant-stale.cfg", label="mutant-stale", allow_violation=True)
    if "RoundSafe" not in r.violated:
        raise vf.Inconclusive("the StaleView mutant of the round model was not caught by TLC (vacuous model?)")
    ctx.notes["design_mutants_caught"] = ["StaleView -> RoundSafe violated"]

    # 2. spec -> code
    trace = os.path.join(ctx.scratch, "trace-run.ndjson")
    p = ctx.run([binp, "run", "-in", cfgs, "-out", trace, "-seed", str(ctx.seed), "-reps", "2" if quick else "3"])
    stats = json.loads(p.stdout.strip().splitlines()[-1])
    ctx.replayed += sum(exported.values())
    ctx.log("executed %d configurations on the real code: %s" % (sum(exported.values()), stats))
    wtrace = os.path.join(ctx.scratch, "trace-wit.ndjson")
    wit = os.path.join(vf.VERIF, "replays", "C19", "witnesses.ndjson")
    p = ctx.run([binp, "run", "-in", wit, "-out", wtrace, "-seed", str(ctx.seed), "-reps", "6"])
    ctx.replayed += sum(1 for _ in open(wit))
    wstats = json.loads(p.stdout.strip().splitlines()[-1])

    # 3. code -> spec
    dtrace = os.path.join(ctx.scratch, "trace-drive.ndjson")
    nd = 30000 if quick else 240000
    p = ctx.run([binp, "drive", "-seed", str(ctx.seed), "-n", str(nd), "-out", dtrace])
    dstats = json.loads(p.stdout.strip().splitlines()[-1])
    ctx.log("random clusters (<=12 servers, <=3 labels, rf<=5): %s" % dstats)

    allbad = []
    notes_nc, notes_obs = [], []
    for path, label in ((wtrace, "wit"), (trace, "run"), (dtrace, "drive")):
        bad, nc, obs, total = _validate_chunks(ctx, path, label)
        ctx.log("%s: %d trace lines judged by TLC, %d rejected, %d differ from the model's outcome set, "
                "%d multi-label observations" % (label, total, len(bad), len(nc), len(obs)))
        allbad += [(label, b) for b in bad]
        notes_nc += nc
        notes_obs += obs
    with open(trace) as f:
        first = [json.loads(next(f)) for _ in range(3)]
    ctx.samples.append({"kind": "TLC-enumerated configurations executed on the real code (trace lines accepted by TLC)",
                        "lines": first})
    with open(dtrace) as f:
        ctx.samples.append({"kind": "random cluster executed on the real code", "line": json.loads(next(f))})
    for origin in ("wit", "run", "drive"):
        _report(ctx, binp, [b for (o, b) in allbad if o == origin], origin)

    okcount = sum(v for k, v in list(stats.items()) + list(dstats.items()) if k.endswith("/ok"))
    refused = sum(v for k, v in list(stats.items()) + list(dstats.items()) if k.endswith("/refused"))
    if okcount == 0:
        raise vf.Inconclusive("every operation was refused: the check is vacuous")
    ctx.notes["outcomes"] = {"exported": stats, "witnesses": wstats, "random": dstats}
    ctx.notes["non_refused_outcomes"] = okcount
    ctx.notes["refusals"] = refused
    ctx.notes["model_conformance_differences"] = [_describe(json.loads(x)) for x in notes_nc[:5]]
    ctx.notes["multi_label_rule_outcomes"] = {
        "what": "policies with a rule naming several labels are outside the claim; outcomes in which two members share "
                "the value of a label named by such a strict rule (the code takes the UNION of the per-label "
                "candidates for the first rule and the intersection for later rules)",
        "count_capped_at_25_per_chunk": len(notes_obs),
        "examples": [_describe(json.loads(x)) for x in notes_obs[:3]],
    }
    ctx.notes["exhaustive"] = True
    ctx.notes["explanation"] = ("states/transitions: TLC exhaustive search of PlacementMC (all configurations within the bounds of "
                                "spec/cfg/placement-*-%s.cfg, every possible outcome of the selector-chain model checked) plus one state "
                                "per judged trace line" % tier)


def replay(ctx, path):
    """Re-execute a saved configuration on the real code and let TLC judge the fresh executions."""
    binp = ctx.go_build("placement")
    e = json.load(open(path))
    again = _reexecute(ctx, binp, e, "replay")
    if again is None:
        ctx.traces_validated += 40
        ctx.log("40 re-executions accepted by PlacementTrace")
        return
    ctx.violation("real placement code breaks Placement.tla: " + _describe(again), path)
