import shard_common


def run(ctx):
    shard_common.run(ctx, "C05")


def replay(ctx, path):
    shard_common.replay_file(ctx, "C05", path)
