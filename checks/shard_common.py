"""Common machinery of the replication/election properties (C01-C05, C07, C08) on spec/OxiaShard.tla.

1. TLC checks the property's invariants exhaustively on bounded configurations of the closed system
   (known findings guarded by the history flags `kf`).
2. spec -> code: behaviours of the same specification (random walks with probabilistic fault gates,
   seeded) are exported with the projection of the state demanded after every step and replayed on real
   storage nodes (shards director, leader/follower controllers, WAL, Pebble) over a virtual wire whose
   deliveries, WAL sync rounds and crashes are driven by the behaviour; every step is compared.
A deviation of the real code is attributed to a property by the first field that differs.
"""
import json
import os
import vf

# which projected fields speak for which property
# Attribution of a deviation (first differing field of the projection) to properties: the state of logs,
# applied entries and acknowledgements is what C01-C03, C07 and C08 all quantify over; purely internal
# bookkeeping (cursors, parked rounds, in-flight message fields) speaks for the pipeline properties only.
CORE = {"wal", "applied", "acked", "panic"}
FIELDS = {
    "C01": CORE | {"tracker", "acks", "synced", "outcome", "ctrl", "status"},
    "C02": CORE | {"status", "tracker", "ctrl"},
    # "outcome": the head a node reports at NewTerm is its statement about its own log
    "C03": CORE | {"acks", "synced", "streams", "lastapp", "cursors", "ctrl", "tracker", "outcome"},
    "C04": {"outcome", "status", "term", "wal", "lastapp", "ctrl", "synced", "applied", "acks", "panic"},
    "C05": {"term", "dbterm", "status", "outcome", "ctrl", "busy", "panic"},
    "C07": CORE | {"dbterm", "synced", "tracker"},
    "C08": CORE | {"tracker", "streams", "acks", "cursors", "parked", "synced", "busy"},
}

INVARIANTS = {
    "C01": ["G_AckedSurvive", "G_AckedDurable"],
    "C02": ["G_AppliedIsCommitted", "G_StateMachineSafety", "G_CommittedUnique"],
    "C03": ["G_AckSound", "G_StateMachineSafety", "G_CommittedUnique", "G_LogContiguous"],
    "C04": ["G_HeadTruthful", "FencedTerm"],
    "C05": ["OneLeaderPerTerm", "NoTermAboveCoordinator"],
    "C07": ["G_DbIsLogPrefix", "G_DurableNotAhead"],
    "C08": ["G_CommitLeHead", "G_AckedDurable", "G_Quiescent"],
}


def export_runs(ctx, r, path):
    n = 0
    with open(path, "w") as f:
        pre = '<<"RUN", "'
        for l in r.out.splitlines():
            if l.startswith(pre) and l.endswith('">>'):
                f.write(l[len(pre):-3].replace('\\"', '"').replace("\\\\", "\\") + "\n")
                n += 1
    return n


def make_cfg(ctx, base, invariants, props=("TermDurableMonotone",), name="run.cfg"):
    """Derive a cfg from spec/cfg/<base> with the property's invariants."""
    src = open(os.path.join(vf.SPEC, "cfg", base)).read()
    lines = []
    skip = False
    for l in src.splitlines():
        if l.startswith("INVARIANTS"):
            skip = True
            continue
        if skip and (l.startswith(" ") or l.strip() == ""):
            continue
        skip = False
        if l.startswith("PROPERTIES"):
            continue
        lines.append(l)
    lines.append("INVARIANTS TypeOK " + " ".join(invariants))
    if props:
        lines.append("PROPERTIES " + " ".join(props))
    p = os.path.join(ctx.scratch, name)
    open(p, "w").write("\n".join(lines) + "\n")
    return p


def replay(ctx, binp, runs, label, timeout="2s", env=None):
    out = os.path.join(ctx.scratch, "replay-%s.json" % label)
    ctx.run([binp, "replay", "-in", runs, "-out", out, "-timeout", timeout, "-workers", str(max(2, ctx.cores - 2))], env=env)
    res = json.load(open(out))
    import glob
    res["nodetraces"] = sorted(glob.glob(out + ".nodetrace.*"))
    res["history_file"] = out + ".history.ndjson"
    res["runs_file"] = runs
    ctx.replayed += res["behaviours"]
    mms = res.get("mismatches") or []
    if mms and not label.startswith("solo"):
        # a deviation counts only when it reproduces alone, after the parallel replay has finished (the replay
        # is timing-sensitive under load: parked goroutines are recognised by waiting)
        lines = open(runs).read().splitlines()
        kept = []
        for j, mm in enumerate(mms[:8]):
            one = os.path.join(ctx.scratch, "solo-%s-%d.ndjson" % (label, j))
            open(one, "w").write(lines[mm["index"]] + "\n")
            so = os.path.join(ctx.scratch, "solo-%s-%d.json" % (label, j))
            ctx.run([binp, "replay", "-in", one, "-out", so, "-timeout", "4s", "-workers", "1"], env=env)
            again = (json.load(open(so)).get("mismatches") or [])
            if again and again[0]["step"] == mm["step"] and again[0]["field"] == mm["field"]:
                again[0]["index"] = mm["index"]
                kept.append(again[0])
            else:
                res["unconfirmed"] = res.get("unconfirmed", 0) + 1
                ctx.log("deviation at step %d (%s, field %s) did not reproduce when replayed alone: not counted" % (mm["step"], mm["action"], mm["field"]))
        if len(mms) > 8:
            ctx.log("%d further deviations of this batch were not re-examined" % (len(mms) - 8))
        res["mismatches"] = kept
    ctx.log("replayed %d behaviours (%d steps) [%s]: %d mismatches, %d unconfirmed" %
            (res["behaviours"], res["steps"], label, len(res.get("mismatches") or []), res.get("unconfirmed", 0)))
    return res


# unguarded invariants of each property (names of OxiaShardSim!InvNow)
PROP_INVS = {
    "C01": ["AckedSurvive", "AckedDurable"],
    "C02": ["AppliedIsCommitted", "StateMachineSafety", "CommittedUnique"],
    "C03": ["AckSound", "StateMachineSafety", "CommittedUnique", "AckedDurable", "LogContiguous"],
    "C04": ["HeadTruthful", "FencedTerm"],
    "C05": ["OneLeaderPerTerm", "NoTermAboveCoordinator"],
    "C07": ["DbIsLogPrefix", "DurableNotAheadOfLog"],
    "C08": ["CommitLeHead", "AckedDurable", "QuiescentCommitted"],
}


def findings_reached(ctx, pid, runs, res, origin):
    """Behaviours that the real nodes followed step by step into a state where an invariant of the property
    is false show the real code violating it. They are attributed to the known findings whose trigger (kf)
    was recorded by the specification; anything else is a new violation."""
    bad_idx = {m["index"]: m["step"] for m in (res.get("mismatches") or [])}
    listed = {f["id"]: f for f in vf.findings_for(pid)}
    all_listed = {f.get("id") for f in vf.load_known_findings().get("findings", [])}
    all_what = {f.get("id"): f.get("what", "") for f in vf.load_known_findings().get("findings", [])}
    seen = set()
    with open(runs) as f:
        for idx, line in enumerate(f):
            beh = json.loads(line)
            upto = bad_idx.get(idx, len(beh))
            if upto < 0:
                continue
            for k, st in enumerate(beh[:upto]):
                exp = st.get("exp")
                if not exp:
                    continue
                false = [i for i in PROP_INVS[pid] if (exp.get("inv") or {}).get(i) is False]
                if not false:
                    continue
                kf = sorted(exp.get("kf") or [])
                calls = " ".join(describe(x) for x in beh[:k + 1] if x["a"] != "Idle")
                if kf and all(i in all_listed for i in kf):
                    # every trigger recorded in this behaviour belongs to a recorded finding (whatever property it
                    # was first filed under: once e.g. a stale leader is installed, invariants of several
                    # properties fall together)
                    for i in kf:
                        if i not in seen and not any(k.startswith(i + ":") for k in ctx.known):
                            seen.add(i)
                            ctx.known_finding("%s: %s [%s false after: %s]" % (i, all_what[i], ",".join(false), calls[:700]))
                else:
                    p = ctx.save_replay("%s-inv-%d.json" % (origin, idx), {"behaviour": beh[:k + 1], "false": false, "kf": kf})
                    ctx.violation("the real nodes follow the specification into a state where %s is false (triggers recorded: %s) after: %s"
                                  % (",".join(false), kf or "none", calls[:1200]), p)
                break
    return seen


def describe(st):
    a = st["a"]
    if a in ("NewTerm",):
        return "%s(%s,%s)" % (a, st.get("n"), st.get("t"))
    if a == "Write":
        return "Write(%s,%s)" % (st.get("n"), st.get("v"))
    if a == "BecomeLeader":
        return "BecomeLeader(%s,%s,{%s})" % (st.get("n"), st.get("t"), ",".join(sorted((st.get("fm") or {}).keys())) if isinstance(st.get("fm"), dict) else "")
    if "l" in st and "f" in st:
        return "%s(%s,%s)" % (a, st.get("l"), st.get("f"))
    if "n" in st:
        return "%s(%s)" % (a, st["n"])
    return a


def report(ctx, pid, res, origin):
    """Attribute confirmed mismatches; returns number of deviations that belong to other properties."""
    other = 0
    runs_lines = None
    for i, mm in enumerate(res.get("mismatches") or []):
        p = ctx.save_replay("%s-%d.json" % (origin, i), mm)
        k = mm.get("step", 0)
        beh = []
        try:
            if runs_lines is None:
                runs_lines = open(res["runs_file"]).read().splitlines()
            beh = json.loads(runs_lines[mm["index"]])
        except Exception:
            beh = mm.get("behaviour") or []
        bexp = (beh[k - 1].get("exp") or {}) if 0 < k <= len(beh) else {}
        before = sorted(bexp.get("kf") or [])
        broken = sorted(i for i, v in (bexp.get("inv") or {}).items() if v is False)
        listed = {f.get("id") for f in vf.load_known_findings().get("findings", [])}
        if before and broken and all(x in listed for x in before):
            # a recorded defect has been triggered earlier in this behaviour AND the state the specification expects
            # already violates an invariant (e.g. a follower lost an entry it had acknowledged): what the real nodes
            # do from such a state is not specified
            ctx.log("deviation in a state where %s is already false after known finding(s) %s (not judged): step %d (%s) field '%s': %s" %
                    (broken, before, k, mm["action"], mm["field"], mm["what"][:300]))
            ctx.notes["deviations_after_known_finding"] = ctx.notes.get("deviations_after_known_finding", 0) + 1
            continue
        if mm["field"] in FIELDS[pid]:
            ctx.violation("real nodes deviate from OxiaShard.tla at step %d (%s), field '%s': %s" %
                          (mm["step"], mm["action"], mm["field"], mm["what"][:1500]), p)
        else:
            other += 1
            ctx.log("deviation in field '%s' (not attributed to %s): %s" % (mm["field"], pid, mm["what"][:600]))
    return other


def script_to_behaviour(ctx, script, label, cfg="shard-script.cfg"):
    """Follow an action sequence through the current (unmutated) specification: returns the behaviour with
    the expectations of the specification, cut where the specification cannot follow any more."""
    text = "\n".join(json.dumps(a) for a in script) + "\n"
    r = ctx.tlc("OxiaShardSim", cfg, workers=1, label="script-" + label, cwd_files={"script.ndjson": text},
                seed=False, timeout=300)
    pre = '<<"RUN", "'
    last = None
    for l in r.out.splitlines():
        if l.startswith(pre) and l.endswith('">>'):
            last = l
    if last is None:
        return []
    return json.loads(last[len(pre):-3].replace('\\"', '"').replace("\\\\", "\\"))


def witness_runs(ctx, path):
    """All committed witness schedules, with fresh expectations, as one ndjson file."""
    wdir = os.path.join(vf.VERIF, "replays", "witness")
    n = 0
    names = []
    with open(path, "w") as out:
        for f in sorted(os.listdir(wdir)):
            if not f.endswith(".json"):
                continue
            w = json.load(open(os.path.join(wdir, f)))
            beh = script_to_behaviour(ctx, w["script"], f[:-5], w.get("script_cfg", "shard-script.cfg"))
            if len(beh) < len(w["script"]):
                ctx.log("witness %s: the specification follows %d of %d steps" % (f, len(beh), len(w["script"])))
            if beh:
                out.write(json.dumps(beh) + "\n")
                n += 1
                names.append(f[:-5])
    return n, names


def coordinator_traces(ctx, pid, n):
    """code -> spec for the coordinator: a real ShardController against scripted storage nodes and a logging
    metadata store; every input/output event is validated by OxiaCoordTrace.tla (TLC judges)."""
    binp = ctx.go_build("coordsim")
    tp = os.path.join(ctx.scratch, "coord-trace.ndjson")
    ctx.run([binp, "drive", "-seed", str(ctx.seed), "-n", str(n), "-out", tp])
    r = ctx.tlc("OxiaCoordTrace", "coord-trace.cfg", files=[(tp, "trace.ndjson")], workers=1, deque=True,
                label="coordtrace", seed=False, allow_violation=True)
    lines = open(tp).read().splitlines()
    if r.ok:
        ctx.traces_validated += n
        ctx.log("coordinator: %d traces (%d events) of the real ShardController accepted by OxiaCoordTrace" % (n, len(lines)))
        k = next(i for i, l in enumerate(lines) if '"SendBecomeLeader"' in l)
        start = max(j for j in range(k + 1) if '"Reset"' in lines[j])
        ctx.samples.append({"kind": "recorded ShardController trace accepted by TLC (events up to the first BecomeLeader)",
                            "events": [{a: b for a, b in json.loads(x).items() if b not in ("", 0, False, [], None)} for x in lines[start:k + 1]][:14]})
        return
    if "DurableBeforeSend" in r.violated:
        what = "a NewTerm/BecomeLeader request carried a term that was not durable in the metadata store yet"
    else:
        what = "an output of the real ShardController is not allowed by OxiaCoord.tla"
    hw = 0
    for l in r.out.splitlines():
        if l.startswith('<<"REJECTED"'):
            hw = int(l.split(",")[1])
    m = [x for x in r.out.splitlines() if x.startswith("/\\ l = ")]
    if not hw and m:
        hw = int(m[-1].split("=")[1])
    bad = max(0, min(hw, len(lines)) - 1)
    start = max([j for j in range(bad + 1) if '"Reset"' in lines[j]] or [0])
    evs = [json.loads(x) for x in lines[start:bad + 1]]
    p = ctx.save_replay("coord-trace-line%d.json" % bad, {"events": evs, "what": what})
    last = {a: b for a, b in evs[-1].items() if b not in ("", 0, False, [], None)}
    ctx.violation("%s: rejected event %s" % (what, json.dumps(last)[:600]), p)


def witness_continuations(ctx, path, per_witness):
    """Random walks that first follow a witness schedule and then continue from the state it reaches."""
    import re
    wdir = os.path.join(vf.VERIF, "replays", "witness")
    base = open(os.path.join(vf.SPEC, "cfg", "shard-witness-sim.cfg")).read()
    n = 0
    with open(path, "w") as out:
        for f in sorted(os.listdir(wdir)):
            if not f.endswith(".json"):
                continue
            w = json.load(open(os.path.join(wdir, f)))
            if "script_cfg" in w:
                continue   # witnesses of another configuration (e.g. 5 nodes) are replayed as they are
            depth = len(w["script"]) + 22
            cfg = re.sub(r"(?m)^(\s*MaxDepth\s*=\s*).*$", r"\g<1>%d" % depth, base)
            cp = os.path.join(ctx.scratch, "wsim-%s.cfg" % f[:-5])
            open(cp, "w").write(cfg)
            text = "\n".join(json.dumps(a) for a in w["script"]) + "\n"
            r = ctx.tlc("OxiaShardSim", cp, workers=1, label="wsim-" + f[:-5], cwd_files={"script.ndjson": text},
                        simulate="num=%d" % per_witness, depth=depth + 1, timeout=300)
            pre = '<<"RUN", "'
            for l in r.out.splitlines():
                if l.startswith(pre) and l.endswith('">>'):
                    out.write(l[len(pre):-3].replace('\\"', '"').replace("\\\\", "\\") + "\n")
                    n += 1
    return n


RACES = [
    # name, properties, prefix, step A, step B   (notation of bin/mkscript)
    ("append-vs-newterm", ("C04", "C03"), "E; NT a 1; NT b 1; NT c 1; BL a 1 a,b,c; ED; C a b; W a v1; S a; E", "AP a b", "NT b 2"),
    ("write-vs-newterm", ("C04", "C01"), "E; NT a 1; NT b 1; NT c 1; BL a 1 a,b,c; ED; C a b; C a c; E", "W a v1", "NT a 2"),
    ("write-vs-write", ("C08",), "E; NT a 1; NT b 1; NT c 1; BL a 1 a,b,c; ED; C a b; C a c", "W a v1", "W a v2"),
    ("ack-vs-ack", ("C08", "C07", "C02"), "E; NT a 1; NT b 1; NT c 1; BL a 1 a,b,c; ED; C a b; C a c; W a v1; W a v2; S a; "
     "AP a b; AP a b; AP a c; AP a c; S b; S c; AK a b", "AK a b", "AK a c"),
    # a snapshot of the term-1 leader reaches the follower while it is being fenced in term 2
    ("snapshot-vs-newterm", ("C04", "C01", "C03"), "E; NT a 1; NT b 1; BL a 1 a,b; ED; C a b; W a v1; S a; AP a b; S b; AK a b; NT c 1; AF c; E",
     "SN a c", "NT c 2", "traceonly"),   # SendSnapshot takes the director lock, then the controller lock: not atomic
    ("sync-vs-newterm-follower", ("C04", "C03"), "E; NT a 1; NT b 1; NT c 1; BL a 1 a,b,c; ED; C a b; W a v1; S a; AP a b; E", "S b", "NT b 2"),
]


def race_cases(ctx, pid, path):
    """Pairs of steps that the specification treats as atomic, to be issued concurrently on the real nodes;
    TLC computes the expectations of both serializations."""
    sys_path = os.path.join(vf.VERIF, "bin")
    import importlib.machinery, importlib.util
    loader = importlib.machinery.SourceFileLoader("mkscript_mod", os.path.join(sys_path, "mkscript"))
    n = 0
    with open(path, "w") as out:
        for rc in RACES:
            name, props, prefix, a, b = rc[:5]
            traceonly = len(rc) > 5 and rc[5] == "traceonly"
            if pid not in props:
                continue
            pre, sa, sb = parse_steps(prefix), parse_steps(a), parse_steps(b)
            ab = script_to_behaviour(ctx, pre + sa + sb, "race-%s-ab" % name)
            ba = script_to_behaviour(ctx, pre + sb + sa, "race-%s-ba" % name)
            if len(ab) != len(pre) + 2 or len(ba) < len(pre) + 1:
                raise vf.Inconclusive("race case %s: the specification does not follow the script (%d/%d, %d)" %
                                      (name, len(ab), len(pre) + 2, len(ba)))
            out.write(json.dumps({"name": name, "prefix": ab[:len(pre)], "ab": ab[len(pre):], "ba": ba[len(pre):], "traceonly": traceonly}) + "\n")
            n += 1
    return n


def parse_steps(text):
    out = []
    for tok in text.split(";"):
        p = tok.split()
        if not p:
            continue
        k = p[0]
        m = {"E": lambda: {"a": "CoElect"}, "ED": lambda: {"a": "CoElected"},
             "NT": lambda: {"a": "NewTerm", "n": p[1], "t": int(p[2])},
             "BL": lambda: {"a": "BecomeLeader", "n": p[1], "t": int(p[2]), "fs": sorted(p[3].split(","))},
             "W": lambda: {"a": "Write", "n": p[1], "v": p[2]}, "S": lambda: {"a": "Sync", "n": p[1]},
             "C": lambda: {"a": "Connect", "l": p[1], "f": p[2]}, "AP": lambda: {"a": "Append", "l": p[1], "f": p[2]},
             "AK": lambda: {"a": "Ack", "l": p[1], "f": p[2]}, "RS": lambda: {"a": "Reset", "l": p[1], "f": p[2]},
             "X": lambda: {"a": "Crash", "n": p[1]}, "R": lambda: {"a": "Restart", "n": p[1]},
             "SN": lambda: {"a": "Snapshot", "l": p[1], "f": p[2]}, "AF": lambda: {"a": "AddFollower", "f": p[1]}}
        out.append(m[k]())
    return out


def linearizable(ctx, res, origin):
    """C02: the client histories recorded during the replay (writes with their responses, one read per serving
    leader after every step) must be linearizable; TLC searches the linearization points (LinTrace.tla).
    A rejected history of a behaviour in which a known-finding trigger occurred is attributed to it."""
    hf = res.get("history_file")
    if not hf or not os.path.exists(hf):
        return
    lines = open(hf).read().splitlines()
    if not lines:
        return
    behs = None
    listed = {f["id"]: f for f in vf.findings_for("C02")}
    all_listed = {f.get("id") for f in vf.load_known_findings().get("findings", [])}
    all_what = {f.get("id"): f.get("what", "") for f in vf.load_known_findings().get("findings", [])}
    accepted = 0
    for _ in range(12):
        tp = os.path.join(ctx.scratch, "hist-%s.ndjson" % origin)
        open(tp, "w").write("\n".join(lines) + "\n")
        r = ctx.tlc("LinTrace", "lin-trace.cfg", files=[(tp, "trace.ndjson")], workers=1, deque=True,
                    label="lin-" + origin, seed=False, allow_violation=True, timeout=600)
        n = sum(1 for x in lines if '"reset"' in x)
        if r.ok:
            accepted += n
            break
        hw = 0
        for l in r.out.splitlines():
            if l.startswith('<<"REJECTED"'):
                hw = int(l.split(",")[1])
        bad = max(0, min(hw, len(lines)) - 1)
        start = max(j for j in range(bad + 1) if '"reset"' in lines[j])
        end = next((j for j in range(bad + 1, len(lines)) if '"reset"' in lines[j]), len(lines))
        idx = json.loads(lines[start])["op"]
        if behs is None:
            behs = open(res["runs_file"]).read().splitlines()
        beh = json.loads(behs[idx])
        kf = sorted({k for s in beh if s.get("exp") for k in s["exp"].get("kf", [])})
        hist = [json.loads(x) for x in lines[start:end]]
        calls = " ".join(describe(x) for x in beh if x["a"] != "Idle")
        if kf and all(i in all_listed for i in kf):
            for i in kf:
                if not any(k.startswith(i + ":") for k in ctx.known):
                    ctx.known_finding("%s: %s [client history not linearizable after: %s]" % (i, all_what[i], calls[:600]))
        else:
            p = ctx.save_replay("%s-history-%d.json" % (origin, idx), {"behaviour": beh, "history": hist, "rejected_at": bad - start})
            ev = hist[bad - start]
            ctx.violation("client history of the real nodes is not linearizable (event #%d %s of node %s returned %s) after: %s"
                          % (bad - start, ev.get("ev"), ev.get("node"), ev.get("res"), calls[:1200]), p)
        accepted += sum(1 for x in lines[:start] if '"reset"' in x)
        lines = lines[end:]
        if not lines:
            break
    ctx.traces_validated += accepted
    ctx.log("%d client histories accepted as linearizable by LinTrace [%s]" % (accepted, origin))


# which property an event of the controllers' trace speaks for (first rejected event decides)
NODE_EVENTS = {
    "C03": {"FAck", "FAppend", "FTruncate", "FSnapshot"},
    "C04": {"FNewTerm", "LNewTerm", "FAppend", "LAlloc", "FTruncate", "LBecome"},
    "C05": {"FNewTerm", "LNewTerm", "LBecome"},
    "C07": {"FApply", "LApply", "FSnapshot"},
    "C08": {"LAlloc", "LSynced", "LApply", "TCommit", "LAppendFail"},
}


def validate_node_traces(ctx, pid, files, origin, pending=None):
    """code -> spec for the storage nodes: event traces written by the controllers (hooks at their
    linearization points) are validated by TLC against the node-local rules (OxiaNodeTrace.tla).
    pending: a list - rejections are collected there (what, replay path, event) instead of being reported."""
    ok_files = 0
    events = 0
    for i, f in enumerate(files):
        if not os.path.exists(f) or os.path.getsize(f) == 0:
            continue
        lines = open(f).read().splitlines()
        r = ctx.tlc("OxiaNodeTrace", "node-trace.cfg", files=[(f, "trace.ndjson")], workers=1, deque=True,
                    label="nodetrace-%s-%d" % (origin, i), seed=False, allow_violation=True, timeout=600)
        if r.ok:
            ok_files += 1
            events += len(lines)
            continue
        hw = 0
        for l in r.out.splitlines():
            if l.startswith('<<"REJECTED"'):
                hw = int(l.split(",")[1])
        bad = max(0, min(hw, len(lines)) - 1)
        ev = json.loads(lines[bad])
        inst = ev.get("i")
        hist = [json.loads(x) for x in lines[:bad + 1] if json.loads(x).get("i") == inst][-12:]
        # the events of all controllers around the rejected one are kept for diagnosis (real-time order)
        window = [json.loads(x) for x in lines[max(0, bad - 1500):bad + 40]]
        p = ctx.save_replay("nodetrace-%s-%d.json" % (origin, i), {"rejected": ev, "instance_history": hist, "window": window})
        if ev.get("ev") in NODE_EVENTS.get(pid, set()):
            what = ("an event of the real controllers is not a step of the node rules (OxiaNodeTrace.tla): %s; "
                    "previous events of that controller: %s" % (json.dumps(ev), json.dumps(hist[:-1])[:900]))
            if pending is not None:
                pending.append((what, p, ev))
            else:
                ctx.violation(what, p)
        else:
            ctx.log("controller trace rejected at an event not attributed to %s: %s" % (pid, json.dumps(ev)[:300]))
            ctx.notes.setdefault("unattributed_trace_rejections", []).append(ev.get("ev"))
    ctx.traces_validated += ok_files
    ctx.log("controller event traces [%s]: %d files (%d events) accepted by OxiaNodeTrace" % (origin, ok_files, events))
    return ok_files


def repo_test_traces(ctx, pid):
    """The repository's own server tests, built with the verif tag, write the controllers' event trace;
    TLC evaluates the node rules on every step of what the tests already exercise."""
    tf = os.path.join(ctx.scratch, "servertests.ndjson")
    env = ctx.goenv()
    env["VERIF_TRACE"] = tf
    import subprocess
    try:
        p = subprocess.run(["go", "test", "-tags", "verif", "-count=1", "-vet=off", "-timeout", "300s", "./server/"],
                           cwd=vf.REPO, env=env, capture_output=True, text=True, timeout=400)
    except subprocess.TimeoutExpired:
        ctx.log("repository server tests timed out under the verif tag (skipped)")
        return
    if p.returncode != 0:
        ctx.log("repository server tests fail under the verif tag (not judged here): %s" % p.stdout[-300:])
    validate_node_traces(ctx, pid, [tf], "repotests")


def replay_file(ctx, pid, path):
    """bin/check <id> <tier> --replay <file>: re-execute a stored counterexample (a behaviour of the specification
    with its expectations, or a race case) on the real nodes of the current tree."""
    d = json.load(open(path))
    binp = ctx.go_build("shardsim")
    if "behaviour" in d:
        beh = d["behaviour"]
        # expectations of the CURRENT specification for the same action sequence (Idle steps dropped)
        script = []
        for st in beh:
            if st["a"] == "Idle":
                continue
            sc = {k: st[k] for k in ("a", "n", "l", "f", "t", "v", "from", "to") if k in st}
            if st["a"] == "BecomeLeader" and isinstance(st.get("fm"), dict):
                sc["fs"] = sorted(set(st["fm"].keys()) | {st["n"]})
            script.append(sc)
        fresh = script_to_behaviour(ctx, script, "replay")
        if len(fresh) == len(script):
            beh = fresh
            ctx.log("the current specification follows all %d actions; its expectations are used" % len(script))
        else:
            ctx.log("the current specification follows %d of %d actions (%s is not enabled): stored expectations are used"
                    % (len(fresh), len(script), describe(script[len(fresh)]) if len(fresh) < len(script) else ""))
        runs = os.path.join(ctx.scratch, "one.ndjson")
        open(runs, "w").write(json.dumps(beh) + "\n")
        res = replay(ctx, binp, runs, "replay")
        if not res.get("mismatches"):
            # the check replays part of its behaviours with shifted real terms
            env2 = dict(os.environ)
            env2["VERIF_TERMBASE"] = "2"
            res = replay(ctx, binp, runs, "replay-termbase2", env=env2)
        report(ctx, pid, res, "replay")
        findings_reached(ctx, pid, runs, res, "replay")
    elif d.get("kind") == "tracker":
        binp = ctx.go_build("trackcheck")
        runs = os.path.join(ctx.scratch, "one.ndjson")
        open(runs, "w").write(json.dumps(d["behaviour"]) + "\n")
        out = os.path.join(ctx.scratch, "one.json")
        ctx.run([binp, "-rf", str(d.get("rf", 3)), "-in", runs, "-out", out])
        for mm in (json.load(open(out)).get("mismatches") or []):
            ctx.violation("the real quorum ack tracker deviates from AckTracker.tla at step %d: %s" % (mm["step"], mm["what"][:900]), path)
    elif "rejected" in d:
        ctx.log("a rejected controller trace is not replayable (schedules of the Go runtime); rejected event: %s" % json.dumps(d["rejected"]))
    else:
        ctx.log("unknown replay format")


def status_resource(ctx):
    """C05, the durable term: the coordinator's StatusResource is used concurrently by the shard controllers
    (UpdateShardMetadata: term + 1 before NewTerm is sent) and by the configuration path (LoadWithVersion ...
    Swap). StatusRes.tla (compare-and-set, atomic with every other writer) is model-checked for a durable term
    that never decreases; the stores, loads and failed swaps recorded under a real StatusResource on a logging
    metadata provider (one election writer, three configuration writers) are validated by TLC."""
    import subprocess
    quick = ctx.tier == "quick"
    r = ctx.tlc("StatusRes", "statusres-mc.cfg", label="statusres-mc", timeout=300)
    ctx.log("StatusRes: %d distinct states, %d transitions; TermDurableMonotone, VersionMonotone hold" % (r.distinct, r.generated))
    binp = ctx.go_build("statuscheck")
    accepted = 0
    for k in range(1 if quick else 6):
        tf = os.path.join(ctx.scratch, "status-%d.ndjson" % k)
        p = subprocess.run([binp, "-seed", str(ctx.seed * 100 + k), "-rounds", "30" if quick else "100", "-out", tf],
                           capture_output=True, text=True, timeout=600)
        if p.returncode != 0:
            raise vf.Inconclusive("statuscheck failed (exit %d): %s" % (p.returncode, p.stderr[-400:]))
        lines = open(tf).read().splitlines()
        r = ctx.tlc("StatusResTrace", "statusres-trace.cfg", files=[(tf, "trace.ndjson")], workers=1,
                    label="statusres-%d" % k, seed=False, allow_violation=True, timeout=600)
        if r.ok:
            accepted += sum(1 for x in lines if '"round"' in x)
            continue
        hw = 0
        for l in r.out.splitlines():
            if l.startswith('<<"REJECTED"'):
                hw = int(l.split(",")[1])
        bad = max(0, min(hw, len(lines)) - 1)
        start = max(j for j in range(bad + 1) if '"ev":"round"' in lines[j])
        hist = [json.loads(x) for x in lines[start:bad + 1]]
        pth = ctx.save_replay("statusres-%d-%d.json" % (k, start), {"round": hist, "rejected_at": bad - start, "kind": "statusres"})
        ctx.violation("a durable store of the real StatusResource is not a step of StatusRes.tla (a Swap must take effect only "
                      "if the version its caller loaded is still current; the durable term never decreases): rejected event %s; "
                      "events before it: %s" % (json.dumps(hist[-1]), json.dumps(hist[-9:-1])[:900]), pth)
        break
    ctx.traces_validated += accepted
    ctx.log("status resource: %d rounds of concurrent election / configuration writers accepted by StatusResTrace" % accepted)


def ack_tracker(ctx):
    """C08, the commit rule itself: AckTracker.tla models the leader's quorum ack tracker with its API in the
    environment the leader gives it (followers may acknowledge whatever is durable on the leader, in any
    cross-follower order, with duplicates, also before the leader's own sync callback advanced the head).
    TLC checks exhaustively that the commit offset is monotone, never passes the head and EQUALS the highest
    offset acknowledged by RF/2 followers; simulated behaviours are replayed on the real tracker object."""
    quick = ctx.tier == "quick"
    for cfg in ("acktracker-rf3.cfg", "acktracker-rf5.cfg"):
        r = ctx.tlc("AckTrackerMC", cfg, label=cfg[:-4], timeout=600)
        ctx.log("%s: %d distinct states, %d transitions; CommitLeHead, CommitSound, CommitExact, DoneOkCommitted hold" % (cfg, r.distinct, r.generated))
    m = ctx.tlc("AckTrackerMC", "acktracker-mutant-drop.cfg", label="acktracker-mutant", allow_violation=True, timeout=600, seed=False)
    if m.ok or "CommitExact" not in m.out:
        raise vf.Inconclusive("the specification mutant that drops early acks is not caught by CommitExact: the invariant is vacuous")
    binp = ctx.go_build("trackcheck")
    for cfg, rf in (("acktracker-runs.cfg", 3), ("acktracker-runs5.cfg", 5)):
        r = ctx.tlc("AckTrackerSim", cfg, simulate="num=%d" % (300 if quick else 5000), depth=26, workers=1, label="tracksim-rf%d" % rf)
        runs = os.path.join(ctx.scratch, "track-runs-%d.ndjson" % rf)
        seen = set()
        with open(runs, "w") as f:
            pre = '<<"RUN", "'
            for l in r.out.splitlines():
                if l.startswith(pre) and l.endswith('">>') and l not in seen:
                    seen.add(l)
                    f.write(l[len(pre):-3].replace('\\"', '"').replace("\\\\", "\\") + "\n")
        if not seen:
            raise vf.Inconclusive("AckTrackerSim exported no behaviours")
        out = os.path.join(ctx.scratch, "track-res-%d.json" % rf)
        ctx.run([binp, "-rf", str(rf), "-in", runs, "-out", out])
        res = json.load(open(out))
        ctx.replayed += res["behaviours"]
        ctx.log("quorum tracker RF=%d: %d behaviours (%d steps) replayed on the real tracker, %d deviations" %
                (rf, res["behaviours"], res["steps"], len(res.get("mismatches") or [])))
        for i, mm in enumerate((res.get("mismatches") or [])[:3]):
            p = ctx.save_replay("tracker-rf%d-%d.json" % (rf, i), dict(mm, rf=rf, kind="tracker"))
            ctx.violation("the real quorum ack tracker (RF=%d) deviates from AckTracker.tla at step %d: %s" % (rf, mm["step"], mm["what"][:900]), p)


def write_pipe(ctx, pid):
    """The public write path as the clients see it (C02/C08: every caller gets the response to its own request,
    requests of one stream are applied in the order sent): WritePipe.tla is model-checked (2 streams, 2 keys,
    conditional puts and deletes) and recorded executions of PIPELINED write streams against a real standalone
    server's gRPC surface are validated by TLC (WritePipeTrace.tla)."""
    import subprocess
    quick = ctx.tier == "quick"
    r = ctx.tlc("WritePipeMC", "writepipe-mc.cfg", label="writepipe-mc", timeout=600)
    ctx.log("WritePipeMC: %d distinct states, %d transitions; PairedByPosition, VersionsUnique, LiveIsReported hold" % (r.distinct, r.generated))
    binp = ctx.go_build("pipecheck")
    accepted = 0
    for k in range(1 if quick else 8):
        tf = os.path.join(ctx.scratch, "pipe-%d.ndjson" % k)
        p = subprocess.run([binp, "-seed", str(ctx.seed * 100 + k), "-rounds", "150" if quick else "400", "-out", tf],
                           capture_output=True, text=True, timeout=600)
        if p.returncode != 0:
            raise vf.Inconclusive("pipecheck failed (exit %d): %s" % (p.returncode, p.stderr[-400:]))
        lines = open(tf).read().splitlines()
        r = ctx.tlc("WritePipeTrace", "writepipe-trace.cfg", files=[(tf, "trace.ndjson")], workers=1, deque=True,
                    label="writepipe-%d" % k, seed=False, allow_violation=True, timeout=900)
        if r.ok:
            accepted += sum(1 for x in lines if '"round"' in x)
            continue
        hw = 0
        for l in r.out.splitlines():
            if l.startswith('<<"REJECTED"'):
                hw = int(l.split(",")[1])
        bad = max(0, min(hw, len(lines)) - 1)
        start = max(j for j in range(bad + 1) if '"ev":"round"' in lines[j])
        end = next((j for j in range(bad + 1, len(lines)) if '"ev":"round"' in lines[j]), len(lines))
        hist = [json.loads(x) for x in lines[start:end]]
        short = ["%s s%d #%d %s %s exp=%s -> %s %s" % (h["ev"], h["s"], h["k"], h["kind"], h["key"], h["exp"], h.get("fstatus") or h.get("status"),
                                                         h.get("fver") if h["ev"] == "send" else h.get("ver")) for h in hist[1:bad - start + 1]][-14:]
        pth = ctx.save_replay("writepipe-%d-%d.json" % (k, start), {"round": hist, "rejected_at": bad - start})
        ctx.violation("pipelined write streams on a real server: the responses (paired with the requests by position) and the "
                      "final store are not explained by applying each stream's requests in the order sent (WritePipe.tla); "
                      "rejected at event #%d of the round: %s; events before it: %s"
                      % (bad - start, json.dumps(hist[bad - start]), "; ".join(short)), pth)
        break
    ctx.traces_validated += accepted
    ctx.notes["writepipe_rounds_accepted"] = accepted
    ctx.log("write streams: %d rounds of pipelined streams accepted by WritePipeTrace" % accepted)


def lin_stress(ctx, binp):
    """C02 on free-running real nodes: concurrent writers and readers against a 3-node shard while elections and
    stream resets happen; the client history (real-time order of invocations and responses) must have a
    linearization - TLC searches it (LinTraceLA.tla, pruned with the results the trace itself reports)."""
    import subprocess
    quick = ctx.tier == "quick"
    accepted = 0
    for k in range(1 if quick else 10):
        hf = os.path.join(ctx.scratch, "linstress-%d.ndjson" % k)
        try:
            p = subprocess.run([binp, "linstress", "-seed", str(ctx.seed * 100 + k), "-episodes", "300", "-out", hf],
                               capture_output=True, text=True, timeout=300)
        except subprocess.TimeoutExpired:
            ctx.log("linstress run %d timed out (skipped)" % k)
            continue
        if p.returncode != 0 or not os.path.exists(hf):
            # the process that hosts the three real nodes died
            if "handleReplicateSync" in p.stderr and os.path.exists(hf):
                # known defect of the unchanged code, outside the listed properties (DESIGN 10.5): a follower's
                # sync goroutine reads fc.wal after Close() set it to nil and the node process panics. For the
                # properties this is a node crash; the episodes completed before it are still judged.
                ctx.log("linstress run %d: node process panic in handleReplicateSync after close (known, not judged); "
                        "the episodes recorded before it are validated" % k)
                ctx.notes["node_panics_handleReplicateSync"] = ctx.notes.get("node_panics_handleReplicateSync", 0) + 1
            else:
                raise vf.Inconclusive("linstress run %d ended with exit %d: %s" % (k, p.returncode, p.stderr[-600:]))
        lines = open(hf).read().splitlines()
        if p.returncode != 0:
            # the episode that was being written when the process died may be incomplete: dropped
            resets = [j for j, x in enumerate(lines) if '"reset"' in x]
            lines = lines[:resets[-1]] if resets else []
        while lines:
            tp = os.path.join(ctx.scratch, "linstress-part.ndjson")
            open(tp, "w").write("\n".join(lines) + "\n")
            r = ctx.tlc("LinTraceLA", "lin-trace-la.cfg", files=[(tp, "trace.ndjson")], workers=1, deque=True,
                        label="linstress-%d" % k, seed=False, allow_violation=True, timeout=600)
            if r.ok:
                accepted += sum(1 for x in lines if '"reset"' in x)
                break
            hw = 0
            for l in r.out.splitlines():
                if l.startswith('<<"REJECTED"'):
                    hw = int(l.split(",")[1])
            bad = max(0, min(hw, len(lines)) - 1)
            start = max(j for j in range(bad + 1) if '"reset"' in lines[j])
            end = next((j for j in range(bad + 1, len(lines)) if '"reset"' in lines[j]), len(lines))
            hist = [json.loads(x) for x in lines[start:end]]
            ev = hist[bad - start]
            pth = ctx.save_replay("linstress-%d-%d.json" % (k, start), {"history": hist, "rejected_at": bad - start})
            ctx.violation("client history of free-running real nodes (concurrent writers/readers, elections) is not "
                          "linearizable: event #%d %s op %s on node %s returned %s; the acknowledged writes before it: %s"
                          % (bad - start, ev.get("ev"), ev.get("op"), ev.get("node"), ev.get("res"),
                             [h["op"] for h in hist[:bad - start] if h["ev"] == "retw"][-20:]), pth)
            accepted += sum(1 for x in lines[:start] if '"reset"' in x)
            lines = lines[end:]
            if len(ctx.violations) >= 3:
                break
    ctx.traces_validated += accepted
    ctx.notes["linstress_episodes_accepted"] = accepted
    ctx.log("linstress: %d concurrent client histories accepted by LinTraceLA" % accepted)


def stress_traces(ctx, pid, binp):
    """Free-running real nodes (3-node shard, concurrent writers, repeated elections and stream resets, nothing
    gated): the schedules are the Go scheduler's, the verdict is TLC's on the recorded controller events."""
    import subprocess
    quick = ctx.tier == "quick"
    files = []
    for k in range(4 if quick else 16):
        tf = os.path.join(ctx.scratch, "stress-%d.ndjson" % k)
        env = dict(os.environ)
        env["VERIF_TRACE"] = tf
        try:
            # every second run also has partial elections (a node is left out, fenced and added later) and
            # node crashes with loss of the unsynced WAL tail and of the unflushed DB state
            faults = ["-faults"] if k % 2 == 1 else []
            p = subprocess.run([binp, "stress", "-seed", str(ctx.seed * 100 + k), "-rounds", "3" if quick else "4"] + faults,
                               env=env, capture_output=True, text=True, timeout=300)
        except subprocess.TimeoutExpired:
            ctx.log("stress run %d timed out (skipped)" % k)
            continue
        if p.returncode != 0:
            ctx.log("stress run %d ended with exit %d (trace up to that point is still validated): %s" % (k, p.returncode, p.stderr[-200:]))
        files.append(tf)
    pending = []
    n = validate_node_traces(ctx, pid, files, "stress", pending=pending)
    ctx.notes["stress_traces"] = n
    for f in files:
        if os.path.exists(f):
            os.remove(f)
    if pending:
        # The schedules of a free-running cluster cannot be re-executed. As for replayed behaviours, a rejection
        # counts only when it shows again: further runs are made, and a rejection of the same kind of event in
        # one of them confirms it. A rejection that never shows again is recorded, not reported (one such case -
        # a leader's LApply skipping an offset - occurred once in several hundred runs of the unchanged tree and
        # could not be obtained again; its event window is kept in the replay file).
        kinds = {ev.get("ev") for _, _, ev in pending}
        confirmed = []
        for k in range(8 if quick else 16):
            tf = os.path.join(ctx.scratch, "stress-confirm-%d.ndjson" % k)
            env = dict(os.environ)
            env["VERIF_TRACE"] = tf
            faults = ["-faults"] if k % 2 == 1 else []
            try:
                subprocess.run([binp, "stress", "-seed", str(ctx.seed * 1000 + 500 + k), "-rounds", "3"] + faults,
                               env=env, capture_output=True, text=True, timeout=300)
            except subprocess.TimeoutExpired:
                continue
            more = []
            validate_node_traces(ctx, pid, [tf], "stress-confirm%d" % k, pending=more)
            if os.path.exists(tf):
                os.remove(tf)
            confirmed += [m for m in more if m[2].get("ev") in kinds]
            if confirmed:
                break
        if confirmed:
            for what, pth, _ in pending[:3] + confirmed[:1]:
                ctx.violation(what, pth)
        else:
            for what, pth, ev in pending:
                ctx.log("rejection of a free-running trace that did not show again in further runs (recorded in %s, not counted): %s"
                        % (pth, what[:400]))
            ctx.notes["unconfirmed_stress_rejections"] = [ev for _, _, ev in pending]


def run(ctx, pid):
    quick = ctx.tier == "quick"
    ctx.assumptions += [
        "a metadata Store is atomic; at most a minority of the ensemble loses its disk (no disk-loss action in the model)",
        "replay drives the real nodes through the gRPC-less internal RPC surface (real dispatch code) and an in-process wire",
        "known findings (known-findings.json) are guarded in the invariants by history flags set at their trigger",
    ]
    # 1. exhaustive model checking of the closed system, this property's invariants
    # a: 2 terms, 2 writes, no faults; f: 2 terms, 1 write, one crash and one stream reset; b: 3 terms;
    # thorough-f: 2 terms, 2 writes, one crash and one reset (6.75 M distinct states, 7.5 min at 12 workers)
    cfgs = ["shard-quick-a.cfg", "shard-quick-f.cfg"] if quick else ["shard-quick-a.cfg", "shard-quick-f.cfg", "shard-quick-b.cfg", "shard-thorough.cfg", "shard-thorough-f.cfg"]
    for c in cfgs:
        cfg = make_cfg(ctx, c, INVARIANTS[pid], name=c)
        r = ctx.tlc("OxiaShardMC", cfg, label=c.replace(".cfg", ""), timeout=max(300, ctx.left()))
        ctx.log("%s: %d distinct states, %d transitions, invariants %s hold" % (c, r.distinct, r.generated, INVARIANTS[pid]))
    # coordinator side (elections, durable terms, swap)
    if pid in ("C01", "C05"):
        coordinator_traces(ctx, pid, 120 if quick else 1500)
    # 2. spec -> code replay
    binp = ctx.go_build("shardsim")
    num = 300 if quick else 6000
    r = ctx.tlc("OxiaShardSim", "shard-runs.cfg", simulate="num=%d" % num, depth=41, workers=1, label="sim")
    runs = os.path.join(ctx.scratch, "runs.ndjson")
    n = export_runs(ctx, r, runs)
    if n == 0:
        raise vf.Inconclusive("TLC simulation exported no behaviours")
    res = replay(ctx, binp, runs, "sim")
    other = report(ctx, pid, res, "sim")
    reached = findings_reached(ctx, pid, runs, res, "sim")
    if pid in NODE_EVENTS:
        repo_test_traces(ctx, pid)
        stress_traces(ctx, pid, binp)
        validate_node_traces(ctx, pid, res.get("nodetraces", []), "sim")
    if pid == "C02":
        linearizable(ctx, res, "sim")
        lin_stress(ctx, binp)
    if pid in ("C02", "C08"):
        write_pipe(ctx, pid)
    if pid in ("C08", "C01"):
        ack_tracker(ctx)
    if pid == "C05":
        status_resource(ctx)
    # the remaining replays run with shifted real terms (specification term t = real term t+1 instead of t-1):
    # protobuf omits a zero term, records of the real term 0 are shorter than all later ones
    env2 = dict(os.environ)
    env2["VERIF_TERMBASE"] = "2"
    # the same with a spare node and a node swap (ensemble change, removed node deleted after the election)
    r = ctx.tlc("OxiaShardSim", "shard-runs-swap.cfg", simulate="num=%d" % (num // 4), depth=56, workers=1, label="simswap")
    sruns = os.path.join(ctx.scratch, "runs-swap.ndjson")
    if export_runs(ctx, r, sruns):
        sres = replay(ctx, binp, sruns, "sim-swap", env=env2)
        other += report(ctx, pid, sres, "simswap")
        reached |= findings_reached(ctx, pid, sruns, sres, "simswap")
        if pid == "C02":
            linearizable(ctx, sres, "simswap")
    # witness schedules (shortest behaviours reaching each branch condition of the specification)
    wruns = os.path.join(ctx.scratch, "witness.ndjson")
    nw, names = witness_runs(ctx, wruns)
    if nw:
        wres = replay(ctx, binp, wruns, "witness", env=env2)
        other += report(ctx, pid, wres, "witness")
        reached |= findings_reached(ctx, pid, wruns, wres, "witness")
        if pid == "C02":
            linearizable(ctx, wres, "witness")
        if pid in ("C04", "C01", "C03"):
            # the same witnesses on a slow disk: a sync round that is pending when NewTerm arrives stalls for
            # 2.5 s (6 s in the thorough tier); the handler has to wait for it and still report the end of its log
            env = dict(env2)
            env["VERIF_SLOWSYNC"] = "2500ms" if quick else "6s"
            sres = replay(ctx, binp, wruns, "witness-slowdisk", timeout="4s", env=env)
            other += report(ctx, pid, sres, "witness-slowdisk")
        ctx.notes["known_findings_reproduced"] = sorted(reached)
        # ... and random continuations from the states the witnesses reach
        cruns = os.path.join(ctx.scratch, "wsim.ndjson")
        nc = witness_continuations(ctx, cruns, 8 if quick else 150)
        if nc:
            cres = replay(ctx, binp, cruns, "witness-continuations", env=env2)
            other += report(ctx, pid, cres, "wcont")
            reached |= findings_reached(ctx, pid, cruns, cres, "wcont")
            if pid == "C02":
                linearizable(ctx, cres, "wcont")
        ctx.notes["witness_schedules"] = names
    # steps that are atomic in the specification, issued concurrently on the real nodes
    rpath = os.path.join(ctx.scratch, "races.ndjson")
    if race_cases(ctx, pid, rpath):
        rout = os.path.join(ctx.scratch, "races.json")
        renv = dict(os.environ)
        rtrace = os.path.join(ctx.scratch, "races.nodetrace.ndjson")
        renv["VERIF_TRACE"] = rtrace
        import subprocess
        rp = subprocess.run([binp, "race", "-in", rpath, "-out", rout, "-reps", "25" if quick else "400", "-seed", str(ctx.seed)],
                            env=renv, capture_output=True, text=True, timeout=max(600, ctx.left() + 300))
        if rp.returncode != 0:
            if "handleSnapshot" in rp.stderr or "handleReplicateSync" in rp.stderr:
                # known crash defects of the unchanged code outside the listed properties (a handler goroutine of a
                # follower controller dereferences fc.wal after Close() set it to nil): the process hosting the
                # nodes died; the trials made so far are lost, the controllers' events written before are judged
                ctx.log("race driver: node process panic in a handler of a closed follower controller (known, not judged)")
                ctx.notes["node_panics_closed_follower"] = ctx.notes.get("node_panics_closed_follower", 0) + 1
                json.dump({"cases": 0, "trials": 0, "mismatches": [], "trials_by_case": {}}, open(rout, "w"))
            else:
                raise vf.Inconclusive("race driver failed (exit %d): %s" % (rp.returncode, rp.stderr[-1500:]))
        if pid in NODE_EVENTS:
            # the controllers' own events of the concurrent trials are judged by the node rules as well
            validate_node_traces(ctx, pid, [rtrace], "races")
        rres = json.load(open(rout))
        ctx.replayed += rres["trials"]
        ctx.log("race pairs: %d cases, %d concurrent trials, %d not serializable" % (rres["cases"], rres["trials"], len(rres.get("mismatches") or [])))
        ctx.notes["race_trials"] = rres.get("trials_by_case")
        for i, mm in enumerate(rres.get("mismatches") or []):
            p = ctx.save_replay("race-%d.json" % i, mm)
            ctx.violation("concurrent %s on the real nodes is not equivalent to either order: %s" % (mm["action"], mm["what"][:1500]), p)
    ctx.notes["actions_replayed"] = res.get("actions")
    with open(runs) as f:
        beh = json.loads(f.readline())
        ctx.samples.append({"kind": "spec behaviour replayed on real nodes (actions only)",
                            "steps": [{k: v for k, v in s.items() if k != "exp"} for s in beh if s["a"] != "Idle"][:30]})
    if other and not ctx.violations:
        raise vf.Inconclusive("the real code deviates from the specification in fields that are not attributed to %s "
                              "(see the log above and the checks of the other replication properties)" % pid)
