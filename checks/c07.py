import shard_common


def run(ctx):
    quick = ctx.tier == "quick"
    # crash-atomicity of one entry's application at the storage-engine level: a crash image is taken at every
    # engine batch commit of TLC-chosen request sequences (OxiaDb family, routecheck crashpoints) and must be
    # the fold of entries 0..c, c = the commit offset stored in the image; replay of c+1.. gives the whole log
    import c06
    c06.crashpoints_standalone(ctx, quick)
    shard_common.run(ctx, "C07")


def replay(ctx, path):
    import json
    d = json.load(open(path))
    if isinstance(d, dict) and d.get("kind") == "crash":
        import c06
        return c06.replay(ctx, path)
    shard_common.replay_file(ctx, "C07", path)
