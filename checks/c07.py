import json
import os

import shard_common
import vf


def _show_case(case):
    out = []
    for s in case:
        a = s["a"]
        if a == "Write":
            out.append("Write#%d" % (s["n"] - 1))
        elif a == "Follow":
            out.append("Follow(commit %d)" % s["x"])
        else:
            out.append(a)
    return " ".join(out)


def _report_trim(ctx, res, label):
    for i, mm in enumerate(res.get("mismatches") or []):
        p = ctx.save_replay("trimreplay-%s-%d.json" % (label, i), mm)
        import _db
        b = _db.show_beh(mm["behaviour"])
        ctx.violation("%s - behaviour of TrimReplay.tla: [%s]; log: [%s]" % (mm["what"][:900], _show_case(mm.get("case") or []), b[:800]), p)


def trimreplay(ctx, quick, logs=None):
    """spec/TrimReplay.tla: replay into a database that came back older than the first entry its trimmed log still
    holds.  TLC checks the laws, shows that the lenient replay reader breaks them, and exports every behaviour that
    ends with a replay; routecheck executes them on real controllers (logs = request sequences of OxiaDbMC)."""
    import _db
    r = ctx.tlc("TrimReplay", "trimreplay-laws.cfg" if quick else "trimreplay-laws-thorough.cfg", workers=8, label="trim-laws", heap="4g")
    ctx.log("TrimReplay laws (writes with segment rolls, flushes, trimmer rounds with any target up to the commit offset, process kills, restart as "
            "leader / follower with any announced commit offset): NoSkip, WithinLog, LeaderComplete, TrimBound, RefusedOnlyWithGap hold: "
            "%d distinct states, %d transitions" % (r.distinct, r.generated))
    rm = ctx.tlc("TrimReplay", "trimreplay-mutant-lenient.cfg", workers=4, label="trim-mutant", allow_violation=True, heap="2g")
    if "NoSkip" not in rm.violated:
        raise vf.Inconclusive("TrimReplay: the lenient replay reader (resume from the first available entry) does not violate NoSkip - the invariant is vacuous")
    ctx.log("TrimReplay mutant (Lenient = TRUE: the replay reader resumes from the first available entry): TLC finds the NoSkip counterexample")
    rc = ctx.tlc("TrimReplay", "trimreplay-cases.cfg" if quick else "trimreplay-cases-thorough.cfg", workers=4, label="trim-cases", heap="4g")
    cases = os.path.join(ctx.scratch, "trim-cases.ndjson")
    n = _db.export(rc, "CASE", cases)
    if n == 0:
        raise vf.Inconclusive("TLC exported no TrimReplay behaviours")
    if logs is None or not os.path.exists(logs):
        logs, _, _ = _db.tlc_export(ctx, "db-c06-runs.cfg", "RUN", "trim-logs", simulate="num=%d" % (10 if quick else 40), depth=12, workers=4)
    binp = ctx.go_build("routecheck")
    out = os.path.join(ctx.scratch, "trimreplay.json")
    ctx.run([binp, "trimreplay", "-in", logs, "-cases", cases, "-out", out, "-seg", "96,128", "-max", str(600 if quick else 6000),
             "-workers", str(max(4, min(12, ctx.cores - 2)))])
    res = json.load(open(out))
    ctx.replayed += res["executed"]
    ctx.log("TrimReplay on the real code: %d behaviours exported (%d up to the segment rolls; %d restart states x replay actions decided by the "
            "specification), %d logs from OxiaDbMC: %d executions (real RF=1 leader on %s-byte WAL segments, flush + checkpoint of its Pebble KV, real "
            "trimmer round, kill = database image of the last flush + WAL files, real leader / follower controller on them): %d restarted with entries "
            "missing between database and log, %d refusals observed, %d of the %d decided restart states met; segment layouts seen: %d; %d mismatch "
            "class(es), %d disagreement(s) that do not break the property, %d execution(s) outside the exported behaviours" %
            (res["cases"], res["jobs"], res["table"], res["sequences"], res["executed"], "96/128", res["gap"], res["refused"], res["covered"], res["table"],
             len(res.get("layouts") or {}), len(res.get("mismatches") or []), res["disagreements"], res["off_model"]))
    for note in (res.get("notes") or [])[:5]:
        ctx.log("  note: " + note[:400])
    _report_trim(ctx, res, "cases")
    if not res.get("mismatches") and (res["gap"] == 0 or res["refused"] == 0):
        raise vf.Inconclusive("TrimReplay: no execution restarted with entries missing between the database and the log (gap=%d, refusals=%d) - "
                              "the segment sizes no longer split the logs" % (res["gap"], res["refused"]))
    if res.get("sample"):
        ctx.samples.append({"kind": "TrimReplay behaviours executed on real controllers: observed restart state, outcome, what the specification prescribes",
                            "executions": res["sample"][:4]})
    return res


def run(ctx):
    quick = ctx.tier == "quick"
    # crash-atomicity of one entry's application at the storage-engine level: a crash image is taken at every
    # engine batch commit of TLC-chosen request sequences (OxiaDb family, routecheck crashpoints) and must be
    # the fold of entries 0..c, c = the commit offset stored in the image; replay of c+1.. gives the whole log
    import c06
    c06.crashpoints_standalone(ctx, quick)
    # replay resumes at exactly c+1, also when the log no longer holds c+1: the database image of a killed node
    # is older than what the trimmer (bounded by the in-memory commit offset) left of the log
    ctx.assumptions += [
        "TrimReplay: the database image a process kill leaves is the last flush (Pebble runs without a WAL of its own; flush + checkpoint of the real KV "
        "taken at the flush points the behaviour chooses); the WAL files are copied while the node runs",
        "TrimReplay: where the real WAL opens a new segment depends on entry sizes; the specification enumerates every layout, the expected outcome is "
        "looked up with the restart state observed on the real node (entries, database commit offset, first offset of the reopened WAL)",
        "TrimReplay: the trimmer is run with every entry older than the retention (its target is the commit offset the controller reports)",
    ]
    deferred = None
    try:
        trimreplay(ctx, quick, logs=os.path.join(ctx.scratch, "crash-mixed.ndjson"))
    except vf.Inconclusive as e:
        # (the replication part below must still get its chance to decide the property on this tree)
        deferred = e
        ctx.log("TrimReplay part inconclusive: %s" % str(e)[:500])
    shard_common.run(ctx, "C07")
    if deferred is not None:
        raise deferred


def replay(ctx, path):
    d = json.load(open(path))
    if isinstance(d, dict) and d.get("kind") == "crash":
        import c06
        return c06.replay(ctx, path)
    if isinstance(d, dict) and d.get("kind") == "trimreplay":
        import _db
        path = os.path.abspath(path)
        rc = ctx.tlc("TrimReplay", "trimreplay-cases-thorough.cfg", workers=4, label="trim-cases", heap="4g")
        cases = os.path.join(ctx.scratch, "trim-cases.ndjson")
        _db.export(rc, "CASE", cases)
        binp = ctx.go_build("routecheck")
        out = os.path.join(ctx.scratch, "trimreplay-rerun.json")
        ctx.run([binp, "trimreplay", "-rerun", path, "-cases", cases, "-out", out, "-workers", "1"])
        res = json.load(open(out))
        if res["executed"] == 0:
            raise vf.Inconclusive("the behaviour of the replay file was not executed")
        _report_trim(ctx, res, "rerun")
        if not res.get("mismatches"):
            ctx.log("re-executed: the restarted node's database is the result of applying the entries up to its commit offset (%s)" %
                    json.dumps((res.get("sample") or [{}])[0]))
        return
    shard_common.replay_file(ctx, "C07", path)
