"""C15 - secondary indexes mirror live records exactly; queries stay inside one index.

1. TLC checks IndexMirror (index entries = the pairs declared by the live records) in every reachable
   state of the bounded model: puts with 0-2 indexes on adjacent index names (i, i2, j), overwrites that
   change / drop indexes, deletes, delete-ranges, several operations per request.
2. spec -> code: every transition is replayed on a real RF=1 leader controller; after each request the raw
   index keys are listed and compared, and every probe of {i, i2, j} x {EQUAL, FLOOR, CEILING, LOWER, HIGHER}
   x {a, b, c, d} (below the first, between, above the last entry) plus list / range-scan over four ranges per
   index is executed through LeaderController.Read / List / RangeScan with SecondaryIndexName and compared
   with the sorted reference computed by TLC (IdxGet / IdxList); returned records must be the live records.
3. code -> spec: random index-heavy request streams (4 index names, duplicate secondary keys, sessions,
   range deletes, restarts) through the real leader, with random probes, judged by TLC (DbTrace.tla).
"""
import _db

SCOPE = "res,recs,idx,probes"


def run(ctx):
    quick = ctx.tier == "quick"
    ctx.assumptions += [
        "secondary keys and index names contain no '/' and no \\x01 (the layout __oxia/idx/<name>/<secondary>\\x01<escaped primary> is then one key segment per part)",
        "ties between entries with the same secondary key are resolved in index order: first entry for EQUAL/CEILING/HIGHER and for FLOOR on an exact match, last entry for LOWER and FLOOR otherwise",
        "session expiry (the fourth way a record disappears) is exercised by C14; here records vanish by overwrite, delete and delete-range",
    ]
    r = ctx.tlc("OxiaDbMC", "db-c15-quick.cfg", label="laws", heap="4g")
    ctx.log("IndexMirror (3 requests x 1 op): %d distinct states, %d transitions" % (r.distinct, r.generated))
    if not quick:
        r = ctx.tlc("OxiaDbMC", "db-c15-thorough.cfg", label="laws2", heap="4g")
        ctx.log("IndexMirror (2 requests x <=2 ops): %d distinct states, %d transitions" % (r.distinct, r.generated))

    binp = ctx.go_build("dbcheck")
    for cfg in (("db-c15-steps.cfg",) if quick else ("db-c15-steps.cfg", "db-c15-steps2.cfg")):
        label = cfg[len("db-c15-"):-len(".cfg")]
        path, n, _ = _db.tlc_export(ctx, cfg, "STEP", label)
        res = _db.replay(ctx, binp, path, "leader", SCOPE, label)
        _db.report(ctx, res, "c15-" + label, "real leader controller deviates from OxiaDb.tla")
    _db.sample_from(path, "spec transition with index probes replayed on a real RF=1 leader", ctx)
    path, n, _ = _db.tlc_export(ctx, "db-c15-runs.cfg", "RUN", "runs", simulate="num=%d" % (8 if quick else 60), depth=8, workers=1)
    res = _db.replay(ctx, binp, path, "leader", SCOPE, "runs")
    _db.report(ctx, res, "c15-run", "real leader controller deviates from OxiaDb.tla")

    _db.drive_and_validate(ctx, binp, "leader", "idx", 100 if quick else 500, 25, "db-trace-c15.cfg", "idx", 1)
    _db.drive_and_validate(ctx, binp, "leader", "mix", 40 if quick else 250, 25, "db-trace-c15.cfg", "mix", 2)
    ctx.notes["exhaustive"] = True
    ctx.notes["explanation"] = ("states/transitions: TLC exhaustive search of OxiaDbMC (mode c15) plus trace validation; every transition "
                                "of the bounded graph was replayed on a real RF=1 leader with 60 comparison gets and 12 list/range-scan probes each")


def replay(ctx, path):
    _db.replay_file(ctx, path, "db-trace-c15.cfg")
