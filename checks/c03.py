import shard_common


def run(ctx):
    shard_common.run(ctx, "C03")
