import shard_common


def run(ctx):
    shard_common.run(ctx, "C03")


def replay(ctx, path):
    shard_common.replay_file(ctx, "C03", path)
