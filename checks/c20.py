"""C20 - client batching and fan-out are transparent.

1. TLC checks ClientBatch.tla exhaustively (every interleaving of batcher goroutines, linger timers,
   servers, per-shard forwarders and the merge) on bounded configurations that choose the client
   options (request limit, byte limit, linger) and the cluster (shards, dead leaders) in the initial
   state: AtMostOnce, AllComplete, OwnResult, ScanOrdered, StreamSound, StreamComplete, ClosedIsFinal.
2. spec -> code: behaviours of the Eager variant (client goroutines run to quiescence between
   environment steps; one behaviour per transition into a quiescent state, plus long simulated runs)
   are executed on the real client (public API) against fake shard leaders owned by the harness; at
   every quiescent point requests held by the servers, completions, results and delivered items must
   equal the specification's.
3. code -> spec: every one of those executions and randomized longer walks (bigger options, more
   calls, random answer/fail/emit order) are recorded and validated by ClientBatchTrace.tla.
"""
import concurrent.futures
import json
import os
import random
import re
import subprocess
import threading
import vf

WITNESSES = os.path.join(vf.VERIF, "replays", "C20", "witnesses.ndjson")
TOGGLES = ["MapReversed", "FailSpills", "DropOverflow", "MergeBytewise", "DoubleErrSends", "ScanOpenErrNoClose",
           "KeepPartial", "ResendWrites", "DropAbandoned"]


# ------------------------------------------------------------------------------------------ helpers
def _parallel(jobs):
    """Run callables concurrently; re-raise the first exception."""
    res, err = [None] * len(jobs), []

    def wrap(i, f):
        try:
            res[i] = f()
        except BaseException as e:  # noqa
            err.append(e)

    ths = [threading.Thread(target=wrap, args=(i, f)) for i, f in enumerate(jobs)]
    for t in ths:
        t.start()
    for t in ths:
        t.join()
    if err:
        for e in err:
            if not isinstance(e, vf.Inconclusive):
                raise e
        raise err[0]
    return res


def _export(r, tag):
    out = []
    pre = '<<"%s", "' % tag
    for l in r.out.splitlines():
        if l.startswith(pre) and l.endswith('">>'):
            out.append(l[len(pre):-3].replace('\\"', '"').replace("\\\\", "\\"))
    return out


def _describe(b):
    cfg = b["cfg"]
    parts = []
    for s in b["steps"]:
        a = s["a"]
        if a == "Issue":
            t = s["t"]
            parts.append("%d:%s%s%s" % (s["c"], t["op"], "/" + t["cmp"] if t["op"] == "get" else "",
                                        "@%d" % t["sh"] if t["sh"] else "*"))
        elif a in ("Respond", "Fail"):
            parts.append("%s(%d%s)" % (a, s["s"], s["k"]))
        elif a == "Break":
            parts.append("Break(%d%s after %d)" % (s["s"], s["k"], s.get("n", 0)))
        elif a == "SEmit":
            parts.append("emit(%d,%d,%s)" % (s["c"], s["s"], "/".join(map(str, s["key"]))))
        elif a == "SEnd":
            parts.append("end(%d,%d,%s)" % (s["c"], s["s"], s["how"]))
        elif a == "Timer":
            parts.append("timer")
        elif a == "Expire":
            parts.append("request-timeout")
        elif a == "RespondLate":
            parts.append("RespondLate(%dw)" % s["s"])
    return "n=%d maxReq=%d maxBytes=%d linger=%s dead=%s: %s" % (
        cfg["n"], cfg["maxReq"], cfg["maxBytes"], cfg["linger"], cfg["dead"], " ".join(parts))


class Harness:
    def __init__(self, ctx, binp):
        self.ctx, self.binp, self.n = ctx, binp, 0
        self.lock = threading.Lock()

    def _dir(self, label):
        with self.lock:
            self.n += 1
            return self.ctx.sub("h-%d-%s" % (self.n, label))

    def _run(self, argv, timeout):
        try:
            p = subprocess.run(argv, stdout=subprocess.PIPE, stderr=subprocess.PIPE, text=True, errors="replace",
                               timeout=timeout)
        except subprocess.TimeoutExpired:
            raise vf.Inconclusive("harness timeout after %ss: %s" % (timeout, " ".join(argv[:3])))
        return p

    def replay_chunk(self, lines, label, only=None):
        """Replay behaviours (json strings). Returns dict(result=..., trace=path, crashed=[(line, headline)])
        Survives a crash of the real client (a panic kills the harness process): the culprits are found by
        re-running the behaviours that were in progress one by one."""
        ctx = self.ctx
        d = self._dir(label)
        agg = {"behaviours": 0, "steps": 0, "clean": 0, "diverged": [], "diverged_what": [], "mismatches": [],
               "errors": [], "traces": [], "crashed": []}
        todo = list(enumerate(lines))
        rounds = 0
        while todo and rounds < 6:
            rounds += 1
            inp = os.path.join(d, "in-%d.ndjson" % rounds)
            with open(inp, "w") as f:
                for _, l in todo:
                    f.write(l + "\n")
            outp, trp, prog = (os.path.join(d, "%s-%d" % (x, rounds)) for x in ("res.json", "trace.ndjson", "progress"))
            argv = [self.binp, "replay", "-in", inp, "-out", outp, "-trace", trp, "-progress", prog, "-tmp", ctx.scratch]
            p = self._run(argv, timeout=max(120, ctx.left() + 60))
            if p.returncode == 0:
                r = json.load(open(outp))
                agg["behaviours"] += r["behaviours"]
                agg["steps"] += r["steps"]
                agg["clean"] += r["clean"]
                agg["diverged"] += [todo[i][0] for i in r["diverged"]]
                agg["diverged_what"] += r["diverged_what"]
                agg["mismatches"] += r["mismatches"]
                agg["errors"] += r["errors"]
                agg["traces"].append({"path": trp, "of": [todo[i][0] for i in r["trace_of"]], "lines": r["trace_lines"]})
                todo = []
                break
            if "panic:" not in p.stderr and "fatal error:" not in p.stderr:
                raise vf.Inconclusive("replay harness failed (%s): %s" % (p.returncode, p.stderr[-2000:]))
            # the process died: which behaviours were in progress?
            started, finished = set(), set()
            if os.path.exists(prog):
                for l in open(prog):
                    tag, i = l.split()
                    (started if tag == "S" else finished).add(int(i))
            inflight = sorted(started - finished)
            culprits = []

            def alone(i, rounds=rounds):
                crashes, head = 0, ""
                for a in range(2):
                    one = os.path.join(d, "one-%d-%d.ndjson" % (rounds, i))
                    with open(one, "w") as f:
                        f.write(todo[i][1] + "\n")
                    q = self._run([self.binp, "replay", "-in", one, "-out", one + ".json",
                                   "-trace", one + ".trace", "-tmp", ctx.scratch], timeout=120)
                    if q.returncode != 0 and ("panic:" in q.stderr or "fatal error:" in q.stderr):
                        crashes += 1
                        head = _panic_head(q.stderr)
                    else:
                        break
                return crashes, head
            # the candidates are independent: try them side by side (a candidate costs seconds of waiting, not CPU)
            with concurrent.futures.ThreadPoolExecutor(max_workers=8) as ex:
                for i, (crashes, head) in zip(inflight, ex.map(alone, inflight)):
                    if crashes == 2:
                        culprits.append(i)
                        agg["crashed"].append((todo[i][1], head))
            keep = [t for j, t in enumerate(todo) if j not in finished and j not in culprits]
            if not culprits and len(keep) == len(todo):
                # nothing identified and nothing finished: avoid looping for ever
                raise vf.Inconclusive("replay harness keeps crashing without a reproducible culprit:\n" + p.stderr[-1500:])
            agg["unreproduced_crash"] = agg.get("unreproduced_crash", 0) + (0 if culprits else 1)
            todo = keep
            if len(agg["crashed"]) >= 3:
                break       # a broken tree must stay fast: the rest of the chunk is not replayed
        return agg

    def drive(self, seed, n, label, only=None):
        d = self._dir(label)
        outp, meta = os.path.join(d, "trace.ndjson"), os.path.join(d, "meta.json")
        argv = [self.binp, "drive", "-seed", str(seed), "-n", str(n), "-out", outp, "-meta", meta, "-tmp", self.ctx.scratch]
        if only is not None:
            argv += ["-only", str(only)]
        p = self._run(argv, timeout=max(120, self.ctx.left() + 60))
        if p.returncode != 0:
            if "panic:" in p.stderr or "fatal error:" in p.stderr:
                return {"crash": _panic_head(p.stderr), "stderr": p.stderr[-3000:]}
            raise vf.Inconclusive("drive harness failed (%s): %s" % (p.returncode, p.stderr[-2000:]))
        m = json.load(open(meta))
        if m["errors"]:
            raise vf.Inconclusive("drive harness: %s" % m["errors"][:3])
        return {"path": outp, "of": m["seeds"], "lines": m["trace_lines"]}


def _short(line):
    """Compact form of a recorded trace line for messages."""
    try:
        e = json.loads(line)
    except Exception:
        return line[:200]
    a = e.get("a")
    if a == "Done":
        r = e["res"]
        return "Done(call %d) = {%s c=%d s=%d key=%s}" % (e["c"], r["st"], r["c"], r["s"], r["key"])
    if a in ("Out", "SEmit"):
        return "%s(call %d%s, item %s)" % (a, e["c"], ", shard %d" % e["s"] if a == "SEmit" else "", e["key"])
    if a == "Batch":
        return "Batch(shard %d/%s: puts/gets %s deletes %s delete-ranges %s)" % (e["s"], e["k"], e["p"], e["d"], e["r"])
    if a == "Issue":
        return "Issue(call %d: %s)" % (e["c"], e["t"])
    if a in ("Respond", "Fail"):
        return "%s(shard %d/%s: request puts/gets %s deletes %s delete-ranges %s)" % (a, e["s"], e["k"], e.get("p"), e.get("d"), e.get("r"))
    if a == "Break":
        return "Break(shard %d/%s: retriable error after %d response(s))" % (e["s"], e["k"], e.get("n", 0))
    if a == "SEnd":
        return "SEnd(call %d, shard %d, %s)" % (e["c"], e["s"], e["how"])
    if a == "Closed":
        return "Closed(call %d)" % e["c"]
    if a == "End":
        return "End (a call is missing its completion)"
    return a or line[:200]


def _panic_head(stderr):
    ls = stderr.splitlines()
    for i, l in enumerate(ls):
        if l.startswith("panic:") or l.startswith("fatal error:"):
            frames = [x.strip() for x in ls[i + 1:i + 14] if "/repo/" in x or x.startswith("github.com/oxia-db")]
            return l + " | " + " <- ".join(frames[:4])
    return "process died"


def _tlc_trace(ctx, path, label):
    r = ctx.tlc("ClientBatchTrace", "cb-trace.cfg", files=[(path, "trace.ndjson")], workers=1, deque=True,
                label=label, seed=False, allow_violation=True, heap="2g")
    if r.ok:
        return None
    for l in r.out.splitlines():
        if l.startswith('<<"REJECTED"'):
            return int(l.split(",")[1])
    raise vf.Inconclusive("trace validation failed without a verdict:\n" + "\n".join(r.out.splitlines()[-30:]))


def _validate(ctx, tf, label, rerun, stop=lambda: False):
    """tf = {path, of, lines}: concatenated traces.  TLC validates them; a rejected trace is re-executed
    (rerun(id) -> fresh trace file or {'crash':..}) and only believed when it is rejected again.
    Returns (accepted, [(id, line_no, line, text)])."""
    lines = open(tf["path"]).read().splitlines()
    starts, pos = [], 0
    for n in tf["lines"]:
        starts.append(pos)
        pos += n
    accepted, bad, first = 0, [], 0
    rounds = 0
    while first < len(starts) and rounds < 4 and not stop():
        rounds += 1
        part = os.path.join(ctx.sub("tv"), "%s-%d.ndjson" % (label, rounds))
        with open(part, "w") as f:
            f.write("\n".join(lines[starts[first]:]) + "\n")
        hw = _tlc_trace(ctx, part, "%s-r%d" % (label, rounds))
        if hw is None:
            accepted += len(starts) - first
            break
        absline = starts[first] + hw - 1           # 0-based index of the first line TLC could not match
        k = max(i for i in range(len(starts)) if starts[i] <= min(absline, len(lines) - 1))
        accepted += k - first
        ident = tf["of"][k]
        rejected_again, detail = 0, ""
        for attempt in range(2):
            fresh = rerun(ident)
            if fresh is None:
                break
            if "crash" in fresh:
                rejected_again += 1
                detail = "re-execution crashed: " + fresh["crash"]
                continue
            hw2 = _tlc_trace(ctx, fresh["path"], "%s-rerun%d" % (label, attempt))
            if hw2 is None:
                break
            rejected_again += 1
            fl = open(fresh["path"]).read().splitlines()
            detail = "re-execution rejected at its event #%d %s" % (hw2 - 1, _short(fl[min(hw2, len(fl)) - 1]))
        if rejected_again == 2:
            off = absline - starts[k]
            bad.append((ident, off, lines[min(absline, len(lines) - 1)], detail,
                        lines[starts[k]:starts[k] + tf["lines"][k]]))
            stop(1)
        else:
            ctx.notes["unreproduced_trace_rejections"] = ctx.notes.get("unreproduced_trace_rejections", 0) + 1
        first = k + 1
        if len(bad) >= 3:
            break
    return accepted, bad


# ------------------------------------------------------------------------------------------ the check
def run(ctx):
    quick = ctx.tier == "quick"
    rnd = random.Random(ctx.seed)
    ctx.assumptions += [
        "one application goroutine issues the calls (the order of calls handed to a batcher is the issue order)",
        "servers answer every request of a write stream in order or break the stream; retriable failures are "
        "codes.Unavailable after the request was received (reads: after a streamed prefix); request time-outs are "
        "exercised for writes (the leader is slow, the write stream survives and the late answer arrives), real time: "
        "the client's request timeout is 5 lingers in replays, 25-90 ms in random walks; shard re-assignment is not exercised",
        "shards hold disjoint key sets and return their records sorted (primary-key scans only)",
        "callbacks of one batch are modelled as one atomic step",
        "fake leaders are reached over unix sockets; a dead leader is an address nobody listens on",
    ]
    built = {}
    suffix = "quick" if quick else "thorough"
    law_cfgs = ["cb-write-%s.cfg" % suffix, "cb-read-%s.cfg" % suffix, "cb-read2-%s.cfg" % suffix, "cb-stream-%s.cfg" % suffix,
                "cb-expire-%s.cfg" % suffix]
    if not quick:
        law_cfgs += ["cb-write4-thorough.cfg", "cb-mixed-thorough.cfg", "cb-expirerw-thorough.cfg"]
    per = max(2, ctx.cores // len(law_cfgs))

    # 1. the model's own laws (exhaustive), the harness build and the exports run side by side
    def law(cfg):
        # quick: the three big configurations bound the phase - they get the cores the small ones do not need
        wk = per
        if quick:
            wk = 2 if ("stream" in cfg or "expire" in cfg) else max(2, (ctx.cores - 4) // 3)
        return lambda: ctx.tlc("ClientBatchMC", cfg, workers=wk, label="laws-" + cfg[3:-4], heap="3g")

    def build():
        built["bin"] = ctx.go_build("clientbatch")

    res = _parallel([law(c) for c in law_cfgs] + [build])
    for c, r in zip(law_cfgs, res):
        ctx.log("laws %s: %d distinct states, %d transitions, depth %d (%.0fs)" % (c, r.distinct, r.generated, r.depth, r.wall))
    h = Harness(ctx, built["bin"])

    # 2. spec -> code
    step_cfgs = ["cb-replay-write-steps.cfg", "cb-replay-read-steps.cfg", "cb-replay-stream-steps.cfg",
                 "cb-replay-retry-steps.cfg", "cb-replay-expire-steps.cfg"]
    nruns = 300 if quick else 6000

    def steps(cfg):
        return lambda: _export(ctx.tlc("ClientBatchMC", cfg, workers=max(2, ctx.cores // 4), label="exp-" + cfg[10:-4], heap="3g"), "STEP")

    def runs():
        return _export(ctx.tlc("ClientBatchMC", "cb-replay-runs.cfg", simulate="num=%d" % nruns, depth=140, workers=1,
                               label="exp-runs", heap="2g"), "RUN")

    exported = _parallel([steps(c) for c in step_cfgs] + [runs])
    total = sum(len(x) for x in exported)
    if min(len(x) for x in exported) == 0:
        raise vf.Inconclusive("TLC exported no behaviours: %s" % [len(x) for x in exported])
    cap = 2500 if quick else 14000          # per family
    nfam = len(step_cfgs)
    chosen = []
    for cfgname, fam in zip(step_cfgs, exported[:nfam]):
        # every request-timeout step of the expire family costs a real request timeout (0.6 s): a smaller sample
        fcap = cap * 2 // 5 if "expire" in cfgname else cap
        chosen += fam if len(fam) <= fcap else rnd.sample(fam, fcap)
    chosen += exported[nfam]
    witnesses = [l for l in open(WITNESSES).read().splitlines() if l.strip()] if os.path.exists(WITNESSES) else []
    ctx.log("exported %d transition behaviours + %d runs; replaying %d of them + %d witness executions"
            % (total - len(exported[nfam]), len(exported[nfam]), len(chosen), len(witnesses)))
    rnd.shuffle(chosen)
    nproc = 4
    chunks = [chosen[i::nproc] for i in range(nproc)] + ([witnesses] if witnesses else [])
    aggs = _parallel([(lambda ch=ch, i=i: h.replay_chunk(ch, "replay%d" % i)) for i, ch in enumerate(chunks)])
    nviol = 0
    div = 0
    for ci, a in enumerate(aggs):
        ctx.replayed += a["clean"]
        div += len(a["diverged"])
        if a["errors"]:
            raise vf.Inconclusive("replay harness errors: %s" % a["errors"][:3])
        for mm in a["mismatches"]:
            if nviol >= 25:
                break
            nviol += 1
            p = ctx.save_replay("replay-%d.json" % nviol, {"kind": "replay", "behaviour": mm["behaviour"], "what": mm["what"],
                                                            "class": mm["class"], "step": mm["step"], "attempts": mm["attempts"]})
            ctx.violation("real client deviates from ClientBatch.tla (%s, in 3 of 3 executions) at step %d of [%s]: %s"
                          % (mm["class"], mm["step"], _describe(mm["behaviour"]), mm["what"]), p)
        for line, head in a["crashed"]:
            nviol += 1
            b = json.loads(line)
            p = ctx.save_replay("crash-%d.json" % nviol, {"kind": "replay", "behaviour": b, "what": head, "class": "crash"})
            ctx.violation("real client crashed (twice, alone) while executing [%s]: %s" % (_describe(b), head), p)
    ctx.log("replayed %d behaviours on the real client: %d clean, %d not forced (timer noise), %d violation(s)"
            % (sum(a["behaviours"] for a in aggs), ctx.replayed, div, nviol))
    ctx.notes["replay_not_forced"] = div
    nrep = sum(a["behaviours"] for a in aggs)
    if div > max(20, nrep // 20):
        raise vf.Inconclusive("%d of %d behaviours could not be forced on the real client (the specification no longer "
                              "models the batcher, or the machine is too loaded for the linger timer): %s"
                              % (div, nrep, [w for a in aggs for w in a["diverged_what"]][:3]))
    if chosen:
        ctx.samples.append({"kind": "spec behaviour replayed on the real client", "behaviour": _describe(json.loads(chosen[0]))})

    if nviol >= 12:
        ctx.log("the tree is broken (%d reproduced violations): skipping the random walks" % nviol)
        ctx.notes["exhaustive"] = True
        return

    # 3. code -> spec: recorded executions judged by TLC
    ndrive = 360 if quick else 3000
    dseed = ctx.seed * 7919
    dparts = 3 if quick else 8
    dr = _parallel([(lambda i=i: h.drive(dseed + i, ndrive // dparts, "drive%d" % i)) for i in range(dparts)])
    jobs = []
    for i, d in enumerate(dr):
        if "crash" in d:
            p = ctx.save_replay("drive-crash-%d.json" % i, {"kind": "drive", "seed": dseed + i, "n": ndrive // dparts, "what": d["crash"]})
            ctx.violation("real client crashed during a random walk (seed %d): %s" % (dseed + i, d["crash"]), p)
            continue

        def rerun_drive(ident, i=i):
            return h.drive(dseed + i, ndrive // dparts, "rerun-drive", only=ident)
        jobs.append((d, "tv-drive%d" % i, rerun_drive, ("drive", dseed + i, ndrive // dparts)))
    for ci, a in enumerate(aggs):
        for ti, tf in enumerate(a["traces"]):
            def rerun_replay(ident, ch=chunks[ci]):
                r = h.replay_chunk([ch[ident]], "rerun-replay")
                if r["crashed"]:
                    return {"crash": r["crashed"][0][1]}
                if not r["traces"] or not r["traces"][0]["of"]:
                    return None          # it deviated / diverged this time: handled by the replay path
                return r["traces"][0]
            jobs.append((tf, "tv-replay%d-%d" % (ci, ti), rerun_replay, ("replay", ci)))
    found = [nviol]

    def stop(add=0):
        # a broken tree must stay fast: enough is enough, and never run into the budget
        found[0] += add
        return found[0] >= 12 or ctx.left() < 75
    outs = _parallel([(lambda j=j: _validate(ctx, j[0], j[1], j[2], stop)) for j in jobs])
    nlines = 0
    for j, (acc, bad) in zip(jobs, outs):
        ctx.traces_validated += acc
        nlines += sum(j[0]["lines"])
        for ident, off, line, detail, whole in bad:
            nviol += 1
            if j[3][0] == "drive":
                obj = {"kind": "drive", "seed": j[3][1], "n": j[3][2], "index": ident, "rejected_line": off, "line": line,
                       "trace": whole}
            else:
                obj = {"kind": "replay", "behaviour": json.loads(chunks[j[3][1]][ident]), "rejected_line": off, "line": line,
                       "trace": whole}
            p = ctx.save_replay("trace-%d.json" % nviol, obj)
            ctx.violation("execution of the real client is not a behaviour of ClientBatch.tla (rejected by TLC in 3 of 3 "
                          "executions) at recorded event #%d %s; %s" % (off, _short(line), detail), p)
    ctx.log("%d recorded executions (%d events) accepted by ClientBatchTrace" % (ctx.traces_validated, nlines))
    if dr and "path" in dr[0]:
        with open(dr[0]["path"]) as f:
            ctx.samples.append({"kind": "recorded random walk accepted by TLC", "first_lines": [json.loads(next(f)) for _ in range(8)]})

    # 4. (thorough) the rules the verdict rests on are not vacuous: each weakened rule is refuted by TLC
    if not quick:
        def mutant(tog):
            fam = {"MapReversed": "write", "FailSpills": "write", "DropOverflow": "write", "MergeBytewise": "stream",
                   "DoubleErrSends": "read", "ScanOpenErrNoClose": "stream", "KeepPartial": "read2", "ResendWrites": "write",
                   "DropAbandoned": "expire"}[tog]
            txt = open(os.path.join(vf.SPEC, "cfg", "cb-%s-quick.cfg" % fam)).read().replace("%s = FALSE" % tog, "%s = TRUE" % tog)
            p = os.path.join(ctx.sub("mut"), "cb-mutant-%s.cfg" % tog)
            open(p, "w").write(txt)
            return ctx.tlc("ClientBatchMC", p, workers=2, label="mutant-" + tog, allow_violation=True, heap="2g")
        ms = _parallel([(lambda t=t: mutant(t)) for t in TOGGLES])
        missed = [t for t, r in zip(TOGGLES, ms) if not r.violated]
        ctx.notes["spec_mutants_refuted"] = {t: r.violated for t, r in zip(TOGGLES, ms)}
        if missed:
            raise vf.Inconclusive("weakened rules not refuted by TLC (vacuous properties?): %s" % missed)
        # these runs are self-tests, not evidence about the client
        ctx.tlc_runs = [r for r in ctx.tlc_runs if r not in ms]
    ctx.notes["exhaustive"] = True
    ctx.notes["explanation"] = ("states/transitions: exhaustive TLC search of ClientBatchMC (non-eager: all interleavings) on the "
                                "write / read / stream configurations, the eager export runs and the trace validations; "
                                "replayed = behaviours forced on the real client with identical observations at every "
                                "quiescent point; accepted = recorded real executions TLC found to be behaviours of the specification")


def replay(ctx, path):
    """Re-execute a saved replay file on the real client; TLC judges the fresh recording."""
    binp = ctx.go_build("clientbatch")
    h = Harness(ctx, binp)
    obj = json.load(open(path))
    if obj.get("kind") == "drive":
        d = h.drive(obj["seed"], obj["n"], "replay-drive", only=obj.get("index"))
        if "crash" in d:
            ctx.violation("real client crashed: " + d["crash"], path)
            return
        hw = _tlc_trace(ctx, d["path"], "replay")
        if hw is None:
            ctx.traces_validated += 1
            ctx.log("re-executed walk is accepted by ClientBatchTrace")
        else:
            ls = open(d["path"]).read().splitlines()
            ctx.violation("re-executed walk rejected by ClientBatchTrace at event #%d %s" % (hw - 1, _short(ls[min(hw, len(ls)) - 1])), path)
        return
    line = json.dumps(obj["behaviour"])
    a = h.replay_chunk([line], "replay")
    if a["crashed"]:
        ctx.violation("real client crashed: " + a["crashed"][0][1], path)
        return
    for mm in a["mismatches"]:
        ctx.violation("real client deviates from ClientBatch.tla (%s) at step %d: %s" % (mm["class"], mm["step"], mm["what"]), path)
        return
    if a["diverged"]:
        raise vf.Inconclusive("the behaviour could not be forced on the real client: %s" % a["diverged_what"])
    ctx.replayed += a["clean"]
    for tf in a["traces"]:
        hw = _tlc_trace(ctx, tf["path"], "replay")
        if hw is None:
            ctx.traces_validated += 1
            ctx.log("replayed behaviour conforms step by step and its recording is accepted by ClientBatchTrace")
        else:
            ls = open(tf["path"]).read().splitlines()
            ctx.violation("recording rejected by ClientBatchTrace at event #%d %s" % (hw - 1, _short(ls[min(hw, len(ls)) - 1])), path)
