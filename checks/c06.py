"""C06 - replicas are deterministic state machines over the committed log.

1. TLC (OxiaDb.tla, mode c06): the state machine is a function Apply(state, request, offset, timestamp); over the
   alphabet that mixes every feature (plain / conditional / ephemeral puts with live and dead sessions, secondary
   indexes, sequence keys, deletes, range deletes below and above the 100-key switch, session registration,
   several operations per request) the invariants (mirrors, versions), totality, NotifRule and ReplayInv (folding
   Apply over the recorded log from the empty shard, or from the state after any prefix, gives the state) hold.
2. spec -> code: TLC draws request sequences from that alphabet, places leader restarts, and chooses the routes:
   the offset after which a snapshot is cut and how far the commit offset announced to a follower lags.  The
   sequence is written through a real RF=1 leader (every step compared with what the specification demands:
   results, records, raw index and shadow keys, notification batch, version counter = TLC's expected abstract
   state).  Then the leader's log is applied again
     - by a new leader controller on a copy of the WAL and an empty DB (NewTerm + BecomeLeader replay it all),
     - by a real follower controller fed through its Replicate stream with the leader's entries and lagging
       commit offsets,
     - by a second follower that installs a snapshot cut from the first follower's DB after the chosen offset
       (real chunker - chunk size varied -, real snapshot loader, handleSnapshot) and is fed the rest,
     - by both followers once more after a restart (close = flush, new controller on the same directories),
   and the full ordered dumps of the DBs (every key incl. session, shadow, index, notification,
   commit-offset and version-counter keys; only the term keys left out) must be equal.  Every replica is also
   read: each record TLC has after the log (for the first follower also after the cut, before and after the
   snapshot flushed its memory) by a point get, and the probes TLC put into the route record (floor / ceiling /
   lower / higher gets, range lists and scans) with the answers TLC computed.
   OxiaDbBlocks.tla draws the sequences that matter to the storage engine: all keys of length 1..3 over the
   bytes '-' '.' '/' '0' 'a', values with a size (up to 70 KB, so that a shard spans many 64 KB storage blocks
   with boundaries between arbitrary neighbours), bulk puts, deletes, range deletes, restarts.
3. live leader with replication factor 3 (code -> spec): the write requests of the storage-scale sequences are
   issued by concurrent writers to a real leader whose entries are committed by the racing acknowledgements of
   two real followers (in-process streams).  The leader's own log and the state it exposes afterwards are
   recorded; TLC (DbLogTrace.tla) folds Apply over the log and must arrive at the exposed state; the same log
   replayed in order by a fresh leader must give the same dump.
4. crash points (shared with C07): the same sequences on a kv.DB created through a kv.Factory whose write batches
   report every successful commit; at every commit the engine is flushed + checkpointed (the disk of a node that
   dies at that instant), every image is opened by a fresh kv.DB and must be the reference database after the
   entries 0..c (c = the commit offset stored in the image) and, after the entries c+1.. were applied to it, the
   reference after the whole log (full dumps; the reference is compared step by step with TLC's expected state).
5. code -> spec: random request streams (bigger key space, more operations per request) through the real leader,
   recorded and judged by TLC (DbTrace.tla with records, index keys, shadow keys, notification batches and the
   version counter in scope); the same route comparison at the end of every trace.
"""
import json
import os
import _db
import vf


TS_CLASS = "timestamps differ between the live route and the log routes"   # (routecheck: tsClass)


def _show(mm):
    b = _db.show_beh([s for s in mm["behaviour"] if s["a"] != "Routes"])
    if len(b) > 1500:
        b = b[:1500] + " ... (%d calls, see the replay file)" % len(mm["behaviour"])
    return "[%s] cut after offset %s, commit lag %s, chunk %s bytes" % (b, mm.get("cut"), mm.get("lag"), mm.get("chunk"))


def _routes(ctx, binp, path, label, chunk=0):
    out = os.path.join(ctx.scratch, "routes-%s.json" % label)
    ctx.run([binp, "replay", "-in", path, "-out", out, "-chunk", str(chunk), "-workers", str(max(4, min(12, ctx.cores - 2)))])
    res = json.load(open(out))
    res["mismatches"] = res.get("mismatches") or []
    ctx.replayed += res["behaviours"]
    ctx.log("%s: %d sequences (%d requests through the live leader) x route choices = %d behaviours, each: leader vs WAL replay vs follower vs "
            "snapshot-installed follower vs both followers restarted, by full dump and by the reads TLC demands, chunk size %s: %d mismatch class(es); "
            "%d notification batches differ in their stored encoding only" %
            (label, res["sequences"], res["steps"], res["routes"], chunk or "default", len(res["mismatches"]), res["notification_encodings_differing"]))
    for i, mm in enumerate(res["mismatches"]):
        p = ctx.save_replay("c06-%s-%d.json" % (label, i), mm)
        if mm.get("kind") == "routes":
            ctx.violation("replicas that applied the same log differ: %s - after %s" % (mm["what"][:500], _show(mm)), p)
        else:
            ctx.violation("%s at step %d of %s" % (mm["what"][:500], mm["step"], _show(mm)), p)
    return res


def crashpoints(ctx, binp, path, label, max_seq=0):
    """Crash images at every storage-engine batch commit for the sequences of an exported behaviour file (callable
    from other checks: the violation is reported under ctx.pid).  Returns the result dict of routecheck."""
    out = os.path.join(ctx.scratch, "crash-%s.json" % label)
    ctx.run([binp, "crashpoints", "-in", path, "-out", out, "-max", str(max_seq), "-workers", str(max(4, min(12, ctx.cores - 2)))])
    res = json.load(open(out))
    res["mismatches"] = res.get("mismatches") or []
    ctx.replayed += res["sequences"]
    ctx.log("crash points [%s]: %d sequences (%d calls), %d crash images (one per storage-engine batch commit, flushed + checkpointed, reopened): each is the "
            "reference after the entries up to its stored commit offset and, after replay of the rest, the reference after the whole log: %d mismatch class(es)" %
            (label, res["sequences"], res["steps"], res["routes"], len(res["mismatches"])))
    for i, mm in enumerate(res["mismatches"]):
        p = ctx.save_replay("crash-%s-%d.json" % (label, i), mm)
        b = _db.show_beh([s for s in mm["behaviour"] if s["a"] != "Routes"])
        ctx.violation("%s - log: [%s]" % (mm["what"][:700], b if len(b) < 1500 else b[:1500] + " ... (see the replay file)"), p)
    return res


def crashpoints_standalone(ctx, quick=True):
    """Draw sequences with TLC (storage-scale and mixed alphabets) and check their crash points."""
    binp = ctx.go_build("routecheck")
    r = ctx.tlc("OxiaDbBlocks", "db-c06blk-runs.cfg", simulate="num=%d" % (8 if quick else 40), depth=16, workers=4, label="crash-blocks", heap="4g")
    path = os.path.join(ctx.scratch, "crash-blocks.ndjson")
    if _db.export(r, "RUN", path) == 0:
        raise vf.Inconclusive("TLC exported no behaviours for db-c06blk-runs.cfg")
    crashpoints(ctx, binp, path, "blocks")
    path, n, _ = _db.tlc_export(ctx, "db-c06-runs.cfg", "RUN", "crash-mixed", simulate="num=%d" % (10 if quick else 60), depth=12, workers=4)
    crashpoints(ctx, binp, path, "mixed")


def _live(ctx, binp, path, label, groups):
    """Route 'applied live on an RF=3 leader under concurrent writers': recorded log + exposed state judged by TLC."""
    tp = os.path.join(ctx.scratch, "live-%s.ndjson" % label)
    out = os.path.join(ctx.scratch, "live-%s.json" % label)
    ctx.run([binp, "live", "-in", path, "-out", tp, "-res", out, "-groups", str(groups), "-writers", "4"])
    res = json.load(open(out))
    for i, mm in enumerate(res.get("mismatches") or []):
        p = ctx.save_replay("c06-live-%s-%d.json" % (label, i), mm)
        ctx.violation("the database of a live leader (replication factor 3, concurrent writers) is not what its own log gives when applied in order: %s "
                      "- log of %d entries in the replay file" % (mm["what"][:700], len(mm["behaviour"]) - 2), p)
    r = ctx.tlc("DbLogTrace", "db-logtrace.cfg", files=[(tp, "trace.ndjson")], workers=1, deque=True, label="live-" + label,
                seed=False, allow_violation=True, heap="2g")
    lines = open(tp).read().splitlines()
    if r.ok:
        ctx.traces_validated += res["sequences"]
        ctx.replayed += res["sequences"]
        ctx.log("live RF=3 leaders [%s]: %d shards, %d entries logged under 4 concurrent writers and two acknowledging followers; DbLogTrace accepts "
                "every log + exposed state (%d lines); dumps equal to the in-order replay of the log: %d difference(s)" %
                (label, res["sequences"], res["steps"], len(lines), len(res.get("mismatches") or [])))
        return
    hw = 0
    for l in r.out.splitlines():
        if l.startswith('<<"REJECTED"'):
            hw = int(l.split(",")[1])
    if hw == 0:
        raise vf.Inconclusive("DbLogTrace failed without a rejection mark:\n%s" % "\n".join(r.out.splitlines()[-30:]))
    bad = min(hw, len(lines)) - 1
    ev = json.loads(lines[bad])
    start = bad
    while start > 0 and json.loads(lines[start])["a"] != "Reset":
        start -= 1
    calls = [json.loads(x) for x in lines[start: bad + 1]]
    p = ctx.save_replay("c06-live-%s-line%d.json" % (label, bad), {"mode": "rf3", "kind": "live", "behaviour": calls, "step": len(calls) - 1,
                        "what": "the live leader is not Apply folded over its log (DbLogTrace rejects the last line)"})
    if res.get("mismatches"):
        return      # (reported above with the first differing key)
    if ev["a"] == "State":
        ctx.violation("the state a live leader (replication factor 3, concurrent writers) exposes is not its log applied in order: DbLogTrace rejects the "
                      "state recorded after %d entries (%d records exposed) %s" % (len(calls) - 2, len(ev["recs"]), ev.get("err", "")), p)
    else:
        ctx.violation("the notification batch a live leader (replication factor 3, concurrent writers) serves for offset %d is not what its log entry gives "
                      "when the log is applied in order: [%s] -> %s %s" % (ev["off"], _db.show_req(ev["req"])[:600], json.dumps(ev["nf"])[:600], ev.get("err", "")), p)


def run(ctx):
    quick = ctx.tier == "quick"
    ctx.assumptions += [
        "the log applied by the other routes is the one the live leader wrote (read from a copy of its WAL directory); entries carry the leader's timestamps",
        "notification batches are compared by content (shard, offset, timestamp, per key: type, version id, range end): their stored encoding is a protobuf map without a fixed order and differs between replicas",
        "the term keys (__oxia/term, __oxia/term-options) are not part of the comparison",
        "flush points are the leader restarts TLC places (close flushes Pebble), the snapshot checkpoint and the restart of the followers; "
        "Pebble's own background flushes / compactions happen when they happen",
        "read probes are asked of the database of each replica (kv.DB Get / List / RangeScan), the live leader is also read through its public API after every request",
    ]
    r = ctx.tlc("OxiaDbMC", "db-c06-quick.cfg", label="laws", heap="4g")
    ctx.log("laws incl. ReplayInv (3 steps x 1 op over the mixed alphabet): %d distinct states, %d transitions" % (r.distinct, r.generated))
    if not quick:
        r = ctx.tlc("OxiaDbMC", "db-c06-thorough.cfg", label="laws2", heap="4g")
        ctx.log("laws incl. ReplayInv (2 steps x <=2 ops): %d distinct states, %d transitions" % (r.distinct, r.generated))

    r = ctx.tlc("OxiaDbBlocks", "db-c06blk-laws.cfg", label="blk-laws", heap="4g")
    ctx.log("laws over the hostile key alphabet with sized values, incl. ReplayInv and ProbeLaw (3 steps x 1 op): %d distinct states, %d transitions" % (r.distinct, r.generated))

    binp = ctx.go_build("routecheck")
    w = 4 if quick else 8
    # storage scale: hostile keys, values with sizes, flush / reopen routes, read probes
    blocks = [("db-c06blk-runs.cfg", 20 if quick else 60, 4096)]
    if not quick:
        blocks += [("db-c06blk-runs-own.cfg", 25, 300), ("db-c06blk-runs.cfg", 25, 0)]
    for i, (cfg, num, chunk) in enumerate(blocks):
        label = "blocks%s" % (i or "")
        r = ctx.tlc("OxiaDbBlocks", cfg, simulate="num=%d" % num, depth=16, workers=w, label=label, heap="4g")
        path = os.path.join(ctx.scratch, "%s.ndjson" % label)
        if _db.export(r, "RUN", path) == 0:
            raise vf.Inconclusive("TLC exported no behaviours for %s" % cfg)
        _routes(ctx, binp, path, label, chunk)
        _live(ctx, binp, path, label, 4 if quick else 8)
        crashpoints(ctx, binp, path, label, 30 if quick else 0)
        if i == 0:
            with open(path) as f:
                beh = json.loads(f.readline())
            ctx.samples.append({"kind": "storage-scale sequence (value number = KB * 1000000 + serial) + routes + read probes chosen by TLC",
                                "requests": _db.show_beh([s for s in beh if s["a"] != "Routes"])[:1500],
                                "routes": [{"cut_after_offset": s["off"], "commit_lag": s["ts"], "probe_gets": len(s["gets"]), "probe_ranges": len(s["lists"])}
                                           for s in beh if s["a"] == "Routes"]})
    # sequences x every (cut, lag) the last level offers
    path, n, _ = _db.tlc_export(ctx, "db-c06-runs.cfg", "RUN", "runs", simulate="num=%d" % (26 if quick else 80), depth=12, workers=w)
    _routes(ctx, binp, path, "mixed", 0)
    crashpoints(ctx, binp, path, "mixed", 40 if quick else 0)
    with open(path) as f:
        beh = json.loads(f.readline())
    ctx.samples.append({"kind": "sequence + routes chosen by TLC, executed on real leader / WAL replay / follower / snapshot", "requests": _db.show_beh(beh[:-1]),
                        "cut_after_offset": beh[-1]["off"], "commit_lag": beh[-1]["ts"]})
    if not quick:
        path2, n2, _ = _db.tlc_export(ctx, "db-c06-runs.cfg", "RUN", "runs2", simulate="num=20", depth=12, workers=w)
        _routes(ctx, binp, path2, "mixed-smallchunks", 300)
    path, n, _ = _db.tlc_export(ctx, "db-c06-runs-big.cfg", "RUN", "runs-big", simulate="num=%d" % (1 if quick else 4), depth=8, workers=w)
    _routes(ctx, binp, path, "prepopulated", 512)

    # random streams
    nt = 150 if quick else 1000
    tp = os.path.join(ctx.scratch, "trace-routes.ndjson")
    out = os.path.join(ctx.scratch, "drive.json")
    ctx.run([binp, "drive", "-seed", str(ctx.seed), "-n", str(nt), "-ops", "20", "-chunk", "1024", "-out", tp, "-res", out])
    res = json.load(open(out))
    ctx.replayed += res["routes"]
    for i, mm in enumerate(res.get("mismatches") or []):
        p = ctx.save_replay("c06-random-%d.json" % i, mm)
        ctx.violation("replicas that applied the same log differ: %s - after %s" % (mm["what"][:500], _show(mm)), p)
    ok, hw, total, r = _db.validate(ctx, tp, "db-trace-c06.cfg", "random")
    if ok:
        ctx.traces_validated += nt
        ctx.log("%d random request streams (%d calls) through the real leader accepted by DbTrace; %d route comparisons on them: %d difference(s)" %
                (nt, total - nt, res["routes"], len(res.get("mismatches") or [])))
    else:
        lines = open(tp).read().splitlines()
        bad = min(hw, total) - 1
        start = bad
        while start > 0 and json.loads(lines[start])["a"] != "Reset":
            start -= 1
        calls = [json.loads(x) for x in lines[start + 1: bad + 1]]
        p = ctx.save_replay("trace-random-line%d.json" % bad, {"mode": "leader", "behaviour": calls, "step": len(calls) - 1, "cfg": "db-trace-c06.cfg",
                            "what": "recorded call is not a step of OxiaDb.tla"})
        ctx.violation("live leader execution rejected by DbTrace at call #%d of [%s]" % (len(calls) - 1, _db.show_beh(calls)[-600:]), p)
    ctx.notes["exhaustive"] = False
    ctx.notes["explanation"] = ("states/transitions: TLC exhaustive search of OxiaDbMC mode c06 and OxiaDbBlocks (laws) plus simulated sequences; every sequence "
                                "was executed on a real leader and re-applied by WAL replay, a real follower, a snapshot-installed follower and both followers "
                                "restarted; oracle = TLC's expected state per step, TLC's answers to the read probes on every replica, equality of full DB "
                                "dumps; the storage-scale requests were also applied live by RF=3 leaders under concurrent writers, log + exposed state "
                                "judged by DbLogTrace")


def replay(ctx, path):
    path = os.path.abspath(path)
    mm = json.load(open(path))
    binp = ctx.go_build("routecheck")
    if mm.get("kind") == "crash":
        src = os.path.join(ctx.scratch, "crash.ndjson")
        with open(src, "w") as f:
            f.write(json.dumps(mm["behaviour"]) + "\n")
        res = crashpoints(ctx, binp, src, "rerun")
        if not res["mismatches"]:
            ctx.log("every crash image of the sequence is consistent")
        return
    if mm.get("mode") == "rf3":
        # the interleaving is the scheduler's: the logged requests are issued again by concurrent writers
        src = os.path.join(ctx.scratch, "rf3.ndjson")
        with open(src, "w") as f:
            f.write(json.dumps(mm["behaviour"]) + "\n")
        nv = len(ctx.violations)
        for k in range(5):
            _live(ctx, binp, src, "rerun%d" % k, 1)
            if len(ctx.violations) > nv:
                return
        ctx.log("5 re-executions of the logged requests under concurrent writers: the leader's state was its log applied in order every time")
        return
    tp = os.path.join(ctx.scratch, "rerun.ndjson")
    out = os.path.join(ctx.scratch, "rerun.json")
    # a timestamp difference between the live route and the log routes depends on where a millisecond boundary
    # falls: the sequence is executed again until a difference shows (up to 30 times)
    rounds = 30 if str(mm.get("what", "")).startswith(TS_CLASS) else 1
    for k in range(rounds):
        ctx.run([binp, "rerun", "-in", path, "-out", tp, "-res", out])
        res = json.load(open(out))
        if res.get("mismatches"):
            if rounds > 1:
                ctx.log("a route difference showed in execution %d of the sequence" % (k + 1))
            break
    for x in res.get("mismatches") or []:
        ctx.violation("replicas that applied the same log differ: %s" % x["what"][:600], path)
    ok, hw, total, r = _db.validate(ctx, tp, mm.get("cfg") or "db-trace-c06.cfg", "rerun")
    if not ok:
        lines = open(tp).read().splitlines()
        last = json.loads(lines[min(hw, total) - 1])
        ctx.violation("replayed execution rejected by DbTrace at call #%d [%s]: outcome=%r" %
                      (min(hw, total) - 2, _db.show_req(last.get("req", {})) or last.get("a"), last.get("err")), path)
    elif not res.get("mismatches"):
        ctx.traces_validated += 1
        ctx.log("replayed execution is accepted by DbTrace and all routes agree")
