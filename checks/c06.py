"""C06 - replicas are deterministic state machines over the committed log.

1. TLC (OxiaDb.tla, mode c06): the state machine is a function Apply(state, request, offset, timestamp); over the
   alphabet that mixes every feature (plain / conditional / ephemeral puts with live and dead sessions, secondary
   indexes, sequence keys, deletes, range deletes below and above the 100-key switch, session registration,
   several operations per request) the invariants (mirrors, versions), totality, NotifRule and ReplayInv (folding
   Apply over the recorded log from the empty shard, or from the state after any prefix, gives the state) hold.
2. spec -> code: TLC draws request sequences from that alphabet, places leader restarts, and chooses the routes:
   the offset after which a snapshot is cut and how far the commit offset announced to a follower lags.  The
   sequence is written through a real RF=1 leader (every step compared with what the specification demands:
   results, records, raw index and shadow keys, notification batch, version counter = TLC's expected abstract
   state).  Then the leader's log is applied again
     - by a new leader controller on a copy of the WAL and an empty DB (NewTerm + BecomeLeader replay it all),
     - by a real follower controller fed through its Replicate stream with the leader's entries and lagging
       commit offsets,
     - by a second follower that installs a snapshot cut from the first follower's DB after the chosen offset
       (real chunker - chunk size varied -, real snapshot loader, handleSnapshot) and is fed the rest,
   and the full ordered dumps of the four DBs (every key incl. session, shadow, index, notification,
   commit-offset and version-counter keys; only the term keys left out) must be equal.
3. code -> spec: random request streams (bigger key space, more operations per request) through the real leader,
   recorded and judged by TLC (DbTrace.tla with records, index keys, shadow keys, notification batches and the
   version counter in scope); the same route comparison at the end of every trace.
"""
import json
import os
import _db
import vf


def _show(mm):
    return "[%s] cut after offset %s, commit lag %s, chunk %s bytes" % (
        _db.show_beh([s for s in mm["behaviour"] if s["a"] != "Routes"]), mm.get("cut"), mm.get("lag"), mm.get("chunk"))


def _routes(ctx, binp, path, label, chunk=0):
    out = os.path.join(ctx.scratch, "routes-%s.json" % label)
    ctx.run([binp, "replay", "-in", path, "-out", out, "-chunk", str(chunk), "-workers", str(max(4, min(12, ctx.cores - 2)))])
    res = json.load(open(out))
    res["mismatches"] = res.get("mismatches") or []
    ctx.replayed += res["behaviours"]
    ctx.log("%s: %d sequences (%d requests through the live leader) x route choices = %d behaviours, each: leader vs WAL replay vs follower vs "
            "snapshot-installed follower by full dump, chunk size %s: %d mismatch class(es); %d notification batches differ in their stored encoding only" %
            (label, res["sequences"], res["steps"], res["routes"], chunk or "default", len(res["mismatches"]), res["notification_encodings_differing"]))
    for i, mm in enumerate(res["mismatches"]):
        p = ctx.save_replay("c06-%s-%d.json" % (label, i), mm)
        if mm.get("kind") == "routes":
            ctx.violation("replicas that applied the same log differ: %s - after %s" % (mm["what"][:500], _show(mm)), p)
        else:
            ctx.violation("%s at step %d of %s" % (mm["what"][:500], mm["step"], _show(mm)), p)
    return res


def run(ctx):
    quick = ctx.tier == "quick"
    ctx.assumptions += [
        "the log applied by the other routes is the one the live leader wrote (read from a copy of its WAL directory); entries carry the leader's timestamps",
        "notification batches are compared by content (shard, offset, timestamp, per key: type, version id, range end): their stored encoding is a protobuf map without a fixed order and differs between replicas",
        "the term keys (__oxia/term, __oxia/term-options) are not part of the comparison",
        "flush points are the leader restarts TLC places (close flushes Pebble) and the snapshot checkpoint",
    ]
    r = ctx.tlc("OxiaDbMC", "db-c06-quick.cfg", label="laws", heap="4g")
    ctx.log("laws incl. ReplayInv (3 steps x 1 op over the mixed alphabet): %d distinct states, %d transitions" % (r.distinct, r.generated))
    if not quick:
        r = ctx.tlc("OxiaDbMC", "db-c06-thorough.cfg", label="laws2", heap="4g")
        ctx.log("laws incl. ReplayInv (2 steps x <=2 ops): %d distinct states, %d transitions" % (r.distinct, r.generated))

    binp = ctx.go_build("routecheck")
    w = 4 if quick else 8
    # sequences x every (cut, lag) the last level offers
    path, n, _ = _db.tlc_export(ctx, "db-c06-runs.cfg", "RUN", "runs", simulate="num=%d" % (30 if quick else 80), depth=12, workers=w)
    _routes(ctx, binp, path, "mixed", 0)
    with open(path) as f:
        beh = json.loads(f.readline())
    ctx.samples.append({"kind": "sequence + routes chosen by TLC, executed on real leader / WAL replay / follower / snapshot", "requests": _db.show_beh(beh[:-1]),
                        "cut_after_offset": beh[-1]["off"], "commit_lag": beh[-1]["ts"]})
    if not quick:
        path2, n2, _ = _db.tlc_export(ctx, "db-c06-runs.cfg", "RUN", "runs2", simulate="num=20", depth=12, workers=w)
        _routes(ctx, binp, path2, "mixed-smallchunks", 300)
    path, n, _ = _db.tlc_export(ctx, "db-c06-runs-big.cfg", "RUN", "runs-big", simulate="num=%d" % (1 if quick else 4), depth=8, workers=w)
    _routes(ctx, binp, path, "prepopulated", 512)

    # random streams
    nt = 150 if quick else 1000
    tp = os.path.join(ctx.scratch, "trace-routes.ndjson")
    out = os.path.join(ctx.scratch, "drive.json")
    ctx.run([binp, "drive", "-seed", str(ctx.seed), "-n", str(nt), "-ops", "20", "-chunk", "1024", "-out", tp, "-res", out])
    res = json.load(open(out))
    ctx.replayed += res["routes"]
    for i, mm in enumerate(res.get("mismatches") or []):
        p = ctx.save_replay("c06-random-%d.json" % i, mm)
        ctx.violation("replicas that applied the same log differ: %s - after %s" % (mm["what"][:500], _show(mm)), p)
    ok, hw, total, r = _db.validate(ctx, tp, "db-trace-c06.cfg", "random")
    if ok:
        ctx.traces_validated += nt
        ctx.log("%d random request streams (%d calls) through the real leader accepted by DbTrace; %d route comparisons on them: %d difference(s)" %
                (nt, total - nt, res["routes"], len(res.get("mismatches") or [])))
    else:
        lines = open(tp).read().splitlines()
        bad = min(hw, total) - 1
        start = bad
        while start > 0 and json.loads(lines[start])["a"] != "Reset":
            start -= 1
        calls = [json.loads(x) for x in lines[start + 1: bad + 1]]
        p = ctx.save_replay("trace-random-line%d.json" % bad, {"mode": "leader", "behaviour": calls, "step": len(calls) - 1, "cfg": "db-trace-c06.cfg",
                            "what": "recorded call is not a step of OxiaDb.tla"})
        ctx.violation("live leader execution rejected by DbTrace at call #%d of [%s]" % (len(calls) - 1, _db.show_beh(calls)[-600:]), p)
    ctx.notes["exhaustive"] = False
    ctx.notes["explanation"] = ("states/transitions: TLC exhaustive search of OxiaDbMC mode c06 (laws) plus simulated sequences; every sequence was executed "
                                "on a real leader and re-applied by WAL replay, a real follower and a snapshot-installed follower; oracle = TLC's expected "
                                "state per step + equality of full DB dumps")


def replay(ctx, path):
    path = os.path.abspath(path)
    mm = json.load(open(path))
    binp = ctx.go_build("routecheck")
    tp = os.path.join(ctx.scratch, "rerun.ndjson")
    out = os.path.join(ctx.scratch, "rerun.json")
    ctx.run([binp, "rerun", "-in", path, "-out", tp, "-res", out])
    res = json.load(open(out))
    for x in res.get("mismatches") or []:
        ctx.violation("replicas that applied the same log differ: %s" % x["what"][:600], path)
    ok, hw, total, r = _db.validate(ctx, tp, mm.get("cfg") or "db-trace-c06.cfg", "rerun")
    if not ok:
        lines = open(tp).read().splitlines()
        last = json.loads(lines[min(hw, total) - 1])
        ctx.violation("replayed execution rejected by DbTrace at call #%d [%s]: outcome=%r" %
                      (min(hw, total) - 2, _db.show_req(last.get("req", {})) or last.get("a"), last.get("err")), path)
    elif not res.get("mismatches"):
        ctx.traces_validated += 1
        ctx.log("replayed execution is accepted by DbTrace and all routes agree")
