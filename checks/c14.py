"""C14 - ephemeral records live and die with their session, and only they do.

1. TLC checks spec/Sessions.tla (+ SessionsMC.tla) exhaustively: every interleaving of session creation,
   heartbeats, clock ticks, expiry, CloseSession, leader change and other clients' puts / deletes /
   range-deletes on the same keys - including between the TWO steps of a cleanup (session.delete lists the
   shadow keys, then issues the delete write).  A leader change elects a node whose DB lags its log by 0..2
   entries: BecomeLeader replays that tail and THEN initialises the session manager (explicit in the spec;
   the other order is a mutant that must be refuted).  On shards populated with 99 / 100 records the range
   deletes of the alphabet cover 99..102 keys - both sides of the threshold (100) at which
   db.go:applyDeleteRange changes strategy - with session-owned keys in front of and behind the block.  Puts
   under a session are combined with the other features of a put (sess-steps-feat / sess-feat): sequence-key
   deltas - the record is stored under a GENERATED key, the request key is only the prefix and may hold a
   record of its own -, secondary-index entries, version conditions, overwrite of the own record; every
   property is stated on the key of the record a put wrote (Sessions!EffKey), and OthersUntouched demands that
   a request changes no record, shadow key or index entry of a key it does not touch.  Properties: ShadowMirror, CloseExact (exactly the records owned
   at that moment disappear, atomically with the session record), ownership follows the last writer, writes
   naming a dead session are rejected, ephemeral records only vanish by overwrite / delete / end of their
   session, expiry only after a full timeout without heartbeats on the current leader, sessions survive a
   leader change.  Three mutants of the specification (properties without the known-finding guard; cleanup that
   skips the empty key; session manager initialised before the log tail is replayed) must be refuted -
   otherwise the properties are vacuous.
2. spec -> code: every transition of bounded graphs and long simulated behaviours are replayed on a real RF=1
   leader controller (CreateSession / KeepAlive / CloseSession / WriteBlock; leader change with lag 0 = close +
   new controller + NewTerm + BecomeLeader; with lag k = a real follower controller on fresh directories is fed
   the log through its Replicate stream with a commit offset k entries short, fenced, closed, and a leader
   controller on ITS log and DB is told BecomeLeader).  Hooks under the build tag verif put the session timers on the
   harness's tick clock and park every cleanup between its listing and its delete write; after each step the
   outcome, the records, shadow keys, notification batch, version counter, the armed timers with their
   deadlines and the parked cleanups with the keys they listed are compared with the specification.
3. code -> spec: random interleavings over a bigger key space (keys that need escaping, 4 sessions, timeouts
   of 1-3 ticks, 2 operations per request, index entries, every second trace with sequence puts (deltas 1..3,
   with and without session, the generated keys become keys of the trace) and version conditions,
   elections with lag 0..3, one trace in six on a shard
   populated with 96..104 records and range deletes with bounds in and around that block) are recorded and
   judged by TLC (SessTrace.tla), which
   also evaluates every C14 property on every step of the real execution.
4. Known findings are replayed from their witnesses on every run (design/C14.md).
"""
import json
import os
import _db
import vf

SCOPE = "res,recs,lv,shadow,nf"


def _export(ctx, cfg, tag, label, simulate=None, depth=None, workers=None):
    r = ctx.tlc("SessionsMC", cfg, label=label, simulate=simulate, depth=depth, workers=workers, heap="4g")
    path = os.path.join(ctx.scratch, "%s.ndjson" % label)
    n = _db.export(r, tag, path)
    if n == 0:
        raise vf.Inconclusive("TLC exported no behaviours for %s" % cfg)
    return path, n, r


def _show(beh):
    out = []
    for s in beh:
        a = s["a"]
        if a == "Write":
            out.append(_db.show_req(s["req"]))
        elif a == "Create":
            out.append("Create(timeout %d)" % s["to"])
        elif a == "Tick":
            out.append(a)
        elif a == "LeaderChange":
            out.append("LeaderChange(lag %d)" % s.get("lag", 0))
        elif a == "Fill":
            out.append("Fill(%d records)" % s.get("fill", 0))
        else:
            out.append("%s(%d)" % (a, s["s"]))
    return " ; ".join(out)


def _replay(ctx, binp, path, label, scope=SCOPE):
    out = os.path.join(ctx.scratch, "replay-%s.json" % label)
    ctx.run([binp, "replay", "-in", path, "-cmp", scope, "-out", out, "-workers", str(max(4, min(14, ctx.cores - 2)))])
    res = json.load(open(out))
    res["mismatches"] = res.get("mismatches") or []
    ctx.replayed += res["behaviours"]
    ctx.log("replayed %d behaviours (%d calls) on a real RF=1 leader [%s]: %d mismatch class(es), %d ended in the known-finding pattern" %
            (res["behaviours"], res["steps"], label, len(res["mismatches"]), res["kf_hits"]))
    for i, mm in enumerate(res["mismatches"]):
        mm["cfg"] = "sess-trace.cfg"
        p = ctx.save_replay("c14-%s-%d.json" % (label, i), mm)
        ctx.violation("real session manager deviates from Sessions.tla at step %d of [%s]: %s" %
                      (mm["step"], _show(mm["behaviour"]), mm["what"][:600]), p)
    return res


def _validate(ctx, path, cfg, label):
    """SessTrace on a trace file -> (verdict, highwater, total, result); verdict in accepted | property | rejected."""
    r = ctx.tlc("SessTrace", cfg, files=[(path, "trace.ndjson")], workers=1, deque=True, label=label,
                seed=False, allow_violation=True, heap="2g")
    total = sum(1 for _ in open(path))
    if r.ok:
        return "accepted", total, total, r
    if any(v in ("TraceInv", "TraceSteps") for v in r.violated):
        return "property", 0, total, r
    hw = 0
    for l in r.out.splitlines():
        if l.startswith('<<"REJECTED"'):
            hw = int(l.split(",")[1])
    if hw == 0:
        raise vf.Inconclusive("SessTrace failed without a rejection mark:\n%s" % "\n".join(r.out.splitlines()[-30:]))
    return "rejected", hw, total, r


def _report_trace(ctx, path, verdict, hw, total, r, label):
    lines = open(path).read().splitlines()
    if verdict == "property":
        # TLC's counterexample ends at the violating step: its length (number of states) - 1 = lines consumed
        n = 0
        for l in r.out.splitlines():
            if l.startswith("State ") and ":" in l:
                n = max(n, int(l.split()[1].rstrip(":")))
        bad = max(0, n - 2)
        kind = "violates a C14 property of Sessions.tla (%s)" % ",".join(r.violated)
    else:
        bad = min(hw, total) - 1
        kind = "is not a step of Sessions.tla"
    start = bad
    while start > 0 and json.loads(lines[start])["a"] != "Reset":
        start -= 1
    calls = [json.loads(x) for x in lines[start + 1: bad + 1]]
    last = calls[-1] if calls else {}
    p = ctx.save_replay("trace-%s-line%d.json" % (label, bad),
                        {"behaviour": calls, "step": len(calls) - 1, "cfg": "sess-trace.cfg",
                         "what": "recorded call %s (the recorded fields are those observed on the real code)" % kind})
    ctx.violation("real execution %s at call #%d of [%s]: outcome=%r armed=%s pend=%s" %
                  (kind, len(calls) - 1, _show(calls), last.get("out"), last.get("armed"), last.get("pend")), p)


def _drive(ctx, binp, n, ops, label, salt, racy=10, big=6, feat=2):
    tp = os.path.join(ctx.scratch, "trace-%s.ndjson" % label)
    ctx.run([binp, "drive", "-seed", str(ctx.seed * 1000 + salt), "-n", str(n), "-ops", str(ops), "-racy", str(racy),
             "-big", str(big), "-feat", str(feat), "-out", tp])
    verdict, hw, total, r = _validate(ctx, tp, "sess-trace.cfg", label)
    if verdict == "accepted":
        ctx.traces_validated += n
        ctx.log("%d random traces (%d calls) of the real leader accepted by SessTrace, all C14 properties hold on them" % (n, total - n))
    else:
        _report_trace(ctx, tp, verdict, hw, total, r, label)
    return tp


def _selftest(ctx, tp):
    """Binding is demonstrated, not assumed: a recorded deadline changed by one tick must be rejected."""
    lines = open(tp).read().splitlines()
    for i, l in enumerate(lines):
        s = json.loads(l)
        if s.get("armed"):
            s["armed"][0]["dl"] += 1
            lines[i] = json.dumps(s)
            break
    else:
        return
    bad = os.path.join(ctx.scratch, "trace-corrupt.ndjson")
    open(bad, "w").write("\n".join(lines[:i + 40]) + "\n")
    verdict, hw, total, r = _validate(ctx, bad, "sess-trace.cfg", "selftest")
    if verdict == "accepted":
        raise vf.Inconclusive("self-test: a trace with a corrupted timer deadline was accepted by SessTrace")
    ctx.assumptions.append("self-test: a recorded trace with one timer deadline changed by a tick is rejected by SessTrace (line %d)" % (i + 1))


def _witness(ctx, binp, f):
    """Re-execute a witness of sessCleanupRace on the real code; TLC judges the recording without the guard."""
    path = os.path.join(vf.VERIF, f)
    w = json.load(open(path))
    tp = os.path.join(ctx.scratch, "witness-%s.ndjson" % os.path.basename(f)[:-5])
    ctx.run([binp, "rerun", "-in", path, "-out", tp])
    ctx.replayed += 1
    verdict, hw, total, r = _validate(ctx, tp, "sess-trace-unguarded.cfg", "witness-" + os.path.basename(f)[:-5])
    last = json.loads(open(tp).read().splitlines()[-1])
    keys = [_db.key(x["key"]) for x in last.get("recs", []) if not _db.key(x["key"]).startswith("__oxia/")]
    if verdict == "property":
        return "%s -> records left: %s; TLC: %s violated on the recorded execution" % (w["what"], keys, ",".join(r.violated))
    if verdict == "rejected":
        # the code no longer follows the faithful model of the two-step cleanup: judge it under the guard
        v2, hw2, total2, r2 = _validate(ctx, tp, "sess-trace.cfg", "witness-guarded")
        if v2 != "accepted":
            _report_trace(ctx, tp, v2, hw2, total2, r2, "witness")
        ctx.log("witness %s: the real code no longer behaves as recorded in the finding" % f)
    else:
        ctx.log("witness %s no longer violates the property" % f)
    return None


def run(ctx):
    quick = ctx.tier == "quick"
    ctx.assumptions += [
        "time is the tick counter of the injected session timers (hook VerifNewSessionTimer); one tick = 10 s of session timeout; real timers are not exercised",
        "a leader change with lag 0 is a new leader controller on the same WAL and DB (close, NewLeaderController, NewTerm, BecomeLeader with RF=1); with lag k > 0 the new leader runs on the log and DB of a real follower controller that was fed the whole log with a commit offset k entries short (every entry of the old leader's log is on the elected node: what was acknowledged to a client is never lost - C01-C08's subject); a leader change while a cleanup is between its two steps is not enumerated (see known finding sessExpiryVsNewTerm)",
        "range deletes above the code's threshold are reached by populating the shard with plain records a-001.. (Fill) as the first call of a behaviour; the session-owned keys sort before (a) and after (b, a/b, ...) that block",
        "CloseSession of a session that is expiring (it waits for the expiry) is not enumerated",
        "ephemeral puts combined with the other features of a put (generated sequence key with the request key as prefix, one delta of 1; an index entry; expected version 'must not exist' / current) are enumerated on one key with one session, ended by CloseSession (quick) and also by expiry, with two sessions and a lagging election in the model (thorough); the random driver uses deltas 1..3 on every key of the trace, wrong versions, and writes / deletes the generated keys; the outcomes of the sequence generator and of version conditions themselves are C13's / C12's subject",
    ]
    # 1. the model
    r = ctx.tlc("SessionsMC", "sess-quick.cfg", label="model", heap="4g")
    ctx.log("Sessions (4 offsets, 2 sessions, 2 keys, 3 ticks, 1 heartbeat, 1 leader change electing a node that lags by 0..2 entries): %d distinct states, %d transitions" % (r.distinct, r.generated))
    if not quick:
        for cfg, what in (("sess-thorough-a.cfg", "5 offsets, lag 0..1"), ("sess-thorough-b.cfg", "5 offsets, empty key, timeouts {1,2}, 2 heartbeats"),
                          ("sess-thorough-c.cfg", "key that needs escaping"),
                          ("sess-big.cfg", "shard populated with 98..101 records, 4 offsets, expiry, lag 0..1"),
                          ("sess-big-b.cfg", "shard populated with 99 / 100 records, 5 offsets, 2 sessions"),
                          ("sess-feat.cfg", "ephemeral puts with generated sequence keys / index entries / version conditions, 4 offsets, 2 sessions, expiry, lag 0..1")):
            r = ctx.tlc("SessionsMC", cfg, label=cfg[5:-4], heap="6g")
            ctx.log("Sessions (%s): %d distinct states, %d transitions" % (what, r.distinct, r.generated))
    for cfg, what in (("sess-mutant-unguarded.cfg", "the properties without the known-finding guard"),
                      ("sess-mutant-emptykey.cfg", "a cleanup that skips the empty key"),
                      ("sess-mutant-initfirst.cfg", "a new leader that initialises its session manager before it has replayed the tail of its log")):
        m = ctx.tlc("SessionsMC", cfg, label=cfg[5:-4], heap="4g", allow_violation=True)
        if not m.violated:
            raise vf.Inconclusive("mutant %s is not refuted by TLC: the C14 properties are vacuous" % cfg)
        ctx.log("mutant (%s) refuted: %s" % (what, ",".join(m.violated)))

    binp = ctx.go_build("sesscheck")

    # 2. spec -> code
    # (sess-steps-lag: only the behaviours that elect a node with a lagging DB; sess-steps-big: only those on a
    # populated shard, checked against the properties in the same run)
    # sess-steps-feat: only the behaviours with a put that combines session ownership with another feature of a
    # put (generated sequence key, index entry, version condition); the raw index keys are compared as well)
    steps = ["sess-steps.cfg", "sess-steps-e.cfg", "sess-steps-lag.cfg", "sess-steps-big.cfg", "sess-steps-feat.cfg"]
    if not quick:
        steps += ["sess-steps-b.cfg", "sess-steps-c.cfg", "sess-steps-lag-b.cfg", "sess-steps-big-b.cfg", "sess-steps-feat-b.cfg"]
    for cfg in steps:
        label = cfg[5:-4]
        path, n, r = _export(ctx, cfg, "STEP", label)
        if "big" in cfg:
            ctx.log("Sessions (populated shard, %s): %d distinct states, %d transitions, properties hold" % (cfg, r.distinct, r.generated))
        if "feat" in cfg:
            ctx.log("Sessions (ephemeral puts with sequence keys / index entries / version conditions, %s): %d distinct states, %d transitions, properties hold" % (cfg, r.distinct, r.generated))
        _replay(ctx, binp, path, label, scope=SCOPE + ",idx" if "feat" in cfg else SCOPE)
        if cfg == "sess-steps.cfg":
            with open(path) as f:
                lines = f.readlines()
            beh = json.loads(lines[len(lines) // 2])
            ctx.samples.append({"kind": "spec transition replayed on a real RF=1 leader", "calls": _show(beh),
                                "demanded_after_last_call": {k: beh[-1][k] for k in ("out", "now", "armed", "pend", "shadow")}})
    path, n, _ = _export(ctx, "sess-runs.cfg", "RUN", "runs", simulate="num=%d" % (25 if quick else 250), depth=18, workers=1)
    _replay(ctx, binp, path, "runs")
    if not quick:
        path, n, _ = _export(ctx, "sess-runs-feat.cfg", "RUN", "runs-feat", simulate="num=60", depth=18, workers=1)
        _replay(ctx, binp, path, "runs-feat", scope=SCOPE + ",idx")

    # 3. code -> spec
    tp = _drive(ctx, binp, 100 if quick else 600, 30, "random", 1, big=7 if quick else 5)
    if not ctx.violations:
        _selftest(ctx, tp)
        with open(tp) as f:
            ctx.samples.append({"kind": "recorded trace of the real leader accepted by TLC", "first_calls":
                                [{k: v for k, v in json.loads(next(f)).items() if k in ("a", "s", "to", "out", "now", "armed", "pend")} for _ in range(6)]})

    # 4. known findings
    for f in vf.findings_for("C14"):
        if f["id"] == "sessCleanupRace":
            hits = [x for x in (_witness(ctx, binp, w) for w in f["witnesses"]) if x]
            if hits:
                ctx.known_finding("sessCleanupRace (%d/%d witnesses still fail): %s" % (len(hits), len(f["witnesses"]), " | ".join(hits)))
        elif f["id"] == "sessExpiryVsNewTerm":
            out = os.path.join(ctx.scratch, "deadlock.json")
            ctx.run([binp, "deadlock", "-out", out])
            ctx.replayed += 1
            d = json.load(open(out))
            if not d["newTermReturned"]:
                if not (d["newTermWaitsForSession"] and d["sessionWaitsForLeaderLock"]):
                    raise vf.Inconclusive("NewTerm did not return but the goroutine stacks do not show the recorded deadlock: %s" % d)
                ctx.known_finding("sessExpiryVsNewTerm: NewTerm sent to a leader while a session is between the two steps of its expiry cleanup never "
                                  "returns: NewTerm holds the controller lock and waits in sessionManager.Close for the session goroutine, which "
                                  "waits for the controller lock in leaderController.write (read from the goroutine stacks)")
            else:
                ctx.log("witness of sessExpiryVsNewTerm: NewTerm returned (%r)" % d["newTermErr"])
        else:
            raise vf.Inconclusive("unknown C14 finding %s" % f["id"])
    ctx.notes["exhaustive"] = True
    ctx.notes["explanation"] = ("states/transitions: TLC exhaustive search of SessionsMC plus trace-validation runs; every transition of the "
                                "bounded replay graphs was executed on a real RF=1 leader with injected session timers and the cleanup gate")


def replay(ctx, path):
    """Re-execute a saved behaviour on the real code; TLC judges the recording."""
    path = os.path.abspath(path)
    binp = ctx.go_build("sesscheck")
    mm = json.load(open(path))
    tp = os.path.join(ctx.scratch, "rerun.ndjson")
    ctx.run([binp, "rerun", "-in", path, "-out", tp])
    verdict, hw, total, r = _validate(ctx, tp, mm.get("cfg") or "sess-trace.cfg", "rerun")
    if verdict == "accepted":
        ctx.traces_validated += 1
        ctx.log("replayed execution is accepted by SessTrace")
        return
    _report_trace(ctx, tp, verdict, hw, total, r, "rerun")
