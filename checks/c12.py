"""C12 - versioning, conditional writes and batch semantics match the sequential specification.

1. TLC checks the laws of OxiaDb.tla exhaustively over the bounded request alphabet (4 keys in the
   hierarchical order, expected version in {none, not-exists, current, next}, puts / deletes /
   delete-ranges, several operations per request): version ids strictly increasing in operation order,
   modification counts, conditional semantics, delete-range exactness, atomic ordered batches
   (a batch = its operations one request at a time).
2. spec -> code: every transition of bounded state graphs (one behaviour per transition) and long
   simulated behaviours are replayed on a real kv.DB (Pebble on a temp dir, ProcessWrite with the server's
   callback chain); per-operation results, the full content read back through RangeScan / List / Get and
   the persisted version counter are compared after every request.
3. code -> spec: random request streams over a bigger key space (conditional writes, sessions, indexes,
   sequence keys, several operations per request, reopen) on the real kv.DB are recorded and judged by TLC
   (DbTrace.tla).
"""
import _db
import vf

SCOPE = "res,recs,lv"


def run(ctx):
    quick = ctx.tier == "quick"
    ctx.assumptions += [
        "keys are byte strings compared by the hierarchical order as transcribed in OxiaDb.tla (KeyCmp); the order itself is C11's subject",
        "version ids and timestamps stay far below 2^31 (TLC integers)",
        "client requests addressing oxia's own records (__oxia/commit-offset, notification, index and shadow keys) are outside the enumerated domain",
    ]
    # 1. laws of the model
    r = ctx.tlc("OxiaDbMC", "db-c12-quick.cfg", label="laws", heap="4g")
    ctx.log("laws (3 requests x <=2 ops): %d distinct states, %d transitions" % (r.distinct, r.generated))
    if not quick:
        r = ctx.tlc("OxiaDbMC", "db-c12-thorough.cfg", label="laws3", heap="4g")
        ctx.log("laws (pre-populated shards, 1 request x <=3 ops): %d distinct states, %d transitions" % (r.distinct, r.generated))

    binp = ctx.go_build("dbcheck")

    # 2. spec -> code
    # a: 3 requests x 1 op, b: 1 request x 2 ops, big: 99/100/101 pre-populated keys (both delete-range
    # strategies), c: 2 requests x 2 ops, p: pre-populated shards x 2 ops
    for cfg in (("db-c12-steps-a.cfg", "db-c12-steps-b.cfg", "db-c12-steps-big.cfg") if quick else
                ("db-c12-steps-a.cfg", "db-c12-steps-big.cfg", "db-c12-steps-c.cfg", "db-c12-steps-p.cfg")):
        label = cfg[len("db-c12-"):-len(".cfg")]
        path, n, _ = _db.tlc_export(ctx, cfg, "STEP", label)
        res = _db.replay(ctx, binp, path, "db", SCOPE, label)
        _db.report(ctx, res, "c12-" + label)
        if cfg.endswith("-a.cfg"):
            _db.sample_from(path, "spec transition replayed on the real kv.DB", ctx)
    path, n, _ = _db.tlc_export(ctx, "db-c12-runs.cfg", "RUN", "runs", simulate="num=%d" % (15 if quick else 150),
                                depth=14, workers=1)
    res = _db.replay(ctx, binp, path, "db", SCOPE, "runs")
    _db.report(ctx, res, "c12-run")

    # 3. code -> spec
    nt = 60 if quick else 500
    tp = _db.drive_and_validate(ctx, binp, "db", "mix", nt, 30, "db-trace-c12.cfg", "mix", 1)
    _db.drive_and_validate(ctx, binp, "db", "seq", nt // 3, 30, "db-trace-c12.cfg", "seq", 2)
    if not quick:
        _db.drive_and_validate(ctx, binp, "leader", "mix", 60, 30, "db-trace-c12.cfg", "leader", 3)
    with open(tp) as f:
        import json
        ctx.samples.append({"kind": "recorded kv.DB trace accepted by TLC", "first_lines":
                            [{k: v for k, v in json.loads(next(f)).items() if k in ("a", "req", "res", "err")} for _ in range(4)]})
    ctx.notes["exhaustive"] = True
    ctx.notes["explanation"] = ("states/transitions: TLC exhaustive search of OxiaDbMC (mode c12) plus trace-validation runs; "
                                "every transition of the bounded graphs was replayed on a real kv.DB")


def replay(ctx, path):
    _db.replay_file(ctx, path, "db-trace-c12.cfg")
