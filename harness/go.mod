module verif/harness

go 1.24.2

require (
	github.com/oxia-db/oxia v0.0.0
	google.golang.org/grpc v1.72.0
	google.golang.org/protobuf v1.36.6
	pgregory.net/rapid v1.3.0
)

require (
	github.com/DataDog/zstd v1.4.5 // indirect
	github.com/beorn7/perks v1.0.1 // indirect
	github.com/cenkalti/backoff/v4 v4.3.0 // indirect
	github.com/cespare/xxhash/v2 v2.3.0 // indirect
	github.com/cockroachdb/errors v1.12.0 // indirect
	github.com/cockroachdb/fifo v0.0.0-20240606204812-0bbfbd93a7ce // indirect
	github.com/cockroachdb/logtags v0.0.0-20241215232642-bb51bb14a506 // indirect
	github.com/cockroachdb/pebble v1.1.2 // indirect
	github.com/cockroachdb/redact v1.1.6 // indirect
	github.com/cockroachdb/tokenbucket v0.0.0-20250429170803-42689b6311bb // indirect
	github.com/coreos/go-oidc/v3 v3.14.1 // indirect
	github.com/dustin/go-humanize v1.0.1 // indirect
	github.com/edsrzf/mmap-go v1.2.0 // indirect
	github.com/emirpasic/gods/v2 v2.0.0-alpha.0.20250312000129-1d83d5ae39fb // indirect
	github.com/getsentry/sentry-go v0.32.0 // indirect
	github.com/go-jose/go-jose/v4 v4.1.0 // indirect
	github.com/go-logr/logr v1.4.2 // indirect
	github.com/go-logr/stdr v1.2.2 // indirect
	github.com/gogo/protobuf v1.3.2 // indirect
	github.com/golang/snappy v1.0.0 // indirect
	github.com/google/uuid v1.6.0 // indirect
	github.com/grpc-ecosystem/go-grpc-prometheus v1.2.0 // indirect
	github.com/kr/pretty v0.3.1 // indirect
	github.com/kr/text v0.2.0 // indirect
	github.com/mitchellh/mapstructure v1.5.0 // indirect
	github.com/munnerz/goautoneg v0.0.0-20191010083416-a7dc8b61c822 // indirect
	github.com/pkg/errors v0.9.1 // indirect
	github.com/planetscale/vtprotobuf v0.6.1-0.20240319094008-0393e58bdf10 // indirect
	github.com/prometheus/client_golang v1.22.0 // indirect
	github.com/prometheus/client_model v0.6.2 // indirect
	github.com/prometheus/common v0.63.0 // indirect
	github.com/prometheus/procfs v0.16.1 // indirect
	github.com/rogpeppe/go-internal v1.14.1 // indirect
	go.opentelemetry.io/auto/sdk v1.1.0 // indirect
	go.opentelemetry.io/otel v1.35.0 // indirect
	go.opentelemetry.io/otel/exporters/prometheus v0.57.0 // indirect
	go.opentelemetry.io/otel/metric v1.35.0 // indirect
	go.opentelemetry.io/otel/sdk v1.35.0 // indirect
	go.opentelemetry.io/otel/sdk/metric v1.35.0 // indirect
	go.opentelemetry.io/otel/trace v1.35.0 // indirect
	go.uber.org/multierr v1.11.0 // indirect
	golang.org/x/exp v0.0.0-20250506013437-ce4c2cf36ca6 // indirect
	golang.org/x/net v0.40.0 // indirect
	golang.org/x/oauth2 v0.30.0 // indirect
	golang.org/x/sys v0.33.0 // indirect
	golang.org/x/text v0.25.0 // indirect
	google.golang.org/genproto/googleapis/rpc v0.0.0-20250505200425-f936aa4a68b2 // indirect
)

replace github.com/oxia-db/oxia => /repo
