module verif/harness

go 1.24.2

require (
	github.com/emirpasic/gods/v2 v2.0.0-alpha.0.20250312000129-1d83d5ae39fb
	github.com/oxia-db/oxia v0.0.0
	google.golang.org/grpc v1.72.0
	google.golang.org/protobuf v1.36.6
	pgregory.net/rapid v1.3.0
)

require (
	github.com/DataDog/zstd v1.4.5 // indirect
	github.com/beorn7/perks v1.0.1 // indirect
	github.com/cenkalti/backoff/v4 v4.3.0 // indirect
	github.com/cespare/xxhash/v2 v2.3.0 // indirect
	github.com/cockroachdb/errors v1.12.0 // indirect
	github.com/cockroachdb/fifo v0.0.0-20240606204812-0bbfbd93a7ce // indirect
	github.com/cockroachdb/logtags v0.0.0-20241215232642-bb51bb14a506 // indirect
	github.com/cockroachdb/pebble v1.1.2 // indirect
	github.com/cockroachdb/redact v1.1.6 // indirect
	github.com/cockroachdb/tokenbucket v0.0.0-20250429170803-42689b6311bb // indirect
	github.com/coreos/go-oidc/v3 v3.14.1 // indirect
	github.com/davecgh/go-spew v1.1.2-0.20180830191138-d8f796af33cc // indirect
	github.com/dustin/go-humanize v1.0.1 // indirect
	github.com/edsrzf/mmap-go v1.2.0 // indirect
	github.com/emicklei/go-restful/v3 v3.12.2 // indirect
	github.com/fxamacker/cbor/v2 v2.8.0 // indirect
	github.com/getsentry/sentry-go v0.32.0 // indirect
	github.com/go-jose/go-jose/v4 v4.1.0 // indirect
	github.com/go-logr/logr v1.4.2 // indirect
	github.com/go-logr/stdr v1.2.2 // indirect
	github.com/go-openapi/jsonpointer v0.21.1 // indirect
	github.com/go-openapi/jsonreference v0.21.0 // indirect
	github.com/go-openapi/swag v0.23.1 // indirect
	github.com/gogo/protobuf v1.3.2 // indirect
	github.com/golang/snappy v1.0.0 // indirect
	github.com/google/gnostic-models v0.6.9 // indirect
	github.com/google/go-cmp v0.7.0 // indirect
	github.com/google/uuid v1.6.0 // indirect
	github.com/grpc-ecosystem/go-grpc-prometheus v1.2.0 // indirect
	github.com/josharian/intern v1.0.0 // indirect
	github.com/json-iterator/go v1.1.12 // indirect
	github.com/juju/fslock v0.0.0-20160525022230-4d5c94c67b4b // indirect
	github.com/kr/pretty v0.3.1 // indirect
	github.com/kr/text v0.2.0 // indirect
	github.com/mailru/easyjson v0.9.0 // indirect
	github.com/mitchellh/mapstructure v1.5.0 // indirect
	github.com/modern-go/concurrent v0.0.0-20180306012644-bacd9c7ef1dd // indirect
	github.com/modern-go/reflect2 v1.0.2 // indirect
	github.com/munnerz/goautoneg v0.0.0-20191010083416-a7dc8b61c822 // indirect
	github.com/pkg/errors v0.9.1 // indirect
	github.com/planetscale/vtprotobuf v0.6.1-0.20240319094008-0393e58bdf10 // indirect
	github.com/prometheus/client_golang v1.22.0 // indirect
	github.com/prometheus/client_model v0.6.2 // indirect
	github.com/prometheus/common v0.63.0 // indirect
	github.com/prometheus/procfs v0.16.1 // indirect
	github.com/rogpeppe/go-internal v1.14.1 // indirect
	github.com/spf13/pflag v1.0.6 // indirect
	github.com/x448/float16 v0.8.4 // indirect
	go.opentelemetry.io/auto/sdk v1.1.0 // indirect
	go.opentelemetry.io/otel v1.35.0 // indirect
	go.opentelemetry.io/otel/exporters/prometheus v0.57.0 // indirect
	go.opentelemetry.io/otel/metric v1.35.0 // indirect
	go.opentelemetry.io/otel/sdk v1.35.0 // indirect
	go.opentelemetry.io/otel/sdk/metric v1.35.0 // indirect
	go.opentelemetry.io/otel/trace v1.35.0 // indirect
	go.uber.org/multierr v1.11.0 // indirect
	golang.org/x/exp v0.0.0-20250506013437-ce4c2cf36ca6 // indirect
	golang.org/x/net v0.40.0 // indirect
	golang.org/x/oauth2 v0.30.0 // indirect
	golang.org/x/sys v0.33.0 // indirect
	golang.org/x/term v0.32.0 // indirect
	golang.org/x/text v0.25.0 // indirect
	golang.org/x/time v0.11.0 // indirect
	google.golang.org/genproto/googleapis/rpc v0.0.0-20250505200425-f936aa4a68b2 // indirect
	gopkg.in/evanphx/json-patch.v4 v4.12.0 // indirect
	gopkg.in/inf.v0 v0.9.1 // indirect
	gopkg.in/yaml.v2 v2.4.0 // indirect
	gopkg.in/yaml.v3 v3.0.1 // indirect
	k8s.io/api v0.33.0 // indirect
	k8s.io/apimachinery v0.33.0 // indirect
	k8s.io/client-go v0.33.0 // indirect
	k8s.io/klog/v2 v2.130.1 // indirect
	k8s.io/kube-openapi v0.0.0-20250318190949-c8a335a9a2ff // indirect
	k8s.io/utils v0.0.0-20250502105355-0f33e8f1c979 // indirect
	sigs.k8s.io/json v0.0.0-20241014173422-cfa47c3a1cc8 // indirect
	sigs.k8s.io/randfill v1.0.0 // indirect
	sigs.k8s.io/structured-merge-diff/v4 v4.7.0 // indirect
	sigs.k8s.io/yaml v1.4.0 // indirect
)

replace github.com/oxia-db/oxia => /repo
