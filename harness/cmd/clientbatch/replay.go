package main

import (
	"fmt"
	"time"
)

// diff classes:
//
//	contra   - the real client did something the specification excludes at this point (completed a call
//	           it must not have, a different result, an item out of place): candidate violation
//	stall    - something the specification demands has not happened within the wait: candidate violation
//	           ("never completes"), retried with longer waits before it is believed
//	diverged - a request with another composition than the specification's reached a server: the real
//	           linger timer did not keep pace with the replayer (timing noise) - retried, never a violation
type diff struct {
	Class string `json:"class"`
	What  string `json:"what"`
	Step  int    `json:"step"`
}

func typeLists(w *world, ids []int) (p, d, r []int) {
	for _, c := range ids {
		switch w.calls[c-1].t.Op {
		case "put":
			p = append(p, c)
		case "del":
			d = append(d, c)
		case "delrange":
			r = append(r, c)
		default:
			p = append(p, c)
		}
	}
	return
}

// compare the real observable state with the specification's; caller holds mu.
func (w *world) compare(o *Obs) *diff {
	var stall *diff
	// seen from the servers: how often each request arrived
	for i, cs := range w.calls {
		for s := 1; s <= w.cfg.N; s++ {
			want := 0
			if i < len(o.Sent) && s-1 < len(o.Sent[i]) {
				want = o.Sent[i][s-1]
			}
			got := w.sent[skey{i + 1, s}]
			switch {
			case got > want && cs.t.kind() == "w":
				return &diff{Class: "contra", What: fmt.Sprintf("the %s request of call %d reached the server of shard %d %d time(s), specification %d (a write whose outcome is unknown must not be sent again)", cs.t.Op, i+1, s, got, want)}
			case got > want:
				return &diff{Class: "diverged", What: fmt.Sprintf("the %s request of call %d reached shard %d %d time(s), specification %d", cs.t.Op, i+1, s, got, want)}
			case got < want:
				stall = &diff{Class: "stall", What: fmt.Sprintf("the %s request of call %d reached shard %d %d time(s), specification %d (retry not seen)", cs.t.Op, i+1, s, got, want)}
			}
		}
	}
	for s := 1; s <= w.cfg.N; s++ {
		for _, k := range []string{"w", "r"} {
			var spec []int
			if s-1 < len(o.Fly) {
				spec = o.Fly[s-1][k]
			}
			real := w.pend[pkey{s, k}]
			switch {
			case len(real) > 1:
				return &diff{Class: "diverged", What: fmt.Sprintf("two requests in flight on shard %d/%s", s, k)}
			case len(spec) == 0 && len(real) == 0:
			case len(spec) > 0 && len(real) == 0:
				stall = &diff{Class: "stall", What: fmt.Sprintf("request %v has not reached shard %d/%s", spec, s, k)}
			case len(spec) == 0:
				return &diff{Class: "diverged", What: fmt.Sprintf("unexpected request p=%v d=%v r=%v on shard %d/%s", real[0].p, real[0].d, real[0].r, s, k)}
			default:
				p, d, r := typeLists(w, spec)
				if !eqInts(p, real[0].p) || !eqInts(d, real[0].d) || !eqInts(r, real[0].r) {
					return &diff{Class: "diverged", What: fmt.Sprintf("shard %d/%s holds p=%v d=%v r=%v, specification %v", s, k, real[0].p, real[0].d, real[0].r, spec)}
				}
			}
		}
	}
	for i, cs := range w.calls {
		c := i + 1
		want := 0
		if i < len(o.Done) {
			want = o.Done[i]
		}
		got := cs.doneCount()
		if got > want {
			return &diff{Class: "contra", What: fmt.Sprintf("call %d (%s) completed %d time(s), specification %d", c, cs.t.Op, got, want)}
		}
		if cs.t.stream() {
			var so [][]int
			if i < len(o.Out) {
				so = o.Out[i]
			}
			if len(cs.out) > len(so) {
				return &diff{Class: "contra", What: fmt.Sprintf("call %d (%s) delivered %v, specification %v", c, cs.t.Op, cs.out, so)}
			}
			for j := range cs.out {
				if !eqInts(cs.out[j], so[j]) {
					return &diff{Class: "contra", What: fmt.Sprintf("call %d (%s) delivered %v, specification %v", c, cs.t.Op, cs.out, so)}
				}
			}
			if len(cs.out) < len(so) {
				stall = &diff{Class: "stall", What: fmt.Sprintf("call %d (%s) delivered %v so far, specification %v", c, cs.t.Op, cs.out, so)}
			}
		} else if got >= 1 {
			if !eqRec(cs.vals[0], o.Res[i]) {
				return &diff{Class: "contra", What: fmt.Sprintf("call %d (%s) completed with %+v, its own result is %+v", c, cs.t.Op, cs.vals[0], o.Res[i])}
			}
		}
		if got < want && cs.t.stream() {
			stall = &diff{Class: "stall", What: fmt.Sprintf("result channel of call %d (%s) is not closed after delivering %v", c, cs.t.Op, cs.out)}
		} else if got < want {
			stall = &diff{Class: "stall", What: fmt.Sprintf("call %d (%s) has not completed (specification: completed with %+v)", c, cs.t.Op, resOf(o, i))}
		} else if want >= 1 && !cs.finished() {
			stall = &diff{Class: "stall", What: fmt.Sprintf("result channel of call %d (%s) not closed", c, cs.t.Op)}
		}
	}
	return stall
}

func resOf(o *Obs, i int) any {
	if i < len(o.Res) {
		return o.Res[i]
	}
	return nil
}

// sync waits until the real observable state equals the specification's.
func (w *world) sync(o *Obs, d time.Duration) *diff {
	if o == nil {
		return nil
	}
	deadline := time.Now().Add(d)
	w.mu.Lock()
	defer w.mu.Unlock()
	for {
		df := w.compare(o)
		if df == nil {
			return nil
		}
		if df.Class != "stall" {
			return df
		}
		if time.Now().After(deadline) {
			return df
		}
		w.cond.Wait()
	}
}

func internalStep(a string) bool {
	switch a {
	case "Take", "Fwd", "ListClose", "MTake", "MPop":
		return true
	}
	return false
}

type runResult struct {
	Diff  *diff
	Trace []TLine
}

// replayOnce executes one exported behaviour on a fresh real client.
func replayOnce(base string, b *Behaviour, linger time.Duration, wait time.Duration) (res runResult, err error) {
	lg := time.Duration(0)
	if b.Cfg.Linger {
		lg = linger
	}
	w, err := newWorld(base, b.Cfg, lg, 1)
	if err != nil {
		return res, err
	}
	defer w.close()
	wait += lg
	var df *diff
	for i := range b.Steps {
		st := &b.Steps[i]
		if internalStep(st.A) {
			continue
		}
		if df = w.sync(st.Pre, wait); df != nil {
			df.Step = i
			break
		}
		switch st.A {
		case "Issue":
			if c := w.issue(st.T); c != st.C {
				return res, fmt.Errorf("call numbering: %d vs %d", c, st.C)
			}
		case "Timer":
			// nothing to do: the next sync waits for the requests the expired timers release
		case "Respond", "Fail", "Break":
			mode := map[string]int{"Respond": ansOK, "Fail": ansFail, "Break": ansBreak}[st.A]
			if !w.answer(st.S, st.K, mode, st.N) {
				return res, fmt.Errorf("no request to answer at step %d", i)
			}
		case "SEmit", "SEnd":
			ss := w.streamOf(st.C, st.S, wait)
			if ss == nil {
				df = &diff{Class: "stall", What: fmt.Sprintf("stream of call %d never opened on shard %d", st.C, st.S), Step: i}
			} else if st.A == "SEmit" {
				w.emit(ss, st.Key)
			} else {
				w.end(ss, st.How)
			}
		default:
			return res, fmt.Errorf("unknown step %q", st.A)
		}
		if df != nil {
			break
		}
	}
	if df == nil {
		if df = w.sync(b.Post, wait); df != nil {
			df.Step = len(b.Steps)
		}
	}
	drainWait := wait + 2*time.Second
	if df != nil {
		drainWait = 300 * time.Millisecond // already deviating: only tidy up
	}
	complete := w.drain(drainWait)
	if df == nil && !complete {
		w.mu.Lock()
		for i, cs := range w.calls {
			if !cs.finished() {
				df = &diff{Class: "stall", Step: len(b.Steps),
					What: fmt.Sprintf("call %d (%s) never completed although every request was answered and every stream ended", i+1, cs.t.Op)}
				break
			}
		}
		w.mu.Unlock()
	}
	w.mu.Lock()
	if df == nil && len(w.anomaly) > 0 {
		df = &diff{Class: "contra", What: w.anomaly[0], Step: len(b.Steps)}
	}
	res.Trace = w.trace
	w.mu.Unlock()
	res.Diff = df
	return res, nil
}

type mismatch struct {
	Index     int       `json:"index"`
	Class     string    `json:"class"`
	What      string    `json:"what"`
	Step      int       `json:"step"`
	Attempts  []string  `json:"attempts"`
	Behaviour Behaviour `json:"behaviour"`
	Kind      string    `json:"kind"`
}

// replayBehaviour = replayOnce + the re-execution policy: a candidate is believed only if it shows up
// in every one of three executions (with longer waits each time).
func replayBehaviour(base string, idx int, b *Behaviour, linger time.Duration) (trace []TLine, mm *mismatch, diverged []string, err error) {
	var attempts []string
	var last *diff
	for a := 0; a < 3; a++ {
		res, e := replayOnce(base, b, linger*time.Duration(a+1), time.Duration(2*(a+1))*time.Second)
		if e != nil {
			return nil, nil, nil, e
		}
		if res.Diff == nil {
			return res.Trace, nil, nil, nil
		}
		last = res.Diff
		attempts = append(attempts, res.Diff.Class+": "+res.Diff.What)
		if res.Diff.Class == "diverged" && a == 2 {
			return nil, nil, attempts, nil
		}
	}
	// all three attempts deviated; a violation only if none of them was mere divergence
	for _, at := range attempts {
		if len(at) >= 8 && at[:8] == "diverged" {
			return nil, nil, attempts, nil
		}
	}
	return nil, &mismatch{Index: idx, Class: last.Class, What: last.What, Step: last.Step, Attempts: attempts,
		Behaviour: *b, Kind: "replay"}, nil, nil
}
