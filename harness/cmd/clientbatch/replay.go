package main

import (
	"fmt"
	"time"
)

// diff classes:
//
//	contra   - the real client did something the specification excludes at this point (completed a call
//	           it must not have, a different result, an item out of place): candidate violation
//	stall    - something the specification demands has not happened within the wait: candidate violation
//	           ("never completes"), retried with longer waits before it is believed
//	diverged - a request with another composition than the specification's reached a server: the real
//	           linger timer did not keep pace with the replayer (timing noise) - retried, never a violation
type diff struct {
	Class string `json:"class"`
	What  string `json:"what"`
	Step  int    `json:"step"`
}

func typeLists(w *world, ids []int) (p, d, r []int) {
	for _, c := range ids {
		switch w.calls[c-1].t.Op {
		case "put":
			p = append(p, c)
		case "del":
			d = append(d, c)
		case "delrange":
			r = append(r, c)
		default:
			p = append(p, c)
		}
	}
	return
}

// compare the real observable state with the specification's; caller holds mu.
func (w *world) compare(o *Obs) *diff {
	var stall *diff
	// seen from the servers: how often each request arrived
	for i, cs := range w.calls {
		for s := 1; s <= w.cfg.N; s++ {
			want := 0
			if i < len(o.Sent) && s-1 < len(o.Sent[i]) {
				want = o.Sent[i][s-1]
			}
			got := w.sent[skey{i + 1, s}]
			switch {
			case got > want && cs.t.kind() == "w":
				return &diff{Class: "contra", What: fmt.Sprintf("the %s request of call %d reached the server of shard %d %d time(s), specification %d (a write whose outcome is unknown must not be sent again)", cs.t.Op, i+1, s, got, want)}
			case got > want:
				return &diff{Class: "diverged", What: fmt.Sprintf("the %s request of call %d reached shard %d %d time(s), specification %d", cs.t.Op, i+1, s, got, want)}
			case got < want:
				stall = &diff{Class: "stall", What: fmt.Sprintf("the %s request of call %d reached shard %d %d time(s), specification %d (retry not seen)", cs.t.Op, i+1, s, got, want)}
			}
		}
	}
	for s := 1; s <= w.cfg.N; s++ {
		for _, k := range []string{"w", "r"} {
			// what the leader of the shard holds unanswered: on the write stream the abandoned requests (their
			// client-side wait timed out) in arrival order, then the one in flight
			var spec [][]int
			if k == "w" && s-1 < len(o.Late) {
				spec = append(spec, o.Late[s-1]...)
			}
			if s-1 < len(o.Fly) && len(o.Fly[s-1][k]) > 0 {
				spec = append(spec, o.Fly[s-1][k])
			}
			real := w.pend[pkey{s, k}]
			for i := 0; i < len(real) && i < len(spec); i++ {
				p, d, r := typeLists(w, spec[i])
				if !eqInts(p, real[i].p) || !eqInts(d, real[i].d) || !eqInts(r, real[i].r) {
					return &diff{Class: "diverged", What: fmt.Sprintf("shard %d/%s holds p=%v d=%v r=%v at position %d, specification %v", s, k, real[i].p, real[i].d, real[i].r, i, spec[i])}
				}
			}
			switch {
			case len(real) > len(spec):
				x := real[len(spec)]
				return &diff{Class: "diverged", What: fmt.Sprintf("unexpected request p=%v d=%v r=%v on shard %d/%s (specification: %v)", x.p, x.d, x.r, s, k, spec)}
			case len(real) < len(spec):
				stall = &diff{Class: "stall", What: fmt.Sprintf("request %v has not reached shard %d/%s", spec[len(real)], s, k)}
			}
		}
	}
	for i, cs := range w.calls {
		c := i + 1
		want := 0
		if i < len(o.Done) {
			want = o.Done[i]
		}
		got := cs.doneCount()
		if got >= 1 && cs.vals != nil && cs.vals[0].St == "timeout" && (want == 0 || i >= len(o.Res) || o.Res[i].St != "timeout") {
			// the real request timeout fired although the specification's has not (the replayer was too slow
			// to answer in time): timing noise, like a linger timer that did not keep pace
			return &diff{Class: "diverged", What: fmt.Sprintf("call %d (%s) timed out before the replayer acted", c, cs.t.Op)}
		}
		if got > want {
			return &diff{Class: "contra", What: fmt.Sprintf("call %d (%s) completed %d time(s), specification %d", c, cs.t.Op, got, want)}
		}
		if cs.t.stream() {
			var so [][]int
			if i < len(o.Out) {
				so = o.Out[i]
			}
			if len(cs.out) > len(so) {
				return &diff{Class: "contra", What: fmt.Sprintf("call %d (%s) delivered %v, specification %v", c, cs.t.Op, cs.out, so)}
			}
			for j := range cs.out {
				if !eqInts(cs.out[j], so[j]) {
					return &diff{Class: "contra", What: fmt.Sprintf("call %d (%s) delivered %v, specification %v", c, cs.t.Op, cs.out, so)}
				}
			}
			if len(cs.out) < len(so) {
				stall = &diff{Class: "stall", What: fmt.Sprintf("call %d (%s) delivered %v so far, specification %v", c, cs.t.Op, cs.out, so)}
			}
		} else if got >= 1 {
			if !eqRec(cs.vals[0], o.Res[i]) {
				return &diff{Class: "contra", What: fmt.Sprintf("call %d (%s) completed with %+v, its own result is %+v", c, cs.t.Op, cs.vals[0], o.Res[i])}
			}
		}
		if got < want && cs.t.stream() {
			stall = &diff{Class: "stall", What: fmt.Sprintf("result channel of call %d (%s) is not closed after delivering %v", c, cs.t.Op, cs.out)}
		} else if got < want {
			stall = &diff{Class: "stall", What: fmt.Sprintf("call %d (%s) has not completed (specification: completed with %+v)", c, cs.t.Op, resOf(o, i))}
		} else if want >= 1 && !cs.finished() {
			stall = &diff{Class: "stall", What: fmt.Sprintf("result channel of call %d (%s) not closed", c, cs.t.Op)}
		}
	}
	return stall
}

func resOf(o *Obs, i int) any {
	if i < len(o.Res) {
		return o.Res[i]
	}
	return nil
}

// sync waits until the real observable state equals the specification's.
func (w *world) sync(o *Obs, d time.Duration) *diff {
	if o == nil {
		return nil
	}
	deadline := time.Now().Add(d)
	w.mu.Lock()
	defer w.mu.Unlock()
	for {
		df := w.compare(o)
		if df == nil {
			return nil
		}
		if df.Class != "stall" {
			return df
		}
		if time.Now().After(deadline) {
			return df
		}
		w.cond.Wait()
	}
}

func internalStep(a string) bool {
	switch a {
	case "Take", "Fwd", "ListClose", "MTake", "MPop":
		return true
	}
	return false
}

type runResult struct {
	Diff  *diff
	Trace []TLine
}

// replayOnce executes one exported behaviour on a fresh real client.
func replayOnce(base string, b *Behaviour, linger time.Duration, wait time.Duration) (res runResult, err error) {
	lg := time.Duration(0)
	if b.Cfg.Linger {
		lg = linger
	}
	// The request timeout of a cfg.Tmo world is real time as well: five lingers, so that a request the
	// specification answers is answered long before (a behaviour lets at most two linger timers pass while
	// a request is in flight), and an "Expire" step simply lets it pass.
	tmo := 5 * linger
	w, err := newWorld(base, b.Cfg, lg, 1, tmo)
	if err != nil {
		return res, err
	}
	defer w.close()
	wait += lg
	if b.Cfg.Tmo {
		wait += tmo
	}
	var df *diff
	lastEnv := ""
	for i := range b.Steps {
		st := &b.Steps[i]
		if internalStep(st.A) {
			continue
		}
		// The requests in flight expire one after the other and the batchers they release start their linger
		// timers meanwhile: the state "everything expired, no new timer fired yet" need not exist in real
		// time, so the timer step the specification forces after an expiry is not waited for separately.
		skip := st.A == "Timer" && lastEnv == "Expire"
		lastEnv = st.A
		if skip {
			continue
		}
		if df = w.sync(st.Pre, wait); df != nil {
			df.Step = i
			break
		}
		switch st.A {
		case "Issue":
			if c := w.issue(st.T); c != st.C {
				return res, fmt.Errorf("call numbering: %d vs %d", c, st.C)
			}
		case "Timer":
			// nothing to do: the next sync waits for the requests the expired timers release
		case "Expire":
			// The leaders stay silent and the streams stay open until the request timeout of everything in
			// flight has passed.  The completions it causes are waited for by the next sync, but an expiry
			// need not complete anything (a fan-out call that has failed already), so the real time is let
			// pass as well: a request the leader received at t is given up by the client before t + timeout.
			w.mu.Lock()
			var until time.Time
			for _, l := range w.pend {
				for _, pb := range l {
					if t := pb.at.Add(w.reqTimeout + w.reqTimeout/8); t.After(until) {
						until = t
					}
				}
			}
			w.mu.Unlock()
			time.Sleep(time.Until(until))
		case "RespondLate":
			// the leader answers the oldest request it still holds on the write stream: one whose client-side
			// wait has timed out
			if !w.answer(st.S, "w", ansOK, 0) {
				return res, fmt.Errorf("no request to answer at step %d", i)
			}
		case "Respond", "Fail", "Break":
			mode := map[string]int{"Respond": ansOK, "Fail": ansFail, "Break": ansBreak}[st.A]
			if !w.answer(st.S, st.K, mode, st.N) {
				return res, fmt.Errorf("no request to answer at step %d", i)
			}
		case "SEmit", "SEnd":
			ss := w.streamOf(st.C, st.S, wait)
			if ss == nil {
				df = &diff{Class: "stall", What: fmt.Sprintf("stream of call %d never opened on shard %d", st.C, st.S), Step: i}
			} else if st.A == "SEmit" {
				w.emit(ss, st.Key)
			} else {
				w.end(ss, st.How)
			}
		default:
			return res, fmt.Errorf("unknown step %q", st.A)
		}
		if df != nil {
			break
		}
	}
	if df == nil {
		if df = w.sync(b.Post, wait); df != nil {
			df.Step = len(b.Steps)
		}
	}
	drainWait := wait + 2*time.Second
	if df != nil {
		drainWait = 300 * time.Millisecond // already deviating: only tidy up
	}
	complete := w.drain(drainWait)
	if df == nil && !complete {
		w.mu.Lock()
		for i, cs := range w.calls {
			if !cs.finished() {
				df = &diff{Class: "stall", Step: len(b.Steps),
					What: fmt.Sprintf("call %d (%s) never completed although every request was answered and every stream ended", i+1, cs.t.Op)}
				break
			}
		}
		w.mu.Unlock()
	}
	w.mu.Lock()
	if df == nil && len(w.anomaly) > 0 {
		df = &diff{Class: "contra", What: w.anomaly[0], Step: len(b.Steps)}
	}
	res.Trace = w.trace
	w.mu.Unlock()
	res.Diff = df
	return res, nil
}

type mismatch struct {
	Index     int       `json:"index"`
	Class     string    `json:"class"`
	What      string    `json:"what"`
	Step      int       `json:"step"`
	Attempts  []string  `json:"attempts"`
	Behaviour Behaviour `json:"behaviour"`
	Kind      string    `json:"kind"`
}

// replayBehaviour = replayOnce + the re-execution policy: a candidate is believed only if it shows up
// in every one of three executions (with longer waits each time).
func replayBehaviour(base string, idx int, b *Behaviour, linger time.Duration) (trace []TLine, mm *mismatch, diverged []string, err error) {
	var attempts []string
	var last *diff
	for a := 0; a < 3; a++ {
		res, e := replayOnce(base, b, linger*time.Duration(a+1), time.Duration(2*(a+1))*time.Second)
		if e != nil {
			return nil, nil, nil, e
		}
		if res.Diff == nil {
			return res.Trace, nil, nil, nil
		}
		last = res.Diff
		attempts = append(attempts, res.Diff.Class+": "+res.Diff.What)
		if res.Diff.Class == "diverged" && a == 2 {
			return nil, nil, attempts, nil
		}
	}
	// all three attempts deviated; a violation only if none of them was mere divergence
	for _, at := range attempts {
		if len(at) >= 8 && at[:8] == "diverged" {
			return nil, nil, attempts, nil
		}
	}
	return nil, &mismatch{Index: idx, Class: last.Class, What: last.What, Step: last.Step, Attempts: attempts,
		Behaviour: *b, Kind: "replay"}, nil, nil
}
