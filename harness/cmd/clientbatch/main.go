// clientbatch binds spec/ClientBatch.tla to the real client library (package oxia: async client,
// batchers, write stream, fan-out and merge) through its public API; the shard leaders are fake gRPC
// servers (unix sockets) whose answers, failures and timing the harness owns.
//
//	clientbatch replay -in behaviours.ndjson -out result.json -trace trace.ndjson [-only i] [-par N] [-linger ms]
//	    every input line is a behaviour exported by TLC (ClientBatchMC, Eager = TRUE); it is executed on a
//	    fresh real client, the observable state is compared at every quiescent point, and the execution
//	    is recorded for validation by ClientBatchTrace.tla.
//	clientbatch drive -seed S -n N -out trace.ndjson -meta meta.json [-only i]
//	    random walks (application + servers) on the real client, recorded for ClientBatchTrace.tla.
package main

import (
	"bufio"
	"encoding/json"
	"flag"
	"fmt"
	"io"
	"log/slog"
	"os"
	"sync"
	"time"
)

func readBehaviours(path string) ([]Behaviour, error) {
	f, err := os.Open(path)
	if err != nil {
		return nil, err
	}
	defer f.Close()
	var out []Behaviour
	sc := bufio.NewScanner(f)
	sc.Buffer(make([]byte, 1<<20), 1<<26)
	for sc.Scan() {
		if len(sc.Bytes()) == 0 {
			continue
		}
		var b Behaviour
		if err := json.Unmarshal(sc.Bytes(), &b); err != nil {
			return nil, fmt.Errorf("line %d: %w", len(out)+1, err)
		}
		if b.Cfg.Dead == nil {
			b.Cfg.Dead = []int{}
		}
		out = append(out, b)
	}
	return out, sc.Err()
}

func writeTrace(w io.Writer, tr []TLine) {
	enc := json.NewEncoder(w)
	for i := range tr {
		tr[i].norm()
		_ = enc.Encode(&tr[i])
	}
}

type replayOut struct {
	Behaviours   int        `json:"behaviours"`
	Steps        int        `json:"steps"`
	Clean        int        `json:"clean"`
	Diverged     []int      `json:"diverged"`
	DivergedWhat []string   `json:"diverged_what"`
	Mismatches   []mismatch `json:"mismatches"`
	TraceOf      []int      `json:"trace_of"` // behaviour index of the i-th trace in the trace file
	TraceLines   []int      `json:"trace_lines"`
	Errors       []string   `json:"errors"`
	WallS        float64    `json:"wall_s"`
}

func cmdReplay(args []string) int {
	fs := flag.NewFlagSet("replay", flag.ExitOnError)
	in := fs.String("in", "", "behaviours (ndjson)")
	out := fs.String("out", "", "result json")
	tracePath := fs.String("trace", "", "recorded traces (ndjson)")
	only := fs.Int("only", -1, "replay only this behaviour (0-based)")
	par := fs.Int("par", 48, "behaviours in flight")
	lingerMs := fs.Int("linger", 120, "real linger (ms) standing for linger = TRUE")
	progress := fs.String("progress", "", "progress file (S idx / F idx lines)")
	base := fs.String("tmp", "/dev/shm", "directory for unix sockets")
	_ = fs.Parse(args)
	bs, err := readBehaviours(*in)
	if err != nil {
		fmt.Fprintln(os.Stderr, err)
		return 2
	}
	if err := checkConcretization(); err != nil {
		fmt.Fprintln(os.Stderr, "concretization:", err)
		return 2
	}
	sock, err := os.MkdirTemp(*base, "cb")
	if err != nil {
		fmt.Fprintln(os.Stderr, err)
		return 2
	}
	defer os.RemoveAll(sock)
	var prog *os.File
	if *progress != "" {
		prog, _ = os.OpenFile(*progress, os.O_CREATE|os.O_WRONLY|os.O_APPEND, 0o644)
	}
	var pmu sync.Mutex
	mark := func(tag string, i int) {
		if prog != nil {
			pmu.Lock()
			fmt.Fprintf(prog, "%s %d\n", tag, i)
			pmu.Unlock()
		}
	}
	t0 := time.Now()
	res := replayOut{DivergedWhat: []string{}, Diverged: []int{}, Mismatches: []mismatch{}, TraceOf: []int{}, TraceLines: []int{}, Errors: []string{}}
	traces := make([][]TLine, len(bs))
	var mu sync.Mutex
	sem := make(chan struct{}, *par)
	var wg sync.WaitGroup
	for i := range bs {
		if *only >= 0 && i != *only {
			continue
		}
		wg.Add(1)
		sem <- struct{}{}
		go func(i int) {
			defer wg.Done()
			defer func() { <-sem }()
			mu.Lock()
			enough := len(res.Mismatches) >= 25
			mu.Unlock()
			if enough {
				return // a broken tree: 25 reproduced mismatches are plenty
			}
			mark("S", i)
			tr, mm, div, err := replayBehaviour(sock, i, &bs[i], time.Duration(*lingerMs)*time.Millisecond)
			mark("F", i)
			mu.Lock()
			defer mu.Unlock()
			res.Behaviours++
			res.Steps += len(bs[i].Steps)
			switch {
			case err != nil:
				res.Errors = append(res.Errors, fmt.Sprintf("behaviour %d: %v", i, err))
			case mm != nil:
				if len(res.Mismatches) < 25 {
					res.Mismatches = append(res.Mismatches, *mm)
				}
			case div != nil:
				res.Diverged = append(res.Diverged, i)
				if len(res.DivergedWhat) < 10 {
					res.DivergedWhat = append(res.DivergedWhat, fmt.Sprintf("behaviour %d: %v", i, div))
				}
			default:
				res.Clean++
				traces[i] = tr
			}
		}(i)
	}
	wg.Wait()
	if *tracePath != "" {
		f, err := os.Create(*tracePath)
		if err != nil {
			fmt.Fprintln(os.Stderr, err)
			return 2
		}
		bw := bufio.NewWriterSize(f, 1<<20)
		for i, tr := range traces {
			if tr != nil {
				writeTrace(bw, tr)
				res.TraceOf = append(res.TraceOf, i)
				res.TraceLines = append(res.TraceLines, len(tr))
			}
		}
		bw.Flush()
		f.Close()
	}
	res.WallS = time.Since(t0).Seconds()
	js, _ := json.MarshalIndent(res, "", " ")
	if err := os.WriteFile(*out, js, 0o644); err != nil {
		fmt.Fprintln(os.Stderr, err)
		return 2
	}
	return 0
}

type driveMeta struct {
	Seeds      []int64  `json:"seeds"`
	TraceLines []int    `json:"trace_lines"`
	Errors     []string `json:"errors"`
	WallS      float64  `json:"wall_s"`
}

func cmdDrive(args []string) int {
	fs := flag.NewFlagSet("drive", flag.ExitOnError)
	seed := fs.Int64("seed", 1, "seed")
	n := fs.Int("n", 50, "number of random walks")
	out := fs.String("out", "", "trace ndjson")
	meta := fs.String("meta", "", "meta json")
	only := fs.Int("only", -1, "only this walk")
	par := fs.Int("par", 16, "walks in flight")
	base := fs.String("tmp", "/dev/shm", "directory for unix sockets")
	_ = fs.Parse(args)
	if err := checkConcretization(); err != nil {
		fmt.Fprintln(os.Stderr, "concretization:", err)
		return 2
	}
	sock, err := os.MkdirTemp(*base, "cb")
	if err != nil {
		fmt.Fprintln(os.Stderr, err)
		return 2
	}
	defer os.RemoveAll(sock)
	t0 := time.Now()
	traces := make([][]TLine, *n)
	m := driveMeta{Seeds: []int64{}, TraceLines: []int{}, Errors: []string{}}
	var mu sync.Mutex
	sem := make(chan struct{}, *par)
	var wg sync.WaitGroup
	for i := 0; i < *n; i++ {
		if *only >= 0 && i != *only {
			continue
		}
		wg.Add(1)
		sem <- struct{}{}
		go func(i int) {
			defer wg.Done()
			defer func() { <-sem }()
			tr, err := driveOne(sock, *seed*100003+int64(i))
			mu.Lock()
			defer mu.Unlock()
			if err != nil {
				m.Errors = append(m.Errors, fmt.Sprintf("walk %d: %v", i, err))
				return
			}
			traces[i] = tr
		}(i)
	}
	wg.Wait()
	f, err := os.Create(*out)
	if err != nil {
		fmt.Fprintln(os.Stderr, err)
		return 2
	}
	bw := bufio.NewWriterSize(f, 1<<20)
	for i, tr := range traces {
		if tr != nil {
			writeTrace(bw, tr)
			m.Seeds = append(m.Seeds, int64(i))
			m.TraceLines = append(m.TraceLines, len(tr))
		}
	}
	bw.Flush()
	f.Close()
	m.WallS = time.Since(t0).Seconds()
	js, _ := json.MarshalIndent(m, "", " ")
	if *meta != "" {
		_ = os.WriteFile(*meta, js, 0o644)
	}
	return 0
}

func main() {
	slog.SetDefault(slog.New(slog.NewTextHandler(io.Discard, nil)))
	if len(os.Args) < 2 {
		fmt.Fprintln(os.Stderr, "usage: clientbatch replay|drive ...")
		os.Exit(2)
	}
	switch os.Args[1] {
	case "replay":
		os.Exit(cmdReplay(os.Args[2:]))
	case "drive":
		os.Exit(cmdDrive(os.Args[2:]))
	}
	fmt.Fprintln(os.Stderr, "unknown command", os.Args[1])
	os.Exit(2)
}
