package main

import (
	"fmt"
	"strconv"
	"strings"
	"sync"

	"github.com/oxia-db/oxia/common/compare"
	"github.com/oxia-db/oxia/common/hash"
)

// ---------------------------------------------------------------------------------------------
// Records shared with spec/ClientBatch*.tla (field names = JSON names = TLA+ record fields)
// ---------------------------------------------------------------------------------------------

// Tmpl is a call template (ClientBatch.tla: t = [op, cmp, pk, sh, size, tbl]).
type Tmpl struct {
	Op   string `json:"op"`
	Cmp  string `json:"cmp"`
	Pk   bool   `json:"pk"`
	Sh   int    `json:"sh"`
	Size int    `json:"size"`
	Tbl  int    `json:"tbl"`
}

// AnsRec is an answer / result record (ClientBatch.tla: Rec(st, c, s, key)).
type AnsRec struct {
	St  string `json:"st"`
	C   int    `json:"c"`
	S   int    `json:"s"`
	Key []int  `json:"key"`
}

type Cfg struct {
	N        int   `json:"n"`
	MaxReq   int   `json:"maxReq"`
	MaxBytes int   `json:"maxBytes"`
	Linger   bool  `json:"linger"`
	Dead     []int `json:"dead"`
	Tmo      bool  `json:"tmo"` // the request timeout is short: it fires while a leader sits on a request
}

// Obs is the observable state the specification records (ClientBatchMC.tla: ObsNow / ObsNext).
type Obs struct {
	Fly  []map[string][]int `json:"fly"`  // fly[s-1]["w"|"r"] = call ids of the request the server holds
	Done []int              `json:"done"` // completions per call
	Res  []AnsRec           `json:"res"`  // result of a batched call
	Out  [][][]int          `json:"out"`  // items delivered by a list / scan call
	Sent [][]int            `json:"sent"` // sent[c-1][s-1]: how often the request of call c reached shard s
	Late [][][]int          `json:"late"` // late[s-1]: write requests the leader still holds whose client-side wait timed out
}

type Step struct {
	A   string `json:"a"`
	C   int    `json:"c"`
	S   int    `json:"s"`
	K   string `json:"k"`
	T   Tmpl   `json:"t"`
	Key []int  `json:"key"`
	How string `json:"how"`
	N   int    `json:"n"`
	Pre *Obs   `json:"pre,omitempty"`
}

// Behaviour is one line exported by TLC (STEP / RUN).
type Behaviour struct {
	Cfg   Cfg    `json:"cfg"`
	Steps []Step `json:"steps"`
	Post  *Obs   `json:"post"`
}

// TLine is one line of a recorded trace (ClientBatchTrace.tla); every field on every line.
type TLine struct {
	A   string `json:"a"`
	C   int    `json:"c"`
	S   int    `json:"s"`
	K   string `json:"k"`
	T   Tmpl   `json:"t"`
	P   []int  `json:"p"`
	D   []int  `json:"d"`
	R   []int  `json:"r"`
	Res AnsRec `json:"res"`
	Key []int  `json:"key"`
	How string `json:"how"`
	N   int    `json:"n"`
	Cfg Cfg    `json:"cfg"`
}

func noRec() AnsRec { return AnsRec{St: "none", Key: []int{}} }

func (l *TLine) norm() {
	if l.P == nil {
		l.P = []int{}
	}
	if l.D == nil {
		l.D = []int{}
	}
	if l.R == nil {
		l.R = []int{}
	}
	if l.Key == nil {
		l.Key = []int{}
	}
	if l.Res.Key == nil {
		l.Res.Key = []int{}
	}
	if l.Res.St == "" {
		l.Res.St = "none"
	}
	if l.Cfg.Dead == nil {
		l.Cfg.Dead = []int{}
	}
}

func (t Tmpl) fanout() bool {
	return !t.Pk && (t.Op == "delrange" || t.Op == "list" || t.Op == "scan" || (t.Op == "get" && t.Cmp != "EQ"))
}
func (t Tmpl) kind() string {
	switch t.Op {
	case "put", "del", "delrange":
		return "w"
	case "get":
		return "r"
	}
	return "s"
}
func (t Tmpl) stream() bool { return t.Op == "list" || t.Op == "scan" }

func (t Tmpl) targets(n int) []int {
	if t.fanout() {
		r := make([]int, n)
		for i := range r {
			r[i] = i + 1
		}
		return r
	}
	return []int{t.Sh}
}

// ---------------------------------------------------------------------------------------------
// Keys: abstract (segments) <-> concrete strings.  Must mirror ClientBatch.tla: KeyList, Owner,
// MGTable, DelStatus.
// ---------------------------------------------------------------------------------------------

var keyList = [][]int{{1}, {2}, {1, 1}, {1, 2}, {2, 1}, {1, 1, 1}, {1, 1, 2}, {1, 2, 1}, {2, 1, 1}, {3}, {1, 3}, {3, 1}}

var errItem = []int{0}

func ownerOfIdx(idx1, n int) int { return (idx1-1)%n + 1 }

func mgTable(tbl, s int) []int {
	var cand [3]int
	switch tbl {
	case 1:
		cand = [3]int{2, 3, 6}
	case 2:
		cand = [3]int{4, 0, 1}
	case 3:
		cand = [3]int{0, 5, 10}
	}
	if s < 1 || s > 3 || cand[s-1] == 0 {
		return nil
	}
	return keyList[cand[s-1]-1]
}

func delStatus(c int) string {
	switch c % 3 {
	case 0:
		return "ok"
	case 1:
		return "notfound"
	}
	return "badversion"
}

// segPart renders the segments: <<1,2>> -> "a/b"
func segPart(k []int) string {
	p := make([]string, len(k))
	for i, x := range k {
		p[i] = string(rune('a' + x - 1))
	}
	return strings.Join(p, "/")
}

// concKey is the record key a fake server returns for abstract key k in the result of call c.
// The suffix "#c" ('#' < '/') ties a record to its call without changing either order.
func concKey(k []int, c int) string { return segPart(k) + "#" + strconv.Itoa(c) }

// absKey inverts concKey; ok=false for anything that is not one of our record keys.
func absKey(s string) (k []int, c int, ok bool) {
	i := strings.LastIndexByte(s, '#')
	if i < 0 {
		return nil, 0, false
	}
	c, err := strconv.Atoi(s[i+1:])
	if err != nil {
		return nil, 0, false
	}
	for _, p := range strings.Split(s[:i], "/") {
		if len(p) != 1 || p[0] < 'a' || p[0] > 'z' {
			return nil, 0, false
		}
		k = append(k, int(p[0]-'a')+1)
	}
	return k, c, true
}

// slashCmp is the specification's SlashCmp (used only to cross-check the concretization against
// common/compare.CompareWithSlash at start-up).
func slashCmp(a, b []int) int {
	cmp := func(x, y int) int {
		if x < y {
			return -1
		} else if x > y {
			return 1
		}
		return 0
	}
	for {
		switch {
		case len(a) == 1 && len(b) == 1:
			return cmp(a[0], b[0])
		case len(a) == 1:
			return -1
		case len(b) == 1:
			return 1
		case a[0] != b[0]:
			return cmp(a[0], b[0])
		}
		a, b = a[1:], b[1:]
	}
}

// checkConcretization: the concrete strings are ordered by the real comparator exactly as the
// abstract keys are by the specification's SlashCmp, and the error item (empty key) sorts first.
func checkConcretization() error {
	for i, a := range keyList {
		if compare.CompareWithSlash([]byte(""), []byte(concKey(a, 7))) >= 0 {
			return fmt.Errorf("empty key does not sort before %q", concKey(a, 7))
		}
		for j, b := range keyList {
			got := compare.CompareWithSlash([]byte(concKey(a, 7)), []byte(concKey(b, 7)))
			want := slashCmp(a, b)
			if (got < 0) != (want < 0) || (got > 0) != (want > 0) {
				return fmt.Errorf("CompareWithSlash(%q,%q)=%d but SlashCmp(KeyList[%d],KeyList[%d])=%d",
					concKey(a, 7), concKey(b, 7), got, i+1, j+1, want)
			}
		}
	}
	return nil
}

// ---------------------------------------------------------------------------------------------
// Routing: request keys "kNNN-xyz" (8 bytes) whose xxh3 hash falls into the hash range of the
// wanted shard; partition keys likewise.
// ---------------------------------------------------------------------------------------------

func hashRange(s, n int) (lo, hi uint32) {
	span := uint64(1) << 32
	l := span * uint64(s-1) / uint64(n)
	h := span*uint64(s)/uint64(n) - 1
	return uint32(l), uint32(h)
}

func shardOf(key string, n int) int {
	h := hash.Xxh332(key)
	for s := 1; s <= n; s++ {
		lo, hi := hashRange(s, n)
		if lo <= h && h <= hi {
			return s
		}
	}
	panic("hash ranges do not cover")
}

const sufAlphabet = "abcdefghijklmnopqrstuvwxyz0123456789"

// routedKey returns prefix+3 chars hashing to shard sh of n.
func routedKey(prefix string, sh, n int) string {
	for i := 0; i < len(sufAlphabet)*len(sufAlphabet)*len(sufAlphabet); i++ {
		suf := string([]byte{sufAlphabet[i%36], sufAlphabet[(i/36)%36], sufAlphabet[(i/1296)%36]})
		if shardOf(prefix+suf, n) == sh {
			return prefix + suf
		}
	}
	panic("no key found for shard")
}

var pkCache sync.Map

func partitionKeyFor(sh, n int) string {
	id := fmt.Sprintf("%d/%d", sh, n)
	if v, ok := pkCache.Load(id); ok {
		return v.(string)
	}
	k := routedKey("pk-", sh, n)
	pkCache.Store(id, k)
	return k
}

func callPrefix(c int) string { return fmt.Sprintf("k%03d-", c) }

// callOfKey parses the call id out of a request key ("kNNN-...").
func callOfKey(key string) int {
	if len(key) < 5 || key[0] != 'k' || key[4] != '-' {
		return -1
	}
	c, err := strconv.Atoi(key[1:4])
	if err != nil {
		return -1
	}
	return c
}

func eqInts(a, b []int) bool {
	if len(a) != len(b) {
		return false
	}
	for i := range a {
		if a[i] != b[i] {
			return false
		}
	}
	return true
}

func eqRec(a, b AnsRec) bool {
	return a.St == b.St && a.C == b.C && a.S == b.S && eqInts(a.Key, b.Key)
}
