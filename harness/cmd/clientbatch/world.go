package main

import (
	"context"
	"errors"
	"fmt"
	"math/rand"
	"net"
	"os"
	"path/filepath"
	"strconv"
	"strings"
	"sync"
	"time"

	"google.golang.org/grpc"
	"google.golang.org/grpc/codes"
	"google.golang.org/grpc/metadata"
	"google.golang.org/grpc/status"

	"github.com/oxia-db/oxia/common/constant"
	"github.com/oxia-db/oxia/oxia"
	"github.com/oxia-db/oxia/proto"
)

// ---------------------------------------------------------------------------------------------
// world = one real client (public API) + the fake shard leaders it talks to, all owned by the
// harness.  Every observable event is appended to `trace` under `mu`, i.e. in one total order in
// which an event is logged after its cause and before its effect can be observed:
//   Issue   before the client method is called
//   Batch   when the request has arrived at the server
//   Respond / Fail / SEmit / SEnd   before the server is told to send
//   Done / Out / Closed   when the application side receives from the result channel
// ---------------------------------------------------------------------------------------------

type pkey struct {
	s int
	k string
}
type skey struct{ c, s int }

// what the scheduler tells a server to do with the request it holds
const (
	ansOK    = iota // answer every request of every list
	ansFail         // end the attempt with an error the client does not retry (Internal)
	ansBreak        // stream the first n responses, then end the attempt with a retriable error (Unavailable)
)

type answerCmd struct {
	mode, n int
}

type pendBatch struct {
	s       int
	k       string
	p, d, r []int
	cmd     chan answerCmd
	at      time.Time // when the leader received it
	sid     int64     // write requests: the write stream (one server-side handler) it arrived on; reads 0
}

const (
	cmdEmit = iota
	cmdEOF
	cmdErr
)

type streamCmd struct {
	kind int
	key  []int
}

type srvStream struct {
	c, s  int
	cmd   chan streamCmd
	last  int // index into keyList order of the last emitted key (by slash order rank), -1 none
	nemit int
	ended bool
}

type callState struct {
	t      Tmpl
	vals   []AnsRec // values received on the result channel of a batched call
	out    [][]int  // items received on a list / scan channel
	closed int      // list / scan: the channel was closed
	chEnd  bool     // batched: result channel closed
}

func (cs *callState) doneCount() int {
	if cs.t.stream() {
		return cs.closed
	}
	return len(cs.vals)
}

type world struct {
	mu     sync.Mutex
	cond   *sync.Cond
	cfg    Cfg
	linger time.Duration
	dir    string
	srv    *grpc.Server
	addrs  []string
	client oxia.AsyncClient
	ctx    context.Context
	cancel context.CancelFunc

	calls   []*callState
	sent    map[skey]int // how often the request of call c reached the server of shard s
	pend    map[pkey][]*pendBatch
	streams map[skey]*srvStream
	trace   []TLine
	tracing bool
	anomaly []string
	rng     *rand.Rand
	stopTk  chan struct{}

	reqTimeout time.Duration  // the client's request timeout (short in a cfg.Tmo world)
	nextSid    int64          // write streams opened so far
	closedSid  map[int64]bool // write streams whose server-side handler has returned (or is about to)
}

func isDead(cfg Cfg, s int) bool {
	for _, d := range cfg.Dead {
		if d == s {
			return true
		}
	}
	return false
}

var worldSeq int64
var worldSeqMu sync.Mutex

// newWorld: tmo is the request timeout of a cfg.Tmo world (real time, like linger); otherwise the timeout
// is so long (60 s) that it never fires.
func newWorld(base string, cfg Cfg, linger time.Duration, seed int64, tmo time.Duration) (*world, error) {
	worldSeqMu.Lock()
	worldSeq++
	id := worldSeq
	worldSeqMu.Unlock()
	w := &world{cfg: cfg, linger: linger, pend: map[pkey][]*pendBatch{}, streams: map[skey]*srvStream{}, sent: map[skey]int{},
		tracing: true, rng: rand.New(rand.NewSource(seed)), stopTk: make(chan struct{}), closedSid: map[int64]bool{},
		reqTimeout: 60 * time.Second}
	if cfg.Tmo && tmo > 0 {
		w.reqTimeout = tmo
	}
	if w.cfg.Dead == nil {
		w.cfg.Dead = []int{}
	}
	w.cond = sync.NewCond(&w.mu)
	w.ctx, w.cancel = context.WithCancel(context.Background())
	w.dir = filepath.Join(base, fmt.Sprintf("w%d-%d", os.Getpid(), id))
	if err := os.MkdirAll(w.dir, 0o755); err != nil {
		return nil, err
	}
	w.srv = grpc.NewServer()
	proto.RegisterOxiaClientServer(w.srv, &fakeLeader{w: w})
	service := ""
	for s := 1; s <= cfg.N; s++ {
		path := filepath.Join(w.dir, fmt.Sprintf("s%d.sock", s))
		w.addrs = append(w.addrs, "unix://"+path)
		if isDead(cfg, s) {
			continue // nobody listens: connection refused, ExecuteList / ExecuteRangeScan fail
		}
		lis, err := net.Listen("unix", path)
		if err != nil {
			return nil, err
		}
		if service == "" {
			service = "unix://" + path
		}
		go func() { _ = w.srv.Serve(lis) }()
	}
	if service == "" {
		return nil, errors.New("no live shard")
	}
	go func() {
		tk := time.NewTicker(10 * time.Millisecond)
		defer tk.Stop()
		for {
			select {
			case <-tk.C:
				w.cond.Broadcast()
			case <-w.stopTk:
				return
			}
		}
	}()
	w.log(TLine{A: "Reset", Cfg: w.cfg})
	var cl oxia.AsyncClient
	var err error
	for attempt := 0; ; attempt++ {
		cl, err = oxia.NewAsyncClient(service,
			oxia.WithBatchLinger(linger),
			oxia.WithMaxRequestsPerBatch(cfg.MaxReq),
			oxia.VerifWithMaxBatchSize(cfg.MaxBytes),
			oxia.WithRequestTimeout(w.reqTimeout))
		// the request timeout also bounds the retrieval of the initial shard assignments: with a short one the
		// creation itself can time out on a busy machine - that is not what is being examined, try again
		if err == nil || !cfg.Tmo || attempt >= 40 {
			break
		}
	}
	if err != nil {
		w.close()
		return nil, err
	}
	w.client = cl
	return w, nil
}

func (w *world) close() {
	w.mu.Lock()
	w.tracing = false
	w.mu.Unlock()
	done := make(chan struct{})
	go func() {
		if w.client != nil {
			_ = w.client.Close()
		}
		w.cancel()
		w.srv.Stop()
		close(done)
	}()
	select {
	case <-done:
	case <-time.After(10 * time.Second):
	}
	close(w.stopTk)
	_ = os.RemoveAll(w.dir)
}

// log appends a trace line; the caller may or may not hold mu (use logLocked when holding it).
func (w *world) log(l TLine) {
	w.mu.Lock()
	w.logLocked(l)
	w.mu.Unlock()
}

func (w *world) logLocked(l TLine) {
	if !w.tracing {
		return
	}
	l.norm()
	w.trace = append(w.trace, l)
	w.cond.Broadcast()
}

// waitUntil waits (holding mu while evaluating pred) until pred holds or d elapsed.
func (w *world) waitUntil(d time.Duration, pred func() bool) bool {
	deadline := time.Now().Add(d)
	w.mu.Lock()
	defer w.mu.Unlock()
	for !pred() {
		if time.Now().After(deadline) {
			return false
		}
		w.cond.Wait()
	}
	return true
}

// ---------------------------------------------------------------------------------------------
// the application side: issuing calls and watching result channels
// ---------------------------------------------------------------------------------------------

func classify(err error) string {
	switch {
	case err == nil:
		return "ok"
	case errors.Is(err, context.DeadlineExceeded) || status.Code(err) == codes.DeadlineExceeded:
		return "timeout" // the client-side wait ended (WithRequestTimeout)
	case errors.Is(err, oxia.ErrKeyNotFound):
		return "notfound"
	case errors.Is(err, oxia.ErrUnexpectedVersionId):
		return "badversion"
	}
	return "err"
}

func (w *world) recordVal(c int, r AnsRec) {
	if r.Key == nil {
		r.Key = []int{}
	}
	w.mu.Lock()
	if r.St == "timeout" {
		// A timeout is the end of the wait for a request that was sent; the leader's report of that request
		// (Batch) is logged by another goroutine and must not be overtaken by this line (every line is logged
		// after its cause): hold it back until the request of the call has been reported.
		cs := w.calls[c-1]
		deadline := time.Now().Add(300 * time.Millisecond)
		for time.Now().Before(deadline) {
			all := true
			for _, s := range cs.t.targets(w.cfg.N) {
				if w.sent[skey{c, s}] == 0 {
					all = false
				}
			}
			if all {
				break
			}
			w.cond.Wait()
		}
	}
	w.calls[c-1].vals = append(w.calls[c-1].vals, r)
	w.logLocked(TLine{A: "Done", C: c, Res: r})
	w.mu.Unlock()
}

func (w *world) recordItem(c int, item []int) {
	w.mu.Lock()
	w.calls[c-1].out = append(w.calls[c-1].out, item)
	w.logLocked(TLine{A: "Out", C: c, Key: item})
	w.mu.Unlock()
}

func (w *world) recordClosed(c int) {
	w.mu.Lock()
	cs := w.calls[c-1]
	if cs.t.stream() {
		cs.closed++
		w.logLocked(TLine{A: "Closed", C: c})
	} else {
		cs.chEnd = true
		w.cond.Broadcast()
	}
	w.mu.Unlock()
}

func decodeVersion(v int64) (c, s int) { return int(v / 10), int(v % 10) }

// decodeGet turns what the application received into the specification's result record.
func decodeGet(c int, t Tmpl, gr oxia.GetResult) AnsRec {
	if gr.Err != nil {
		return AnsRec{St: classify(gr.Err)}
	}
	rc, rs := decodeVersion(gr.Version.VersionId)
	r := AnsRec{St: "ok", C: rc, S: rs}
	if parts := strings.Split(string(gr.Value), ":"); len(parts) == 2 {
		vc, _ := strconv.Atoi(parts[0])
		vs, _ := strconv.Atoi(parts[1])
		if vc != rc || vs != rs {
			r.St = "garbled"
		}
	} else {
		r.St = "garbled"
	}
	if t.fanout() {
		k, kc, ok := absKey(gr.Key)
		if !ok || kc != rc {
			r.St = "garbled"
		}
		r.Key = k
	}
	return r
}

// issue performs call c = len(calls)+1 on the real client.
func (w *world) issue(t Tmpl) int {
	w.mu.Lock()
	c := len(w.calls) + 1
	w.calls = append(w.calls, &callState{t: t})
	w.logLocked(TLine{A: "Issue", C: c, T: t})
	w.mu.Unlock()

	n := w.cfg.N
	var key string
	var base []oxia.BaseOption
	if t.Pk {
		key = callPrefix(c) + "pk0"
		base = append(base, oxia.PartitionKey(partitionKeyFor(t.Sh, n)))
	} else if !t.fanout() {
		key = routedKey(callPrefix(c), t.Sh, n)
	} else {
		key = callPrefix(c) + "aaa"
	}
	lo, hi := callPrefix(c)+"aaa", callPrefix(c)+"zzz"

	switch t.Op {
	case "put":
		vlen := t.Size - len(key)
		if vlen < 0 {
			vlen = 0
		}
		var opts []oxia.PutOption
		for _, b := range base {
			opts = append(opts, b)
		}
		ch := w.client.Put(key, make([]byte, vlen), opts...)
		go func() {
			for r := range ch {
				if r.Err != nil {
					w.recordVal(c, AnsRec{St: classify(r.Err)})
					continue
				}
				rc, rs := decodeVersion(r.Version.VersionId)
				w.recordVal(c, AnsRec{St: "ok", C: rc, S: rs})
			}
			w.recordClosed(c)
		}()
	case "del":
		var opts []oxia.DeleteOption
		for _, b := range base {
			opts = append(opts, b)
		}
		ch := w.client.Delete(key, opts...)
		go func() {
			for err := range ch {
				w.recordVal(c, AnsRec{St: classify(err)})
			}
			w.recordClosed(c)
		}()
	case "delrange":
		var opts []oxia.DeleteRangeOption
		for _, b := range base {
			opts = append(opts, b)
		}
		ch := w.client.DeleteRange(lo, hi, opts...)
		go func() {
			for err := range ch {
				w.recordVal(c, AnsRec{St: classify(err)})
			}
			w.recordClosed(c)
		}()
	case "get":
		var opts []oxia.GetOption
		for _, b := range base {
			opts = append(opts, b)
		}
		switch t.Cmp {
		case "FLOOR":
			opts = append(opts, oxia.ComparisonFloor())
		case "CEILING":
			opts = append(opts, oxia.ComparisonCeiling())
		case "LOWER":
			opts = append(opts, oxia.ComparisonLower())
		case "HIGHER":
			opts = append(opts, oxia.ComparisonHigher())
		}
		ch := w.client.Get(key, opts...)
		go func() {
			for gr := range ch {
				w.recordVal(c, decodeGet(c, t, gr))
			}
			w.recordClosed(c)
		}()
	case "list":
		var opts []oxia.ListOption
		for _, b := range base {
			opts = append(opts, b)
		}
		ch := w.client.List(w.ctx, lo, hi, opts...)
		go func() {
			for lr := range ch {
				if lr.Err != nil {
					w.recordItem(c, errItem)
					continue
				}
				for _, k := range lr.Keys {
					w.recordItem(c, w.itemOf(c, k))
				}
			}
			w.recordClosed(c)
		}()
	case "scan":
		var opts []oxia.RangeScanOption
		for _, b := range base {
			opts = append(opts, b)
		}
		ch := w.client.RangeScan(w.ctx, lo, hi, opts...)
		go func() {
			for gr := range ch {
				if gr.Err != nil {
					w.recordItem(c, errItem)
					continue
				}
				item := w.itemOf(c, gr.Key)
				if string(gr.Value) != fmt.Sprintf("%d", c) {
					item = []int{99} // a record of another call
				}
				w.recordItem(c, item)
			}
			w.recordClosed(c)
		}()
	default:
		panic("unknown op " + t.Op)
	}
	return c
}

// itemOf maps a delivered record key back to the abstract key; <<99>> = not a record of this call.
func (w *world) itemOf(c int, key string) []int {
	k, kc, ok := absKey(key)
	if !ok || kc != c {
		return []int{99}
	}
	return k
}

// ---------------------------------------------------------------------------------------------
// the fake shard leaders
// ---------------------------------------------------------------------------------------------

type fakeLeader struct {
	proto.UnimplementedOxiaClientServer
	w *world
}

func (f *fakeLeader) GetShardAssignments(_ *proto.ShardAssignmentsRequest, stream proto.OxiaClient_GetShardAssignmentsServer) error {
	w := f.w
	as := make([]*proto.ShardAssignment, 0, w.cfg.N)
	for s := 1; s <= w.cfg.N; s++ {
		lo, hi := hashRange(s, w.cfg.N)
		as = append(as, &proto.ShardAssignment{Shard: int64(s), Leader: w.addrs[s-1],
			ShardBoundaries: &proto.ShardAssignment_Int32HashRange{Int32HashRange: &proto.Int32HashRange{
				MinHashInclusive: lo, MaxHashInclusive: hi}}})
	}
	if err := stream.Send(&proto.ShardAssignments{Namespaces: map[string]*proto.NamespaceShardsAssignment{
		"default": {Assignments: as, ShardKeyRouter: proto.ShardKeyRouter_XXHASH3}}}); err != nil {
		return err
	}
	<-stream.Context().Done()
	return nil
}

func (*fakeLeader) CreateSession(context.Context, *proto.CreateSessionRequest) (*proto.CreateSessionResponse, error) {
	return &proto.CreateSessionResponse{SessionId: 1}, nil
}
func (*fakeLeader) KeepAlive(context.Context, *proto.SessionHeartbeat) (*proto.KeepAliveResponse, error) {
	return &proto.KeepAliveResponse{}, nil
}
func (*fakeLeader) CloseSession(context.Context, *proto.CloseSessionRequest) (*proto.CloseSessionResponse, error) {
	return &proto.CloseSessionResponse{}, nil
}

// register records the arrival of a request and returns the handle the scheduler answers through.
// A write request that arrives on a write stream whose handler is gone is not recorded (nil): nobody will
// ever answer it, the client fails it when it notices the end of the stream.
func (w *world) register(s int, k string, p, d, r []int, sid int64) *pendBatch {
	pb := &pendBatch{s: s, k: k, p: p, d: d, r: r, cmd: make(chan answerCmd, 1), sid: sid, at: time.Now()}
	w.mu.Lock()
	if sid != 0 && w.closedSid[sid] {
		w.mu.Unlock()
		return nil
	}
	w.pend[pkey{s, k}] = append(w.pend[pkey{s, k}], pb)
	for _, l := range [][]int{p, d, r} {
		for _, c := range l {
			w.sent[skey{c, s}]++
		}
	}
	w.logLocked(TLine{A: "Batch", S: s, K: k, P: p, D: d, R: r})
	w.mu.Unlock()
	return pb
}

func (w *world) tmplOf(c int) (Tmpl, bool) {
	w.mu.Lock()
	defer w.mu.Unlock()
	if c < 1 || c > len(w.calls) {
		return Tmpl{}, false
	}
	return w.calls[c-1].t, true
}

func statusOf(st string) proto.Status {
	switch st {
	case "ok":
		return proto.Status_OK
	case "notfound":
		return proto.Status_KEY_NOT_FOUND
	}
	return proto.Status_UNEXPECTED_VERSION_ID
}

func (f *fakeLeader) WriteStream(stream proto.OxiaClient_WriteStreamServer) error {
	w := f.w
	md, _ := metadata.FromIncomingContext(stream.Context())
	sv := md.Get(constant.MetadataShardId)
	if len(sv) != 1 {
		return status.Error(codes.InvalidArgument, "no shard id")
	}
	s, _ := strconv.Atoi(sv[0])
	w.mu.Lock()
	w.nextSid++
	sid := w.nextSid
	w.mu.Unlock()
	// whatever this stream still holds unanswered when the handler returns is gone with it
	defer w.closeWriteStream(s, sid)
	// The requests are received (and reported) as they arrive, also while earlier ones sit unanswered: a
	// client whose wait for a request timed out sends the next one on the same stream.  They are answered
	// strictly in order, like a real leader does.
	in := make(chan *pendBatch, 256)
	go func() {
		defer close(in)
		for {
			req, err := stream.Recv()
			if err != nil {
				return
			}
			var p, d, r []int
			for _, x := range req.Puts {
				p = append(p, callOfKey(x.Key))
			}
			for _, x := range req.Deletes {
				d = append(d, callOfKey(x.Key))
			}
			for _, x := range req.DeleteRanges {
				r = append(r, callOfKey(x.StartInclusive))
			}
			pb := w.register(s, "w", p, d, r, sid)
			if pb == nil {
				return
			}
			in <- pb
		}
	}()
	for {
		var pb *pendBatch
		var open bool
		select {
		case pb, open = <-in:
			if !open {
				return nil
			}
		case <-stream.Context().Done():
			return nil
		}
		p, d, r := pb.p, pb.d, pb.r
		var cmd answerCmd
		select {
		case cmd = <-pb.cmd:
		case <-stream.Context().Done():
			return nil
		}
		switch cmd.mode {
		case ansFail:
			return status.Error(codes.Internal, "injected write failure")
		case ansBreak:
			// the request was received (a real leader may well have applied it); the response is lost
			return status.Error(codes.Unavailable, "injected: connection to the leader lost")
		}
		// a correct server: response i of every list answers request i of that list
		resp := &proto.WriteResponse{}
		for _, c := range p {
			resp.Puts = append(resp.Puts, &proto.PutResponse{Status: proto.Status_OK,
				Version: &proto.Version{VersionId: int64(c*10 + s)}})
		}
		for _, c := range d {
			resp.Deletes = append(resp.Deletes, &proto.DeleteResponse{Status: statusOf(delStatus(c))})
		}
		for _, c := range r {
			st := proto.Status_OK
			if t, found := w.tmplOf(c); found && !t.fanout() {
				st = statusOf(delStatus(c))
			}
			resp.DeleteRanges = append(resp.DeleteRanges, &proto.DeleteRangeResponse{Status: st})
		}
		if err := stream.Send(resp); err != nil {
			return nil
		}
	}
}

// closeWriteStream forgets the unanswered requests of a write stream that has ended.
func (w *world) closeWriteStream(s int, sid int64) {
	w.mu.Lock()
	w.closedSid[sid] = true
	w.dropStreamLocked(s, sid)
	w.cond.Broadcast()
	w.mu.Unlock()
}

func (w *world) dropStreamLocked(s int, sid int64) {
	l := w.pend[pkey{s, "w"}]
	keep := l[:0:0]
	for _, pb := range l {
		if pb.sid != sid {
			keep = append(keep, pb)
		}
	}
	w.pend[pkey{s, "w"}] = keep
}

func (f *fakeLeader) Read(req *proto.ReadRequest, stream proto.OxiaClient_ReadServer) error {
	w := f.w
	s := int(req.GetShard())
	var p []int
	for _, g := range req.Gets {
		p = append(p, callOfKey(g.Key))
	}
	pb := w.register(s, "r", p, nil, nil, 0)
	var cmd answerCmd
	select {
	case cmd = <-pb.cmd:
	case <-stream.Context().Done():
		// the client gave the RPC up (request timeout, close): nobody can answer it any more
		w.mu.Lock()
		l := w.pend[pkey{s, "r"}]
		for i := range l {
			if l[i] == pb {
				w.pend[pkey{s, "r"}] = append(l[:i:i], l[i+1:]...)
				break
			}
		}
		w.cond.Broadcast()
		w.mu.Unlock()
		return nil
	}
	ok := cmd.mode == ansOK
	var gets []*proto.GetResponse
	for _, c := range p {
		t, _ := w.tmplOf(c)
		val := []byte(fmt.Sprintf("%d:%d", c, s))
		g := &proto.GetResponse{Status: proto.Status_OK, Value: val, Version: &proto.Version{VersionId: int64(c*10 + s)}}
		if t.fanout() {
			k := mgTable(t.Tbl, s)
			if k == nil {
				g = &proto.GetResponse{Status: proto.Status_KEY_NOT_FOUND}
			} else {
				ck := concKey(k, c)
				g.Key = &ck
			}
		}
		gets = append(gets, g)
	}
	// the response may come in several messages (the client concatenates them)
	split := len(gets)
	if len(gets) >= 2 {
		split = 1 + (p[0] % len(gets))
	}
	if cmd.mode == ansBreak {
		// the first n responses are streamed (in one or two chunks), then the stream breaks with an
		// error the client retries (leader change in the middle of the stream)
		n := cmd.n
		if n > len(gets) {
			n = len(gets)
		}
		if n >= 2 && p[0]%2 == 1 {
			_ = stream.Send(&proto.ReadResponse{Gets: gets[:1]})
			_ = stream.Send(&proto.ReadResponse{Gets: gets[1:n]})
		} else if n >= 1 {
			_ = stream.Send(&proto.ReadResponse{Gets: gets[:n]})
		}
		return status.Error(codes.Unavailable, "injected: leader changed")
	}
	if !ok {
		// fail the request; sometimes after a first part has already been delivered
		if len(gets) >= 2 && p[0]%2 == 0 {
			_ = stream.Send(&proto.ReadResponse{Gets: gets[:1]})
		}
		return status.Error(codes.Internal, "injected read failure")
	}
	if err := stream.Send(&proto.ReadResponse{Gets: gets[:split]}); err != nil {
		return nil
	}
	if split < len(gets) {
		if err := stream.Send(&proto.ReadResponse{Gets: gets[split:]}); err != nil {
			return nil
		}
	}
	return nil
}

func (w *world) openStream(c, s int) *srvStream {
	st := &srvStream{c: c, s: s, cmd: make(chan streamCmd, 64), last: -1}
	w.mu.Lock()
	if _, dup := w.streams[skey{c, s}]; dup {
		w.anomaly = append(w.anomaly, fmt.Sprintf("stream of call %d opened twice on shard %d", c, s))
	}
	w.streams[skey{c, s}] = st
	w.cond.Broadcast()
	w.mu.Unlock()
	return st
}

func (f *fakeLeader) List(req *proto.ListRequest, stream proto.OxiaClient_ListServer) error {
	c, s := callOfKey(req.StartInclusive), int(req.GetShard())
	st := f.w.openStream(c, s)
	for {
		select {
		case cmd := <-st.cmd:
			switch cmd.kind {
			case cmdEmit:
				if err := stream.Send(&proto.ListResponse{Keys: []string{concKey(cmd.key, c)}}); err != nil {
					return nil
				}
			case cmdEOF:
				return nil
			case cmdErr:
				return status.Error(codes.Internal, "injected list failure")
			}
		case <-stream.Context().Done():
			return nil
		}
	}
}

func (f *fakeLeader) RangeScan(req *proto.RangeScanRequest, stream proto.OxiaClient_RangeScanServer) error {
	c, s := callOfKey(req.StartInclusive), int(req.GetShard())
	st := f.w.openStream(c, s)
	for {
		select {
		case cmd := <-st.cmd:
			switch cmd.kind {
			case cmdEmit:
				ck := concKey(cmd.key, c)
				rec := &proto.GetResponse{Status: proto.Status_OK, Key: &ck, Value: []byte(strconv.Itoa(c)),
					Version: &proto.Version{VersionId: int64(c*10 + s)}}
				if err := stream.Send(&proto.RangeScanResponse{Records: []*proto.GetResponse{rec}}); err != nil {
					return nil
				}
			case cmdEOF:
				return nil
			case cmdErr:
				return status.Error(codes.Internal, "injected scan failure")
			}
		case <-stream.Context().Done():
			return nil
		}
	}
}

// ---------------------------------------------------------------------------------------------
// scheduler primitives (what the replayer / driver does to the servers)
// ---------------------------------------------------------------------------------------------

// answer makes the server of (s,k) answer (ansOK), fail (ansFail) or break after n responses (ansBreak)
// the request it holds. Caller must not hold mu.
func (w *world) answer(s int, k string, mode, n int) bool {
	w.mu.Lock()
	l := w.pend[pkey{s, k}]
	if len(l) == 0 {
		w.mu.Unlock()
		return false
	}
	pb := l[0]
	w.pend[pkey{s, k}] = l[1:]
	a := [...]string{"Respond", "Fail", "Break"}[mode]
	if mode != ansBreak || k == "w" {
		n = 0
	}
	if k == "w" && mode != ansOK {
		// the handler ends the write stream: everything it holds (abandoned requests and the one in flight)
		// goes with it, and nothing more is accepted on it
		w.closedSid[pb.sid] = true
		w.dropStreamLocked(s, pb.sid)
	}
	// the line names the request (the head of the leader's queue of that stream), not just the shard
	w.logLocked(TLine{A: a, S: s, K: k, N: n, P: pb.p, D: pb.d, R: pb.r})
	w.mu.Unlock()
	pb.cmd <- answerCmd{mode, n}
	return true
}

func (w *world) streamOf(c, s int, wait time.Duration) *srvStream {
	var st *srvStream
	w.waitUntil(wait, func() bool { st = w.streams[skey{c, s}]; return st != nil })
	return st
}

func (w *world) emit(st *srvStream, key []int) {
	w.mu.Lock()
	st.nemit++
	w.logLocked(TLine{A: "SEmit", C: st.c, S: st.s, Key: key})
	w.mu.Unlock()
	st.cmd <- streamCmd{kind: cmdEmit, key: key}
}

func (w *world) end(st *srvStream, how string) {
	w.mu.Lock()
	if st.ended {
		w.mu.Unlock()
		return
	}
	st.ended = true
	w.logLocked(TLine{A: "SEnd", C: st.c, S: st.s, How: how})
	w.mu.Unlock()
	if how == "eof" {
		st.cmd <- streamCmd{kind: cmdEOF}
	} else {
		st.cmd <- streamCmd{kind: cmdErr}
	}
}

// finished: the result channel of the call has been closed (after that nothing can arrive on it)
func (cs *callState) finished() bool {
	if cs.t.stream() {
		return cs.closed >= 1
	}
	return cs.chEnd
}

func (w *world) allDoneLocked() bool {
	for _, cs := range w.calls {
		if !cs.finished() {
			return false
		}
	}
	return true
}

// drain answers everything that is or becomes pending and ends every stream until all calls have
// completed (or the deadline passes), then logs End.  Returns whether everything completed.
func (w *world) drain(d time.Duration) bool {
	deadline := time.Now().Add(d)
	for {
		w.mu.Lock()
		var todo []pkey
		for k, l := range w.pend {
			if len(l) > 0 {
				todo = append(todo, k)
			}
		}
		var sts []*srvStream
		for _, st := range w.streams {
			if !st.ended {
				sts = append(sts, st)
			}
		}
		all := w.allDoneLocked()
		w.mu.Unlock()
		for _, k := range todo {
			w.answer(k.s, k.k, ansOK, 0)
		}
		for _, st := range sts {
			w.end(st, "eof")
		}
		if all && len(todo) == 0 && len(sts) == 0 {
			break
		}
		if time.Now().After(deadline) {
			break
		}
		w.mu.Lock()
		w.cond.Wait()
		w.mu.Unlock()
	}
	w.mu.Lock()
	all := w.allDoneLocked()
	w.logLocked(TLine{A: "End"})
	w.tracing = false
	w.mu.Unlock()
	return all
}
