package main

import (
	"math/rand"
	"runtime"
	"sort"
	"time"
)

// slash-order rank of every KeyList entry (0 = smallest)
var rankOf = func() []int {
	idx := make([]int, len(keyList))
	for i := range idx {
		idx[i] = i
	}
	sort.Slice(idx, func(a, b int) bool { return slashCmp(keyList[idx[a]], keyList[idx[b]]) < 0 })
	r := make([]int, len(keyList))
	for rank, i := range idx {
		r[i] = rank
	}
	return r
}()

// nextKeys: keys shard s (of n) may still emit after a key of rank `last`, in ascending order
func nextKeys(s, n, last int) [][]int {
	var cand []int
	for i := range keyList {
		if ownerOfIdx(i+1, n) == s && rankOf[i] > last {
			cand = append(cand, i)
		}
	}
	sort.Slice(cand, func(a, b int) bool { return rankOf[cand[a]] < rankOf[cand[b]] })
	out := make([][]int, len(cand))
	for i, c := range cand {
		out[i] = keyList[c]
	}
	return out
}

func rankOfKey(k []int) int {
	for i, x := range keyList {
		if eqInts(x, k) {
			return rankOf[i]
		}
	}
	return -1
}

func randomCfg(rng *rand.Rand) (Cfg, time.Duration) {
	cfg := Cfg{N: 1 + rng.Intn(3), MaxReq: 1 + rng.Intn(5), Dead: []int{}}
	cfg.MaxBytes = []int{6, 9, 10, 15, 20, 24, 33, 64, 1000}[rng.Intn(9)]
	lingers := []time.Duration{0, 2 * time.Millisecond, 6 * time.Millisecond, 15 * time.Millisecond}
	lg := lingers[rng.Intn(len(lingers))]
	cfg.Linger = lg > 0
	if cfg.N >= 2 && rng.Intn(6) == 0 {
		cfg.Dead = []int{1 + rng.Intn(cfg.N)}
	}
	return cfg, lg
}

func randomTmpl(rng *rand.Rand, cfg Cfg) Tmpl {
	var live []int
	for s := 1; s <= cfg.N; s++ {
		if !isDead(cfg, s) {
			live = append(live, s)
		}
	}
	anyDead := len(cfg.Dead) > 0
	for {
		t := Tmpl{Cmp: "EQ", Pk: rng.Intn(2) == 0}
		op := rng.Intn(10)
		if cfg.Tmo {
			// a world whose request timeout fires: writes only (the write stream outlives a timed-out
			// request; a read is a single RPC that the timeout cancels)
			op = rng.Intn(5)
			if op == 4 && rng.Intn(2) == 0 {
				op = 0
			}
		}
		switch op {
		case 0, 1, 2:
			t.Op, t.Size = "put", 8+rng.Intn(30)
		case 3:
			t.Op, t.Size = "del", 8
		case 4:
			t.Op, t.Size = "delrange", 16
		case 5, 6, 7:
			t.Op = "get"
			t.Cmp = []string{"EQ", "EQ", "FLOOR", "CEILING", "LOWER", "HIGHER"}[rng.Intn(6)]
			t.Tbl = rng.Intn(4)
		case 8:
			t.Op = "list"
		default:
			t.Op = "scan"
		}
		if t.fanout() {
			if anyDead && !t.stream() {
				continue // batched requests to a dead leader are retried until the request timeout
			}
			t.Sh = 0
		} else if t.stream() {
			t.Sh = 1 + rng.Intn(cfg.N)
		} else {
			t.Sh = live[rng.Intn(len(live))]
		}
		if !(t.Op == "get" && t.fanout()) {
			t.Tbl = 0
		}
		return t
	}
}

// driveOne: a random walk of application + servers on a fresh real client; returns the recorded trace.
func driveOne(base string, seed int64) ([]TLine, error) {
	rng := rand.New(rand.NewSource(seed))
	cfg, lg := randomCfg(rng)
	// one walk in four runs with a request timeout short enough to fire whenever the scheduler leaves a
	// write request unanswered for a while (the leader is slow but alive, the write stream stays open)
	var tmo time.Duration
	if rng.Intn(4) == 0 {
		cfg.Tmo = true
		cfg.Dead = []int{}
		tmo = []time.Duration{50 * time.Millisecond, 80 * time.Millisecond, 120 * time.Millisecond}[rng.Intn(3)]
	}
	w, err := newWorld(base, cfg, lg, seed, tmo)
	if err != nil {
		return nil, err
	}
	defer w.close()
	maxCalls := 6 + rng.Intn(22)
	maxFail := rng.Intn(4)
	maxBreak := rng.Intn(4)
	nbreak := 0
	maxStream := rng.Intn(5)
	// never queue more calls than a batcher's channel holds, or the issuing goroutine would block
	capOut := runtime.GOMAXPROCS(-1) - 1
	if capOut > 8 {
		capOut = 8
	}
	if capOut < 1 {
		capOut = 1
	}
	nfail := 0
	start := time.Now()
	for iter := 0; iter < 4000 && time.Since(start) < 20*time.Second; iter++ {
		w.mu.Lock()
		issued := len(w.calls)
		outstanding := 0
		for _, cs := range w.calls {
			if !cs.finished() {
				outstanding++
			}
		}
		var pend []pkey
		for k, l := range w.pend {
			if len(l) > 0 {
				pend = append(pend, k)
			}
		}
		var open []*srvStream
		for _, st := range w.streams {
			if !st.ended {
				open = append(open, st)
			}
		}
		nlines := len(w.trace)
		w.mu.Unlock()
		sort.Slice(pend, func(a, b int) bool {
			if pend[a].s != pend[b].s {
				return pend[a].s < pend[b].s
			}
			return pend[a].k < pend[b].k
		})
		sort.Slice(open, func(a, b int) bool {
			if open[a].c != open[b].c {
				return open[a].c < open[b].c
			}
			return open[a].s < open[b].s
		})
		if issued >= maxCalls && outstanding == 0 {
			break
		}
		canIssue := issued < maxCalls && outstanding < capOut
		r := rng.Intn(10)
		switch {
		case cfg.Tmo && len(pend) > 0 && rng.Intn(6) == 0:
			// the leaders stay silent for about a request timeout: whatever is in flight may time out on the
			// client (wait for the next event, then go on; what really happened is in the trace)
			w.waitUntil(tmo+5*time.Millisecond, func() bool { return len(w.trace) > nlines })
		case canIssue && r < 4:
			w.issue(randomTmpl(rng, cfg))
		case len(pend) > 0 && r < 7:
			k := pend[rng.Intn(len(pend))]
			mode, n := ansOK, 0
			if cfg.Tmo {
				// only answers: ending a write stream while a request may be on its way to it is not
				// something the recording could order (replayed behaviours cover stream failures)
			} else if nfail < maxFail && rng.Intn(4) == 0 {
				mode = ansFail
				nfail++
			} else if nbreak < maxBreak && rng.Intn(4) == 0 {
				// retriable break after a prefix of the responses (reads are retried by the client)
				mode, n = ansBreak, rng.Intn(6)
				nbreak++
			}
			if mode == ansBreak && k.k == "r" {
				w.mu.Lock()
				if l := w.pend[k]; len(l) > 0 && n > len(l[0].p) {
					n = len(l[0].p)
				}
				w.mu.Unlock()
			}
			w.answer(k.s, k.k, mode, n)
		case len(open) > 0 && r < 9:
			st := open[rng.Intn(len(open))]
			cand := nextKeys(st.s, cfg.N, st.last)
			switch {
			case len(cand) > 0 && st.nemit < maxStream && rng.Intn(3) > 0:
				k := cand[rng.Intn((len(cand)+1)/2)]
				st.last = rankOfKey(k)
				w.emit(st, k)
			case nfail < maxFail && rng.Intn(4) == 0:
				nfail++
				w.end(st, "err")
			default:
				w.end(st, "eof")
			}
		default:
			// let the client run (linger timers): wait for any new event, briefly
			w.waitUntil(lg+2*time.Millisecond, func() bool { return len(w.trace) > nlines })
		}
	}
	w.drain(10 * time.Second)
	w.mu.Lock()
	tr := w.trace
	w.mu.Unlock()
	return tr, nil
}
