// walcheck binds spec/Wal.tla to the real server/wal package.
//
//	walcheck replay -in behaviours.ndjson -seg 128 -ret 2 -out result.json
//	    every input line is a JSON behaviour exported by TLC (a list of calls with the outcome and
//	    observable state the specification demands); each is executed on a fresh real WAL and every
//	    step compared.
//	walcheck drive -seed S -n N -ops K -seg 128 -ret 2 -out trace.ndjson
//	    random call sequences on the real WAL, recorded in the same record shape, for validation by
//	    WalTrace.tla.
package main

import (
	"context"
	"encoding/json"
	"errors"
	"flag"
	"fmt"
	"math/rand"
	"os"
	"reflect"
	"regexp"
	"strings"
	"time"

	pb "google.golang.org/protobuf/proto"

	"bufio"

	time2 "github.com/oxia-db/oxia/common/time"
	"github.com/oxia-db/oxia/proto"
	"github.com/oxia-db/oxia/server/wal"
	"github.com/oxia-db/oxia/server/wal/codec"
)

const t0 = int64(1_700_000_000_000) // real ms of abstract clock 0
const unit = int64(1000)

var tmpName = regexp.MustCompile(`\S*walcheck\d+\S*`)

var hangTimeout = 1500 * time.Millisecond

type ent struct {
	Term int64 `json:"term"`
	Ts   int64 `json:"ts"`
	Size int64 `json:"size"`
	Id   int64 `json:"id"`
}

// one call with what was observed (drive) or what is demanded (replay)
type step struct {
	A      string `json:"a"`
	Off    int64  `json:"off"`
	Size   int64  `json:"size"`
	Term   int64  `json:"term"`
	Id     int64  `json:"id"`
	Ts     int64  `json:"ts"`
	Commit int64  `json:"commit"`
	Now    int64  `json:"now"`
	N      int64  `json:"n"`
	Res    string `json:"res"`
	Ret    int64  `json:"ret"`
	First  int64  `json:"first"`
	Last   int64  `json:"last"`
	Vis    []ent  `json:"vis"`
}

type commitProv struct{ c int64 }

func (p *commitProv) CommitOffset() int64 { return p.c }

type sim struct {
	dir    string
	seg    int32
	ret    int64
	clock  *time2.MockedClock
	now    int64
	commit *commitProv
	w      wal.Wal
	hung   bool
}

func newSim(seg int32, ret int64) (*sim, error) {
	base := "/dev/shm"
	if _, err := os.Stat(base); err != nil {
		base = ""
	}
	dir, err := os.MkdirTemp(base, "walcheck")
	if err != nil {
		return nil, err
	}
	s := &sim{dir: dir, seg: seg, ret: ret, clock: &time2.MockedClock{}, commit: &commitProv{c: -1}}
	s.clock.Set(t0)
	return s, s.open()
}

func (s *sim) open() error {
	w, err := wal.VerifNewWal("default", 0, &wal.FactoryOptions{BaseWalDir: s.dir, SegmentSize: s.seg, SyncData: true,
		Retention: time.Duration(s.ret*unit) * time.Millisecond}, s.commit, s.clock, time.Hour)
	s.w = w
	return err
}

func (s *sim) close() {
	if s.hung {
		// a goroutine is stuck inside the WAL holding its lock: do not touch it again
		_ = os.RemoveAll(s.dir)
		return
	}
	defer func() {
		_ = recover() // a WAL left half-broken by a failed call may not survive Close; not our concern here
		_ = os.RemoveAll(s.dir)
	}()
	if s.w != nil {
		_ = s.w.Close()
	}
}

func value(id int64, l int) []byte {
	v := make([]byte, l)
	for i := range v {
		v[i] = byte((id*31 + int64(i)*7 + 1) & 0xff)
	}
	if l >= 2 {
		v[0], v[1] = byte(id>>8), byte(id)
	}
	return v
}

// mkEntry builds a LogEntry whose marshalled size is exactly size bytes.
func mkEntry(off, term, ts, id, size int64) (*proto.LogEntry, error) {
	e := &proto.LogEntry{Term: term, Offset: off, Timestamp: uint64(t0 + ts*unit)}
	for l := int(size); l >= 2; l-- {
		e.Value = value(id, l)
		b, err := pb.Marshal(e)
		if err != nil {
			return nil, err
		}
		if int64(len(b)) == size {
			return e, nil
		}
		if int64(len(b)) < size {
			break
		}
	}
	return nil, fmt.Errorf("cannot build entry of marshalled size %d", size)
}

func decode(e *proto.LogEntry) (ent, error) {
	b, err := pb.Marshal(e)
	if err != nil {
		return ent{}, err
	}
	r := ent{Term: e.Term, Size: int64(len(b)), Ts: (int64(e.Timestamp) - t0) / unit}
	if (int64(e.Timestamp)-t0)%unit != 0 {
		return r, fmt.Errorf("timestamp %d not on the abstract grid", e.Timestamp)
	}
	if len(e.Value) < 2 {
		return r, fmt.Errorf("value too short")
	}
	r.Id = int64(e.Value[0])<<8 | int64(e.Value[1])
	if !reflect.DeepEqual(e.Value, value(r.Id, len(e.Value))) {
		return r, fmt.Errorf("payload of entry %d (id %d) is not what was appended", e.Offset, r.Id)
	}
	return r, nil
}

func errClass(err error) string {
	switch {
	case err == nil:
		return "ok"
	case errors.Is(err, wal.ErrInvalidNextOffset):
		return "err_invalid_next_offset"
	case errors.Is(err, codec.ErrOffsetOutOfBounds):
		return "err_out_of_bounds"
	case strings.Contains(err.Error(), "should be > 0"):
		return "err_negative"
	case errors.Is(err, wal.ErrSegmentFull):
		return "err_too_large"
	default:
		return "err:" + err.Error()
	}
}

// observe reads the whole log forwards and backwards through the public API and reports what a
// reader sees; any inconsistency between the two directions or with First/LastOffset is an error string.
func (s *sim) observe(st *step) string {
	st.First, st.Last = s.w.FirstOffset(), s.w.LastOffset()
	st.Vis = []ent{}
	var problems []string
	if st.First == -1 || st.Last < st.First {
		// nothing visible; a forward reader from the start must have nothing
		return ""
	}
	r, err := s.w.NewReader(st.First - 1)
	if err != nil {
		return "NewReader(first-1): " + err.Error()
	}
	next := st.First
	for r.HasNext() {
		e, err := r.ReadNext()
		if err != nil {
			problems = append(problems, fmt.Sprintf("forward read at %d: %v", next, err))
			break
		}
		if e.Offset != next {
			problems = append(problems, fmt.Sprintf("forward read returned offset %d, expected %d", e.Offset, next))
		}
		d, derr := decode(e)
		if derr != nil {
			problems = append(problems, derr.Error())
		}
		st.Vis = append(st.Vis, d)
		next++
	}
	_ = r.Close()
	if next != st.Last+1 {
		problems = append(problems, fmt.Sprintf("forward read stopped at %d, LastOffset is %d", next-1, st.Last))
	}
	// reverse
	rr, err := s.w.NewReverseReader()
	if err != nil {
		return "NewReverseReader: " + err.Error()
	}
	i := len(st.Vis) - 1
	for rr.HasNext() {
		e, err := rr.ReadNext()
		if err != nil {
			problems = append(problems, fmt.Sprintf("reverse read: %v", err))
			break
		}
		d, _ := decode(e)
		if i < 0 || e.Offset != st.First+int64(i) || d != st.Vis[i] {
			problems = append(problems, fmt.Sprintf("reverse read disagrees with forward read at offset %d", e.Offset))
			break
		}
		i--
	}
	_ = rr.Close()
	if i != -1 && len(problems) == 0 {
		problems = append(problems, fmt.Sprintf("reverse read stopped early (%d entries unread)", i+1))
	}
	// a reader positioned before the first entry must be refused
	if st.First > 0 {
		if _, err := s.w.NewReader(st.First - 2); err == nil {
			problems = append(problems, "NewReader below FirstOffset was not refused")
		}
	}
	return strings.Join(problems, "; ")
}

// apply executes the call with a watchdog: a call that does not return is reported, never waited for.
func (s *sim) apply(st *step) (problem string) {
	done := make(chan string, 1)
	go func() {
		defer func() {
			if r := recover(); r != nil {
				done <- fmt.Sprintf("panic: %v", r)
			}
		}()
		done <- s.apply0(st)
	}()
	select {
	case p := <-done:
		return p
	case <-time.After(hangTimeout):
		s.hung = true
		st.Res = "hang"
		return "call did not return within " + hangTimeout.String() + " (deadlock)"
	}
}

// apply0 executes the call described by st (arguments only) and fills in the observation.
func (s *sim) apply0(st *step) (problem string) {
	st.Ret = -2
	st.Res = "ok"
	switch st.A {
	case "Append":
		e, err := mkEntry(st.Off, st.Term, s.now, st.Id, st.Size)
		if err != nil {
			return "harness: " + err.Error()
		}
		st.Ts = s.now
		st.Res = errClass(s.w.AppendAsync(e))
	case "Sync":
		st.Res = errClass(s.w.Sync(context.Background()))
	case "Truncate":
		r, err := s.w.TruncateLog(st.Off)
		st.Res = errClass(err)
		st.Ret = r
	case "Clear":
		st.Res = errClass(s.w.Clear())
	case "Trim":
		s.commit.c = st.Commit
		st.Now = s.now
		st.Res = errClass(wal.VerifTrimNow(s.w))
	case "Reopen":
		if err := s.w.Close(); err != nil {
			st.Res = errClass(err)
		} else if err := s.open(); err != nil {
			st.Res = errClass(err)
			s.w = nil
			return "the WAL cannot be reopened after a clean close: " + err.Error()
		}
	case "Tick":
		s.now += st.N
		s.clock.Set(t0 + s.now*unit)
	default:
		return "harness: unknown action " + st.A
	}
	return s.observe(st)
}

func same(a, b *step) string {
	var d []string
	if a.Res != b.Res {
		d = append(d, fmt.Sprintf("outcome: spec %q, code %q", a.Res, b.Res))
	}
	if a.Ret != b.Ret {
		d = append(d, fmt.Sprintf("returned offset: spec %d, code %d", a.Ret, b.Ret))
	}
	if a.First != b.First {
		d = append(d, fmt.Sprintf("FirstOffset: spec %d, code %d", a.First, b.First))
	}
	if a.Last != b.Last {
		d = append(d, fmt.Sprintf("LastOffset: spec %d, code %d", a.Last, b.Last))
	}
	if len(a.Vis) != len(b.Vis) {
		d = append(d, fmt.Sprintf("readable entries: spec %d, code %d", len(a.Vis), len(b.Vis)))
	} else {
		for i := range a.Vis {
			if a.Vis[i] != b.Vis[i] {
				d = append(d, fmt.Sprintf("entry #%d: spec %+v, code %+v", i, a.Vis[i], b.Vis[i]))
				break
			}
		}
	}
	return strings.Join(d, "; ")
}

type mismatch struct {
	Behaviour []step `json:"behaviour"`
	Step      int    `json:"step"`
	What      string `json:"what"`
	Seg       int32  `json:"seg"`
	Ret       int64  `json:"ret"`
}

// replayOne executes one behaviour; returns nil if every step agrees.
func replayOne(beh []step, seg int32, ret int64) (mm *mismatch, err error) {
	defer func() {
		if r := recover(); r != nil {
			mm = &mismatch{Behaviour: beh, Step: -1, What: fmt.Sprintf("panic: %v", r), Seg: seg, Ret: ret}
		}
	}()
	s, err := newSim(seg, ret)
	if err != nil {
		return nil, err
	}
	defer s.close()
	for i := range beh {
		got := beh[i] // copy: arguments
		got.Vis = nil
		if p := s.apply(&got); p != "" {
			return &mismatch{Behaviour: beh, Step: i, What: p, Seg: seg, Ret: ret}, nil
		}
		if d := same(&beh[i], &got); d != "" {
			return &mismatch{Behaviour: beh, Step: i, What: d, Seg: seg, Ret: ret}, nil
		}
	}
	return nil, nil
}

func cmdReplay(args []string) int {
	fs := flag.NewFlagSet("replay", flag.ExitOnError)
	in := fs.String("in", "", "ndjson of behaviours")
	out := fs.String("out", "", "result json")
	seg := fs.Int("seg", 128, "segment size")
	ret := fs.Int64("ret", 2, "retention (clock units)")
	_ = fs.Parse(args)
	f, err := os.Open(*in)
	if err != nil {
		fmt.Fprintln(os.Stderr, err)
		return 2
	}
	defer f.Close()
	sc := bufio.NewScanner(f)
	sc.Buffer(make([]byte, 1<<20), 1<<26)
	type result struct {
		Behaviours int        `json:"behaviours"`
		Steps      int        `json:"steps"`
		Mismatches []mismatch `json:"mismatches"`
		Truncated  bool       `json:"truncated"`
	}
	var res result
	bad := 0
	seen := map[string]bool{}
	for sc.Scan() {
		line := sc.Bytes()
		if len(line) == 0 {
			continue
		}
		var beh []step
		if err := json.Unmarshal(line, &beh); err != nil {
			fmt.Fprintln(os.Stderr, "bad behaviour line:", err)
			return 2
		}
		mm, err := replayOne(beh, int32(*seg), *ret)
		if err != nil {
			fmt.Fprintln(os.Stderr, "harness failure:", err)
			return 2
		}
		res.Behaviours++
		res.Steps += len(beh)
		if bad >= 25 {
			// enough evidence; the verdict is already a violation
			res.Truncated = true
			break
		}
		if mm != nil {
			bad++
			// re-execute: only a mismatch that reproduces is reported
			mm2, err := replayOne(beh, int32(*seg), *ret)
			if err != nil || mm2 == nil || mm2.Step != mm.Step {
				fmt.Fprintln(os.Stderr, "mismatch did not reproduce:", mm.What)
				return 2
			}
			if mm.Step < 0 {
				res.Mismatches = append(res.Mismatches, *mm)
				continue
			}
			key := fmt.Sprintf("%s|%s", beh[mm.Step].A, tmpName.ReplaceAllString(mm.What, ""))
			if mm.Step >= 0 && !seen[key] && len(res.Mismatches) < 50 {
				seen[key] = true
				mm.Behaviour = beh[:mm.Step+1]
				res.Mismatches = append(res.Mismatches, *mm)
			}
		}
	}
	b, _ := json.Marshal(res)
	if err := os.WriteFile(*out, b, 0o644); err != nil {
		fmt.Fprintln(os.Stderr, err)
		return 2
	}
	return 0
}

// drive: random call sequences; bigger and differently shaped than what TLC enumerates.
func cmdDrive(args []string) int {
	fs := flag.NewFlagSet("drive", flag.ExitOnError)
	seed := fs.Int64("seed", 1, "")
	n := fs.Int("n", 20, "traces")
	ops := fs.Int("ops", 25, "calls per trace")
	seg := fs.Int("seg", 128, "segment size")
	ret := fs.Int64("ret", 2, "retention")
	out := fs.String("out", "trace.ndjson", "")
	_ = fs.Parse(args)
	rng := rand.New(rand.NewSource(*seed))
	f, err := os.Create(*out)
	if err != nil {
		fmt.Fprintln(os.Stderr, err)
		return 2
	}
	defer f.Close()
	w := bufio.NewWriter(f)
	defer w.Flush()
	enc := json.NewEncoder(w)
	maxPayload := int64(*seg) - 12
	sizes := []int64{20, maxPayload / 2, maxPayload/2 + 1, maxPayload, maxPayload - 20 - 12, (int64(*seg)/2 - 12), 33}
	id := int64(0)
	for t := 0; t < *n; t++ {
		s, err := newSim(int32(*seg), *ret)
		if err != nil {
			fmt.Fprintln(os.Stderr, err)
			return 2
		}
		_ = enc.Encode(&step{A: "Reset", N: int64(t), Vis: []ent{}, First: -1, Last: -1, Ret: -2, Res: "init"})
		id = 0
		for k := 0; k < *ops; k++ {
			st := step{}
			lastApp := wal.VerifLastAppended(s.w)
			first := s.w.FirstOffset()
			switch x := rng.Intn(100); {
			case x < 50:
				id++
				st.A, st.Id, st.Term = "Append", id, 1+id%3
				st.Size = sizes[rng.Intn(len(sizes))]
				if st.Size < 24 || rng.Intn(4) == 0 {
					st.Size = 24 + rng.Int63n(maxPayload-23)
				}
				if _, err := mkEntry(1, 1, 0, 1, st.Size); err != nil {
					st.Size-- // the varint length prefix makes a few sizes unreachable
				}
				switch y := rng.Intn(20); {
				case y == 0:
					st.Off = lastApp + 2
				case y == 1 && lastApp >= 0:
					st.Off = lastApp
				case y == 2:
					st.Off = 0
				case lastApp == -1 && y < 8:
					st.Off = rng.Int63n(5)
				default:
					st.Off = lastApp + 1
				}
			case x < 62:
				st.A = "Sync"
			case x < 74:
				st.A = "Truncate"
				lo := first - 1
				if lo < -1 {
					lo = -1
				}
				if lastApp == -1 {
					st.Off = rng.Int63n(3) - 1
				} else {
					st.Off = lo + rng.Int63n(lastApp+2-lo+1)
				}
			case x < 76:
				st.A = "Clear"
			case x < 86:
				st.A = "Trim"
				st.Commit = -1 + rng.Int63n(lastApp+3)
			case x < 92:
				st.A = "Reopen"
			default:
				st.A, st.N = "Tick", 1+rng.Int63n(2)
			}
			p := s.apply(&st)
			if strings.HasPrefix(p, "harness:") {
				fmt.Fprintln(os.Stderr, p)
				return 2
			}
			if p != "" {
				// an inconsistency visible through the public API alone: record it as the outcome
				st.Res = "inconsistent: " + p
			}
			if st.Vis == nil {
				st.Vis = []ent{}
			}
			_ = enc.Encode(&st)
			if p != "" {
				break
			}
		}
		s.close()
	}
	return 0
}

// rerun executes the calls (arguments only) of a saved behaviour and records what the real WAL does.
func cmdRerun(args []string) int {
	fs := flag.NewFlagSet("rerun", flag.ExitOnError)
	in := fs.String("in", "", "replay json")
	out := fs.String("out", "trace.ndjson", "")
	_ = fs.Parse(args)
	b, err := os.ReadFile(*in)
	if err != nil {
		fmt.Fprintln(os.Stderr, err)
		return 2
	}
	var mm mismatch
	if err := json.Unmarshal(b, &mm); err != nil {
		fmt.Fprintln(os.Stderr, err)
		return 2
	}
	if mm.Seg == 0 {
		mm.Seg = 128
	}
	if mm.Ret == 0 {
		mm.Ret = 2
	}
	s, err := newSim(mm.Seg, mm.Ret)
	if err != nil {
		fmt.Fprintln(os.Stderr, err)
		return 2
	}
	defer s.close()
	f, err := os.Create(*out)
	if err != nil {
		fmt.Fprintln(os.Stderr, err)
		return 2
	}
	defer f.Close()
	enc := json.NewEncoder(f)
	_ = enc.Encode(&step{A: "Reset", Vis: []ent{}, First: -1, Last: -1, Ret: -2, Res: "init"})
	for i := range mm.Behaviour {
		st := mm.Behaviour[i]
		st.Vis = nil
		if p := s.apply(&st); p != "" {
			st.Res = "inconsistent: " + p
		}
		if st.Vis == nil {
			st.Vis = []ent{}
		}
		_ = enc.Encode(&st)
	}
	return 0
}

func main() {
	if len(os.Args) < 2 {
		fmt.Fprintln(os.Stderr, "usage: walcheck replay|drive ...")
		os.Exit(2)
	}
	switch os.Args[1] {
	case "replay":
		os.Exit(cmdReplay(os.Args[2:]))
	case "drive":
		os.Exit(cmdDrive(os.Args[2:]))
	case "rerun":
		os.Exit(cmdRerun(os.Args[2:]))
	}
	os.Exit(2)
}
