// chancheck stress-traces the real common/channel.OverrideChannel for validation by spec/ChanTrace.tla.
//
//	chancheck stress -seed S -runs N -writes K -out trace.ndjson
//
// Per run: two writer goroutines call WriteLast with globally increasing values (they take a ticket under
// a mutex together with the call, so "written later" is well defined), one receiver goroutine calls
// Receive concurrently; when the writers are done the receiver drains the channel.  Each goroutine logs
// its own events in program order; nothing orders events of different goroutines.
package main

import (
	"bufio"
	"context"
	"encoding/json"
	"flag"
	"fmt"
	"math/rand"
	"os"
	"runtime"
	"sync"
	"time"

	"github.com/oxia-db/oxia/common/channel"
)

type ev struct {
	T   int    `json:"t"`
	Src string `json:"src"`
	V   int    `json:"v"`
}

func run(t int, seed int64, writes int, enc *json.Encoder) error {
	och := channel.NewOverrideChannel[int]()
	var ticket sync.Mutex
	next := 0
	logs := map[string][]ev{"w1": nil, "w2": nil, "r": nil}
	var lmu sync.Mutex
	add := func(src string, v int) {
		lmu.Lock()
		logs[src] = append(logs[src], ev{T: t, Src: src, V: v})
		lmu.Unlock()
	}
	var wg sync.WaitGroup
	for wi, name := range []string{"w1", "w2"} {
		wg.Add(1)
		go func(name string, rng *rand.Rand) {
			defer wg.Done()
			for {
				// the ticket and the call form one critical section: values are written in increasing order
				ticket.Lock()
				if next >= writes {
					ticket.Unlock()
					return
				}
				next++
				v := next
				och.WriteLast(v)
				add(name, v)
				ticket.Unlock()
				for y := rng.Intn(4); y > 0; y-- {
					runtime.Gosched()
				}
			}
		}(name, rand.New(rand.NewSource(seed*7+int64(wi))))
	}
	writersDone := make(chan struct{})
	recvDone := make(chan error, 1)
	go func() {
		rng := rand.New(rand.NewSource(seed*13 + 5))
		for {
			select {
			case <-writersDone:
				// drain what is left
				select {
				case v := <-och.Ch():
					add("r", v)
				default:
				}
				recvDone <- nil
				return
			default:
			}
			ctx, cancel := context.WithTimeout(context.Background(), 200*time.Microsecond)
			v, err := och.Receive(ctx)
			cancel()
			if err == nil {
				add("r", v)
			}
			for y := rng.Intn(3); y > 0; y-- {
				runtime.Gosched()
			}
		}
	}()
	fin := make(chan struct{})
	go func() { wg.Wait(); close(fin) }()
	select {
	case <-fin:
	case <-time.After(20 * time.Second):
		return fmt.Errorf("run %d: WriteLast did not return (hang)", t)
	}
	close(writersDone)
	select {
	case <-recvDone:
	case <-time.After(20 * time.Second):
		return fmt.Errorf("run %d: receiver did not finish (hang)", t)
	}
	for _, s := range []string{"w1", "w2", "r"} {
		for _, e := range logs[s] {
			if err := enc.Encode(e); err != nil {
				return err
			}
		}
	}
	return nil
}

func main() {
	if len(os.Args) < 2 || os.Args[1] != "stress" {
		fmt.Fprintln(os.Stderr, "usage: chancheck stress -seed S -runs N -writes K -out file")
		os.Exit(2)
	}
	fs := flag.NewFlagSet("stress", flag.ExitOnError)
	seed := fs.Int64("seed", 1, "")
	runs := fs.Int("runs", 10, "")
	writes := fs.Int("writes", 40, "")
	out := fs.String("out", "trace.ndjson", "")
	_ = fs.Parse(os.Args[2:])
	f, err := os.Create(*out)
	if err != nil {
		fmt.Fprintln(os.Stderr, err)
		os.Exit(2)
	}
	defer f.Close()
	w := bufio.NewWriter(f)
	defer w.Flush()
	enc := json.NewEncoder(w)
	for t := 1; t <= *runs; t++ {
		if err := run(t, *seed*1000+int64(t), *writes, enc); err != nil {
			// a hang of the real channel is a finding of the check, not of the harness: record it
			_ = enc.Encode(ev{T: t, Src: "r", V: -1})
			fmt.Fprintln(os.Stderr, err)
			w.Flush()
			os.Exit(3)
		}
	}
}
