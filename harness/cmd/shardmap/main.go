// shardmap binds spec/ShardMap.tla to the real shard-map code.
//
//	shardmap gen -out trace.ndjson
//	    sharding.GenerateShards for 1..64 shards, powers of two +-1 up to 4096 and counts around 2^16, then the counts up to 4097
//	    as a namespace created by ApplyClusterChanges, published, fed to the client's shard manager and
//	    routed (boundary hashes and random keys).
//	shardmap replay -in behaviours.ndjson -out trace.ndjson -res result.json
//	    every input line is a behaviour exported by TLC (ShardMapMC): config changes, shard deletions,
//	    client updates, with the status projection the model demands after each step. Executed on the real
//	    ApplyClusterChanges (real ensemble selector as supplier) + real StatusResource; the projection is
//	    compared after every step; every observed status / assignment / client table / routing decision is
//	    written as a trace line for TLC (ShardMapTrace).
//	shardmap client -in sequences.ndjson -out trace.ndjson -res result.json
//	    every input line is a sequence of publications for one namespace (ShardMapClientMC "SEQ" lines or random
//	    ones): the namespace is removed, its shards deleted and it is re-created with the next shard count on the
//	    real ApplyClusterChanges/StatusResource while ONE client shard manager stays connected and applies the
//	    publications it receives (updates in the given order); table and routing are recorded after each.
//	shardmap coord -in behaviours.ndjson -out trace.ndjson -res result.json
//	    the config-change steps of the behaviours drive a real Coordinator (memory metadata provider, fake
//	    RPC provider); every ShardAssignments message pushed to the (fake) storage nodes and the cluster
//	    status at quiescence are recorded.
//
// Hash values are written as limb pairs [hi, lo] (16 bits each): TLC's integers are 32-bit signed.
package main

import (
	"bufio"
	"context"
	"encoding/json"
	"flag"
	"fmt"
	"io"
	"log/slog"
	"math/rand"
	"os"
	"reflect"
	"runtime"
	"sort"
	"strconv"
	"strings"
	"sync"
	"time"

	"google.golang.org/grpc"
	"google.golang.org/grpc/health/grpc_health_v1"
	"google.golang.org/grpc/metadata"

	"github.com/oxia-db/oxia/common/hash"
	"github.com/oxia-db/oxia/common/sharding"
	"github.com/oxia-db/oxia/coordinator"
	cmeta "github.com/oxia-db/oxia/coordinator/metadata"
	"github.com/oxia-db/oxia/coordinator/model"
	"github.com/oxia-db/oxia/coordinator/resources"
	"github.com/oxia-db/oxia/coordinator/selectors/ensemble"
	"github.com/oxia-db/oxia/coordinator/selectors/single"
	"github.com/oxia-db/oxia/coordinator/utils"
	"github.com/oxia-db/oxia/oxia"
	"github.com/oxia-db/oxia/proto"
)

type limb [2]int64

func limbs(v uint32) limb { return limb{int64(v >> 16), int64(v & 0xffff)} }

type shardRec struct {
	Id  int64 `json:"id"`
	Min limb  `json:"min"`
	Max limb  `json:"max"`
	Del bool  `json:"del"`
}

type nsRec struct {
	Name   string     `json:"name"`
	Shards []shardRec `json:"shards"`
}

type nsSpec struct {
	Name  string `json:"name"`
	Count int    `json:"count"`
	Rf    int    `json:"rf"`
}

// one trace line; every field is always emitted
type line struct {
	A       string     `json:"a"` // Reset | Gen | Config | Deleted | Assign | ClientRecv | Route
	Servers int        `json:"servers"`
	Cfg     []nsSpec   `json:"cfg"`
	Name    string     `json:"name"`
	Id      int64      `json:"id"`
	Base    int64      `json:"base"`
	Count   int        `json:"count"`
	Gen     int64      `json:"gen"`
	Ns      []nsRec    `json:"ns"`
	Shards  []shardRec `json:"shards"` // Gen: the result; ClientRecv: the client's table
	Hash    limb       `json:"hash"`
	Client  int64      `json:"client"`
	Server  int64      `json:"server"`
	Res     string     `json:"res"`  // ok | panic | error
	Conf    bool       `json:"conf"` // compare with the model's Apply / GenShards (small counts only)
}

func newLine(a string) *line {
	return &line{A: a, Cfg: []nsSpec{}, Ns: []nsRec{}, Shards: []shardRec{}, Id: -1, Client: -1, Server: -1, Res: "ok"}
}

type writer struct {
	bw  *bufio.Writer
	enc *json.Encoder
	n   int
}

func (w *writer) emit(l *line) {
	if l.Cfg == nil {
		l.Cfg = []nsSpec{}
	}
	if l.Ns == nil {
		l.Ns = []nsRec{}
	}
	if l.Shards == nil {
		l.Shards = []shardRec{}
	}
	if err := w.enc.Encode(l); err != nil {
		fmt.Fprintln(os.Stderr, err)
		os.Exit(2)
	}
	w.n++
}

func sortShards(s []shardRec) {
	sort.SliceStable(s, func(i, j int) bool {
		if s[i].Min != s[j].Min {
			if s[i].Min[0] != s[j].Min[0] {
				return s[i].Min[0] < s[j].Min[0]
			}
			return s[i].Min[1] < s[j].Min[1]
		}
		return s[i].Id < s[j].Id
	})
}

func statusRecs(st *model.ClusterStatus) []nsRec {
	res := []nsRec{}
	if st == nil {
		return res
	}
	names := []string{}
	for n := range st.Namespaces {
		names = append(names, n)
	}
	sort.Strings(names)
	for _, n := range names {
		r := nsRec{Name: n, Shards: []shardRec{}}
		for id, sm := range st.Namespaces[n].Shards {
			r.Shards = append(r.Shards, shardRec{Id: id, Min: limbs(sm.Int32HashRange.Min), Max: limbs(sm.Int32HashRange.Max),
				Del: sm.Status == model.ShardStatusDeleting})
		}
		sortShards(r.Shards)
		res = append(res, r)
	}
	return res
}

func assignRecs(a *proto.ShardAssignments) []nsRec {
	res := []nsRec{}
	names := []string{}
	for n := range a.Namespaces {
		names = append(names, n)
	}
	sort.Strings(names)
	for _, n := range names {
		r := nsRec{Name: n, Shards: []shardRec{}}
		for _, sa := range a.Namespaces[n].Assignments {
			hr := sa.GetInt32HashRange()
			if hr == nil {
				r.Shards = append(r.Shards, shardRec{Id: sa.Shard, Min: limb{-1, -1}, Max: limb{-1, -1}})
				continue
			}
			r.Shards = append(r.Shards, shardRec{Id: sa.Shard, Min: limbs(hr.MinHashInclusive), Max: limbs(hr.MaxHashInclusive)})
		}
		sortShards(r.Shards)
		res = append(res, r)
	}
	return res
}

// reorder the assignments of one namespace: the coordinator builds the list from a Go map, any order can occur
func reorder(a *proto.ShardAssignments, ns string, order string, rng *rand.Rand) {
	nsa := a.Namespaces[ns]
	if nsa == nil {
		return
	}
	l := nsa.Assignments
	sort.Slice(l, func(i, j int) bool { return l[i].Shard < l[j].Shard })
	switch order {
	case "desc":
		for i, j := 0, len(l)-1; i < j; i, j = i+1, j-1 {
			l[i], l[j] = l[j], l[i]
		}
	case "mid":
		k := len(l) / 2
		nsa.Assignments = append(append([]*proto.ShardAssignment{}, l[k:]...), l[:k]...)
	case "shuffle":
		rng.Shuffle(len(l), func(i, j int) { l[i], l[j] = l[j], l[i] })
	}
}

// what coordinator.computeNewAssignments publishes for a status (used where no coordinator runs)
func publish(st *model.ClusterStatus) *proto.ShardAssignments {
	res := &proto.ShardAssignments{Namespaces: map[string]*proto.NamespaceShardsAssignment{}}
	for name, ns := range st.Namespaces {
		nsa := &proto.NamespaceShardsAssignment{Assignments: []*proto.ShardAssignment{}, ShardKeyRouter: proto.ShardKeyRouter_XXHASH3}
		for shard, a := range ns.Shards {
			if a.Status == model.ShardStatusDeleting {
				continue
			}
			nsa.Assignments = append(nsa.Assignments, &proto.ShardAssignment{Shard: shard, Leader: "",
				ShardBoundaries: &proto.ShardAssignment_Int32HashRange{Int32HashRange: &proto.Int32HashRange{
					MinHashInclusive: a.Int32HashRange.Min, MaxHashInclusive: a.Int32HashRange.Max}}})
		}
		res.Namespaces[name] = nsa
	}
	return res
}

// ---------------------------------------------------------------------------------------------------------
// client side

const hashKeyPrefix = "#hash:"

// keys "#hash:<n>" hash to n (to hit range boundaries exactly); every other key uses the real hash
func keyHash(key string) uint32 {
	if strings.HasPrefix(key, hashKeyPrefix) {
		if v, err := strconv.ParseUint(key[len(hashKeyPrefix):], 10, 32); err == nil {
			return uint32(v)
		}
	}
	return hash.Xxh332(key)
}

type client struct {
	ns     string
	router *oxia.VerifRouter
	pub    *proto.ShardAssignments // what it received last
}

func newClient(ns string) *client {
	return &client{ns: ns, router: oxia.VerifNewRouter(ns, keyHash)}
}

func (c *client) tableRecs() []shardRec {
	res := []shardRec{}
	for _, t := range c.router.Table() {
		res = append(res, shardRec{Id: t[0], Min: limbs(uint32(t[1])), Max: limbs(uint32(t[2]))})
	}
	sortShards(res)
	return res
}

func (c *client) recv(w *writer, a *proto.ShardAssignments) {
	l := newLine("ClientRecv")
	l.Name = c.ns
	if err := c.router.Apply(a); err != nil {
		l.Res = "error"
	} else {
		c.pub = a
	}
	l.Shards = c.tableRecs()
	l.Conf = len(l.Shards) <= 64
	w.emit(l)
}

// server side: the key hash of common/hash and a range lookup in the published assignments
func serverShard(a *proto.ShardAssignments, ns string, h uint32) int64 {
	if a == nil || a.Namespaces[ns] == nil {
		return -1
	}
	found := int64(-1)
	for _, sa := range a.Namespaces[ns].Assignments {
		hr := sa.GetInt32HashRange()
		if hr != nil && hr.MinHashInclusive <= h && h <= hr.MaxHashInclusive {
			if found != -1 {
				return -2 // ambiguous
			}
			found = sa.Shard
		}
	}
	return found
}

func (c *client) route(w *writer, key string) {
	l := newLine("Route")
	l.Name = key
	h := keyHash(key)
	l.Hash = limbs(h)
	func() {
		defer func() {
			if r := recover(); r != nil {
				l.Res = "panic"
			}
		}()
		l.Client = c.router.Shard(key)
	}()
	l.Server = serverShard(c.pub, c.ns, h)
	w.emit(l)
}

func (c *client) routeMany(w *writer, rng *rand.Rand, nRandom int, boundaries bool) {
	if c.pub == nil || c.pub.Namespaces[c.ns] == nil || len(c.pub.Namespaces[c.ns].Assignments) == 0 {
		return
	}
	if boundaries {
		as := c.pub.Namespaces[c.ns].Assignments
		pick := as
		if len(as) > 40 {
			pick = []*proto.ShardAssignment{as[0], as[len(as)-1]}
			for i := 0; i < 30; i++ {
				pick = append(pick, as[rng.Intn(len(as))])
			}
		}
		for _, sa := range pick {
			hr := sa.GetInt32HashRange()
			if hr == nil {
				continue
			}
			for _, v := range []uint32{hr.MinHashInclusive, hr.MaxHashInclusive, hr.MinHashInclusive - 1, hr.MaxHashInclusive + 1} {
				c.route(w, hashKeyPrefix+strconv.FormatUint(uint64(v), 10))
			}
		}
	}
	for i := 0; i < nRandom; i++ {
		b := make([]byte, 1+rng.Intn(12))
		for j := range b {
			b[j] = "abcdefghijklmnopqrstuvwxyz0123456789/-_"[rng.Intn(39)]
		}
		c.route(w, string(b))
	}
}

// ---------------------------------------------------------------------------------------------------------
// direct mode: ApplyClusterChanges + StatusResource

func servers(k int) []model.Server {
	res := []model.Server{}
	for i := 1; i <= k; i++ {
		name := fmt.Sprintf("s%d", i)
		res = append(res, model.Server{Name: &name, Public: name + ":6648", Internal: name + ":6649"})
	}
	return res
}

func clusterConfig(k int, specs []nsSpec) model.ClusterConfig {
	cc := model.ClusterConfig{Servers: servers(k), ServerMetadata: map[string]model.ServerMetadata{}}
	for _, s := range specs {
		cc.Namespaces = append(cc.Namespaces, model.NamespaceConfig{Name: s.Name, InitialShardCount: uint32(s.Count), ReplicationFactor: uint32(s.Rf)})
	}
	return cc
}

// the ensemble supplier the coordinator uses (coordinator.selectNewEnsemble), on the given config
func supplier(cc *model.ClusterConfig) func(*model.NamespaceConfig, *model.ClusterStatus) ([]model.Server, error) {
	sel := ensemble.NewSelector()
	return func(ns *model.NamespaceConfig, editing *model.ClusterStatus) ([]model.Server, error) {
		ctx, cancel := context.WithCancel(context.Background())
		defer cancel()
		res := resources.NewClusterConfigResource(ctx, func() (model.ClusterConfig, error) { return *cc, nil }, nil, nil)
		nodes, md := res.NodesWithMetadata()
		ectx := &ensemble.Context{Candidates: nodes, CandidatesMetadata: md, Policies: ns.Policies, Status: editing,
			Replicas: int(ns.ReplicationFactor),
			LoadRatioSupplier: func() *model.Ratio {
				grouped, history := utils.GroupingShardsNodeByStatus(nodes, editing)
				return single.DefaultShardsRank(&model.RatioParams{NodeShardsInfos: grouped, HistoryNodes: history})
			}}
		ids, err := sel.Select(ectx)
		if err != nil {
			return nil, err
		}
		esm := []model.Server{}
		for _, id := range ids {
			n, ok := res.Node(id)
			if !ok {
				return nil, fmt.Errorf("unknown node %s", id)
			}
			esm = append(esm, *n)
		}
		return esm, nil
	}
}

type expShard struct {
	Id  int64 `json:"id"`
	Del bool  `json:"del"`
}
type expNs struct {
	Name   string     `json:"name"`
	Shards []expShard `json:"shards"`
}
type expect struct {
	Gen int64   `json:"gen"`
	Ns  []expNs `json:"ns"`
}
type step struct {
	A       string   `json:"a"`
	Servers int      `json:"servers"`
	Ns      []nsSpec `json:"ns"`
	Name    string   `json:"name"`
	Id      int64    `json:"id"`
	Exp     expect   `json:"exp"`
	Table   []int64  `json:"table"`
}

func projection(st *model.ClusterStatus) map[string]map[int64]bool {
	res := map[string]map[int64]bool{}
	for n, ns := range st.Namespaces {
		m := map[int64]bool{}
		for id, sm := range ns.Shards {
			m[id] = sm.Status == model.ShardStatusDeleting
		}
		res[n] = m
	}
	return res
}

func expProjection(e expect) map[string]map[int64]bool {
	res := map[string]map[int64]bool{}
	for _, ns := range e.Ns {
		m := map[int64]bool{}
		for _, s := range ns.Shards {
			m[s.Id] = s.Del
		}
		res[ns.Name] = m
	}
	return res
}

type mismatch struct {
	Behaviour any    `json:"behaviour"`
	Step      int    `json:"step"`
	What      string `json:"what"`
	Mode      string `json:"mode"`
}

// guarded call with panic capture and watchdog
func guarded(f func()) string {
	ch := make(chan string, 1)
	go func() {
		defer func() {
			if r := recover(); r != nil {
				ch <- fmt.Sprint("panic: ", r)
			}
		}()
		f()
		ch <- ""
	}()
	select {
	case r := <-ch:
		return r
	case <-time.After(20 * time.Second):
		return "hang"
	}
}

func statusLine(a string, st *model.ClusterStatus) *line {
	l := newLine(a)
	l.Gen = st.ShardIdGenerator
	l.Ns = statusRecs(st)
	return l
}

func replayDirect(w *writer, beh []step, rng *rand.Rand, clientNs string) *mismatch {
	w.emit(newLine("Reset"))
	sr := resources.NewStatusResource(cmeta.NewMetadataProviderMemory())
	cl := newClient(clientNs)
	defer cl.router.Close()
	for i, s := range beh {
		var what string
		switch s.A {
		case "Config":
			cc := clusterConfig(s.Servers, s.Ns)
			cur, version := sr.LoadWithVersion()
			var next *model.ClusterStatus
			what = guarded(func() {
				next, _, _ = utils.ApplyClusterChanges(&cc, cur, supplier(&cc))
				if !sr.Swap(next, version) {
					panic("status swap refused")
				}
			})
			l := statusLine("Config", sr.Load())
			l.Servers, l.Cfg, l.Conf = s.Servers, s.Ns, true
			if what != "" {
				l.Res = what
			}
			w.emit(l)
		case "Deleted":
			what = guarded(func() { sr.DeleteShardMetadata(s.Name, s.Id) })
			l := statusLine("Deleted", sr.Load())
			l.Name, l.Id, l.Conf = s.Name, s.Id, true
			w.emit(l)
		case "ClientRecv":
			pub := publish(sr.Load())
			al := newLine("Assign")
			al.Ns = assignRecs(pub)
			w.emit(al)
			cl.recv(w, pub)
			cl.routeMany(w, rng, 3, true)
		}
		if what != "" {
			return &mismatch{Behaviour: beh, Step: i, What: what, Mode: "direct"}
		}
		got := projection(sr.Load())
		want := expProjection(s.Exp)
		if !reflect.DeepEqual(got, want) || sr.Load().ShardIdGenerator != s.Exp.Gen {
			return &mismatch{Behaviour: beh, Step: i, Mode: "direct",
				What: fmt.Sprintf("status after step: got %v gen %d, model demands %v gen %d", got, sr.Load().ShardIdGenerator, want, s.Exp.Gen)}
		}
		if s.A == "ClientRecv" {
			gotT := []int64{}
			for _, t := range cl.router.Table() {
				gotT = append(gotT, t[0])
			}
			sort.Slice(gotT, func(a, b int) bool { return gotT[a] < gotT[b] })
			wantT := append([]int64{}, s.Table...)
			sort.Slice(wantT, func(a, b int) bool { return wantT[a] < wantT[b] })
			if !reflect.DeepEqual(gotT, wantT) {
				return &mismatch{Behaviour: beh, Step: i, Mode: "direct",
					What: fmt.Sprintf("client table after update: got shards %v, model demands %v", gotT, wantT)}
			}
		}
	}
	return nil
}

// ---------------------------------------------------------------------------------------------------------
// client mode: one namespace is deleted and re-created with other shard counts while the client stays connected

type pubStep struct {
	Count int     `json:"count"`
	Order string  `json:"order"`
	Recv  bool    `json:"recv"`
	Table []int64 `json:"table"`
}

func replayClient(w *writer, seq []pubStep, rng *rand.Rand) *mismatch {
	const ns = "a"
	w.emit(newLine("Reset"))
	sr := resources.NewStatusResource(cmeta.NewMetadataProviderMemory())
	cl := newClient(ns)
	defer cl.router.Close()
	apply := func(specs []nsSpec) string {
		cc := clusterConfig(1, specs)
		cur, version := sr.LoadWithVersion()
		what := guarded(func() {
			next, _, _ := utils.ApplyClusterChanges(&cc, cur, supplier(&cc))
			if !sr.Swap(next, version) {
				panic("status swap refused")
			}
		})
		l := statusLine("Config", sr.Load())
		l.Servers, l.Cfg, l.Conf = 1, specs, len(specs) == 0 || specs[0].Count <= 64
		if what != "" {
			l.Res = what
		}
		w.emit(l)
		return what
	}
	for i, p := range seq {
		if _, exists := sr.Load().Namespaces[ns]; exists {
			if what := apply([]nsSpec{}); what != "" {
				return &mismatch{Behaviour: seq, Step: i, What: what, Mode: "client"}
			}
			ids := []int64{}
			for id := range sr.Load().Namespaces[ns].Shards {
				ids = append(ids, id)
			}
			sort.Slice(ids, func(a, b int) bool { return ids[a] < ids[b] })
			for k, id := range ids {
				sr.DeleteShardMetadata(ns, id)
				if len(ids) > 16 && k >= 2 && k < len(ids)-1 {
					continue // big namespaces: record the first two and the last deletion only
				}
				l := statusLine("Deleted", sr.Load())
				l.Name, l.Id, l.Conf = ns, id, len(ids) <= 16
				w.emit(l)
			}
		}
		if what := apply([]nsSpec{{Name: ns, Count: p.Count, Rf: 1}}); what != "" {
			return &mismatch{Behaviour: seq, Step: i, What: what, Mode: "client"}
		}
		if !p.Recv {
			continue
		}
		pub := publish(sr.Load())
		reorder(pub, ns, p.Order, rng)
		al := newLine("Assign")
		al.Ns = assignRecs(pub)
		w.emit(al)
		cl.recv(w, pub)
		cl.routeMany(w, rng, 4, true)
		got := []int64{}
		for _, t := range cl.router.Table() {
			got = append(got, t[0])
		}
		sort.Slice(got, func(a, b int) bool { return got[a] < got[b] })
		want := append([]int64{}, p.Table...)
		sort.Slice(want, func(a, b int) bool { return want[a] < want[b] })
		if !reflect.DeepEqual(got, want) {
			return &mismatch{Behaviour: seq, Step: i, Mode: "client",
				What: fmt.Sprintf("client table after publication %d (%d shards): got shards %v, model demands %v", i+1, p.Count, got, want)}
		}
	}
	return nil
}

// ---------------------------------------------------------------------------------------------------------
// coordinator mode

type fakeRPC struct {
	sync.Mutex
	pushed []*proto.ShardAssignments
	notify chan struct{}
}

type pushStream struct {
	grpc.ClientStream
	ctx context.Context
	f   *fakeRPC
}

func (p *pushStream) Send(a *proto.ShardAssignments) error {
	p.f.Lock()
	p.f.pushed = append(p.f.pushed, a)
	p.f.Unlock()
	select {
	case p.f.notify <- struct{}{}:
	default:
	}
	return nil
}
func (p *pushStream) CloseAndRecv() (*proto.CoordinationShardAssignmentsResponse, error) {
	return &proto.CoordinationShardAssignmentsResponse{}, nil
}
func (p *pushStream) Context() context.Context   { return p.ctx }
func (*pushStream) Header() (metadata.MD, error) { return nil, nil }
func (*pushStream) Trailer() metadata.MD         { return nil }
func (*pushStream) CloseSend() error             { return nil }
func (*pushStream) SendMsg(any) error            { return nil }
func (*pushStream) RecvMsg(any) error            { return nil }

func (f *fakeRPC) PushShardAssignments(ctx context.Context, _ model.Server) (proto.OxiaCoordination_PushShardAssignmentsClient, error) {
	return &pushStream{ctx: ctx, f: f}, nil
}
func (*fakeRPC) NewTerm(_ context.Context, _ model.Server, req *proto.NewTermRequest) (*proto.NewTermResponse, error) {
	return &proto.NewTermResponse{HeadEntryId: &proto.EntryId{Term: req.Term - 1, Offset: -1}}, nil
}
func (*fakeRPC) BecomeLeader(context.Context, model.Server, *proto.BecomeLeaderRequest) (*proto.BecomeLeaderResponse, error) {
	return &proto.BecomeLeaderResponse{}, nil
}
func (*fakeRPC) AddFollower(context.Context, model.Server, *proto.AddFollowerRequest) (*proto.AddFollowerResponse, error) {
	return &proto.AddFollowerResponse{}, nil
}
func (*fakeRPC) GetStatus(context.Context, model.Server, *proto.GetStatusRequest) (*proto.GetStatusResponse, error) {
	return &proto.GetStatusResponse{Term: 0, Status: proto.ServingStatus_FOLLOWER, HeadOffset: -1, CommitOffset: -1}, nil
}
func (*fakeRPC) DeleteShard(context.Context, model.Server, *proto.DeleteShardRequest) (*proto.DeleteShardResponse, error) {
	return &proto.DeleteShardResponse{}, nil
}

type healthClient struct{}
type healthWatch struct {
	grpc.ClientStream
	ctx  context.Context
	sent bool
}

func (h *healthWatch) Recv() (*grpc_health_v1.HealthCheckResponse, error) {
	if !h.sent {
		h.sent = true
		return &grpc_health_v1.HealthCheckResponse{Status: grpc_health_v1.HealthCheckResponse_SERVING}, nil
	}
	<-h.ctx.Done()
	return nil, h.ctx.Err()
}
func (healthClient) Check(context.Context, *grpc_health_v1.HealthCheckRequest, ...grpc.CallOption) (*grpc_health_v1.HealthCheckResponse, error) {
	return &grpc_health_v1.HealthCheckResponse{Status: grpc_health_v1.HealthCheckResponse_SERVING}, nil
}
func (healthClient) Watch(ctx context.Context, _ *grpc_health_v1.HealthCheckRequest, _ ...grpc.CallOption) (grpc_health_v1.Health_WatchClient, error) {
	return &healthWatch{ctx: ctx}, nil
}
func (healthClient) List(context.Context, *grpc_health_v1.HealthListRequest, ...grpc.CallOption) (*grpc_health_v1.HealthListResponse, error) {
	return &grpc_health_v1.HealthListResponse{}, nil
}

type nopCloser struct{}

func (nopCloser) Close() error { return nil }

func (*fakeRPC) GetHealthClient(model.Server) (grpc_health_v1.HealthClient, io.Closer, error) {
	return healthClient{}, nopCloser{}, nil
}
func (*fakeRPC) ClearPooledConnections(model.Server) {}

func (f *fakeRPC) drain() []*proto.ShardAssignments {
	f.Lock()
	defer f.Unlock()
	res := f.pushed
	f.pushed = nil
	return res
}

// wait until cond holds (polling the coordinator's own state; no wall-clock ordering is used for verdicts)
func waitFor(cond func() bool, d time.Duration) bool {
	deadline := time.Now().Add(d)
	for {
		if cond() {
			return true
		}
		if time.Now().After(deadline) {
			return false
		}
		time.Sleep(2 * time.Millisecond)
	}
}

func replayCoord(w *writer, beh []step, rng *rand.Rand, clientNs string) *mismatch {
	w.emit(newLine("Reset"))
	var mu sync.Mutex
	reads := 0 // how often the coordinator has read the configuration
	cur := clusterConfig(1, nil)
	ch := make(chan any)
	rpcp := &fakeRPC{notify: make(chan struct{}, 1)}
	var coord coordinator.Coordinator
	var err error
	what := guarded(func() {
		coord, err = coordinator.NewCoordinator(cmeta.NewMetadataProviderMemory(), func() (model.ClusterConfig, error) {
			mu.Lock()
			defer mu.Unlock()
			reads++
			return cur, nil
		}, ch, rpcp)
	})
	if what != "" || err != nil {
		return &mismatch{Behaviour: beh, Step: 0, What: fmt.Sprint("cannot start coordinator: ", what, err), Mode: "coord"}
	}
	defer func() { _ = guarded(func() { _ = coord.Close() }) }()
	cl := newClient(clientNs)
	defer cl.router.Close()
	var lastPub *proto.ShardAssignments
	flush := func() {
		for _, a := range rpcp.drain() {
			al := newLine("Assign")
			al.Ns = assignRecs(a)
			w.emit(al)
			lastPub = a
		}
	}
	for i, s := range beh {
		switch s.A {
		case "Config":
			cc := clusterConfig(s.Servers, s.Ns)
			mu.Lock()
			same := reflect.DeepEqual(cur, cc)
			cur = cc
			readsBefore := reads
			mu.Unlock()
			if same {
				// a notification without a change would end the coordinator's config watcher
				// (cluster_config_resource.go:waitForUpdates returns) - not the subject here
				continue
			}
			cl0 := newLine("Config")
			cl0.A = "CoordConfig"
			cl0.Servers, cl0.Cfg = s.Servers, s.Ns
			w.emit(cl0)
			select {
			case ch <- nil:
			case <-time.After(10 * time.Second):
				if os.Getenv("SHARDMAP_DEBUG") != "" {
					buf := make([]byte, 1<<22)
					buf = buf[:runtime.Stack(buf, true)]
					fmt.Fprintln(os.Stderr, string(buf))
					os.Exit(3)
				}
				return &mismatch{Behaviour: beh, Step: i, What: "coordinator does not take config notifications", Mode: "coord"}
			}
			// the notification is taken only when the previous ConfigChanged has returned; now wait until
			// this configuration has been read (ConfigChanged then runs in the same goroutine)
			if !waitFor(func() bool { mu.Lock(); defer mu.Unlock(); return reads > readsBefore }, 10*time.Second) {
				return &mismatch{Behaviour: beh, Step: i, What: "coordinator did not read the new configuration", Mode: "coord"}
			}
			// quiescence: no shard is being deleted any more and the status agrees with the model's status
			// after the deletions that follow this change (behaviours for this mode come from the EagerDelete
			// variant of the model: deletions finish before the next change); otherwise record what is there
			last := s.Exp
			for j := i + 1; j < len(beh) && beh[j].A != "Config"; j++ {
				last = beh[j].Exp
			}
			want := map[string]map[int64]bool{}
			for n, m := range expProjection(last) {
				live := map[int64]bool{}
				for id, del := range m {
					if !del {
						live[id] = false
					}
				}
				if len(live) > 0 {
					want[n] = live
				}
			}
			reached := waitFor(func() bool {
				st := coord.StatusResource().Load()
				return st != nil && reflect.DeepEqual(projection(st), want)
			}, 3*time.Second)
			// all elections done => assignments carry leaders; wait for the last push to settle
			waitFor(func() bool {
				st := coord.StatusResource().Load()
				for _, ns := range st.Namespaces {
					for _, sm := range ns.Shards {
						if sm.Status != model.ShardStatusSteadyState {
							return false
						}
					}
				}
				return true
			}, 3*time.Second)
			flush()
			st := coord.StatusResource().Load()
			l := statusLine("Config", st)
			l.Servers, l.Cfg = s.Servers, s.Ns
			w.emit(l)
			if !reached {
				return &mismatch{Behaviour: beh, Step: i, Mode: "coord",
					What: fmt.Sprintf("status at quiescence: got %v, model demands %v", projection(st), want)}
			}
		case "Deleted":
			// deletions complete on their own in the coordinator
		case "ClientRecv":
			flush()
			if lastPub != nil {
				cl.recv(w, lastPub)
				cl.routeMany(w, rng, 3, true)
			}
		}
	}
	flush()
	return nil
}

// ---------------------------------------------------------------------------------------------------------

func genCounts() []int {
	res := []int{}
	for i := 1; i <= 64; i++ {
		res = append(res, i)
	}
	for p := 128; p <= 4096; p *= 2 {
		res = append(res, p-1, p, p+1)
	}
	return res
}

// counts around 2^16, where the rounded-up bucket size of GenerateShards meets the end of the 32-bit space
var hugeCounts = []int{65535, 65536, 65537, 65538, 131071}

func doGen(w *writer, rng *rand.Rand) {
	for _, n := range hugeCounts {
		l := newLine("Gen")
		l.Base, l.Count = 5, n
		var shards []sharding.Shard
		if what := guarded(func() { shards = sharding.GenerateShards(5, uint32(n)) }); what != "" {
			l.Res = what
		}
		for _, s := range shards {
			l.Shards = append(l.Shards, shardRec{Id: s.Id, Min: limbs(s.Min), Max: limbs(s.Max)})
		}
		w.emit(l)
	}
	for _, n := range genCounts() {
		for _, base := range []int64{0, 17} {
			if base != 0 && n > 64 {
				continue
			}
			l := newLine("Gen")
			l.Base, l.Count, l.Conf = base, n, true
			var shards []sharding.Shard
			if what := guarded(func() { shards = sharding.GenerateShards(base, uint32(n)) }); what != "" {
				l.Res = what
			}
			for _, s := range shards {
				l.Shards = append(l.Shards, shardRec{Id: s.Id, Min: limbs(s.Min), Max: limbs(s.Max)})
			}
			w.emit(l)
		}
		// the same count as a namespace: status, assignments, client table, routing
		w.emit(newLine("Reset"))
		sr := resources.NewStatusResource(cmeta.NewMetadataProviderMemory())
		specs := []nsSpec{{Name: "pad", Count: 1 + n%3, Rf: 1}, {Name: "a", Count: n, Rf: 2}}
		cc := clusterConfig(3, specs)
		cur, version := sr.LoadWithVersion()
		next, _, _ := utils.ApplyClusterChanges(&cc, cur, supplier(&cc))
		sr.Swap(next, version)
		l := statusLine("Config", sr.Load())
		l.Servers, l.Cfg, l.Conf = 3, specs, true
		w.emit(l)
		pub := publish(sr.Load())
		al := newLine("Assign")
		al.Ns = assignRecs(pub)
		w.emit(al)
		cl := newClient("a")
		cl.recv(w, pub)
		cl.routeMany(w, rng, 20, true)
		_ = cl.router.Close()
	}
}

func main() {
	slog.SetDefault(slog.New(slog.NewTextHandler(io.Discard, nil)))
	if os.Getenv("SHARDMAP_DEBUG") != "" {
		slog.SetDefault(slog.New(slog.NewTextHandler(os.Stderr, nil)))
	}
	if len(os.Args) < 2 {
		fmt.Fprintln(os.Stderr, "usage: shardmap gen|replay|client|coord ...")
		os.Exit(2)
	}
	fs := flag.NewFlagSet(os.Args[1], flag.ExitOnError)
	in := fs.String("in", "", "behaviours (ndjson)")
	out := fs.String("out", "", "trace (ndjson)")
	resp := fs.String("res", "", "result json")
	seed := fs.Int64("seed", 1, "seed")
	clientNs := fs.String("client", "a", "namespace of the client")
	limit := fs.Int("limit", 0, "max behaviours (0 = all)")
	_ = fs.Parse(os.Args[2:])
	rng := rand.New(rand.NewSource(*seed))
	of, err := os.Create(*out)
	if err != nil {
		fmt.Fprintln(os.Stderr, err)
		os.Exit(2)
	}
	bw := bufio.NewWriterSize(of, 1<<20)
	w := &writer{bw: bw, enc: json.NewEncoder(bw)}
	result := struct {
		Behaviours int        `json:"behaviours"`
		Steps      int        `json:"steps"`
		Lines      int        `json:"lines"`
		Mismatches []mismatch `json:"mismatches"`
	}{Mismatches: []mismatch{}}
	switch os.Args[1] {
	case "gen":
		doGen(w, rng)
	case "client":
		f, err := os.Open(*in)
		if err != nil {
			fmt.Fprintln(os.Stderr, err)
			os.Exit(2)
		}
		sc := bufio.NewScanner(f)
		sc.Buffer(make([]byte, 1<<20), 1<<26)
		for sc.Scan() {
			var seq []pubStep
			if err := json.Unmarshal(sc.Bytes(), &seq); err != nil {
				fmt.Fprintln(os.Stderr, "bad publication sequence:", err)
				os.Exit(2)
			}
			if *limit > 0 && result.Behaviours >= *limit {
				break
			}
			result.Behaviours++
			result.Steps += len(seq)
			if mm := replayClient(w, seq, rng); mm != nil && len(result.Mismatches) < 25 {
				result.Mismatches = append(result.Mismatches, *mm)
			}
		}
	case "replay", "coord":
		f, err := os.Open(*in)
		if err != nil {
			fmt.Fprintln(os.Stderr, err)
			os.Exit(2)
		}
		sc := bufio.NewScanner(f)
		sc.Buffer(make([]byte, 1<<20), 1<<26)
		for sc.Scan() {
			var beh []step
			if err := json.Unmarshal(sc.Bytes(), &beh); err != nil {
				fmt.Fprintln(os.Stderr, "bad behaviour:", err)
				os.Exit(2)
			}
			if *limit > 0 && result.Behaviours >= *limit {
				break
			}
			result.Behaviours++
			result.Steps += len(beh)
			var mm *mismatch
			if os.Args[1] == "replay" {
				mm = replayDirect(w, beh, rng, *clientNs)
			} else {
				mm = replayCoord(w, beh, rng, *clientNs)
			}
			if mm != nil && len(result.Mismatches) < 25 {
				result.Mismatches = append(result.Mismatches, *mm)
			}
			if os.Args[1] == "coord" && len(result.Mismatches) >= 5 {
				// every deviation costs a quiescence timeout: a broken tree must not stall the check
				break
			}
		}
	default:
		fmt.Fprintln(os.Stderr, "unknown subcommand")
		os.Exit(2)
	}
	if err := bw.Flush(); err != nil {
		fmt.Fprintln(os.Stderr, err)
		os.Exit(2)
	}
	_ = of.Close()
	result.Lines = w.n
	if *resp != "" {
		js, _ := json.MarshalIndent(result, "", " ")
		_ = os.WriteFile(*resp, js, 0o644)
	}
	fmt.Printf("{\"behaviours\":%d,\"steps\":%d,\"lines\":%d,\"mismatches\":%d}\n", result.Behaviours, result.Steps, w.n, len(result.Mismatches))
}
