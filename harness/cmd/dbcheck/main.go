// dbcheck binds spec/OxiaDb.tla to the real state machine of a shard.
//
//	dbcheck replay -in behaviours.ndjson -mode db|leader -out result.json
//	    every input line is a JSON behaviour exported by TLC (a list of steps with the results and the
//	    observable state the specification demands); each is executed on a fresh real kv.DB
//	    (ProcessWrite + WrapperUpdateOperationCallback) or on a fresh real RF=1 leader controller
//	    (WriteBlock / CreateSession / Read / List / RangeScan, restart = close + re-create + NewTerm +
//	    BecomeLeader, which replays the WAL) and every step is compared.
//	dbcheck drive -seed S -n N -ops K -mode db|leader -profile mix|idx|seq|seqwide|hostile -out trace.ndjson
//	    random request streams over a bigger key space on the real code, recorded in the same shape for
//	    validation by DbTrace.tla.
//	dbcheck rerun -in replay.json -out trace.ndjson
//	    re-executes the calls of a saved replay file and records what the real code does.
package main

import (
	"bufio"
	"encoding/json"
	"flag"
	"fmt"
	"math/rand"
	"os"
	"strings"
	"sync"

	"github.com/oxia-db/oxia/proto"

	m "verif/harness/dbmodel"
)

func newEngine(mode string) (m.Engine, error) {
	if mode == "leader" {
		return m.NewLeaderEngine()
	}
	return m.NewDBEngine()
}

type mismatch struct {
	Mode      string   `json:"mode"`
	Behaviour []m.Step `json:"behaviour"`
	Step      int      `json:"step"`
	What      string   `json:"what"`
	Got       *m.Step  `json:"got"`
}

type finding struct {
	Req   string `json:"req"`
	Err   string `json:"err"`
	Count int    `json:"count"`
}

type outcome struct {
	mm       *mismatch
	steps    int
	findings []finding
	harness  error
}

func argsOf(want *m.Step) m.Step {
	got := m.Step{A: want.A, Ts: want.Ts, Req: want.Req}
	for _, g := range want.Gets {
		got.Gets = append(got.Gets, m.GetProbe{N: g.N, Key: g.Key, Cmp: g.Cmp})
	}
	for _, l := range want.Lists {
		got.Lists = append(got.Lists, m.ListProbe{N: l.N, S: l.S, E: l.E})
	}
	return got
}

// replayOne executes one behaviour on a fresh engine.
func replayOne(beh []m.Step, mode string, scope map[string]bool) (o outcome) {
	e, err := newEngine(mode)
	if err != nil {
		o.harness = err
		return o
	}
	defer e.Close()
	probeKeys := m.KeysOf(beh)
	for i := range beh {
		want := &beh[i]
		if want.Err == "REJECTED" && mode == "db" {
			// the leader refuses this request before it is logged; it never reaches a state machine
			continue
		}
		got := argsOf(want)
		problems := m.Exec(e, &got, probeKeys)
		got.Normalize()
		o.steps++
		for _, p := range problems {
			if strings.HasPrefix(p, "harness:") {
				o.harness = fmt.Errorf("%s", p)
				return o
			}
		}
		if want.Kf {
			// a request of a known-finding class: the outcome is recorded, not judged; the state after
			// it is not specified, so the behaviour ends here
			if got.Err != "" {
				fd := finding{Req: want.Req.String(), Err: got.Err, Count: 1}
				if mode == "leader" && strings.HasPrefix(got.Err, "ERROR") {
					// the request is in the log: can the shard still be led after a restart?
					if rerr := e.Restart(); rerr != nil {
						fd.Err += " | restart: " + rerr.Error()
					}
				}
				o.findings = append(o.findings, fd)
			}
			return o
		}
		if len(problems) > 0 {
			o.mm = &mismatch{Mode: mode, Behaviour: beh[:i+1], Step: i, What: "read paths disagree: " + strings.Join(problems, "; "), Got: &got}
			return o
		}
		sc := scope
		if !e.HasIndexQueries() && sc["probes"] {
			sc = map[string]bool{}
			for k, v := range scope {
				sc[k] = v && k != "probes"
			}
		}
		if want.Ovf {
			// finding seqOverflow: a sequence put whose exact result is not a uint64.  The specification records
			// what the code does today (the sum wraps modulo 2^64).  Same outcome: the finding is still there;
			// any other treatment of the overflow is recorded, not judged, and ends the behaviour.
			fd := finding{Req: "overflow: " + want.Req.String(), Count: 1}
			if d := m.Diff(want, &got, sc); d != "" {
				fd.Err = "not the wrapping arithmetic any more: " + d
				o.findings = append(o.findings, fd)
				return o
			}
			ks := []string{}
			for _, r := range got.Res.Puts {
				if len(r.Key) > 0 {
					ks = append(ks, r.Key.S())
				}
			}
			fd.Err = "wraps modulo 2^64: generated " + strings.Join(ks, " ")
			o.findings = append(o.findings, fd)
			continue
		}
		if d := m.Diff(want, &got, sc); d != "" {
			// read the same state a second time: a read that does not repeat is reported as such
			again := m.Step{A: got.A}
			_ = m.Observe(e, &again, probeKeys)
			again.Normalize()
			if os.Getenv("DBCHECK_DEBUG") != "" {
				all, lerr := e.List(&proto.ListRequest{})
				d += fmt.Sprintf(" [DEBUG step %d %s req=%s; all keys: %q %v]", i, want.A, want.Req.String(), all, lerr)
			}
			if fmt.Sprint(again.Recs) != fmt.Sprint(got.Recs) || fmt.Sprint(again.Idx) != fmt.Sprint(got.Idx) {
				d += fmt.Sprintf(" [UNSTABLE READ: a second read of the same state returned %d records, the first %d]", len(again.Recs), len(got.Recs))
			}
			o.mm = &mismatch{Mode: mode, Behaviour: beh[:i+1], Step: i, What: d, Got: &got}
			return o
		}
		if strings.HasPrefix(got.Err, "ERROR") {
			return o
		}
	}
	return o
}

func classOf(mm *mismatch) string {
	// one representative per (last call shape, first difference)
	w := mm.What
	if i := strings.Index(w, ";"); i > 0 {
		w = w[:i]
	}
	for _, c := range "0123456789" {
		w = strings.ReplaceAll(w, string(c), "#")
	}
	return w
}

func cmdReplay(args []string) int {
	fs := flag.NewFlagSet("replay", flag.ExitOnError)
	in := fs.String("in", "", "ndjson of behaviours")
	out := fs.String("out", "", "result json")
	mode := fs.String("mode", "db", "db | leader")
	workers := fs.Int("workers", 12, "")
	maxBad := fs.Int("maxbad", 25, "stop after this many mismatching behaviours")
	cmp := fs.String("cmp", "res,recs,lv", "aspects to compare: res,recs,lv,idx,shadow,nf,probes")
	_ = fs.Parse(args)
	scope := map[string]bool{}
	for _, c := range strings.Split(*cmp, ",") {
		scope[strings.TrimSpace(c)] = true
	}
	m.Quiet()
	f, err := os.Open(*in)
	if err != nil {
		fmt.Fprintln(os.Stderr, err)
		return 2
	}
	defer f.Close()
	sc := bufio.NewScanner(f)
	sc.Buffer(make([]byte, 1<<20), 1<<28)
	type result struct {
		Behaviours int        `json:"behaviours"`
		Steps      int        `json:"steps"`
		Mismatches []mismatch `json:"mismatches"`
		Findings   []finding  `json:"findings"`
		Truncated  bool       `json:"truncated"`
	}
	var res result
	var mu sync.Mutex
	bad := 0
	seen := map[string]bool{}
	fseen := map[string]int{}
	var harnessErr error
	lines := make(chan []byte, 64)
	var wg sync.WaitGroup
	for w := 0; w < *workers; w++ {
		wg.Add(1)
		go func() {
			defer wg.Done()
			for line := range lines {
				mu.Lock()
				stop := bad >= *maxBad || harnessErr != nil
				mu.Unlock()
				if stop {
					continue
				}
				var beh []m.Step
				if err := json.Unmarshal(line, &beh); err != nil {
					mu.Lock()
					harnessErr = fmt.Errorf("bad behaviour line: %v", err)
					mu.Unlock()
					continue
				}
				o := replayOne(beh, *mode, scope)
				if o.mm != nil {
					// only a mismatch that reproduces is reported
					o2 := replayOne(beh, *mode, scope)
					if o2.mm == nil || o2.mm.Step != o.mm.Step {
						last := o.mm.Behaviour[len(o.mm.Behaviour)-1]
						o.harness = fmt.Errorf("a mismatch at step %d (%s %s) did not reproduce on re-execution - the real code is not deterministic on this behaviour, or the harness is not: %s",
							o.mm.Step, last.A, last.Req.String(), o.mm.What)
					}
				}
				mu.Lock()
				res.Behaviours++
				res.Steps += o.steps
				if o.harness != nil && harnessErr == nil {
					harnessErr = o.harness
				}
				for _, fd := range o.findings {
					key := fd.Req + "|" + fd.Err
					if idx, ok := fseen[key]; ok {
						res.Findings[idx].Count++
					} else {
						fseen[key] = len(res.Findings)
						res.Findings = append(res.Findings, fd)
					}
				}
				if o.mm != nil && o.harness == nil {
					bad++
					if c := classOf(o.mm); !seen[c] {
						seen[c] = true
						res.Mismatches = append(res.Mismatches, *o.mm)
					}
				}
				mu.Unlock()
			}
		}()
	}
	for sc.Scan() {
		b := sc.Bytes()
		if len(b) == 0 {
			continue
		}
		lines <- append([]byte(nil), b...)
	}
	close(lines)
	wg.Wait()
	if harnessErr != nil {
		fmt.Fprintln(os.Stderr, "harness failure:", harnessErr)
		return 2
	}
	res.Truncated = bad >= *maxBad
	b, _ := json.Marshal(res)
	if err := os.WriteFile(*out, b, 0o644); err != nil {
		fmt.Fprintln(os.Stderr, err)
		return 2
	}
	return 0
}

// ---------------------------------------------------------------- random driver

type gen struct {
	rng     *rand.Rand
	profile string
	keys    []string
	bounds  []string
	sess    []int // live sessions
	recs    map[string]m.Rec
	lastVer int
	// sequence deltas (profile seqwide): 0 small only, 1 one jump next to a boundary per prefix and small steps, 2 anything
	wide   int
	jumped map[string]bool
}

var keyPool = []string{"a", "b", "c", "d", "a/a", "a/b", "a/c", "b/a", "b/c", "a/b/c", "a/b/d", "c/a/b", "a.", "a-", "a0", "a/b.", "a/b0", "B", "_", "~/x", "", "z/z/z"}
var boundPool = []string{"", "a", "a/", "a//", "a/b", "a/b/", "a0", "b", "b/", "c", "c/a/", "z", "z/", "~", "~/", "B", "_", "__", "a.", "a/~", "b/~", "zzz/"}

func (g *gen) pick(ss []string) string { return ss[g.rng.Intn(len(ss))] }

// sequence numbers are uint64: the interesting places are 2^31, 2^32, 2^63 and 2^64-1
var boundaries = []uint64{1 << 31, 1 << 32, 1 << 62, 1 << 63, ^uint64(0)}

// a number a few small steps below (or just above) one of the boundaries
func (g *gen) nearBoundary() uint64 {
	b := boundaries[g.rng.Intn(len(boundaries))]
	k := uint64(g.rng.Intn(12))
	if b != ^uint64(0) && g.rng.Intn(3) == 0 {
		return b + k
	}
	return b - k
}

func (g *gen) wideDelta() uint64 {
	switch g.rng.Intn(4) {
	case 0:
		return g.nearBoundary()
	case 1:
		return g.rng.Uint64()
	case 2:
		return g.rng.Uint64() >> uint(1+g.rng.Intn(40))
	default:
		return []uint64{1 << 31, 1<<63 - 1, 1 << 63, 1<<63 + 1, ^uint64(0) - 1, ^uint64(0)}[g.rng.Intn(6)]
	}
}

func (g *gen) exp(key string) int {
	r, live := g.recs[key]
	switch x := g.rng.Intn(10); {
	case x < 5:
		return m.NoExp
	case x < 6:
		return -1
	case x < 8:
		if live {
			return r.Ver
		}
		return -1
	case x < 9:
		return g.lastVer + 1 + g.rng.Intn(2)
	default:
		if live && r.Ver > 0 {
			return r.Ver - 1
		}
		return g.rng.Intn(3)
	}
}

var idxNames = []string{"i", "i2", "j", "h"}
var idxKeys = []string{"a", "b", "b0", "c", "c.", "d", ""}
var seqPrefixes = map[string]int{"s": 1, "t/u": 2, "q": 3} // prefix -> number of deltas (constant per prefix)

func (g *gen) put() m.Put {
	p := m.Put{Key: m.K(g.pick(g.keys)), Val: 1 + g.rng.Intn(900), Exp: m.NoExp, Sess: m.NoSess, Deltas: []int{}, Idx: []m.IdxE{}}
	p.Exp = g.exp(p.Key.S())
	if g.rng.Intn(4) == 0 {
		p.Cid = g.pick([]string{"c1", "c2"})
	}
	if g.profile != "seq" && g.rng.Intn(4) == 0 {
		if len(g.sess) > 0 && g.rng.Intn(5) > 0 {
			p.Sess = g.sess[g.rng.Intn(len(g.sess))]
		} else {
			p.Sess = 900 + g.rng.Intn(3) // never created
		}
	}
	if g.profile == "idx" || g.rng.Intn(4) == 0 {
		for n := g.rng.Intn(3); n > 0; n-- {
			p.Idx = append(p.Idx, m.IdxE{N: m.K(g.pick(idxNames)), K: m.K(g.pick(idxKeys))})
		}
	}
	if g.profile == "seq" && g.rng.Intn(3) > 0 || g.profile == "mix" && g.rng.Intn(8) == 0 {
		pfxs := []string{"s", "t/u", "q"}
		pfx := g.pick(pfxs)
		p.Key, p.Pkey, p.Exp = m.K(pfx), true, m.NoExp
		ds := []uint64{}
		for i := 0; i < seqPrefixes[pfx]; i++ {
			d := uint64(g.rng.Intn(4))
			if i == 0 {
				d++
			}
			// deltas over the whole uint64 range (OxiaDb.tla: Delta20 / AddU64)
			switch {
			case g.wide == 1 && !g.jumped[pfx] && g.rng.Intn(2) == 0:
				// one jump close to a boundary, then small steps across it
				d = g.nearBoundary()
			case g.wide == 2 && g.rng.Intn(3) == 0:
				d = g.wideDelta()
			}
			ds = append(ds, d)
		}
		if g.wide == 1 {
			g.jumped[pfx] = true
		}
		p.SetDeltas(ds)
		if g.rng.Intn(12) == 0 {
			p.Exp = g.rng.Intn(3) // not allowed with deltas: per-operation status
		}
	}
	return p
}

// hostile: field combinations a well-behaved client library would not build (C13)
func (g *gen) hostilePut() m.Put {
	// incl. records written by plain puts whose keys look like sequence keys of the prefixes "s" and "t/u"
	keys := []string{"", "a", "a/b", "s", "t/u", "__oxia/x", "__oxia/zz/y", "s", "t/u",
		"s-12x", "s-7", "s-100000000000000000000", "s--5", "s-00000000000000000007-v2", "t/u-3-4y", "s-00000000000000000001-99999999999999999999"}
	deltas := [][]int{{}, {}, {0}, {0, 1}, {1}, {2}, {1, 1}, {1, 0, 3}, {3, 2, 1, 1}}
	p := m.Put{Key: m.K(g.pick(keys)), Val: 1 + g.rng.Intn(900), Exp: m.NoExp, Sess: m.NoSess, Idx: []m.IdxE{}}
	p.Deltas = append([]int{}, deltas[g.rng.Intn(len(deltas))]...)
	p.Pkey = g.rng.Intn(3) > 0
	// optional fields present but empty / with odd values (OxiaDb.tla "Optional fields of a request"): about
	// half of the partition keys are "", "/", "a/b", a blank, an internal-looking one; now and then the client
	// identity is present and empty; expected version -1 and session ids that were never created come from below
	if p.Pkey && g.rng.Intn(2) == 0 {
		p.SetPartitionKey(g.pick(hostilePartitionKeys))
	}
	if g.rng.Intn(6) == 0 {
		p.Cidp = true
	}
	if g.rng.Intn(3) == 0 {
		p.Exp = g.exp(p.Key.S())
	}
	if g.rng.Intn(3) == 0 {
		if len(g.sess) > 0 && g.rng.Intn(2) == 0 {
			p.Sess = g.sess[g.rng.Intn(len(g.sess))]
		} else {
			p.Sess = 900 + g.rng.Intn(3)
		}
	}
	for n := g.rng.Intn(3); n > 0; n-- {
		p.Idx = append(p.Idx, m.IdxE{N: m.K(g.pick(idxNames)), K: m.K(g.pick(idxKeys))})
	}
	// hostile secondary-index declarations (OxiaDb.tla "Secondary-index declarations"): empty names, names and
	// secondary keys with '/', the separator byte, repeated and colliding declarations, many declarations
	switch x := g.rng.Intn(8); {
	case x < 2:
		for n := 1 + g.rng.Intn(3); n > 0; n-- {
			p.Idx = append(p.Idx, m.IdxE{N: m.K(g.pick(hostileIdxNames)), K: m.K(g.pick(hostileIdxKeys))})
		}
		if len(p.Idx) > 1 && g.rng.Intn(2) == 0 {
			p.Idx = append(p.Idx, p.Idx[g.rng.Intn(len(p.Idx))]) // repeated
		}
	case x == 2:
		p.Idx = append(p.Idx, m.IdxE{N: m.K("a"), K: m.K("b/c")}, m.IdxE{N: m.K("a/b"), K: m.K("c")}) // the same entry key
	case x == 3 && g.rng.Intn(3) == 0:
		for n := 20 + g.rng.Intn(60); n > 0; n-- {
			p.Idx = append(p.Idx, m.IdxE{N: m.K(g.pick(append(hostileIdxNames, idxNames...))), K: m.K(fmt.Sprintf("%s%d", g.pick(hostileIdxKeys), g.rng.Intn(30)))})
		}
	}
	return p
}

var hostilePartitionKeys = []string{"", "", "", "/", "a/b", " ", "__oxia/x", "pk"}
var hostileIdxNames = []string{"", "", "a/b", "/", "i/", "/i", "i//j", "\x01", "i\x01b", "__oxia/idx", "%2F", "i"}
var hostileIdxKeys = []string{"", "", "b/c", "/", "\x01", "b\x01a", "b", "%", "~"}

func (g *gen) hostileRequest() m.Req {
	r := m.Req{Puts: []m.Put{}, Dels: []m.Del{}, Rngs: []m.Rng{}}
	bounds := []string{"", "a", "a/z", "z", "z/", "__oxia/", "__oxia/~", "__oxia/x", "B/", "s-", "s."}
	n := 1 + g.rng.Intn(3)
	for i := 0; i < n; i++ {
		switch x := g.rng.Intn(10); {
		case x < 6:
			r.Puts = append(r.Puts, g.hostilePut())
		case x < 8:
			k := g.pick([]string{"", "a", "a/b", "__oxia/x", "nope"})
			if g.rng.Intn(2) == 0 {
				k = g.liveKey()
			}
			r.Dels = append(r.Dels, m.Del{Key: m.K(k), Exp: g.exp(k)})
		default:
			r.Rngs = append(r.Rngs, m.Rng{S: m.K(g.pick(bounds)), E: m.K(g.pick(bounds))})
		}
	}
	return r
}

func (g *gen) liveKey() string {
	if len(g.recs) > 0 && g.rng.Intn(4) > 0 {
		ks := make([]string, 0, len(g.recs))
		for k := range g.recs {
			if !strings.HasPrefix(k, m.OxiaPrefix) {
				ks = append(ks, k)
			}
		}
		if len(ks) > 0 {
			m.SortKeys(ks)
			if g.rng.Intn(3) == 0 {
				return ks[len(ks)-1]
			}
			return ks[g.rng.Intn(len(ks))]
		}
	}
	return g.pick(g.keys)
}

func (g *gen) request() m.Req {
	r := m.Req{Puts: []m.Put{}, Dels: []m.Del{}, Rngs: []m.Rng{}}
	n := 1 + g.rng.Intn(4)
	for i := 0; i < n; i++ {
		switch x := g.rng.Intn(10); {
		case x < 6:
			r.Puts = append(r.Puts, g.put())
		case x < 8:
			k := g.liveKey()
			r.Dels = append(r.Dels, m.Del{Key: m.K(k), Exp: g.exp(k)})
		default:
			a, b := g.pick(g.bounds), g.pick(g.bounds)
			if g.rng.Intn(3) > 0 && m.SlashCmp(a, b) > 0 {
				a, b = b, a
			}
			if g.rng.Intn(4) == 0 {
				a = g.liveKey()
			}
			r.Rngs = append(r.Rngs, m.Rng{S: m.K(a), E: m.K(b)})
		}
	}
	return r
}

func (g *gen) probes(st *m.Step) {
	names := append([]string{}, idxNames...)
	cmps := []string{"EQUAL", "FLOOR", "CEILING", "LOWER", "HIGHER"}
	pk := []string{"", "a", "b", "b0", "b1", "c", "c.", "d", "e"}
	for i := 0; i < 12; i++ {
		st.Gets = append(st.Gets, m.GetProbe{N: m.K(g.pick(names)), Key: m.K(g.pick(pk)), Cmp: g.pick(cmps)})
	}
	for i := 0; i < 4; i++ {
		a, b := g.pick(pk), g.pick(pk)
		if a > b && g.rng.Intn(4) > 0 {
			a, b = b, a
		}
		st.Lists = append(st.Lists, m.ListProbe{N: m.K(g.pick(names)), S: m.K(a), E: m.K(b)})
	}
}

func cmdDrive(args []string) int {
	fs := flag.NewFlagSet("drive", flag.ExitOnError)
	seed := fs.Int64("seed", 1, "")
	n := fs.Int("n", 20, "traces")
	ops := fs.Int("ops", 25, "requests per trace")
	mode := fs.String("mode", "db", "db | leader")
	profile := fs.String("profile", "mix", "mix | idx | seq | seqwide | hostile")
	out := fs.String("out", "trace.ndjson", "")
	_ = fs.Parse(args)
	m.Quiet()
	f, err := os.Create(*out)
	if err != nil {
		fmt.Fprintln(os.Stderr, err)
		return 2
	}
	defer f.Close()
	w := bufio.NewWriterSize(f, 1<<20)
	defer w.Flush()
	enc := json.NewEncoder(w)
	rng := rand.New(rand.NewSource(*seed))
	emit := func(st *m.Step) {
		st.Normalize()
		_ = enc.Encode(st)
	}
	for t := 0; t < *n; t++ {
		e, err := newEngine(*mode)
		if err != nil {
			fmt.Fprintln(os.Stderr, err)
			return 2
		}
		g := &gen{rng: rng, profile: *profile, recs: map[string]m.Rec{}, lastVer: -1, jumped: map[string]bool{}}
		if *profile == "seqwide" {
			// the sequence-heavy stream of "seq" with deltas over the whole uint64 range
			g.profile, g.wide = "seq", 1+t%2
		}
		// a trace works on a random subset of the pools
		for _, k := range keyPool {
			if rng.Intn(3) > 0 {
				g.keys = append(g.keys, k)
			}
		}
		if len(g.keys) == 0 {
			g.keys = []string{"a"}
		}
		g.bounds = append(append([]string{}, boundPool...), g.keys...)
		emit(&m.Step{A: "Reset", Off: -1, Lv: -1})
		for k := 0; k < *ops; k++ {
			st := m.Step{A: "Write", Ts: 1000 + 7*e.NextOffset() + rng.Intn(5)}
			switch x := rng.Intn(40); {
			case x == 0 && k > 0:
				st = m.Step{A: "Restart"}
			case x < 4 && g.profile != "seq" && (*profile != "hostile" || x < 2):
				// create a session: the record "__oxia/session/<offset>"
				id := e.NextOffset()
				st.Req = m.Req{Puts: []m.Put{{Key: m.K(fmt.Sprintf("%s%016x", m.SessPrefix, id)), Val: -1, Exp: m.NoExp, Sess: m.NoSess}}}
			case *profile == "hostile":
				st.Req = g.hostileRequest()
			default:
				st.Req = g.request()
			}
			if e.HasIndexQueries() && *profile != "hostile" {
				g.probes(&st)
			}
			problems := m.Exec(e, &st, g.keys)
			for _, p := range problems {
				if strings.HasPrefix(p, "harness:") {
					fmt.Fprintln(os.Stderr, p)
					return 2
				}
			}
			if len(problems) > 0 {
				// an inconsistency visible through the read API alone: record it as the outcome
				st.Err = "INCONSISTENT: " + strings.Join(problems, "; ")
			}
			emit(&st)
			if st.Err != "" && st.Err != "REJECTED" {
				break
			}
			if st.A == "Write" && len(st.Req.Puts) == 1 && st.Req.Puts[0].Val == -1 && len(st.Res.Puts) == 1 && st.Res.Puts[0].St == "OK" {
				g.sess = append(g.sess, st.Off)
			}
			g.recs = map[string]m.Rec{}
			for _, r := range st.Recs {
				g.recs[r.Key.S()] = r
			}
			g.lastVer = st.Lv
		}
		e.Close()
	}
	return 0
}

// rerun executes the calls (arguments only) of a saved behaviour and records what the real code does.
func cmdRerun(args []string) int {
	fs := flag.NewFlagSet("rerun", flag.ExitOnError)
	in := fs.String("in", "", "replay json")
	out := fs.String("out", "trace.ndjson", "")
	_ = fs.Parse(args)
	m.Quiet()
	b, err := os.ReadFile(*in)
	if err != nil {
		fmt.Fprintln(os.Stderr, err)
		return 2
	}
	var mm mismatch
	if err := json.Unmarshal(b, &mm); err != nil {
		fmt.Fprintln(os.Stderr, err)
		return 2
	}
	if mm.Mode == "" {
		mm.Mode = "db"
	}
	e, err := newEngine(mm.Mode)
	if err != nil {
		fmt.Fprintln(os.Stderr, err)
		return 2
	}
	defer e.Close()
	f, err := os.Create(*out)
	if err != nil {
		fmt.Fprintln(os.Stderr, err)
		return 2
	}
	defer f.Close()
	enc := json.NewEncoder(f)
	r := m.Step{A: "Reset", Off: -1, Lv: -1}
	r.Normalize()
	_ = enc.Encode(&r)
	probeKeys := m.KeysOf(mm.Behaviour)
	for i := range mm.Behaviour {
		want := &mm.Behaviour[i]
		if want.Err == "REJECTED" && mm.Mode == "db" {
			continue
		}
		st := argsOf(want)
		if problems := m.Exec(e, &st, probeKeys); len(problems) > 0 {
			st.Err = "INCONSISTENT: " + strings.Join(problems, "; ")
		}
		st.Normalize()
		_ = enc.Encode(&st)
		if st.Err != "" && st.Err != "REJECTED" {
			break
		}
	}
	return 0
}

func main() {
	if len(os.Args) < 2 {
		fmt.Fprintln(os.Stderr, "usage: dbcheck replay|drive|rerun ...")
		os.Exit(2)
	}
	switch os.Args[1] {
	case "replay":
		os.Exit(cmdReplay(os.Args[2:]))
	case "drive":
		os.Exit(cmdDrive(os.Args[2:]))
	case "rerun":
		os.Exit(cmdRerun(os.Args[2:]))
	}
	os.Exit(2)
}
