// pipecheck drives PIPELINED write streams of the public gRPC surface of a real standalone server
// (public_rpc_server.go:WriteStream -> leaderController.write -> db.ProcessWrite) and records what the
// clients see, for validation against spec/WritePipe.tla (WritePipeTrace.tla).
//
//	pipecheck -seed S -rounds R -out trace.ndjson
//
// Every round: 1..3 concurrent streams on shard 0, each sends 3..14 single-operation requests (puts and
// deletes, unconditional / create-only / with an expected version) on a handful of keys shared by the
// streams, WITHOUT waiting for responses; a second goroutine per stream receives the responses. The
// "send" line is written before the request is handed to gRPC, the "recv" line after the response was
// received, all under one lock (real-time order). When the round is over every key is read back.
// The recorder copies onto each send line the response that arrived at the same position of its stream.
package main

import (
	"context"
	"encoding/json"
	"flag"
	"fmt"
	"io"
	"log/slog"
	"math/rand"
	"os"
	"sync"
	"time"

	"google.golang.org/grpc"
	"google.golang.org/grpc/credentials/insecure"
	"google.golang.org/grpc/metadata"
	pb "google.golang.org/protobuf/proto"

	"github.com/oxia-db/oxia/proto"
	"github.com/oxia-db/oxia/server"
)

type event struct {
	Ev      string `json:"ev"`
	S       int    `json:"s"`
	K       int    `json:"k"`
	Kind    string `json:"kind"`
	Key     string `json:"key"`
	Exp     int64  `json:"exp"`
	Status  string `json:"status"`
	Ver     int64  `json:"ver"`
	FStatus string `json:"fstatus"`
	FVer    int64  `json:"fver"`
	Base    int64  `json:"base"`
}

func fail(err error) {
	fmt.Fprintln(os.Stderr, "harness failure:", err)
	os.Exit(2)
}

func main() {
	seed := flag.Int64("seed", 1, "")
	rounds := flag.Int("rounds", 50, "")
	out := flag.String("out", "", "")
	flag.Parse()
	slog.SetDefault(slog.New(slog.NewTextHandler(io.Discard, nil)))
	rng := rand.New(rand.NewSource(*seed))
	dir, err := os.MkdirTemp("/dev/shm", "pipecheck")
	if err != nil {
		fail(err)
	}
	defer os.RemoveAll(dir)
	srv, err := server.NewStandalone(server.NewTestConfig(dir))
	if err != nil {
		fail(err)
	}
	defer srv.Close()
	conn, err := grpc.NewClient(fmt.Sprintf("localhost:%d", srv.RpcPort()), grpc.WithTransportCredentials(insecure.NewCredentials()))
	if err != nil {
		fail(err)
	}
	defer conn.Close()
	client := proto.NewOxiaClientClient(conn)
	f, err := os.Create(*out)
	if err != nil {
		fail(err)
	}
	defer f.Close()
	enc := json.NewEncoder(f)
	newCtx := func() (context.Context, context.CancelFunc) {
		ctx := metadata.NewOutgoingContext(context.Background(), metadata.New(map[string]string{"shard-id": "0", "namespace": "default"}))
		return context.WithTimeout(ctx, 30*time.Second)
	}

	for round := 0; round < *rounds; round++ {
		// priming put: its version id is the value of the shard's counter at the start of the round
		ctx, cancel := newCtx()
		ps, err := client.WriteStream(ctx)
		if err != nil {
			fail(err)
		}
		if err := ps.Send(&proto.WriteRequest{Shard: pb.Int64(0), Puts: []*proto.PutRequest{{Key: fmt.Sprintf("prime/%d", round), Value: []byte("x")}}}); err != nil {
			fail(err)
		}
		pr, err := ps.Recv()
		if err != nil || len(pr.Puts) != 1 || pr.Puts[0].Status != proto.Status_OK {
			// the single-node shard refuses a plain put: recorded as what a client saw (no behaviour of
			// WritePipe has such a response); nothing more can be learnt from this server
			_ = enc.Encode(&event{Ev: "round", Base: 0})
			_ = enc.Encode(&event{Ev: "recv", S: 0, K: 1, Ver: -1, Status: fmt.Sprintf("ERROR: put on a fresh key: %v %v", pr, err)})
			cancel()
			return
		}
		_ = ps.CloseSend()
		cancel()
		base := pr.Puts[0].Version.VersionId

		var mu sync.Mutex
		hist := []event{{Ev: "round", Base: base}}
		nkeys := 1 + rng.Intn(4)
		keys := make([]string, nkeys)
		for i := range keys {
			keys[i] = fmt.Sprintf("r%d/k%d", round, i)
		}
		ns := 1 + rng.Intn(3)
		var wg sync.WaitGroup
		errs := make(chan error, 16)
		for s := 0; s < ns; s++ {
			n := 3 + rng.Intn(12)
			reqs := make([]event, n)
			for i := range reqs {
				e := event{Ev: "send", S: s, K: i + 1, Key: keys[rng.Intn(nkeys)], Kind: "put", Exp: -2}
				if rng.Intn(4) == 0 {
					e.Kind = "del"
				}
				switch rng.Intn(5) {
				case 0:
					e.Exp = -1
				case 1:
					e.Exp = base + 1 + int64(rng.Intn(2*n))
				}
				reqs[i] = e
			}
			jitter := rng.Intn(3) // 0: no pauses, 1: short pauses, 2: longer
			lseed := rng.Int63()
			wg.Add(1)
			go func(s int, reqs []event) {
				defer wg.Done()
				lr := rand.New(rand.NewSource(lseed))
				ctx, cancel := newCtx()
				defer cancel()
				st, err := client.WriteStream(ctx)
				if err != nil {
					errs <- err
					return
				}
				done := make(chan struct{})
				go func() {
					defer close(done)
					for k := 1; k <= len(reqs); k++ {
						resp, err := st.Recv()
						if err != nil {
							// the server failed a request of a healthy single-node shard: recorded as what the
							// client saw (no behaviour of WritePipe has such a response)
							mu.Lock()
							hist = append(hist, event{Ev: "recv", S: s, K: k, Ver: -1, Status: "ERROR: " + err.Error()})
							mu.Unlock()
							return
						}
						e := event{Ev: "recv", S: s, K: k, Ver: -1}
						switch {
						case len(resp.Puts) == 1:
							e.Status = resp.Puts[0].Status.String()
							if resp.Puts[0].Status == proto.Status_OK {
								e.Ver = resp.Puts[0].Version.VersionId
							}
						case len(resp.Deletes) == 1:
							e.Status = resp.Deletes[0].Status.String()
						default:
							e.Status = "EMPTY"
						}
						mu.Lock()
						hist = append(hist, e)
						mu.Unlock()
					}
				}()
				for _, e := range reqs {
					if jitter > 0 && lr.Intn(3) == 0 {
						time.Sleep(time.Duration(lr.Intn(200*jitter)) * time.Microsecond)
					}
					req := &proto.WriteRequest{Shard: pb.Int64(0)}
					var exp *int64
					if e.Exp != -2 {
						exp = pb.Int64(e.Exp)
					}
					if e.Kind == "put" {
						req.Puts = []*proto.PutRequest{{Key: e.Key, Value: []byte(fmt.Sprintf("%d-%d", s, e.K)), ExpectedVersionId: exp}}
					} else {
						req.Deletes = []*proto.DeleteRequest{{Key: e.Key, ExpectedVersionId: exp}}
					}
					mu.Lock()
					hist = append(hist, e) // before the request leaves: it cannot be applied earlier than this line
					mu.Unlock()
					if err := st.Send(req); err != nil {
						break // the stream was ended by the server: the receiver records why
					}
				}
				<-done
				_ = st.CloseSend()
			}(s, reqs)
		}
		wg.Wait()
		select {
		case err := <-errs:
			fail(err)
		default:
		}
		// read everything back
		ctx, cancel = newCtx()
		for _, k := range keys {
			rs, err := client.Read(ctx, &proto.ReadRequest{Shard: pb.Int64(0), Gets: []*proto.GetRequest{{Key: k}}})
			if err != nil {
				fail(err)
			}
			rr, err := rs.Recv()
			if err != nil || len(rr.Gets) != 1 {
				fail(fmt.Errorf("read back: %v", err))
			}
			e := event{Ev: "get", Key: k, Status: rr.Gets[0].Status.String()}
			if rr.Gets[0].Status == proto.Status_OK {
				e.Ver = rr.Gets[0].Version.VersionId
			}
			hist = append(hist, e)
		}
		cancel()
		// positional pairing: the k-th response of a stream is copied onto its k-th request
		type sk struct{ s, k int }
		resp := map[sk]event{}
		for _, e := range hist {
			if e.Ev == "recv" {
				resp[sk{e.S, e.K}] = e
			}
		}
		for i := range hist {
			if hist[i].Ev == "send" {
				r := resp[sk{hist[i].S, hist[i].K}]
				hist[i].FStatus, hist[i].FVer = r.Status, r.Ver
			}
			if err := enc.Encode(&hist[i]); err != nil {
				fail(err)
			}
		}
	}
}
