// seqwait binds spec/SeqWaiters.tla to the real sequence-update subscriptions of a kv.DB.
//
//	seqwait replay -in behaviours.ndjson -out result.json
//	    every line is a behaviour exported by TLC: Sub(prefix) = db.GetSequenceUpdates, Put(prefix) = a
//	    sequence put (with the delta of the step, any uint64; 1 if none is given) through ProcessWrite,
//	    Close(handle) = SequenceWaiter.Close, Drain = a non-blocking read of the channel of every waiter
//	    created so far.  The handle order, the generated key (its number = its rank among the keys generated
//	    for the prefix, and its suffix) and what every channel returns are compared with the specification.
//	seqwait drive -seed S -n N -ops K -out trace.ndjson
//	    random subscriber lifecycles on the real kv.DB, recorded for validation by SeqWaitTrace.tla.
package main

import (
	"bufio"
	"encoding/json"
	"flag"
	"fmt"
	"io"
	"log/slog"
	"math/rand"
	"os"
	"reflect"
	"strconv"
	"strings"
	"time"

	pb "google.golang.org/protobuf/proto"

	time2 "github.com/oxia-db/oxia/common/time"
	"github.com/oxia-db/oxia/proto"
	"github.com/oxia-db/oxia/server/kv"
)

// digits is a decimal number as TLC sees it: the sequence of its character codes.
type digits []int

func (d digits) String() string {
	b := make([]byte, len(d))
	for i, c := range d {
		b[i] = byte(c)
	}
	return string(b)
}

func digitsOf(s string) digits {
	d := make(digits, len(s))
	for i := 0; i < len(s); i++ {
		d[i] = int(s[i])
	}
	return d
}

func (d digits) MarshalJSON() ([]byte, error) {
	if len(d) == 0 {
		return []byte("[]"), nil
	}
	return json.Marshal([]int(d))
}

type step struct {
	A   string `json:"a"`
	P   string `json:"p"`
	W   int    `json:"w"`
	K   int    `json:"k"`
	Obs []int  `json:"obs"`
	D   digits `json:"d"`   // Put: the delta (empty = 1)
	Sfx digits `json:"sfx"` // Put: the 20-digit suffix of the generated key
}

type sim struct {
	dir     string
	f       kv.Factory
	db      kv.DB
	off     int64
	waiters []kv.SequenceWaiter
	keys    map[string][]string // prefix -> the keys generated so far, in order
}

func newSim() (*sim, error) {
	base := "/dev/shm"
	if _, err := os.Stat(base); err != nil {
		base = ""
	}
	dir, err := os.MkdirTemp(base, "seqwait")
	if err != nil {
		return nil, err
	}
	f, err := kv.NewPebbleKVFactory(&kv.FactoryOptions{DataDir: dir, CacheSizeMB: 1})
	if err != nil {
		return nil, err
	}
	db, err := kv.NewDB("default", 1, f, time.Hour, time2.SystemClock)
	if err != nil {
		return nil, err
	}
	return &sim{dir: dir, f: f, db: db, keys: map[string][]string{}}, nil
}

func (s *sim) close() {
	for _, w := range s.waiters {
		_ = w.Close()
	}
	_ = s.db.Close()
	_ = s.f.Close()
	_ = os.RemoveAll(s.dir)
}

// keyNo is the number of a key of the prefix: its rank among the keys generated for the prefix so far
// (-999: not one of them).
func (s *sim) keyNo(prefix, key string) int {
	for i, k := range s.keys[prefix] {
		if k == key {
			return i + 1
		}
	}
	return -999
}

// exec performs the call of st (arguments only) with a watchdog and fills in what was observed.
func (s *sim) exec(st *step, prefixOf map[int]string) string {
	done := make(chan string, 1)
	go func() {
		defer func() {
			if r := recover(); r != nil {
				done <- fmt.Sprintf("panic: %v", r)
			}
		}()
		done <- s.exec0(st, prefixOf)
	}()
	select {
	case p := <-done:
		return p
	case <-time.After(20 * time.Second):
		return "call did not return (hang)"
	}
}

func (s *sim) exec0(st *step, prefixOf map[int]string) string {
	st.Obs = []int{}
	switch st.A {
	case "Sub":
		w, err := s.db.GetSequenceUpdates(st.P)
		if err != nil {
			return "GetSequenceUpdates: " + err.Error()
		}
		s.waiters = append(s.waiters, w)
		st.W = len(s.waiters)
		prefixOf[st.W] = st.P
	case "Put":
		delta := uint64(1)
		if len(st.D) > 0 {
			d, err := strconv.ParseUint(st.D.String(), 10, 64)
			if err != nil {
				return "harness: delta " + st.D.String() + " is not a uint64"
			}
			delta = d
		}
		res, err := s.db.ProcessWrite(&proto.WriteRequest{Puts: []*proto.PutRequest{{Key: st.P, Value: []byte("v"),
			PartitionKey: pb.String("pk"), SequenceKeyDelta: []uint64{delta}}}}, s.off, uint64(1000+s.off), kv.NoOpCallback)
		if err != nil {
			return "ProcessWrite: " + err.Error()
		}
		s.off++
		if len(res.Puts) != 1 || res.Puts[0].Status != proto.Status_OK {
			return fmt.Sprintf("sequence put: %v", res)
		}
		key := res.Puts[0].GetKey()
		if st.K = s.keyNo(st.P, key); st.K < 0 {
			s.keys[st.P] = append(s.keys[st.P], key)
			st.K = len(s.keys[st.P])
		}
		if !strings.HasPrefix(key, st.P+"-") {
			return fmt.Sprintf("sequence put on %q generated the key %q", st.P, key)
		}
		st.Sfx = digitsOf(key[len(st.P)+1:])
	case "Close":
		if st.W < 1 || st.W > len(s.waiters) {
			return "harness: no such waiter"
		}
		if err := s.waiters[st.W-1].Close(); err != nil {
			return "Close: " + err.Error()
		}
	case "Drain":
		for i, w := range s.waiters {
			select {
			case k, ok := <-w.Ch():
				if !ok {
					st.Obs = append(st.Obs, -1)
				} else {
					st.Obs = append(st.Obs, s.keyNo(prefixOf[i+1], k))
				}
			default:
				st.Obs = append(st.Obs, 0)
			}
		}
	default:
		return "harness: unknown action " + st.A
	}
	return ""
}

type mismatch struct {
	Behaviour []step `json:"behaviour"`
	Step      int    `json:"step"`
	What      string `json:"what"`
}

func replayOne(beh []step) (*mismatch, error) {
	s, err := newSim()
	if err != nil {
		return nil, err
	}
	defer s.close()
	prefixOf := map[int]string{}
	for i := range beh {
		got := step{A: beh[i].A, P: beh[i].P, W: beh[i].W, D: beh[i].D}
		if got.A == "Sub" {
			got.W = 0
		}
		if p := s.exec(&got, prefixOf); p != "" {
			if strings.HasPrefix(p, "harness:") {
				return nil, fmt.Errorf("%s", p)
			}
			return &mismatch{beh[:i+1], i, p}, nil
		}
		want := beh[i]
		if want.Obs == nil {
			want.Obs = []int{}
		}
		switch {
		case got.A == "Sub" && got.W != want.W:
			return &mismatch{beh[:i+1], i, fmt.Sprintf("handle: spec %d, code %d", want.W, got.W)}, nil
		case got.A == "Put" && got.K != want.K:
			return &mismatch{beh[:i+1], i, fmt.Sprintf("generated key number: spec %d, code %d", want.K, got.K)}, nil
		case got.A == "Put" && len(want.Sfx) > 0 && got.Sfx.String() != want.Sfx.String():
			return &mismatch{beh[:i+1], i, fmt.Sprintf("suffix of the generated key: spec %s, code %s", want.Sfx, got.Sfx)}, nil
		case got.A == "Drain" && !reflect.DeepEqual(got.Obs, want.Obs):
			return &mismatch{beh[:i+1], i, fmt.Sprintf("what the subscribers' channels return (per handle; 0 = nothing, -1 = closed): spec %v, code %v", want.Obs, got.Obs)}, nil
		}
	}
	return nil, nil
}

func cmdReplay(args []string) int {
	fs := flag.NewFlagSet("replay", flag.ExitOnError)
	in := fs.String("in", "", "")
	out := fs.String("out", "", "")
	_ = fs.Parse(args)
	f, err := os.Open(*in)
	if err != nil {
		fmt.Fprintln(os.Stderr, err)
		return 2
	}
	defer f.Close()
	sc := bufio.NewScanner(f)
	sc.Buffer(make([]byte, 1<<20), 1<<26)
	type result struct {
		Behaviours int        `json:"behaviours"`
		Steps      int        `json:"steps"`
		Mismatches []mismatch `json:"mismatches"`
	}
	res := result{Mismatches: []mismatch{}}
	seen := map[string]bool{}
	bad := 0
	for sc.Scan() && bad < 25 {
		if len(sc.Bytes()) == 0 {
			continue
		}
		var beh []step
		if err := json.Unmarshal(sc.Bytes(), &beh); err != nil {
			fmt.Fprintln(os.Stderr, "bad line:", err)
			return 2
		}
		mm, err := replayOne(beh)
		if err != nil {
			fmt.Fprintln(os.Stderr, "harness failure:", err)
			return 2
		}
		res.Behaviours++
		res.Steps += len(beh)
		if mm != nil {
			mm2, err := replayOne(beh)
			if err != nil || mm2 == nil || mm2.Step != mm.Step {
				fmt.Fprintln(os.Stderr, "mismatch did not reproduce:", mm.What)
				return 2
			}
			bad++
			key := strings.Map(func(r rune) rune {
				if r >= '0' && r <= '9' {
					return '#'
				}
				return r
			}, mm.What)
			if !seen[key] {
				seen[key] = true
				res.Mismatches = append(res.Mismatches, *mm)
			}
		}
	}
	b, _ := json.Marshal(res)
	if err := os.WriteFile(*out, b, 0o644); err != nil {
		fmt.Fprintln(os.Stderr, err)
		return 2
	}
	return 0
}

func cmdDrive(args []string) int {
	fs := flag.NewFlagSet("drive", flag.ExitOnError)
	seed := fs.Int64("seed", 1, "")
	n := fs.Int("n", 20, "")
	ops := fs.Int("ops", 40, "")
	out := fs.String("out", "trace.ndjson", "")
	_ = fs.Parse(args)
	rng := rand.New(rand.NewSource(*seed))
	f, err := os.Create(*out)
	if err != nil {
		fmt.Fprintln(os.Stderr, err)
		return 2
	}
	defer f.Close()
	w := bufio.NewWriter(f)
	defer w.Flush()
	enc := json.NewEncoder(w)
	prefixes := []string{"s", "t", "q/r"}
	for t := 0; t < *n; t++ {
		s, err := newSim()
		if err != nil {
			fmt.Fprintln(os.Stderr, err)
			return 2
		}
		_ = enc.Encode(&step{A: "Reset", Obs: []int{}, D: digits{}, Sfx: digits{}})
		prefixOf := map[int]string{}
		open := []int{}
		cur := map[string]uint64{} // prefix -> suffix of its last key
		wide := t%2 == 1           // every second lifecycle moves its sequences anywhere in the uint64 range
		for k := 0; k < *ops; k++ {
			st := step{Obs: []int{}, D: digits{}, Sfx: digits{}}
			switch x := rng.Intn(100); {
			case x < 25:
				st.A, st.P = "Sub", prefixes[rng.Intn(len(prefixes))]
			case x < 55:
				st.A, st.P = "Put", prefixes[rng.Intn(len(prefixes))]
				d := uint64(1 + rng.Intn(3))
				if wide && (cur[st.P] == 0 && rng.Intn(3) > 0 || rng.Intn(8) == 0) {
					// a jump to a few steps below / above 2^31, 2^32, 2^62, 2^63, 2^64-1
					b := []uint64{1 << 31, 1 << 32, 1 << 62, 1 << 63, ^uint64(0) - 12}[rng.Intn(5)]
					if tgt := b - 6 + uint64(rng.Intn(12)); tgt > cur[st.P] {
						d = tgt - cur[st.P]
					}
				}
				if d > ^uint64(0)-cur[st.P] {
					// the exact result would not be a uint64 (OxiaDb.tla: SeqOverflow, not a step of SeqWaiters)
					if d = ^uint64(0) - cur[st.P]; d == 0 {
						st.A, st.P = "Drain", ""
						break
					}
				}
				cur[st.P] += d
				st.D = digitsOf(strconv.FormatUint(d, 10))
			case x < 72 && len(open) > 0:
				i := rng.Intn(len(open))
				if rng.Intn(3) == 0 {
					i = 0 // the oldest live subscriber
				}
				st.A, st.W = "Close", open[i]
				st.P = prefixOf[st.W]
				open = append(open[:i], open[i+1:]...)
			default:
				st.A = "Drain"
			}
			if p := s.exec(&st, prefixOf); p != "" {
				if strings.HasPrefix(p, "harness:") {
					fmt.Fprintln(os.Stderr, p)
					return 2
				}
				st.A = "Failed: " + st.A + ": " + p // no step of the specification has this name
			}
			if st.A == "Sub" {
				open = append(open, st.W)
			}
			_ = enc.Encode(&st)
			if strings.HasPrefix(st.A, "Failed") {
				break
			}
		}
		s.close()
	}
	return 0
}

func main() {
	slog.SetDefault(slog.New(slog.NewTextHandler(io.Discard, nil)))
	if len(os.Args) < 2 {
		os.Exit(2)
	}
	switch os.Args[1] {
	case "replay":
		os.Exit(cmdReplay(os.Args[2:]))
	case "drive":
		os.Exit(cmdDrive(os.Args[2:]))
	}
	os.Exit(2)
}
