// seqwait binds spec/SeqWaiters.tla to the real sequence-update subscriptions of a kv.DB.
//
//	seqwait replay -in behaviours.ndjson -out result.json
//	    every line is a behaviour exported by TLC: Sub(prefix) = db.GetSequenceUpdates, Put(prefix) = a
//	    sequence put (delta 1) through ProcessWrite, Close(handle) = SequenceWaiter.Close, Drain = a
//	    non-blocking read of the channel of every waiter created so far.  The handle order, the generated key
//	    and what every channel returns are compared with the specification.
//	seqwait drive -seed S -n N -ops K -out trace.ndjson
//	    random subscriber lifecycles on the real kv.DB, recorded for validation by SeqWaitTrace.tla.
package main

import (
	"bufio"
	"encoding/json"
	"flag"
	"fmt"
	"io"
	"log/slog"
	"math/rand"
	"os"
	"reflect"
	"strings"
	"time"

	pb "google.golang.org/protobuf/proto"

	time2 "github.com/oxia-db/oxia/common/time"
	"github.com/oxia-db/oxia/proto"
	"github.com/oxia-db/oxia/server/kv"
)

type step struct {
	A   string `json:"a"`
	P   string `json:"p"`
	W   int    `json:"w"`
	K   int    `json:"k"`
	Obs []int  `json:"obs"`
}

type sim struct {
	dir     string
	f       kv.Factory
	db      kv.DB
	off     int64
	waiters []kv.SequenceWaiter
}

func newSim() (*sim, error) {
	base := "/dev/shm"
	if _, err := os.Stat(base); err != nil {
		base = ""
	}
	dir, err := os.MkdirTemp(base, "seqwait")
	if err != nil {
		return nil, err
	}
	f, err := kv.NewPebbleKVFactory(&kv.FactoryOptions{DataDir: dir, CacheSizeMB: 1})
	if err != nil {
		return nil, err
	}
	db, err := kv.NewDB("default", 1, f, time.Hour, time2.SystemClock)
	if err != nil {
		return nil, err
	}
	return &sim{dir: dir, f: f, db: db}, nil
}

func (s *sim) close() {
	for _, w := range s.waiters {
		_ = w.Close()
	}
	_ = s.db.Close()
	_ = s.f.Close()
	_ = os.RemoveAll(s.dir)
}

// number of the key "<prefix>-%020d"
func keyNo(prefix, key string) int {
	var n int
	if !strings.HasPrefix(key, prefix+"-") {
		return -999
	}
	if _, err := fmt.Sscanf(key[len(prefix)+1:], "%d", &n); err != nil {
		return -999
	}
	return n
}

// exec performs the call of st (arguments only) with a watchdog and fills in what was observed.
func (s *sim) exec(st *step, prefixOf map[int]string) string {
	done := make(chan string, 1)
	go func() {
		defer func() {
			if r := recover(); r != nil {
				done <- fmt.Sprintf("panic: %v", r)
			}
		}()
		done <- s.exec0(st, prefixOf)
	}()
	select {
	case p := <-done:
		return p
	case <-time.After(20 * time.Second):
		return "call did not return (hang)"
	}
}

func (s *sim) exec0(st *step, prefixOf map[int]string) string {
	st.Obs = []int{}
	switch st.A {
	case "Sub":
		w, err := s.db.GetSequenceUpdates(st.P)
		if err != nil {
			return "GetSequenceUpdates: " + err.Error()
		}
		s.waiters = append(s.waiters, w)
		st.W = len(s.waiters)
		prefixOf[st.W] = st.P
	case "Put":
		res, err := s.db.ProcessWrite(&proto.WriteRequest{Puts: []*proto.PutRequest{{Key: st.P, Value: []byte("v"),
			PartitionKey: pb.String("pk"), SequenceKeyDelta: []uint64{1}}}}, s.off, uint64(1000+s.off), kv.NoOpCallback)
		if err != nil {
			return "ProcessWrite: " + err.Error()
		}
		s.off++
		if len(res.Puts) != 1 || res.Puts[0].Status != proto.Status_OK {
			return fmt.Sprintf("sequence put: %v", res)
		}
		st.K = keyNo(st.P, res.Puts[0].GetKey())
	case "Close":
		if st.W < 1 || st.W > len(s.waiters) {
			return "harness: no such waiter"
		}
		if err := s.waiters[st.W-1].Close(); err != nil {
			return "Close: " + err.Error()
		}
	case "Drain":
		for i, w := range s.waiters {
			select {
			case k, ok := <-w.Ch():
				if !ok {
					st.Obs = append(st.Obs, -1)
				} else {
					st.Obs = append(st.Obs, keyNo(prefixOf[i+1], k))
				}
			default:
				st.Obs = append(st.Obs, 0)
			}
		}
	default:
		return "harness: unknown action " + st.A
	}
	return ""
}

type mismatch struct {
	Behaviour []step `json:"behaviour"`
	Step      int    `json:"step"`
	What      string `json:"what"`
}

func replayOne(beh []step) (*mismatch, error) {
	s, err := newSim()
	if err != nil {
		return nil, err
	}
	defer s.close()
	prefixOf := map[int]string{}
	for i := range beh {
		got := step{A: beh[i].A, P: beh[i].P, W: beh[i].W}
		if got.A == "Sub" {
			got.W = 0
		}
		if p := s.exec(&got, prefixOf); p != "" {
			if strings.HasPrefix(p, "harness:") {
				return nil, fmt.Errorf("%s", p)
			}
			return &mismatch{beh[:i+1], i, p}, nil
		}
		want := beh[i]
		if want.Obs == nil {
			want.Obs = []int{}
		}
		switch {
		case got.A == "Sub" && got.W != want.W:
			return &mismatch{beh[:i+1], i, fmt.Sprintf("handle: spec %d, code %d", want.W, got.W)}, nil
		case got.A == "Put" && got.K != want.K:
			return &mismatch{beh[:i+1], i, fmt.Sprintf("generated key number: spec %d, code %d", want.K, got.K)}, nil
		case got.A == "Drain" && !reflect.DeepEqual(got.Obs, want.Obs):
			return &mismatch{beh[:i+1], i, fmt.Sprintf("what the subscribers' channels return (per handle; 0 = nothing, -1 = closed): spec %v, code %v", want.Obs, got.Obs)}, nil
		}
	}
	return nil, nil
}

func cmdReplay(args []string) int {
	fs := flag.NewFlagSet("replay", flag.ExitOnError)
	in := fs.String("in", "", "")
	out := fs.String("out", "", "")
	_ = fs.Parse(args)
	f, err := os.Open(*in)
	if err != nil {
		fmt.Fprintln(os.Stderr, err)
		return 2
	}
	defer f.Close()
	sc := bufio.NewScanner(f)
	sc.Buffer(make([]byte, 1<<20), 1<<26)
	type result struct {
		Behaviours int        `json:"behaviours"`
		Steps      int        `json:"steps"`
		Mismatches []mismatch `json:"mismatches"`
	}
	res := result{Mismatches: []mismatch{}}
	seen := map[string]bool{}
	bad := 0
	for sc.Scan() && bad < 25 {
		if len(sc.Bytes()) == 0 {
			continue
		}
		var beh []step
		if err := json.Unmarshal(sc.Bytes(), &beh); err != nil {
			fmt.Fprintln(os.Stderr, "bad line:", err)
			return 2
		}
		mm, err := replayOne(beh)
		if err != nil {
			fmt.Fprintln(os.Stderr, "harness failure:", err)
			return 2
		}
		res.Behaviours++
		res.Steps += len(beh)
		if mm != nil {
			mm2, err := replayOne(beh)
			if err != nil || mm2 == nil || mm2.Step != mm.Step {
				fmt.Fprintln(os.Stderr, "mismatch did not reproduce:", mm.What)
				return 2
			}
			bad++
			key := strings.Map(func(r rune) rune {
				if r >= '0' && r <= '9' {
					return '#'
				}
				return r
			}, mm.What)
			if !seen[key] {
				seen[key] = true
				res.Mismatches = append(res.Mismatches, *mm)
			}
		}
	}
	b, _ := json.Marshal(res)
	if err := os.WriteFile(*out, b, 0o644); err != nil {
		fmt.Fprintln(os.Stderr, err)
		return 2
	}
	return 0
}

func cmdDrive(args []string) int {
	fs := flag.NewFlagSet("drive", flag.ExitOnError)
	seed := fs.Int64("seed", 1, "")
	n := fs.Int("n", 20, "")
	ops := fs.Int("ops", 40, "")
	out := fs.String("out", "trace.ndjson", "")
	_ = fs.Parse(args)
	rng := rand.New(rand.NewSource(*seed))
	f, err := os.Create(*out)
	if err != nil {
		fmt.Fprintln(os.Stderr, err)
		return 2
	}
	defer f.Close()
	w := bufio.NewWriter(f)
	defer w.Flush()
	enc := json.NewEncoder(w)
	prefixes := []string{"s", "t", "q/r"}
	for t := 0; t < *n; t++ {
		s, err := newSim()
		if err != nil {
			fmt.Fprintln(os.Stderr, err)
			return 2
		}
		_ = enc.Encode(&step{A: "Reset", Obs: []int{}})
		prefixOf := map[int]string{}
		open := []int{}
		for k := 0; k < *ops; k++ {
			st := step{}
			switch x := rng.Intn(100); {
			case x < 25:
				st.A, st.P = "Sub", prefixes[rng.Intn(len(prefixes))]
			case x < 55:
				st.A, st.P = "Put", prefixes[rng.Intn(len(prefixes))]
			case x < 72 && len(open) > 0:
				i := rng.Intn(len(open))
				if rng.Intn(3) == 0 {
					i = 0 // the oldest live subscriber
				}
				st.A, st.W = "Close", open[i]
				st.P = prefixOf[st.W]
				open = append(open[:i], open[i+1:]...)
			default:
				st.A = "Drain"
			}
			if p := s.exec(&st, prefixOf); p != "" {
				if strings.HasPrefix(p, "harness:") {
					fmt.Fprintln(os.Stderr, p)
					return 2
				}
				st.A = "Failed: " + st.A + ": " + p // no step of the specification has this name
			}
			if st.A == "Sub" {
				open = append(open, st.W)
			}
			_ = enc.Encode(&st)
			if strings.HasPrefix(st.A, "Failed") {
				break
			}
		}
		s.close()
	}
	return 0
}

func main() {
	slog.SetDefault(slog.New(slog.NewTextHandler(io.Discard, nil)))
	if len(os.Args) < 2 {
		os.Exit(2)
	}
	switch os.Args[1] {
	case "replay":
		os.Exit(cmdReplay(os.Args[2:]))
	case "drive":
		os.Exit(cmdDrive(os.Args[2:]))
	}
	os.Exit(2)
}
