// notifcheck binds spec/NotifStream.tla to the notification stream of a real RF=1 leader controller.
//
//	notifcheck replay -in behaviours.ndjson -out result.json
//	    behaviours exported by TLC (NotifStreamMC): Commit / Clock / Trim / Subscribe / Send / Disconnect /
//	    Restart / Elect.  Commit = WriteBlock on the real leader; Subscribe = LeaderController.GetNotifications with or
//	    without StartOffsetExclusive, the dispatcher parked in the callback so that batches are delivered one
//	    at a time; Trim = one round of the real trimmer at the instant chosen by the abstract clock; Restart =
//	    close + new controller on the same WAL and DB; Elect(lag) = a real follower controller that received the
//	    whole log but was told a commit offset `lag` entries short of it takes over (fenced, closed, leader
//	    controller on its WAL and DB, BecomeLeader applies the tail).  After every step the commit offset, the notification
//	    keys stored in the DB, the batch the dispatcher offers next and the delivered batch are compared.
//	notifcheck drive -seed S -n N -ops K -out trace.ndjson
//	    random schedules (more offsets, several trims and restarts), recorded for NotifTrace.tla.
//	notifcheck rerun -in replay.json -out trace.ndjson
package main

import (
	"bufio"
	"encoding/json"
	"flag"
	"fmt"
	"math/rand"
	"os"
	"reflect"
	"strings"
	"sync"
	"time"

	"github.com/oxia-db/oxia/proto"

	m "verif/harness/dbmodel"
)

const NoStart = -2

// NStep is one step: arguments (a, arg) and the observation after it.
type NStep struct {
	A     string `json:"a"`
	Arg   int    `json:"arg"`   // Subscribe: start offset (NoStart: none); Send: offset delivered; Commit: offset; Elect: lag
	Dummy int    `json:"dummy"` // Subscribe: offset of the empty first batch (NoStart: none sent)
	N     int    `json:"n"`     // committed offsets
	Kept  []int  `json:"kept"`  // offsets of the stored notification batches
	Open  bool   `json:"open"`
	Buf   []int  `json:"buf"`  // (specification only) batches read and not yet sent
	Head  int    `json:"head"` // offset of the batch the dispatcher offers next (-1: none)
	Seen  int    `json:"seen"`
	Now   int    `json:"now"`
	Ts    int    `json:"ts"`  // Commit: timestamp of the entry on the abstract clock
	Err   string `json:"err"` // harness-visible failure of the call
}

type runner struct {
	e         *m.LeaderEngine
	retention int
	now       int
	lts       map[int]int // logical timestamp of every offset
	str       *m.Stream
	open      bool
	seen      int
	buf       []int // mirror of the dispatcher's buffer: only used to decide how long to wait for an offer
	cur       int
}

func newRunner(retention int) (*runner, error) {
	e, err := m.NewLeaderEngine()
	if err != nil {
		return nil, err
	}
	return &runner{e: e, retention: retention, lts: map[int]int{}, seen: NoStart, cur: -1}, nil
}

func (r *runner) close() {
	if r.str != nil && r.open {
		_ = r.str.Disconnect()
	}
	r.e.Close()
}

func (r *runner) pump(stored []int) {
	if r.open && len(r.buf) == 0 && r.cur+1 <= r.e.NextOffset()-1 {
		for _, o := range stored {
			if o >= r.cur+1 {
				r.buf = append(r.buf, o)
			}
		}
	}
}

func userKey(off int) string { return fmt.Sprintf("k%d", off) }

// exec performs the step (arguments a, arg) and fills in the observation.
func (r *runner) exec(st *NStep) {
	st.Dummy, st.Head, st.Err = NoStart, -1, ""
	fail := func(f string, a ...any) { st.Err = fmt.Sprintf(f, a...) }
	switch st.A {
	case "Commit":
		off := r.e.NextOffset()
		req := m.Req{Puts: []m.Put{{Key: m.K(userKey(off)), Val: off + 1, Exp: m.NoExp, Sess: m.NoSess}}}
		o, _, err := r.e.Write(req.Proto(), 1000+off)
		if err != nil || o != off {
			fail("commit of offset %d: offset %d, %v", off, o, err)
			return
		}
		st.Arg, st.Ts = off, r.now
		r.lts[off] = r.now
	case "Clock":
		r.now++
	case "Trim":
		offs, wall, err := r.e.NotifStored()
		if err != nil {
			fail("reading the stored batches: %v", err)
			return
		}
		if len(offs) > 0 {
			cutoff := wall[offs[0]] - 1
			for _, o := range offs {
				if r.lts[o] <= r.now-r.retention {
					cutoff = wall[o]
				}
			}
			if err := r.e.TrimNotifications(cutoff); err != nil {
				fail("trim: %v", err)
				return
			}
		}
	case "Subscribe":
		var start *int64
		if st.Arg != NoStart {
			v := int64(st.Arg)
			start = &v
		}
		r.str = r.e.Subscribe(start)
		r.open, r.buf = true, nil
		if start == nil {
			if r.str.Dummy == nil {
				fail("no start offset given and no first batch sent")
				return
			}
			if len(r.str.Dummy.Notifications) != 0 {
				fail("the first batch (offset %d) is not empty", r.str.Dummy.Offset)
			}
			st.Dummy = int(r.str.Dummy.Offset)
			r.cur, r.seen = st.Dummy, st.Dummy
		} else {
			if r.str.Dummy != nil {
				fail("a start offset was given and an extra first batch (offset %d) was sent", r.str.Dummy.Offset)
			}
			r.cur = st.Arg
			if r.seen == NoStart {
				r.seen = st.Arg
			}
		}
	case "Send":
		if r.str == nil || !r.open {
			fail("harness: Send without a stream")
			return
		}
		b, err := r.str.Send()
		if err != nil {
			fail("the dispatcher offers no batch: %v", err)
			return
		}
		st.Arg = int(b.Offset)
		n, ok := b.Notifications[userKey(int(b.Offset))]
		if len(b.Notifications) != 1 || !ok || n.Type != proto.NotificationType_KEY_CREATED || b.Shard != m.Shard {
			fail("batch of offset %d delivered with content %v (shard %d)", b.Offset, b.Notifications, b.Shard)
		}
		r.cur, r.seen = st.Arg, st.Arg
		if len(r.buf) > 0 {
			r.buf = r.buf[1:]
		}
	case "Disconnect":
		if r.str != nil && r.open {
			if err := r.str.Disconnect(); err != nil {
				fail("disconnect: %v", err)
			}
		}
		r.open, r.buf = false, nil
	case "Restart":
		if r.str != nil && r.open {
			if err := r.str.Disconnect(); err != nil {
				fail("disconnect: %v", err)
			}
		}
		r.open, r.buf = false, nil
		if err := r.e.Restart(); err != nil {
			fail("restart: %v", err)
			return
		}
	case "Elect":
		if r.str != nil && r.open {
			if err := r.str.Disconnect(); err != nil {
				fail("disconnect: %v", err)
			}
		}
		r.open, r.buf = false, nil
		if st.Arg < 1 || st.Arg > r.e.NextOffset() {
			fail("harness: Elect with lag %d, %d entries in the log", st.Arg, r.e.NextOffset())
			return
		}
		if err := r.e.ElectLagging(st.Arg); err != nil {
			if strings.HasPrefix(err.Error(), "harness:") {
				fail("%v", err)
			} else {
				fail("election of a replica whose DB is %d entries behind its log: %v", st.Arg, err)
			}
			return
		}
	default:
		fail("harness: unknown step %q", st.A)
		return
	}
	offs, _, err := r.e.NotifStored()
	if err != nil {
		fail("reading the stored batches: %v", err)
		return
	}
	r.pump(offs)
	st.N, st.Kept, st.Open, st.Seen, st.Now = r.e.NextOffset(), offs, r.open, r.seen, r.now
	if st.Kept == nil {
		st.Kept = []int{}
	}
	if r.open {
		wait := 3 * time.Millisecond
		if len(r.buf) > 0 {
			wait = m.CallTimeout
		}
		b, err := r.str.Head(wait)
		if err != nil {
			fail("the stream ended by itself: %v", err)
		} else if b != nil {
			st.Head = int(b.Offset)
		}
	}
}

func diff(want, got *NStep) string {
	var d []string
	add := func(f string, a ...any) { d = append(d, fmt.Sprintf(f, a...)) }
	if got.Err != "" {
		return got.Err
	}
	if want.A == "Send" && want.Arg != got.Arg {
		add("delivered batch: spec offset %d, code offset %d", want.Arg, got.Arg)
	}
	if want.A == "Subscribe" && want.Dummy != got.Dummy {
		add("empty first batch: spec offset %d, code %d (-2 = none)", want.Dummy, got.Dummy)
	}
	if want.N != got.N {
		add("committed offsets: spec %d, code %d", want.N, got.N)
	}
	if !reflect.DeepEqual(want.Kept, got.Kept) && !(len(want.Kept) == 0 && len(got.Kept) == 0) {
		add("stored notification batches: spec %v, code %v", want.Kept, got.Kept)
	}
	wh := -1
	if len(want.Buf) > 0 {
		wh = want.Buf[0]
	}
	if wh != got.Head {
		add("next batch offered by the dispatcher: spec %d, code %d (-1 = none)", wh, got.Head)
	}
	if want.Seen != got.Seen {
		add("last offset seen by the subscriber: spec %d, harness %d", want.Seen, got.Seen)
	}
	return strings.Join(d, "; ")
}

type mismatch struct {
	Behaviour []NStep `json:"behaviour"`
	Step      int     `json:"step"`
	What      string  `json:"what"`
	Got       *NStep  `json:"got"`
}

func replayOne(beh []NStep, retention int) (*mismatch, int, error) {
	r, err := newRunner(retention)
	if err != nil {
		return nil, 0, err
	}
	defer r.close()
	for i := range beh {
		got := NStep{A: beh[i].A, Arg: beh[i].Arg}
		r.exec(&got)
		if strings.HasPrefix(got.Err, "harness:") {
			return nil, i, fmt.Errorf("%s", got.Err)
		}
		if d := diff(&beh[i], &got); d != "" {
			return &mismatch{Behaviour: beh[:i+1], Step: i, What: d, Got: &got}, i + 1, nil
		}
	}
	return nil, len(beh), nil
}

func classOf(w string) string {
	if i := strings.Index(w, ";"); i > 0 {
		w = w[:i]
	}
	for _, c := range "0123456789" {
		w = strings.ReplaceAll(w, string(c), "#")
	}
	return w
}

func cmdReplay(args []string) int {
	fs := flag.NewFlagSet("replay", flag.ExitOnError)
	in := fs.String("in", "", "ndjson of behaviours")
	out := fs.String("out", "", "result json")
	workers := fs.Int("workers", 12, "")
	maxBad := fs.Int("maxbad", 25, "")
	retention := fs.Int("retention", 2, "retention time on the abstract clock")
	_ = fs.Parse(args)
	m.Quiet()
	f, err := os.Open(*in)
	if err != nil {
		fmt.Fprintln(os.Stderr, err)
		return 2
	}
	defer f.Close()
	sc := bufio.NewScanner(f)
	sc.Buffer(make([]byte, 1<<20), 1<<28)
	type result struct {
		Behaviours        int        `json:"behaviours"`
		Steps             int        `json:"steps"`
		Mismatches        []mismatch `json:"mismatches"`
		Unreproduced      int        `json:"unreproduced"` // mismatches that were gone on re-execution
		UnreproducedFirst string     `json:"unreproducedFirst"`
	}
	var res result
	var mu sync.Mutex
	bad := 0
	seen := map[string]bool{}
	var harnessErr error
	lines := make(chan []byte, 64)
	var wg sync.WaitGroup
	for w := 0; w < *workers; w++ {
		wg.Add(1)
		go func() {
			defer wg.Done()
			for line := range lines {
				mu.Lock()
				stop := bad >= *maxBad || harnessErr != nil
				mu.Unlock()
				if stop {
					continue
				}
				var beh []NStep
				if err := json.Unmarshal(line, &beh); err != nil {
					mu.Lock()
					harnessErr = fmt.Errorf("bad behaviour line: %v", err)
					mu.Unlock()
					continue
				}
				mm, steps, err := replayOne(beh, *retention)
				if mm != nil && err == nil {
					mm2, _, err2 := replayOne(beh, *retention)
					if err2 == nil && (mm2 == nil || mm2.Step != mm.Step) {
						var sb strings.Builder
						for _, st := range beh[:mm.Step+1] {
							fmt.Fprintf(&sb, " %s(%d)", st.A, st.Arg)
						}
						// timing, not behaviour (e.g. a dispatcher that missed its wake-up under load): not a verdict
						// either way; counted, the caller decides how many of those it tolerates
						mu.Lock()
						res.Unreproduced++
						if res.UnreproducedFirst == "" {
							res.UnreproducedFirst = fmt.Sprintf("step %d of [%s ]: %s", mm.Step, sb.String(), mm.What)
						}
						mu.Unlock()
						mm = nil
					}
				}
				mu.Lock()
				res.Behaviours++
				res.Steps += steps
				if err != nil && harnessErr == nil {
					harnessErr = err
				}
				if mm != nil && err == nil {
					bad++
					if c := classOf(mm.What); !seen[c] {
						seen[c] = true
						res.Mismatches = append(res.Mismatches, *mm)
					}
				}
				mu.Unlock()
			}
		}()
	}
	for sc.Scan() {
		if b := sc.Bytes(); len(b) > 0 {
			lines <- append([]byte(nil), b...)
		}
	}
	close(lines)
	wg.Wait()
	if harnessErr != nil {
		fmt.Fprintln(os.Stderr, "harness failure:", harnessErr)
		return 2
	}
	b, _ := json.Marshal(res)
	if err := os.WriteFile(*out, b, 0o644); err != nil {
		fmt.Fprintln(os.Stderr, err)
		return 2
	}
	return 0
}

func emitReset(enc *json.Encoder) {
	_ = enc.Encode(&NStep{A: "Reset", Arg: 0, Dummy: NoStart, Kept: []int{}, Buf: []int{}, Head: -1, Seen: NoStart})
}

func cmdDrive(args []string) int {
	fs := flag.NewFlagSet("drive", flag.ExitOnError)
	seed := fs.Int64("seed", 1, "")
	n := fs.Int("n", 20, "traces")
	ops := fs.Int("ops", 40, "steps per trace")
	out := fs.String("out", "trace.ndjson", "")
	retention := fs.Int("retention", 2, "")
	_ = fs.Parse(args)
	m.Quiet()
	f, err := os.Create(*out)
	if err != nil {
		fmt.Fprintln(os.Stderr, err)
		return 2
	}
	defer f.Close()
	w := bufio.NewWriterSize(f, 1<<20)
	defer w.Flush()
	enc := json.NewEncoder(w)
	rng := rand.New(rand.NewSource(*seed))
	for t := 0; t < *n; t++ {
		r, err := newRunner(*retention)
		if err != nil {
			fmt.Fprintln(os.Stderr, err)
			return 2
		}
		emitReset(enc)
		subscribed := false
		for k := 0; k < *ops; k++ {
			st := NStep{}
			switch x := rng.Intn(20); {
			case x < 6:
				st.A = "Commit"
			case x < 9:
				st.A = "Clock"
			case x < 10:
				st.A = "Trim"
			case x < 14 && r.open && len(r.buf) > 0:
				st.A = "Send"
			case x < 16 && !r.open:
				st.A = "Subscribe"
				switch {
				case subscribed:
					st.Arg = r.seen // resume with the last offset seen
				case rng.Intn(2) == 0:
					st.Arg = NoStart
				default:
					st.Arg = -1 + rng.Intn(r.e.NextOffset()+1)
				}
				subscribed = true
			case x < 17 && r.open:
				st.A = "Disconnect"
			case x == 17 && k > 0:
				st.A = "Restart"
			case x == 18 && r.e.NextOffset() > 0:
				st.A = "Elect"
				st.Arg = 1 + rng.Intn(min(3, r.e.NextOffset()))
			default:
				st.A = "Commit"
			}
			r.exec(&st)
			if strings.HasPrefix(st.Err, "harness:") {
				fmt.Fprintln(os.Stderr, st.Err)
				return 2
			}
			if st.Kept == nil {
				st.Kept = []int{}
			}
			st.Buf = []int{}
			_ = enc.Encode(&st)
			if st.Err != "" {
				break
			}
		}
		r.close()
	}
	return 0
}

func cmdRerun(args []string) int {
	fs := flag.NewFlagSet("rerun", flag.ExitOnError)
	in := fs.String("in", "", "replay json")
	out := fs.String("out", "trace.ndjson", "")
	retention := fs.Int("retention", 2, "")
	_ = fs.Parse(args)
	m.Quiet()
	b, err := os.ReadFile(*in)
	if err != nil {
		fmt.Fprintln(os.Stderr, err)
		return 2
	}
	var mm mismatch
	if err := json.Unmarshal(b, &mm); err != nil {
		fmt.Fprintln(os.Stderr, err)
		return 2
	}
	f, err := os.Create(*out)
	if err != nil {
		fmt.Fprintln(os.Stderr, err)
		return 2
	}
	defer f.Close()
	enc := json.NewEncoder(f)
	r, err := newRunner(*retention)
	if err != nil {
		fmt.Fprintln(os.Stderr, err)
		return 2
	}
	defer r.close()
	emitReset(enc)
	for i := range mm.Behaviour {
		st := NStep{A: mm.Behaviour[i].A, Arg: mm.Behaviour[i].Arg}
		r.exec(&st)
		if st.Kept == nil {
			st.Kept = []int{}
		}
		st.Buf = []int{}
		_ = enc.Encode(&st)
		if st.Err != "" {
			break
		}
	}
	return 0
}

func main() {
	if len(os.Args) < 2 {
		fmt.Fprintln(os.Stderr, "usage: notifcheck replay|drive|rerun ...")
		os.Exit(2)
	}
	switch os.Args[1] {
	case "replay":
		os.Exit(cmdReplay(os.Args[2:]))
	case "drive":
		os.Exit(cmdDrive(os.Args[2:]))
	case "rerun":
		os.Exit(cmdRerun(os.Args[2:]))
	}
	os.Exit(2)
}
