// trackcheck replays behaviours of spec/AckTracker.tla on the real quorum ack tracker
// (server.NewQuorumAckTracker) and compares head offset, commit offset and the completions of the
// registered waiters after every step.
//
//	trackcheck -rf 3 -in runs.ndjson -out result.json
package main

import (
	"bufio"
	"context"
	"encoding/json"
	"flag"
	"fmt"
	"os"

	"github.com/oxia-db/oxia/common/concurrent"
	"github.com/oxia-db/oxia/server"
)

type doneEv struct {
	O int64  `json:"o"`
	R string `json:"r"`
}

type exp struct {
	Head    int64    `json:"head"`
	Commit  int64    `json:"commit"`
	Closed  bool     `json:"closed"`
	Waiting []int64  `json:"waiting"`
	Done    []doneEv `json:"done"`
}

type step struct {
	A   string `json:"a"`
	C   string `json:"c"`
	O   int64  `json:"o"`
	Exp exp    `json:"exp"`
}

type mismatch struct {
	Index     int    `json:"index"`
	Step      int    `json:"step"`
	What      string `json:"what"`
	Behaviour []step `json:"behaviour"`
}

func describe(b []step) string {
	s := ""
	for _, st := range b {
		switch st.A {
		case "Attach", "Ack":
			s += fmt.Sprintf("%s(%s,%d) ", st.A, st.C, st.O)
		case "Wait", "AdvanceHead":
			s += fmt.Sprintf("%s(%d) ", st.A, st.O)
		default:
			s += st.A + " "
		}
	}
	return s
}

func replayOne(rf uint32, beh []step) (int, string) {
	tr := server.NewQuorumAckTracker(rf, 0, -1)
	cursors := map[string]server.CursorAcker{}
	var done []doneEv
	for i, st := range beh {
		switch st.A {
		case "Sync":
		case "AdvanceHead":
			tr.AdvanceHeadOffset(st.O)
		case "Wait":
			o := st.O
			tr.WaitForCommitOffsetAsync(context.Background(), o, concurrent.NewOnce(
				func(_ any) { done = append(done, doneEv{o, "ok"}) },
				func(_ error) { done = append(done, doneEv{o, "closed"}) }))
		case "Attach":
			c, err := tr.NewCursorAcker(st.O)
			if err != nil {
				return i, fmt.Sprintf("NewCursorAcker(%d) failed: %v", st.O, err)
			}
			cursors[st.C] = c
		case "Ack":
			cursors[st.C].Ack(st.O)
		case "Close":
			_ = tr.Close()
		default:
			return i, "unknown action " + st.A
		}
		if h := tr.HeadOffset(); h != st.Exp.Head {
			return i, fmt.Sprintf("head offset: spec %d, code %d", st.Exp.Head, h)
		}
		if c := tr.CommitOffset(); c != st.Exp.Commit {
			return i, fmt.Sprintf("commit offset: spec %d, code %d", st.Exp.Commit, c)
		}
		if fmt.Sprint(done) != fmt.Sprint(st.Exp.Done) && !(len(done) == 0 && len(st.Exp.Done) == 0) {
			return i, fmt.Sprintf("completed waiters: spec %v, code %v", st.Exp.Done, done)
		}
	}
	return -1, ""
}

func main() {
	rf := flag.Uint("rf", 3, "")
	in := flag.String("in", "", "")
	out := flag.String("out", "", "")
	flag.Parse()
	f, err := os.Open(*in)
	if err != nil {
		fmt.Fprintln(os.Stderr, err)
		os.Exit(2)
	}
	sc := bufio.NewScanner(f)
	sc.Buffer(make([]byte, 1<<20), 1<<28)
	res := struct {
		Behaviours int        `json:"behaviours"`
		Steps      int        `json:"steps"`
		Mismatches []mismatch `json:"mismatches"`
		Actions    map[string]int `json:"actions"`
	}{Actions: map[string]int{}}
	idx := -1
	for sc.Scan() {
		if len(sc.Bytes()) == 0 {
			continue
		}
		idx++
		var beh []step
		if err := json.Unmarshal(sc.Bytes(), &beh); err != nil {
			fmt.Fprintln(os.Stderr, "bad behaviour:", err)
			os.Exit(2)
		}
		res.Behaviours++
		res.Steps += len(beh)
		for _, st := range beh {
			res.Actions[st.A]++
		}
		if k, what := replayOne(uint32(*rf), beh); k >= 0 && len(res.Mismatches) < 20 {
			res.Mismatches = append(res.Mismatches, mismatch{idx, k, what + " -- after: " + describe(beh[:k+1]), beh[:k+1]})
		}
	}
	b, _ := json.MarshalIndent(res, "", " ")
	if err := os.WriteFile(*out, b, 0o644); err != nil {
		fmt.Fprintln(os.Stderr, err)
		os.Exit(2)
	}
}
