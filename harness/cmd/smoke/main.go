package main

import (
	"fmt"
	"os"

	"github.com/oxia-db/oxia/proto"
	"github.com/oxia-db/oxia/server/wal"
)

func main() {
	dir, _ := os.MkdirTemp("", "smoke")
	defer os.RemoveAll(dir)
	f := wal.NewWalFactory(&wal.FactoryOptions{BaseWalDir: dir, SegmentSize: 256, SyncData: true})
	w, err := f.NewWal("default", 0, nil)
	if err != nil {
		panic(err)
	}
	for i := int64(0); i < 12; i++ {
		if err := w.Append(&proto.LogEntry{Term: 1, Offset: i, Value: []byte("0123456789012345678901234567890123456789")}); err != nil {
			panic(err)
		}
	}
	r, err := w.TruncateLog(2)
	fmt.Println("truncate ->", r, err, "last", w.LastOffset())
}
