// kvorder binds spec/SlashOrder.tla and spec/OrderedKV.tla to the real code (property C11).
//
//	kvorder table  -in rows.ndjson -out result.json -dump real.ndjson -seed S -rand N
//	    rows.ndjson is the comparison table exported by TLC (SlashOrderMC, one row per pair of keys).
//	    Every row is compared with the real compare.CompareWithSlash / the comparer installed in
//	    kv.OxiaSlashSpanComparer, and (binding of the transcription) with pebble's DefaultComparer.
//	    real.ndjson records what the installed comparer answers on the same pairs and on N random longer
//	    pairs/triples; TLC (SlashOrderTrace) judges it against the laws and the engine contract.
//	kvorder replay -in behaviours.ndjson -obs obs.ndjson -out result.json
//	    behaviours exported by TLC (OrderedKVMC): a path of calls plus the observation the specification
//	    demands in the state reached; executed on a fresh real kv.KV (Pebble on /dev/shm).
//	kvorder drive  -seed S -n N -keys K -adv rows.ndjson -out trace.ndjson
//	    randomized larger data sets on the real kv.KV, one JSON line per call, for OrderedKVTrace.tla.
//	kvorder rerun  -in replay.json -out trace.ndjson
//	    re-executes the calls of a saved replay file and records them as a trace.
package main

import (
	"bufio"
	"encoding/binary"
	"encoding/json"
	"errors"
	"flag"
	"fmt"
	"io"
	"log/slog"
	"math/rand"
	"os"
	"reflect"
	"sort"
	"strings"
	"sync"
	"sync/atomic"
	"time"

	"github.com/cockroachdb/pebble"

	"github.com/oxia-db/oxia/common/compare"
	"github.com/oxia-db/oxia/server/kv"
)

// ---------------------------------------------------------------------------------------------------------
// keys and values

type key []int // byte codes, the representation of the TLA+ modules

func (k key) s() string {
	b := make([]byte, len(k))
	for i, c := range k {
		b[i] = byte(c)
	}
	return string(b)
}

func toKey(s string) key {
	k := make(key, len(s))
	for i := 0; i < len(s); i++ {
		k[i] = int(s[i])
	}
	return k
}

func (k key) MarshalJSON() ([]byte, error) {
	if len(k) == 0 {
		return []byte("[]"), nil
	}
	return json.Marshal([]int(k))
}

const valHeader = 12

// mkValue builds the bytes stored for value id v with total size sz (>= valHeader).
func mkValue(v int, sz int) []byte {
	if sz < valHeader {
		sz = valHeader
	}
	b := make([]byte, sz)
	copy(b, "C11\x00")
	binary.BigEndian.PutUint32(b[4:], uint32(v))
	binary.BigEndian.PutUint32(b[8:], uint32(sz))
	for i := valHeader; i < sz; i++ {
		b[i] = byte(v*131 + i*7 + 13)
	}
	return b
}

// valueId is the projection of stored bytes to the abstract value id; -1 when the bytes are not a value
// the harness wrote (wrong length, damaged padding).
func valueId(b []byte) int {
	if len(b) < valHeader || string(b[:4]) != "C11\x00" {
		return -1
	}
	v := int(binary.BigEndian.Uint32(b[4:]))
	if int(binary.BigEndian.Uint32(b[8:])) != len(b) {
		return -1
	}
	for i := valHeader; i < len(b); i++ {
		if b[i] != byte(v*131+i*7+13) {
			return -1
		}
	}
	return v
}

// size of the value with id v in replayed behaviours.  Pebble closes a data block when it has reached 90% of
// the 64 KB block size (or the next entry would push it over 64 KB): values of 60 KB get a block each (so every
// adjacent pair of keys gets an index separator), 36 KB values share a block in pairs, small values pile up.
var replaySizes = []int{60000, 36000, 64, 61000}

func replaySize(v int) int { return replaySizes[(v+len(replaySizes)-1)%len(replaySizes)] }

// ---------------------------------------------------------------------------------------------------------
// the real engine

var shardCounter atomic.Int64

type engine struct {
	dir       string
	shard     int64
	f         kv.Factory
	kv        kv.KV
	abandoned bool // a goroutine is stuck inside: do not close
}

func newEngine() (*engine, error) {
	base := "/dev/shm"
	if _, err := os.Stat(base); err != nil {
		base = ""
	}
	dir, err := os.MkdirTemp(base, "kvorder")
	if err != nil {
		return nil, err
	}
	e := &engine{dir: dir, shard: shardCounter.Add(1)}
	return e, e.open()
}

func (e *engine) open() error {
	f, err := kv.NewPebbleKVFactory(&kv.FactoryOptions{DataDir: e.dir, CacheSizeMB: 16})
	if err != nil {
		return err
	}
	k, err := f.NewKV("default", e.shard)
	if err != nil {
		_ = f.Close()
		return err
	}
	e.f, e.kv = f, k
	return nil
}

func (e *engine) close() {
	if e.abandoned {
		_ = os.RemoveAll(e.dir)
		return
	}
	if e.kv != nil {
		_ = e.kv.Close()
	}
	if e.f != nil {
		_ = e.f.Close()
	}
	_ = os.RemoveAll(e.dir)
}

func (e *engine) reopen() error {
	if err := e.kv.Close(); err != nil {
		return err
	}
	if err := e.f.Close(); err != nil {
		return err
	}
	e.kv, e.f = nil, nil
	return e.open()
}

type call struct {
	A  string `json:"a"`
	K  key    `json:"k"`
	V  int    `json:"v"`
	Sz int    `json:"sz"`
	Lo key    `json:"lo"`
	Hi key    `json:"hi"`
}

// mutate executes a mutation / layout call; an error here is the engine refusing a well-formed call.
func (e *engine) mutate(c *call) error {
	switch c.A {
	case "Put", "Delete", "DeleteRange":
		wb := e.kv.NewWriteBatch()
		var err error
		switch c.A {
		case "Put":
			sz := c.Sz
			if sz == 0 {
				sz = replaySize(c.V)
				c.Sz = sz
			}
			err = wb.Put(c.K.s(), mkValue(c.V, sz))
		case "Delete":
			err = wb.Delete(c.K.s())
		default:
			err = wb.DeleteRange(c.Lo.s(), c.Hi.s())
		}
		if err == nil {
			err = wb.Commit()
		}
		if cerr := wb.Close(); err == nil {
			err = cerr
		}
		return err
	case "Flush":
		return e.kv.Flush()
	case "Compact":
		return kv.VerifCompact(e.kv)
	case "Reopen":
		return e.reopen()
	}
	return fmt.Errorf("harness: unknown call %q", c.A)
}

type result struct {
	F int `json:"f"`
	K key `json:"k"`
	V int `json:"v"`
}

var notFound = result{F: 0, K: key{}, V: 0}

func (r result) String() string {
	if r.F == 0 {
		return "not found"
	}
	return fmt.Sprintf("%q (value %d)", r.K.s(), r.V)
}

func same(a, b result) bool {
	return a.F == b.F && a.K.s() == b.K.s() && a.V == b.V
}

var modes = map[string]kv.ComparisonType{"EQ": kv.ComparisonEqual, "FLOOR": kv.ComparisonFloor,
	"CEILING": kv.ComparisonCeiling, "LOWER": kv.ComparisonLower, "HIGHER": kv.ComparisonHigher}

// get asks the engine through one of its read paths:
//
//	via "kv"    KV.Get(key, comparison)                          all modes
//	via "batch" WriteBatch.Get (EQ) / WriteBatch.FindLower (LOWER, key only) on an empty batch
//	via "iter"  KV.KeyIterator + SeekGE (CEILING) / SeekLT (LOWER), key only
//
// res is "ok" / "notfound" / "err: ..."; for key-only paths the value id is read back with KV.Get(EQ).
func (e *engine) get(k key, mode string, via string) (res string, r result) {
	r = notFound
	switch via {
	case "kv":
		sk, val, closer, err := e.kv.Get(k.s(), modes[mode])
		if errors.Is(err, kv.ErrKeyNotFound) {
			return "notfound", r
		}
		if err != nil {
			return "err: " + err.Error(), r
		}
		r = result{F: 1, K: toKey(sk), V: valueId(val)}
		if closer != nil {
			_ = closer.Close()
		}
		return "ok", r
	case "batch":
		wb := e.kv.NewWriteBatch()
		defer wb.Close()
		if mode == "EQ" {
			val, closer, err := wb.Get(k.s())
			if errors.Is(err, kv.ErrKeyNotFound) {
				return "notfound", r
			}
			if err != nil {
				return "err: " + err.Error(), r
			}
			r = result{F: 1, K: k, V: valueId(val)}
			if closer != nil {
				_ = closer.Close()
			}
			return "ok", r
		}
		lk, err := wb.FindLower(k.s())
		if errors.Is(err, kv.ErrKeyNotFound) {
			return "notfound", r
		}
		if err != nil {
			return "err: " + err.Error(), r
		}
		return e.keyOnly(lk)
	case "iter":
		it, err := e.kv.KeyIterator()
		if err != nil {
			return "err: " + err.Error(), r
		}
		defer it.Close()
		var ok bool
		if mode == "CEILING" {
			ok = it.SeekGE(k.s())
		} else {
			ok = it.SeekLT(k.s())
		}
		if !ok {
			return "notfound", r
		}
		return e.keyOnly(it.Key())
	}
	return "err: harness: unknown path " + via, r
}

func (e *engine) keyOnly(found string) (string, result) {
	_, val, closer, err := e.kv.Get(found, kv.ComparisonEqual)
	if err != nil {
		// the key came out of an iterator but an exact get does not find it: report it with value -1
		return "ok", result{F: 1, K: toKey(found), V: -1}
	}
	v := valueId(val)
	if closer != nil {
		_ = closer.Close()
	}
	return "ok", result{F: 1, K: toKey(found), V: v}
}

func vias(mode string) []string {
	switch mode {
	case "EQ":
		return []string{"kv", "batch"}
	case "LOWER":
		return []string{"kv", "batch", "iter"}
	case "CEILING":
		return []string{"kv", "iter"}
	}
	return []string{"kv"}
}

// scan returns keys and value ids of [lo, hi) through
//
//	via "scan"  KV.RangeScan            via "list" KV.KeyRangeScan (keys; values read back by exact get)
//	via "rev"   KV.KeyRangeScanReverse (descending; keys)      via "batch" WriteBatch.KeyRangeScan (both bounds set)
func (e *engine) scan(lo, hi key, via string) (res string, ks []key, vs []int) {
	return e.scanLimit(lo, hi, via, 10000)
}

func (e *engine) scanLimit(lo, hi key, via string, limit int) (res string, ks []key, vs []int) {
	ks, vs = []key{}, []int{}
	switch via {
	case "scan":
		it, err := e.kv.RangeScan(lo.s(), hi.s())
		if err != nil {
			return "err: " + err.Error(), ks, vs
		}
		defer it.Close()
		for ; it.Valid() && len(ks) < limit; it.Next() {
			val, err := it.Value()
			if err != nil {
				return "err: " + err.Error(), ks, vs
			}
			ks = append(ks, toKey(it.Key()))
			vs = append(vs, valueId(val))
		}
	case "list", "batch":
		var it kv.KeyIterator
		var err error
		if via == "list" {
			it, err = e.kv.KeyRangeScan(lo.s(), hi.s())
		} else {
			wb := e.kv.NewWriteBatch()
			defer wb.Close()
			it, err = wb.KeyRangeScan(lo.s(), hi.s())
		}
		if err != nil {
			return "err: " + err.Error(), ks, vs
		}
		for ; it.Valid() && len(ks) < limit; it.Next() {
			ks = append(ks, toKey(it.Key()))
		}
		_ = it.Close()
		for _, k := range ks {
			_, r := e.keyOnly(k.s())
			vs = append(vs, r.V)
		}
	case "rev":
		it, err := e.kv.KeyRangeScanReverse(lo.s(), hi.s())
		if err != nil {
			return "err: " + err.Error(), ks, vs
		}
		for ; it.Valid() && len(ks) < limit; it.Prev() {
			ks = append(ks, toKey(it.Key()))
		}
		_ = it.Close()
		for _, k := range ks {
			_, r := e.keyOnly(k.s())
			vs = append(vs, r.V)
		}
	default:
		return "err: harness: unknown path " + via, ks, vs
	}
	return "ok", ks, vs
}

// ---------------------------------------------------------------------------------------------------------
// spec -> code: replay of TLC behaviours

type kvPair struct {
	K key `json:"k"`
	V int `json:"v"`
}
type getObs struct {
	K key    `json:"k"`
	M string `json:"m"`
	R result `json:"r"`
}
type scanObs struct {
	Lo key      `json:"lo"`
	Hi key      `json:"hi"`
	R  []kvPair `json:"r"`
}
type obs struct {
	Gets  []getObs  `json:"gets"`
	Scans []scanObs `json:"scans"`
}
type behaviour struct {
	Path []call   `json:"path"`
	Live []kvPair `json:"live"`
	Obs  *obs     `json:"obs"`
}

func liveKey(l []kvPair) string {
	s := make([]string, len(l))
	for i, p := range l {
		s[i] = fmt.Sprintf("%x=%d", p.K.s(), p.V)
	}
	sort.Strings(s)
	return strings.Join(s, ",")
}

type mismatch struct {
	Path   []call `json:"path"`
	Probes []key  `json:"probes"` // the keys of the failing query (asked again on re-execution)
	Query  string `json:"query"`
	What   string `json:"what"`
	Expect any    `json:"expect"`
	Got    any    `json:"got"`
}

func fmtKeys(ks []key) string {
	s := make([]string, len(ks))
	for i, k := range ks {
		s[i] = fmt.Sprintf("%q", k.s())
	}
	return "[" + strings.Join(s, " ") + "]"
}

// replayOne executes the path on a fresh engine and compares the complete observation.
// A harness problem (cannot create the engine) is returned as err.
func replayOne(b *behaviour, o *obs, queries *int64) (mm *mismatch, err error) {
	e, err := newEngine()
	if err != nil {
		return nil, err
	}
	defer e.close()
	for i := range b.Path {
		c := b.Path[i]
		if err := e.mutate(&c); err != nil {
			if strings.HasPrefix(err.Error(), "harness:") {
				return nil, err
			}
			return &mismatch{Path: b.Path[:i+1], Query: c.A, What: "the engine refused the call: " + err.Error()}, nil
		}
	}
	for _, g := range o.Gets {
		for _, via := range vias(g.M) {
			atomic.AddInt64(queries, 1)
			res, r := e.get(g.K, g.M, via)
			if strings.HasPrefix(res, "err") || !same(r, g.R) {
				return &mismatch{Path: b.Path, Probes: []key{g.K}, Query: fmt.Sprintf("Get(%q, %s) via %s", g.K.s(), g.M, via),
					What:   fmt.Sprintf("spec: %v, code: %v (%s)", g.R, r, res),
					Expect: g.R, Got: r}, nil
			}
		}
	}
	for _, s := range o.Scans {
		wantK := make([]key, len(s.R))
		wantV := make([]int, len(s.R))
		for i, p := range s.R {
			wantK[i], wantV[i] = p.K, p.V
		}
		paths := []string{"scan", "list", "rev"}
		if len(s.Lo) > 0 && len(s.Hi) > 0 {
			paths = append(paths, "batch")
		}
		for _, via := range paths {
			atomic.AddInt64(queries, 1)
			res, ks, vs := e.scan(s.Lo, s.Hi, via)
			wk, wv := wantK, wantV
			if via == "rev" { // RevList(lo, hi) = reverse of List(lo, hi)
				wk, wv = make([]key, len(wantK)), make([]int, len(wantV))
				for i := range wantK {
					wk[len(wk)-1-i], wv[len(wv)-1-i] = wantK[i], wantV[i]
				}
			}
			if res != "ok" || fmtKeys(ks) != fmtKeys(wk) || !reflect.DeepEqual(vs, wv) {
				return &mismatch{Path: b.Path, Probes: []key{s.Lo, s.Hi}, Query: fmt.Sprintf("Scan(%q, %q) via %s", s.Lo.s(), s.Hi.s(), via),
					What:   fmt.Sprintf("spec: %s values %v, code: %s values %v (%s)", fmtKeys(wk), wv, fmtKeys(ks), vs, res),
					Expect: s.R, Got: ks}, nil
			}
		}
	}
	return nil, nil
}

// guarded runs f with a watchdog: a call into the engine that does not return is a finding, not a reason to block.
func guarded(d time.Duration, f func() (*mismatch, error)) (*mismatch, error, bool) {
	type out struct {
		mm  *mismatch
		err error
	}
	ch := make(chan out, 1)
	go func() {
		defer func() {
			if r := recover(); r != nil {
				ch <- out{mm: &mismatch{Query: "panic", What: fmt.Sprintf("panic in the engine: %v", r)}}
			}
		}()
		mm, err := f()
		ch <- out{mm, err}
	}()
	select {
	case o := <-ch:
		return o.mm, o.err, false
	case <-time.After(d):
		return nil, nil, true
	}
}

func readLines(path string, f func(line []byte) error) error {
	fh, err := os.Open(path)
	if err != nil {
		return err
	}
	defer fh.Close()
	rd := bufio.NewReaderSize(fh, 1<<20)
	for {
		line, err := rd.ReadBytes('\n')
		if len(line) > 1 {
			if e := f(line); e != nil {
				return e
			}
		}
		if err == io.EOF {
			return nil
		}
		if err != nil {
			return err
		}
	}
}

type replayResult struct {
	Behaviours int        `json:"behaviours"`
	Steps      int        `json:"steps"`
	Queries    int64      `json:"queries"`
	Mismatches []mismatch `json:"mismatches"`
	Bad        int        `json:"bad"`
	Unreprod   int        `json:"unreproduced"`
	Truncated  bool       `json:"truncated"`
}

func cmdReplay(args []string) int {
	fs := flag.NewFlagSet("replay", flag.ExitOnError)
	in := fs.String("in", "", "ndjson of behaviours")
	obsIn := fs.String("obs", "", "ndjson of observations per live state (for behaviours without obs)")
	out := fs.String("out", "", "result json")
	par := fs.Int("par", 8, "parallel engines")
	progress := fs.String("progress", "", "with -par 1: file that always holds the index of the behaviour being executed")
	_ = fs.Parse(args)

	table := map[string]*obs{}
	if *obsIn != "" {
		if err := readLines(*obsIn, func(line []byte) error {
			var b behaviour
			if err := json.Unmarshal(line, &b); err != nil {
				return err
			}
			if b.Obs == nil {
				return errors.New("observation line without obs")
			}
			table[liveKey(b.Live)] = b.Obs
			return nil
		}); err != nil {
			fmt.Fprintln(os.Stderr, "bad observation file:", err)
			return 2
		}
	}
	var behs []*behaviour
	if err := readLines(*in, func(line []byte) error {
		var b behaviour
		if err := json.Unmarshal(line, &b); err != nil {
			return err
		}
		behs = append(behs, &b)
		return nil
	}); err != nil {
		fmt.Fprintln(os.Stderr, "bad behaviour file:", err)
		return 2
	}
	var res replayResult
	var mu sync.Mutex
	var wg sync.WaitGroup
	var next, bad, harnessErr, unreproduced int64
	var queries int64
	seen := map[string]bool{}
	for w := 0; w < *par; w++ {
		wg.Add(1)
		go func() {
			defer wg.Done()
			for {
				i := int(atomic.AddInt64(&next, 1) - 1)
				if i >= len(behs) || atomic.LoadInt64(&bad) >= 25 || atomic.LoadInt64(&harnessErr) > 0 {
					return
				}
				b := behs[i]
				if *progress != "" {
					_ = os.WriteFile(*progress, []byte(fmt.Sprint(i)), 0o644)
				}
				o := b.Obs
				if o == nil {
					o = table[liveKey(b.Live)]
				}
				if o == nil {
					fmt.Fprintln(os.Stderr, "no observation for live state", liveKey(b.Live))
					atomic.AddInt64(&harnessErr, 1)
					return
				}
				run := func() (*mismatch, error) { return replayOne(b, o, &queries) }
				mm, err, hung := guarded(60*time.Second, run)
				if hung {
					mm = &mismatch{Path: b.Path, Query: "hang", What: "a call into the engine did not return within 60s"}
				}
				if err != nil {
					fmt.Fprintln(os.Stderr, "harness failure:", err)
					atomic.AddInt64(&harnessErr, 1)
					return
				}
				mu.Lock()
				res.Behaviours++
				res.Steps += len(b.Path)
				mu.Unlock()
				if mm == nil {
					continue
				}
				if mm.Path == nil {
					mm.Path = b.Path
				}
				// only a deviation that shows again on re-execution is reported (a broken engine need not fail
				// at the same query twice: background compactions change the layout)
				if !hung {
					var mm2 *mismatch
					for attempt := 0; attempt < 3 && mm2 == nil; attempt++ {
						var err error
						mm2, err, _ = guarded(60*time.Second, run)
						if err != nil {
							fmt.Fprintln(os.Stderr, "harness failure:", err)
							atomic.AddInt64(&harnessErr, 1)
							return
						}
					}
					if mm2 == nil {
						fmt.Fprintln(os.Stderr, "mismatch did not reproduce:", mm.Query, mm.What)
						atomic.AddInt64(&unreproduced, 1)
						continue
					}
				}
				atomic.AddInt64(&bad, 1)
				mu.Lock()
				k := mm.Query + "|" + mm.What
				if !seen[k] && len(res.Mismatches) < 25 {
					seen[k] = true
					res.Mismatches = append(res.Mismatches, *mm)
				}
				mu.Unlock()
			}
		}()
	}
	wg.Wait()
	if harnessErr > 0 {
		return 2
	}
	res.Bad = int(bad)
	res.Unreprod = int(unreproduced)
	res.Queries = queries
	res.Truncated = res.Behaviours < len(behs)
	b, _ := json.Marshal(res)
	if err := os.WriteFile(*out, b, 0o644); err != nil {
		fmt.Fprintln(os.Stderr, err)
		return 2
	}
	return 0
}

// ---------------------------------------------------------------------------------------------------------
// binding 1: the comparison table

type row struct {
	A      key  `json:"a"`
	B      key  `json:"b"`
	Cmp    int  `json:"cmp"`
	Bsep   key  `json:"bsep"`
	Bsucc  key  `json:"bsucc"`
	Babbr  key  `json:"babbr"`
	Sabbr  key  `json:"sabbr"`
	Eff    key  `json:"eff"`
	BsepOK bool `json:"bsepok"`
}

// what the installed comparer answers (one line of real.ndjson)
type realRow struct {
	A    key `json:"a"`
	B    key `json:"b"`
	C    key `json:"c"`
	Cmp  int `json:"cmp"`
	Cba  int `json:"cba"`
	Cbc  int `json:"cbc"`
	Cac  int `json:"cac"`
	Eq   int `json:"eq"`
	Sep  key `json:"sep"`
	Succ key `json:"succ"`
	Imm  key `json:"imm"`
	Xa   key `json:"xa"`
	Xb   key `json:"xb"`
}

func abbr(x uint64) key {
	var b [8]byte
	binary.BigEndian.PutUint64(b[:], x)
	return toKey(string(b[:]))
}

func b2i(b bool) int {
	if b {
		return 1
	}
	return 0
}

func observeComparer(a, b, c key) realRow {
	cm := kv.OxiaSlashSpanComparer
	ab, bb, cb := []byte(a.s()), []byte(b.s()), []byte(c.s())
	return realRow{A: a, B: b, C: c,
		Cmp: cm.Compare(ab, bb), Cba: cm.Compare(bb, ab), Cbc: cm.Compare(bb, cb), Cac: cm.Compare(ab, cb),
		Eq:   b2i(cm.Equal(ab, bb)),
		Sep:  toKey(string(cm.Separator(nil, ab, bb))),
		Succ: toKey(string(cm.Successor(nil, ab))),
		Imm:  toKey(string(cm.ImmediateSuccessor(nil, ab))),
		Xa:   abbr(cm.AbbreviatedKey(ab)), Xb: abbr(cm.AbbreviatedKey(bb)),
	}
}

type tableResult struct {
	Rows          int      `json:"rows"`
	CmpMismatches []string `json:"cmp_mismatches"` // real comparator differs from the specification's table
	CmpBad        int      `json:"cmp_bad"`
	Transcription []string `json:"transcription"` // spec's bytewise functions differ from pebble's DefaultComparer
	Installed     string   `json:"installed"`     // "bytewise" | "identity" | "other": Separator/Successor of the comparer
	AbbrevSame    bool     `json:"abbrev_same"`   // installed AbbreviatedKey equals the transcription
	RealLines     int      `json:"real_lines"`
}

var randAlphabet = []byte{'.', '/', '0', 'a', '-', '1', 'b', '~', '!', 0x00, 0xff, 'Z'}

func randKey(rng *rand.Rand, maxLen int) key {
	n := rng.Intn(maxLen + 1)
	b := make([]byte, n)
	for i := range b {
		switch x := rng.Intn(10); {
		case x < 3:
			b[i] = "./0"[rng.Intn(3)]
		case x < 9:
			b[i] = randAlphabet[rng.Intn(len(randAlphabet))]
		default:
			b[i] = byte(rng.Intn(256))
		}
	}
	return toKey(string(b))
}

// relatedKey mutates k a little (shared prefixes are where separators are computed)
func relatedKey(rng *rand.Rand, k key, maxLen int) key {
	b := []byte(k.s())
	switch rng.Intn(4) {
	case 0:
		if len(b) > 0 {
			b[rng.Intn(len(b))] = randAlphabet[rng.Intn(len(randAlphabet))]
		}
	case 1:
		if len(b) < maxLen {
			b = append(b, randAlphabet[rng.Intn(len(randAlphabet))])
		}
	case 2:
		if len(b) > 0 {
			b = b[:rng.Intn(len(b))]
		}
	default:
		return randKey(rng, maxLen)
	}
	return toKey(string(b))
}

var spanLetters = []byte("aest.0-")

// longSpan: a span (no '/') of n bytes over a few letters, so that different spans share prefixes
func longSpan(rng *rand.Rand, n int) string {
	b := make([]byte, n)
	for i := range b {
		b[i] = spanLetters[rng.Intn(len(spanLetters))]
		if i < 6 && rng.Intn(3) > 0 {
			b[i] = "se"[i%2] // common prefix "sesese": differences fall at varying offsets
		}
	}
	return string(b)
}

// longKey: a flat key or a hierarchical key whose first span is long (5..20 bytes), total length up to ~40
func longKey(rng *rand.Rand) string {
	k := longSpan(rng, 5+rng.Intn(16))
	for n := rng.Intn(4); n > 0 && len(k) < 34; n-- {
		k += "/" + longSpan(rng, rng.Intn(8))
	}
	return k
}

// longRelated: k with one byte of its first 17 changed, a span cut off, a span added, or '/' moved
func longRelated(rng *rand.Rand, k string) string {
	b := []byte(k)
	switch rng.Intn(6) {
	case 0, 1:
		if len(b) > 0 {
			i := rng.Intn(minInt(len(b), 17))
			if b[i] != '/' {
				b[i] = spanLetters[rng.Intn(len(spanLetters))]
			}
		}
	case 2:
		if i := strings.IndexByte(k, '/'); i >= 0 {
			b = b[:i] // the flat key that is the first span
		} else {
			b = append(b, []byte("/"+longSpan(rng, rng.Intn(5)))...)
		}
	case 3:
		b = append(b, []byte("/"+longSpan(rng, 1+rng.Intn(6)))...)
	case 4:
		if i := strings.IndexByte(k, '/'); i > 0 && i+1 < len(b) {
			b[i], b[i+1] = b[i+1], b[i] // first span one byte longer
		}
	default:
		return longKey(rng)
	}
	if len(b) > 44 {
		b = b[:44]
	}
	return string(b)
}

func minInt(a, b int) int {
	if a < b {
		return a
	}
	return b
}

func cmdTable(args []string) int {
	fs := flag.NewFlagSet("table", flag.ExitOnError)
	in := fs.String("in", "", "rows exported by TLC")
	out := fs.String("out", "", "result json")
	dump := fs.String("dump", "", "what the installed comparer answers, for SlashOrderTrace")
	seed := fs.Int64("seed", 1, "")
	nrand := fs.Int("rand", 2000, "random longer pairs/triples in the dump")
	dumpMax := fs.Int("dumpmax", 9000, "table rows copied into the dump (evenly spread when there are more)")
	_ = fs.Parse(args)
	res := tableResult{Installed: "", AbbrevSame: true}
	isBytewise, isIdentity := true, true
	df, err := os.Create(*dump)
	if err != nil {
		fmt.Fprintln(os.Stderr, err)
		return 2
	}
	defer df.Close()
	dw := bufio.NewWriterSize(df, 1<<20)
	defer dw.Flush()
	enc := json.NewEncoder(dw)
	total := 0
	_ = readLines(*in, func([]byte) error { total++; return nil })
	stride := 1
	if total > *dumpMax {
		stride = (total + *dumpMax - 1) / *dumpMax
	}
	cm := kv.OxiaSlashSpanComparer
	dc := pebble.DefaultComparer
	prev := key{} // third key of the recorded triple: the right key of the previous row
	mismatchDumped := 0
	err = readLines(*in, func(line []byte) error {
		var r row
		if err := json.Unmarshal(line, &r); err != nil {
			return err
		}
		a, b := []byte(r.A.s()), []byte(r.B.s())
		res.Rows++
		third := prev
		prev = r.B
		differs := false
		// the comparator: the exported function and the one the engine is given
		c1, c2 := compare.CompareWithSlash(a, b), cm.Compare(a, b)
		if c1 != r.Cmp || c2 != r.Cmp {
			res.CmpBad++
			differs = true
			if len(res.CmpMismatches) < 25 {
				res.CmpMismatches = append(res.CmpMismatches,
					fmt.Sprintf("Cmp(%q, %q): spec %d, compare.CompareWithSlash %d, engine comparer %d", r.A.s(), r.B.s(), r.Cmp, c1, c2))
			}
		}
		// binding of the transcription of pebble's bytewise functions
		if s := string(dc.Separator(nil, a, b)); s != r.Bsep.s() && len(res.Transcription) < 10 {
			res.Transcription = append(res.Transcription, fmt.Sprintf("DefaultComparer.Separator(%q, %q) = %q, spec %q", a, b, s, r.Bsep.s()))
		}
		if s := string(dc.Successor(nil, a)); s != r.Bsucc.s() && len(res.Transcription) < 10 {
			res.Transcription = append(res.Transcription, fmt.Sprintf("DefaultComparer.Successor(%q) = %q, spec %q", a, s, r.Bsucc.s()))
		}
		if x := abbr(dc.AbbreviatedKey(a)); x.s() != r.Babbr.s() && len(res.Transcription) < 10 {
			res.Transcription = append(res.Transcription, fmt.Sprintf("DefaultComparer.AbbreviatedKey(%q) = %v, spec %v", a, x, r.Babbr))
		}
		// which Separator/Successor does the engine comparer install?
		sep, succ := string(cm.Separator(nil, a, b)), string(cm.Successor(nil, a))
		if sep != r.Bsep.s() || succ != r.Bsucc.s() {
			isBytewise = false
		}
		if sep != r.A.s() || succ != r.A.s() {
			isIdentity = false
		}
		if abbr(cm.AbbreviatedKey(a)).s() != r.Sabbr.s() {
			res.AbbrevSame = false
		}
		// recorded for TLC: an even sample of the table, some of the adversarial pairs, and every pair on which the
		// real comparator differs from the table (the first 200)
		if differs {
			mismatchDumped++
		}
		if (res.Rows-1)%stride == 0 || !r.BsepOK && (res.Rows%7 == 0) || differs && mismatchDumped <= 200 {
			res.RealLines++
			return enc.Encode(observeComparer(r.A, r.B, third))
		}
		return nil
	})
	if err != nil {
		fmt.Fprintln(os.Stderr, "bad table:", err)
		return 2
	}
	switch {
	case isIdentity:
		res.Installed = "identity"
	case isBytewise:
		res.Installed = "bytewise"
	default:
		res.Installed = "other"
	}
	// longer random pairs / triples than TLC enumerates
	rng := rand.New(rand.NewSource(*seed))
	for i := 0; i < *nrand; i++ {
		var a, b, c key
		if i%2 == 0 {
			a = randKey(rng, 9)
			b = relatedKey(rng, a, 9)
			c = relatedKey(rng, b, 9)
		} else {
			// long keys: long first spans, flat against hierarchical, up to ~40 bytes
			x := longKey(rng)
			y := longRelated(rng, x)
			z := longRelated(rng, y)
			if rng.Intn(3) == 0 {
				z = "/" + longSpan(rng, 1+rng.Intn(6))
			}
			a, b, c = toKey(x), toKey(y), toKey(z)
		}
		res.RealLines++
		if err := enc.Encode(observeComparer(a, b, c)); err != nil {
			fmt.Fprintln(os.Stderr, err)
			return 2
		}
	}
	bb, _ := json.Marshal(res)
	if err := os.WriteFile(*out, bb, 0o644); err != nil {
		fmt.Fprintln(os.Stderr, err)
		return 2
	}
	return 0
}

// ---------------------------------------------------------------------------------------------------------
// code -> spec: randomized data sets, recorded for OrderedKVTrace

// one line of the trace; every field on every line
type tline struct {
	A    string `json:"a"`
	Via  string `json:"via"`
	K    key    `json:"k"`
	M    string `json:"m"`
	V    int    `json:"v"`
	Sz   int    `json:"sz"`
	Lo   key    `json:"lo"`
	Hi   key    `json:"hi"`
	Res  string `json:"res"`
	Rf   int    `json:"rf"`
	Rk   key    `json:"rk"`
	Rv   int    `json:"rv"`
	Keys []key  `json:"keys"`
	Vals []int  `json:"vals"`
}

func blank(a string) tline {
	return tline{A: a, Via: "", K: key{}, M: "", Lo: key{}, Hi: key{}, Res: "ok", Rk: key{}, Keys: []key{}, Vals: []int{}}
}

type recorder struct {
	e     *engine
	enc   *json.Encoder
	flush func() // after every mutation line: a crash of the process must not lose the calls that led to it
	n     int
	err   error
	hung  bool // a call into the engine did not return: the engine is not touched again
	nputs int
}

var callTimeout = 60 * time.Second

// guard runs one call into the engine under a watchdog (a hang is an observation, not a reason to block);
// a panic inside the engine is an observation too.
func (r *recorder) guard(f func()) (outcome string) {
	if r.hung {
		return "skipped"
	}
	done := make(chan string, 1)
	go func() {
		defer func() {
			if p := recover(); p != nil {
				done <- fmt.Sprintf("panic: %v", p)
			}
		}()
		f()
		done <- ""
	}()
	select {
	case o := <-done:
		return o
	case <-time.After(callTimeout):
		r.hung = true
		return "hang: the call did not return within " + callTimeout.String()
	}
}

func (r *recorder) emit(l *tline) {
	if l.Keys == nil {
		l.Keys = []key{}
	}
	if l.Vals == nil {
		l.Vals = []int{}
	}
	r.n++
	if err := r.enc.Encode(l); err != nil && r.err == nil {
		r.err = err
	}
}

func (r *recorder) mutate(c call) {
	l := blank(c.A)
	l.K, l.V, l.Lo, l.Hi = c.K, c.V, c.Lo, c.Hi
	if l.K == nil {
		l.K = key{}
	}
	if l.Lo == nil {
		l.Lo = key{}
	}
	if l.Hi == nil {
		l.Hi = key{}
	}
	if r.hung {
		return
	}
	var err error
	if o := r.guard(func() { err = r.e.mutate(&c) }); o != "" {
		err = errors.New(o)
	}
	l.Sz = c.Sz
	if c.A == "Put" {
		r.nputs++
	}
	if err != nil {
		l.Res = "err: " + err.Error()
	}
	r.emit(&l)
	if r.flush != nil {
		r.flush()
	}
}

func (r *recorder) get(k key, mode, via string) {
	l := blank("Get")
	l.K, l.M, l.Via = k, mode, via
	if r.hung {
		return
	}
	res, x := "", notFound
	if o := r.guard(func() { res, x = r.e.get(k, mode, via) }); o != "" {
		res, x = "err: "+o, notFound
	}
	l.Res, l.Rf, l.Rk, l.Rv = res, x.F, x.K, x.V
	r.emit(&l)
}

func (r *recorder) scan(lo, hi key, via string) {
	a := "Scan"
	if via == "rev" {
		a = "RevList"
	}
	l := blank(a)
	l.Lo, l.Hi, l.Via = lo, hi, via
	if r.hung {
		return
	}
	var res string
	var ks []key
	var vs []int
	// an iteration can never legitimately return more keys than were ever put
	if o := r.guard(func() { res, ks, vs = r.e.scanLimit(lo, hi, via, r.nputs+4) }); o != "" {
		res, ks, vs = "err: "+o, nil, nil
	}
	l.Res, l.Keys, l.Vals = res, ks, vs
	r.emit(&l)
}

var driveAlphabet = []byte(".-/0!~ab")

func randSeg(rng *rand.Rand) string {
	n := 1 + rng.Intn(3)
	b := make([]byte, n)
	for i := range b {
		if rng.Intn(3) == 0 {
			b[i] = "./0"[rng.Intn(3)]
		} else {
			b[i] = driveAlphabet[rng.Intn(len(driveAlphabet))]
		}
		if b[i] == '/' && rng.Intn(2) == 0 {
			b[i] = '.'
		}
	}
	return string(b)
}

func randDriveKey(rng *rand.Rand) string {
	n := 1 + rng.Intn(3)
	segs := make([]string, n)
	for i := range segs {
		segs[i] = randSeg(rng)
	}
	k := strings.Join(segs, "/")
	if rng.Intn(12) == 0 {
		k += "/"
	}
	if rng.Intn(20) == 0 {
		k = "/" + k
	}
	return k
}

// genKeys builds a key set: generic hierarchical keys plus keys built around the pairs on which TLC refuted
// the engine contract for the bytewise separator (a, b, the separator, and extensions of them under a common prefix).
func genKeys(rng *rand.Rand, n int, adv []row) []string {
	set := map[string]bool{}
	add := func(k string) {
		if k != "" && len(k) < 60 {
			set[k] = true
		}
	}
	for len(set) < n/3 {
		add(randDriveKey(rng))
	}
	// long first spans, flat and hierarchical keys mixed (a flat key >= 8 bytes next to keys under a directory
	// of >= 8 bytes that differs from it within the first bytes)
	var last string
	for len(set) < (2*n)/3 {
		k := longKey(rng)
		if last != "" && rng.Intn(2) == 0 {
			k = longRelated(rng, last)
		}
		last = k
		add(k)
	}
	prefixes := []string{"", "", "a/", "a", "ab/0/", "./", "0/.", "b/a/"}
	for len(set) < n && len(adv) > 0 {
		r := adv[rng.Intn(len(adv))]
		p := prefixes[rng.Intn(len(prefixes))]
		if rng.Intn(3) == 0 {
			p = randSeg(rng) + "/"
		}
		for _, base := range []string{r.A.s(), r.B.s(), r.Eff.s()} {
			add(p + base)
			for j := rng.Intn(3); j > 0; j-- {
				add(p + base + randSeg(rng))
			}
			if rng.Intn(3) == 0 {
				add(p + base + "/" + randSeg(rng))
			}
		}
	}
	for len(set) < n {
		add(randDriveKey(rng))
	}
	ks := make([]string, 0, len(set))
	for k := range set {
		ks = append(ks, k)
	}
	sort.Strings(ks)
	rng.Shuffle(len(ks), func(i, j int) { ks[i], ks[j] = ks[j], ks[i] })
	if len(ks) > n {
		ks = ks[:n]
	}
	return ks
}

func randSize(rng *rand.Rand) int {
	switch x := rng.Intn(10); {
	case x < 5:
		return 59000 + rng.Intn(6000) // one entry per 64 KB block: a separator between every adjacent pair
	case x < 8:
		return 30000 + rng.Intn(15000) // two per block
	default:
		return valHeader + rng.Intn(200)
	}
}

// probes around the stored keys: the keys themselves, neighbours obtained by small edits, random keys
func probeKeys(rng *rand.Rand, ks []string, n int) []string {
	out := make([]string, 0, n)
	for len(out) < n {
		k := ks[rng.Intn(len(ks))]
		switch rng.Intn(5) {
		case 0:
			out = append(out, k)
		case 1:
			out = append(out, k+string(driveAlphabet[rng.Intn(len(driveAlphabet))]))
		case 2:
			if len(k) > 1 {
				out = append(out, k[:len(k)-1])
			}
		case 3:
			b := []byte(k)
			b[rng.Intn(len(b))] = "./0-"[rng.Intn(4)]
			out = append(out, string(b))
		default:
			out = append(out, randDriveKey(rng))
		}
	}
	return out
}

// checkAll records the queries that C11 names: an exact get of every stored key (and of deleted ones), the
// comparison gets on probes, scans and reverse lists over random bounds and over everything.
func (r *recorder) checkAll(rng *rand.Rand, all []string, nprobe, nscan int) {
	for _, k := range all {
		r.get(toKey(k), "EQ", "kv")
	}
	for i, k := range all {
		if i%7 == 0 {
			r.get(toKey(k), "EQ", "batch")
		}
	}
	ms := []string{"FLOOR", "CEILING", "LOWER", "HIGHER"}
	for _, p := range probeKeys(rng, all, nprobe) {
		m := ms[rng.Intn(len(ms))]
		vs := vias(m)
		r.get(toKey(p), m, vs[rng.Intn(len(vs))])
	}
	r.scan(key{}, key{}, "scan")
	r.scan(key{}, key{}, "rev")
	bs := probeKeys(rng, all, 2*nscan)
	for i := 0; i+1 < len(bs); i += 2 {
		lo, hi := bs[i], bs[i+1]
		if compare.CompareWithSlash([]byte(lo), []byte(hi)) > 0 {
			lo, hi = hi, lo
		}
		v := []string{"scan", "list", "rev", "batch"}[rng.Intn(4)]
		switch rng.Intn(8) {
		case 0:
			lo = ""
		case 1:
			hi = ""
		}
		if v == "batch" && (lo == "" || hi == "") {
			v = "scan"
		}
		r.scan(toKey(lo), toKey(hi), v)
	}
}

func loadAdv(path string) ([]row, error) {
	var adv []row
	if path == "" {
		return nil, nil
	}
	err := readLines(path, func(line []byte) error {
		var r row
		if err := json.Unmarshal(line, &r); err != nil {
			return err
		}
		if !r.BsepOK && len(r.A) > 0 {
			adv = append(adv, r)
		}
		return nil
	})
	return adv, err
}

func driveOne(rng *rand.Rand, enc *json.Encoder, flush func(), t int, nkeys int, adv []row) (lines int, err error) {
	e, err := newEngine()
	if err != nil {
		return 0, err
	}
	r := &recorder{e: e, enc: enc, flush: flush}
	defer func() {
		e.abandoned = r.hung
		e.close()
	}()
	l := blank("Reset")
	l.V = t
	r.emit(&l)
	ks := genKeys(rng, nkeys, adv)
	nextV := 0
	put := func(k string) {
		nextV++
		r.mutate(call{A: "Put", K: toKey(k), V: nextV, Sz: randSize(rng)})
	}
	nprobe, nscan := 40+nkeys/4, 8+nkeys/40
	// phase 1: load, one flush -> every adjacent pair of large entries gets an index separator
	for _, k := range ks {
		put(k)
	}
	if rng.Intn(2) == 0 {
		r.checkAll(rng, ks, nprobe/2, nscan/2) // memtable only
	}
	r.mutate(call{A: "Flush"})
	r.checkAll(rng, ks, nprobe, nscan)
	// phase 2: overwrite, delete, delete ranges; data now spread over memtable and table(s)
	for i := 0; i < nkeys/5; i++ {
		k := ks[rng.Intn(len(ks))]
		switch x := rng.Intn(10); {
		case x < 5:
			put(k)
		case x < 9:
			r.mutate(call{A: "Delete", K: toKey(k)})
		default:
			lo, hi := k, ks[rng.Intn(len(ks))]
			if c := compare.CompareWithSlash([]byte(lo), []byte(hi)); c > 0 {
				lo, hi = hi, lo
			} else if c == 0 {
				continue
			}
			// keep ranges short: delete up to a close neighbour
			if rng.Intn(3) > 0 {
				hi = lo + "~"
				if compare.CompareWithSlash([]byte(lo), []byte(hi)) >= 0 {
					continue
				}
			}
			r.mutate(call{A: "DeleteRange", Lo: toKey(lo), Hi: toKey(hi)})
		}
	}
	r.checkAll(rng, ks, nprobe/2, nscan/2)
	r.mutate(call{A: "Flush"})
	r.checkAll(rng, ks, nprobe/2, nscan/2)
	for _, a := range []string{"Compact", "Reopen"} {
		if rng.Intn(4) > 0 {
			r.mutate(call{A: a})
			r.checkAll(rng, ks, nprobe/2, nscan/2)
		}
	}
	return r.n, r.err
}

func cmdDrive(args []string) int {
	fs := flag.NewFlagSet("drive", flag.ExitOnError)
	seed := fs.Int64("seed", 1, "")
	n := fs.Int("n", 3, "data sets")
	keys := fs.String("keys", "60,120,240", "number of keys of the data sets (cycled)")
	advp := fs.String("adv", "", "table rows exported by TLC (adversarial pairs are those with bsepok = false)")
	out := fs.String("out", "trace.ndjson", "")
	_ = fs.Parse(args)
	adv, err := loadAdv(*advp)
	if err != nil {
		fmt.Fprintln(os.Stderr, "bad adversarial table:", err)
		return 2
	}
	var sizes []int
	for _, s := range strings.Split(*keys, ",") {
		var x int
		if _, err := fmt.Sscanf(s, "%d", &x); err != nil || x < 4 {
			fmt.Fprintln(os.Stderr, "bad -keys")
			return 2
		}
		sizes = append(sizes, x)
	}
	f, err := os.Create(*out)
	if err != nil {
		fmt.Fprintln(os.Stderr, err)
		return 2
	}
	defer f.Close()
	w := bufio.NewWriterSize(f, 1<<20)
	defer w.Flush()
	enc := json.NewEncoder(w)
	rng := rand.New(rand.NewSource(*seed))
	total := 0
	for t := 0; t < *n; t++ {
		var lines int
		var derr error
		_, _, hung := guarded(15*time.Minute, func() (*mismatch, error) {
			lines, derr = driveOne(rng, enc, func() { _ = w.Flush() }, t, sizes[t%len(sizes)], adv)
			return nil, nil
		})
		if hung {
			fmt.Fprintln(os.Stderr, "driver did not finish a data set within 15 minutes")
			return 2
		}
		if derr != nil {
			fmt.Fprintln(os.Stderr, "harness failure:", derr)
			return 2
		}
		total += lines
	}
	fmt.Printf("{\"traces\": %d, \"lines\": %d, \"adversarial_pairs\": %d}\n", *n, total, len(adv))
	return 0
}

// ---------------------------------------------------------------------------------------------------------
// rerun: re-execute a saved replay (the calls of a rejected trace, or the path of a replay mismatch followed
// by the complete observation) and record what the engine does now

type replayFile struct {
	Kind   string    `json:"kind"`
	Rows   []realRow `json:"rows"`   // kind "comparer": pairs/triples to put to the installed comparer again
	Calls  []tline   `json:"calls"`  // trace prefix (mutations and queries, arguments are re-used, results re-observed)
	Path   []call    `json:"path"`   // or: a behaviour path, observed afterwards with every query on every key
	Probes []key     `json:"probes"` // ... and on these keys
}

func cmdRerun(args []string) int {
	fs := flag.NewFlagSet("rerun", flag.ExitOnError)
	in := fs.String("in", "", "replay json")
	out := fs.String("out", "trace.ndjson", "")
	_ = fs.Parse(args)
	b, err := os.ReadFile(*in)
	if err != nil {
		fmt.Fprintln(os.Stderr, err)
		return 2
	}
	var rf replayFile
	if err := json.Unmarshal(b, &rf); err != nil {
		fmt.Fprintln(os.Stderr, err)
		return 2
	}
	f, err := os.Create(*out)
	if err != nil {
		fmt.Fprintln(os.Stderr, err)
		return 2
	}
	defer f.Close()
	w := bufio.NewWriter(f)
	defer w.Flush()
	if rf.Kind == "comparer" {
		enc := json.NewEncoder(w)
		for _, x := range rf.Rows {
			if err := enc.Encode(observeComparer(x.A, x.B, x.C)); err != nil {
				fmt.Fprintln(os.Stderr, err)
				return 2
			}
		}
		return 0
	}
	e, err := newEngine()
	if err != nil {
		fmt.Fprintln(os.Stderr, err)
		return 2
	}
	r := &recorder{e: e, enc: json.NewEncoder(w)}
	defer func() {
		e.abandoned = r.hung
		e.close()
	}()
	l := blank("Reset")
	r.emit(&l)
	if len(rf.Calls) > 0 {
		for _, c := range rf.Calls {
			switch c.A {
			case "Reset":
			case "Get":
				r.get(c.K, c.M, c.Via)
			case "Scan", "RevList":
				r.scan(c.Lo, c.Hi, c.Via)
			default:
				r.mutate(call{A: c.A, K: c.K, V: c.V, Sz: c.Sz, Lo: c.Lo, Hi: c.Hi})
			}
		}
		return 0
	}
	seen := map[string]bool{}
	var ks []string
	for _, c := range rf.Path {
		r.mutate(c)
		for _, k := range []key{c.K, c.Lo, c.Hi} {
			if len(k) > 0 && !seen[k.s()] {
				seen[k.s()] = true
				ks = append(ks, k.s())
			}
		}
	}
	for _, k := range rf.Probes {
		if len(k) > 0 && !seen[k.s()] {
			seen[k.s()] = true
			ks = append(ks, k.s())
		}
	}
	sort.Strings(ks)
	for _, k := range ks {
		for _, m := range []string{"EQ", "FLOOR", "CEILING", "LOWER", "HIGHER"} {
			for _, via := range vias(m) {
				r.get(toKey(k), m, via)
			}
		}
	}
	bounds := append([]string{""}, ks...)
	for _, lo := range bounds {
		for _, hi := range bounds {
			for _, via := range []string{"scan", "list", "rev"} {
				r.scan(toKey(lo), toKey(hi), via)
			}
		}
	}
	return 0
}

func main() {
	// the engine logs through slog; warnings and errors (e.g. what Pebble says before it exits the process) go to stderr
	slog.SetDefault(slog.New(slog.NewTextHandler(os.Stderr, &slog.HandlerOptions{Level: slog.LevelWarn})))
	if len(os.Args) < 2 {
		fmt.Fprintln(os.Stderr, "usage: kvorder table|replay|drive|rerun ...")
		os.Exit(2)
	}
	switch os.Args[1] {
	case "table":
		os.Exit(cmdTable(os.Args[2:]))
	case "replay":
		os.Exit(cmdReplay(os.Args[2:]))
	case "drive":
		os.Exit(cmdDrive(os.Args[2:]))
	case "rerun":
		os.Exit(cmdRerun(os.Args[2:]))
	}
	os.Exit(2)
}
